#!/usr/bin/env python3
"""bin/rust2lean.py: a translator for the *control flow* of the reassembly functions of src/packet.rs
(`PacketBuilder::new`, `add_frame`, `frames_left` with the accessors it calls) from Rust source text to Lean definitions
over the model's `Builder` / `Frame` types. Used by bin/extract, which writes the result to
lean/RossModel/Generated/Reassembly.lean on every run; `Lemmas/SourceReassembly.lean` proves C07's acceptance
specification **about the translated functions, for all builders and frames** (not about probes), with proofs that do
not depend on the order of the guards.

The subset of Rust that is understood (anything else makes the function "not translated": the generated definition
then falls back to the hand-written model's and the function is listed in `notTranslated` — never half a translation):

  stmt  ::= if COND { stmts } [else { stmts }]            COND ::= EXPR | let PAT(v) = EXPR
          | let v = if let PAT(w) = EXPR { EXPR } else { stmts };
          | return Err(PacketBuilderError::X);  |  self.frames.push(frame);  |  Ok(..) (tail)  |  EXPR (tail)
  EXPR  ::= !E | E as u16 | E as usize | E (!= | == | >= | <= | > | <) E | E + E | E - E | E && E | E || E
          | path | path() | literal | (E)

Typing: `u16` and `usize` values are Lean `Nat`s; `as u16` is `% 65536`; `+` and `-` on `u16` are the checked operations
of a debug build (overflow / underflow = panic), emitted as an explicit `.panic` branch."""
import re


class Untranslatable(Exception):
    pass


TOK = re.compile(r"\s*(?:(//[^\n]*)|(0x[0-9a-fA-F]+|\d+)|([A-Za-z_][A-Za-z_0-9]*(?:::[A-Za-z_][A-Za-z_0-9]*)*)|(=>|\+=|!=|==|>=|<=|&&|\|\||[-+!<>(){};:,.=\[\]&*?]))")


def tokenize(src):
    out, i = [], 0
    src = src.rstrip()
    while i < len(src):
        m = TOK.match(src, i)
        if not m:
            if src[i:].strip() == "":
                break
            raise Untranslatable("token at %r" % src[i:i + 20])
        i = m.end()
        if m.group(1):
            continue
        out.append(m.group(2) or m.group(3) or m.group(4))
    return out


class Parser:
    def __init__(self, toks):
        self.t, self.i = toks, 0

    def peek(self, k=0):
        return self.t[self.i + k] if self.i + k < len(self.t) else None

    def eat(self, x=None):
        tok = self.peek()
        if tok is None or (x is not None and tok != x):
            raise Untranslatable("expected %r, found %r" % (x, tok))
        self.i += 1
        return tok

    # ---- statements
    def block(self):
        self.eat("{")
        stmts = []
        while self.peek() != "}":
            stmts.append(self.stmt())
        self.eat("}")
        return stmts

    def stmt(self):
        t = self.peek()
        if t == "if":
            self.eat()
            cond = self.cond()
            then = self.block()
            els = None
            if self.peek() == "else":
                self.eat()
                els = self.block()
            return ("if", cond, then, els)
        if t == "let":
            self.eat()
            mut = False
            if self.peek() == "mut":
                self.eat()
                mut = True
            name = self.eat()
            self.eat("=")
            if mut:
                e = self.expr()
                self.eat(";")
                return ("letmut", name, e)
            if self.peek() == "if":
                self.eat()
                cond = self.cond()
                then = self.block()
                self.eat("else")
                els = self.block()
                self.eat(";")
                return ("letif", name, cond, then, els)
            e = self.expr()
            self.eat(";")
            return ("let", name, e)
        if t == "return":
            self.eat()
            e = self.expr()
            self.eat(";")
            return ("return", e)
        if t == "for":
            self.eat()
            v = self.eat()
            self.eat("in")
            it = self.expr(nostruct=True)
            body = self.block()
            return ("for", v, it, body)
        if t == "loop":
            self.eat()
            return ("loop", self.block())
        if t == "break":
            self.eat()
            self.eat(";")
            return ("break",)
        if t == "match":
            m = self.match()
            if self.peek() == ";":
                self.eat()
            return ("tail", m) if self.peek() == "}" else ("do", m)
        e = self.expr()
        if self.peek() == "+=":
            self.eat()
            rhs = self.expr()
            self.eat(";")
            return ("addassign", e, rhs)
        if self.peek() == "=":
            self.eat()
            rhs = self.expr()
            self.eat(";")
            return ("assign", e, rhs)
        if self.peek() == ";":
            self.eat()
            return ("do", e)
        return ("tail", e)

    def match(self):
        self.eat("match")
        scrut = self.expr(nostruct=True)
        self.eat("{")
        arms = []
        while self.peek() != "}":
            pat = self.pattern()
            self.eat("=>")
            if self.peek() == "{":
                body = self.block()
            elif self.peek() == "match":
                body = [("tail", self.match())]
            elif self.peek() == "break":
                self.eat()
                body = [("break",)]
            elif self.peek() == "return":
                self.eat()
                body = [("return", self.expr())]
            else:
                body = [("tail", self.expr())]
            if self.peek() == ",":
                self.eat()
            arms.append((pat, body))
        self.eat("}")
        return ("match", scrut, arms)

    def pattern(self):
        name = self.eat()
        if self.peek() == "(":
            self.eat()
            while self.peek() in ("ref", "mut"):
                self.eat()
            v = self.eat()
            self.eat(")")
            return (name, v)
        return (name, None)

    def cond(self):
        if self.peek() == "let":
            self.eat()
            ctor = self.eat()
            self.eat("(")
            while self.peek() in ("ref", "mut"):
                self.eat()
            v = self.eat()
            self.eat(")")
            self.eat("=")
            return ("iflet", ctor, v, self.expr(nostruct=True))
        return ("cond", self.expr(nostruct=True))

    # ---- expressions (precedence: comparison < additive < cast < unary < postfix)
    def expr(self, nostruct=False):
        a = self.conj(nostruct)
        while self.peek() == "||":
            self.eat()
            a = ("bool", "||", a, self.conj(nostruct))
        return a

    def conj(self, nostruct):
        a = self.comparison(nostruct)
        while self.peek() == "&&":
            self.eat()
            a = ("bool", "&&", a, self.comparison(nostruct))
        return a

    def comparison(self, nostruct=False):
        a = self.additive(nostruct)
        if self.peek() in ("!=", "==", ">=", "<=", ">", "<"):
            op = self.eat()
            b = self.additive(nostruct)
            return ("cmp", op, a, b)
        return a

    def additive(self, nostruct):
        a = self.cast(nostruct)
        while self.peek() in ("+", "-"):
            op = self.eat()
            b = self.cast(nostruct)
            a = ("arith", op, a, b)
        return a

    def cast(self, nostruct):
        a = self.unary(nostruct)
        while self.peek() == "as":
            self.eat()
            a = ("as", self.eat(), a)
        return a

    def unary(self, nostruct):
        if self.peek() == "!":
            self.eat()
            return ("not", self.unary(nostruct))
        if self.peek() in ("&", "*"):       # references and dereferences: values in the model
            self.eat()
            return self.unary(nostruct)
        if self.peek() == "match":
            return self.match()
        return self.postfix(nostruct)

    def postfix(self, nostruct):
        t = self.peek()
        if t == "(":
            self.eat()
            if self.peek() == ")":
                self.eat()
                return ("unit",)
            e = self.expr()
            if self.peek() == ",":
                items = [e]
                while self.peek() == ",":
                    self.eat()
                    if self.peek() == ")":
                        break
                    items.append(self.expr())
                self.eat(")")
                return ("tuple", items)
            self.eat(")")
            return e
        if re.fullmatch(r"\d+|0x[0-9a-fA-F]+", t or ""):
            self.eat()
            return ("num", int(t, 0))
        if t == "vec" and self.peek(1) == "!":
            self.eat(); self.eat(); self.eat("[")
            if self.peek() == "]":
                self.eat()
                return ("vec0",)
            e = self.expr()
            self.eat("]")
            return ("vec1", e)
        name = self.eat()
        if not re.fullmatch(r"[A-Za-z_][\w:]*", name):
            raise Untranslatable("expression at %r" % name)
        e = ("path", [name])
        while True:
            if self.peek() == ".":
                self.eat()
                e = ("path", e[1] + [self.eat()]) if e[0] == "path" else ("field", e, self.eat())
            elif self.peek() == "(":
                self.eat()
                args = []
                while self.peek() != ")":
                    args.append(self.expr())
                    if self.peek() == ",":
                        self.eat()
                self.eat(")")
                e = ("call", e, args)
            elif self.peek() == "?":
                self.eat()
                e = ("try", e)
            elif self.peek() == "[":
                self.eat()
                lo = self.eat()
                if not re.fullmatch(r"\d+", lo or ""):
                    raise Untranslatable("index expression")
                if self.peek() == "]":
                    self.eat()
                    e = ("index", e, ("num", int(lo)))
                else:
                    self.eat("."); self.eat(".")
                    if self.peek() == "=":
                        self.eat()
                        hi = self.eat()
                        if not re.fullmatch(r"\d+", hi or ""):
                            raise Untranslatable("range bound")
                        self.eat("]")
                        e = ("index", e, ("range_incl", int(lo), int(hi)))
                    else:
                        self.eat("]")
                        e = ("index", e, ("range_from", int(lo)))
            elif self.peek() == "{" and not nostruct and e[0] == "path" and len(e[1]) == 1 and e[1][0][0].isupper():
                self.eat()
                fields = []
                while self.peek() != "}":
                    fname = self.eat()
                    if self.peek() == ":":
                        self.eat()
                        fields.append((fname, self.expr()))
                    else:
                        fields.append((fname, ("path", [fname])))
                    if self.peek() == ",":
                        self.eat()
                self.eat("}")
                e = ("struct", e[1][0], fields)
            else:
                return e


BERR = {"OutOfOrder": ".outOfOrder", "SingleFramePacket": ".singleFramePacket", "TooManyFrames": ".tooManyFrames", "WrongFrameType": ".wrongFrameType",
        "DeviceAddressMismatch": ".deviceAddressMismatch", "MissingFrames": ".missingFrames"}
# leaf paths: Lean term, type
FRAME = {"not_error_flag": ("%s.notError", "bool"), "start_frame_flag": ("%s.start", "bool"), "multi_frame_flag": ("%s.multi", "bool"),
         "device_address": ("%s.addr", "addr")}
SELF = {"is_error": ("b.isError", "bool"), "device_address": ("b.addr", "addr"), "expected_frame_count": ("b.expected", "u16")}


class Translator:
    """translates the body of one method of `impl PacketBuilder` with `self` = `b : Builder`, `frame` = `f : Frame`"""

    def __init__(self, methods):
        self.methods = methods       # name -> parsed body (for accessor inlining)

    def expr(self, e, env):
        """returns (lean term, type, [checked-arithmetic side conditions that panic])"""
        k = e[0]
        if k == "num":
            return (str(e[1]), "int", [])
        if k == "not":
            t, ty, pc = self.expr(e[1], env)
            if ty != "bool":
                raise Untranslatable("! on " + ty)
            return ("(!%s)" % t, "bool", pc)
        if k == "as":
            t, ty, pc = self.expr(e[2], env)
            if e[1] == "u16" and ty in ("usize", "u16", "int"):
                return (t if ty == "u16" else "(%s %% 65536)" % t, "u16", pc)
            if e[1] == "usize" and ty in ("usize", "u16", "int"):
                return (t, "usize", pc)
            raise Untranslatable("cast %s as %s" % (ty, e[1]))
        if k == "bool":
            a, ta, pa = self.expr(e[2], env)
            b, tb, pb = self.expr(e[3], env)
            if (ta, tb) != ("bool", "bool") or pb:
                raise Untranslatable("%s on %s, %s (or checked arithmetic on the short-circuited side)" % (e[1], ta, tb))
            return ("(%s %s %s)" % (a, e[1], b), "bool", pa)
        if k == "cmp":
            a, ta, pa = self.expr(e[2], env)
            b, tb, pb = self.expr(e[3], env)
            if "int" in (ta, tb):
                ta = tb = (tb if ta == "int" else ta)
            if ta != tb:
                raise Untranslatable("comparison of %s and %s" % (ta, tb))
            op = e[1]
            if op in ("!=", "=="):
                return ("(%s %s %s)" % (a, op, b), "bool", pa + pb)
            if ta not in ("u16", "usize", "addr"):
                raise Untranslatable("order on " + ta)
            return ("decide (%s %s %s)" % (a, {">=": "≥", "<=": "≤", ">": ">", "<": "<"}[op], b), "bool", pa + pb)
        if k == "arith":
            a, ta, pa = self.expr(e[2], env)
            b, tb, pb = self.expr(e[3], env)
            ty = tb if ta == "int" else ta
            if ty not in ("u16", "usize") or tb not in (ty, "int"):
                raise Untranslatable("arithmetic on %s, %s" % (ta, tb))
            limit = 65536 if ty == "u16" else 2 ** 64
            if e[1] == "+":
                return ("(%s + %s)" % (a, b), ty, pa + pb + ["decide (%d ≤ %s + %s)" % (limit, a, b)])
            return ("(%s - %s)" % (a, b), ty, pa + pb + ["decide (%s < %s)" % (a, b)])
        if k == "path":
            p = e[1]
            if len(p) == 1 and p[0] in env:
                return env[p[0]]
            if p in (["true"], ["false"]):
                return (p[0], "bool", [])
            if len(p) == 2 and p[0] in ("frame",) and p[1] in FRAME:
                t, ty = FRAME[p[1]]
                return (t % "f", ty, [])
            if len(p) == 2 and p[0] == "self" and p[1] in SELF:
                return SELF[p[1]] + ([],)
            raise Untranslatable("path " + ".".join(p))
        if k == "call":
            fn, args = e[1], e[2]
            if fn == ("path", ["self", "frames", "len"]) and not args:
                return ("b.frames.length", "usize", [])
            if fn[0] == "path" and len(fn[1]) == 2 and fn[1][0] == "self" and not args and fn[1][1] in self.methods:
                body = self.methods[fn[1][1]]
                if len(body) == 1 and body[0][0] == "tail":
                    return self.expr(body[0][1], {})
            raise Untranslatable("call")
        raise Untranslatable("expression " + k)

    def guard_panics(self, pcs, inner, ind):
        for pc in pcs:
            inner = "%sif %s then .panic else\n%s" % (ind, pc, inner)
        return inner

    def stmts(self, ss, env, st, ind, result):
        """Lean text for a statement list; `st` = Lean term of the builder as mutated so far; `result` formats the value of
        the function's successful tail expression"""
        if not ss:
            raise Untranslatable("fell off the end of a block")
        s, rest = ss[0], ss[1:]
        k = s[0]
        if k == "if":
            c = s[1]
            if c[0] == "cond":
                t, ty, pcs = self.expr(c[1], env)
                if ty != "bool":
                    raise Untranslatable("condition of type " + ty)
                env2 = env
            else:
                t, env2, pcs = self.iflet(c, env)
            # a `then` block that always returns: the rest of the function is the else branch
            then_returns = self.always_returns(s[2])
            if s[3] is None:
                if not then_returns:
                    raise Untranslatable("if without else that falls through")
                a = self.stmts(s[2], env2, st, ind + "  ", result)
                b = self.stmts(rest, env, st, ind, result)
                return self.guard_panics(pcs, "%sif %s then\n%s\n%selse\n%s" % (ind, t, a, ind, b), ind)
            else_returns = self.always_returns(s[3])
            if then_returns and else_returns and not rest:
                a = self.stmts(s[2], env2, st, ind + "  ", result)
                b = self.stmts(s[3], env, st, ind + "  ", result)
            elif else_returns:
                a = self.stmts(s[2] + rest, env2, st, ind + "  ", result)
                b = self.stmts(s[3], env, st, ind + "  ", result)
            elif then_returns:
                a = self.stmts(s[2], env2, st, ind + "  ", result)
                b = self.stmts(s[3] + rest, env, st, ind + "  ", result)
            else:
                raise Untranslatable("if/else that falls through on both sides")
            return self.guard_panics(pcs, "%sif %s then\n%s\n%selse\n%s" % (ind, t, a, ind, b), ind)
        if k == "letif":
            _, name, c, then, els = s
            if c[0] != "iflet" or len(then) != 1 or then[0][0] != "tail" or not self.always_returns(els):
                raise Untranslatable("let … = if")
            t, env2, pcs = self.iflet(c, env)
            v, vty, vpc = self.expr(then[0][1], env2)
            env3 = dict(env)
            env3[name] = (v, vty, [])
            a = self.guard_panics(vpc, self.stmts(rest, env3, st, ind + "  ", result), ind + "  ")
            b = self.stmts(els, env, st, ind + "  ", result)
            return self.guard_panics(pcs, "%sif %s then\n%s\n%selse\n%s" % (ind, t, a, ind, b), ind)
        if k == "return":
            e = s[1]
            if e[0] == "call" and e[1] == ("path", ["Err"]) and len(e[2]) == 1 and e[2][0][0] == "path":
                name = e[2][0][1][0].split("::")[-1]
                if name in BERR:
                    return "%s.err %s" % (ind, BERR[name])
            raise Untranslatable("return")
        if k == "do":
            e = s[1]
            if e == ("call", ("path", ["self", "frames", "push"]), [("path", ["frame"])]) and st == "b":
                # expressions are translated against the builder as it was on entry: nothing may be evaluated after the push
                if not (len(rest) == 1 and rest[0][0] == "tail" and rest[0][1] == ("call", ("path", ["Ok"]), [("unit",)])):
                    raise Untranslatable("statements after the push")
                return self.stmts(rest, env, "{ b with frames := b.frames ++ [f] }", ind, result)
            raise Untranslatable("statement")
        if k == "tail":
            if rest:
                raise Untranslatable("tail expression in the middle")
            e = s[1]
            if e[0] == "call" and e[1] == ("path", ["Ok"]) and len(e[2]) == 1:
                return result(self, e[2][0], env, st, ind)
            v, ty, pcs = self.expr(e, env)
            return self.guard_panics(pcs, "%s.ok %s" % (ind, v), ind)
        raise Untranslatable("statement " + k)

    def iflet(self, c, env):
        _, ctor, v, e = c
        if e != ("path", ["frame", "frame_id"]):
            raise Untranslatable("if let on something else than frame.frame_id")
        ctor = ctor.split("::")[-1]
        if ctor not in ("LastFrameId", "CurrentFrameId"):
            raise Untranslatable("pattern " + ctor)
        env2 = dict(env)
        env2[v] = ("f.fid", "u16", [])
        return ("f.idLast" if ctor == "LastFrameId" else "(!f.idLast)", env2, [])

    def always_returns(self, ss):
        if not ss:
            return False
        s = ss[-1]
        if s[0] in ("return", "tail"):
            return True
        if s[0] == "if" and s[3] is not None:
            return self.always_returns(s[2]) and self.always_returns(s[3])
        return False


def result_unit(tr, e, env, st, ind):
    if e != ("unit",):
        raise Untranslatable("Ok of something else than ()")
    return "%s.ok %s" % (ind, st)


def result_builder(tr, e, env, st, ind):
    """`Ok(PacketBuilder { is_error: …, expected_frame_count, device_address: …, frames: vec![frame] })`"""
    if e[0] != "struct" or e[1] != "PacketBuilder":
        raise Untranslatable("Ok of something else than a PacketBuilder")
    fields = dict(e[2])
    if sorted(fields) != ["device_address", "expected_frame_count", "frames", "is_error"]:
        raise Untranslatable("PacketBuilder fields")
    ie, t1, p1 = tr.expr(fields["is_error"], env)
    ex, t2, p2 = tr.expr(fields["expected_frame_count"], env)
    ad, t3, p3 = tr.expr(fields["device_address"], env)
    if (t1, t2, t3) != ("bool", "u16", "addr") or fields["frames"] != ("vec1", ("path", ["frame"])):
        raise Untranslatable("PacketBuilder field types")
    return tr.guard_panics(p1 + p2 + p3, "%s.ok { isError := %s, expected := %s, addr := %s, frames := [f] }" % (ind, ie, ex, ad), ind)


def fn_bodies(src):
    """name -> body text (with braces) of every fn in `impl PacketBuilder { … }`"""
    m = re.search(r"impl\s+PacketBuilder\s*\{", src)
    if not m:
        return {}
    i = m.end() - 1
    depth, j = 0, i
    while j < len(src):
        depth += src[j] == "{"
        depth -= src[j] == "}"
        if depth == 0:
            break
        j += 1
    impl = src[i + 1:j]
    out = {}
    for fm in re.finditer(r"pub fn (\w+)\s*\(([^)]*)\)\s*(?:->\s*([^{]+?))?\s*\{", impl):
        k, depth = fm.end() - 1, 0
        for j in range(k, len(impl)):
            depth += impl[j] == "{"
            depth -= impl[j] == "}"
            if depth == 0:
                break
        out[fm.group(1)] = (fm.group(2).strip(), (fm.group(3) or "").strip(), impl[k:j + 1])
    return out


def translate_build(impl_fns, tr, BERR, Untranslatable, Parser, tokenize):
    """`PacketBuilder::build`: the guard is translated by the reassembly translator `tr`; the nested loops
    `for frame in self.frames.iter() { let s = if frame.multi_frame_flag { A } else { B }; for i in s..frame.data_len { data.push(frame.data[i as usize]); } }`
    are the primitives `Prim.forEach` / `Prim.pushRange` (the inner loop panics when an index is not an index of the array)."""
    if "build" not in impl_fns or impl_fns["build"][0].replace(" ", "") != "&self":
        raise Untranslatable("signature")
    body = re.sub(r"//[^\n]*", "", impl_fns["build"][2])
    m = re.fullmatch(r"\{\s*if\s+(.*?)\s*\{\s*return\s+Err\(PacketBuilderError::(\w+)\);\s*\}\s*"
                     r"let\s+mut\s+(\w+)\s*=\s*vec!\[\];\s*"
                     r"for\s+(\w+)\s+in\s+self\.frames\.iter\(\)\s*\{\s*let\s+(\w+)\s*=\s*if\s+\4\.multi_frame_flag\s*\{\s*(\d+)\s*\}\s*else\s*\{\s*(\d+)\s*\};\s*"
                     r"for\s+(\w+)\s+in\s+\5\.\.\4\.data_len\s*\{\s*\3\.push\(\4\.data\[\8\s+as\s+usize\]\);\s*\}\s*\}\s*"
                     r"Ok\(Packet\s*\{\s*is_error:\s*self\.is_error,\s*device_address:\s*self\.device_address,\s*(?:data|data:\s*\3),?\s*\}\)\s*\}", body, re.S)
    if not m or m.group(2) not in BERR:
        raise Untranslatable("shape of build")
    cond, cty, pcs = tr.expr(Parser(tokenize(m.group(1))).expr(nostruct=True), {})
    if cty != "bool" or pcs:
        raise Untranslatable("guard of build")
    return ("  if %s then .err %s else\n"
            "  (Prim.forEach b.frames [] fun data frame =>\n"
            "    let start_index := (if frame.multi then %s else %s)\n"
            "    Prim.pushRange data frame.data start_index frame.dataLen).bind fun data =>\n"
            "  .ok { isError := b.isError, addr := b.addr, data := data }" % (cond, BERR[m.group(2)], m.group(6), m.group(7)))



def translate(src):
    """returns (lean text of Generated/Reassembly.lean, [names not translated])"""
    fns = fn_bodies(src)
    parsed = {}
    for name, (_, _, body) in fns.items():
        try:
            parsed[name] = Parser(tokenize(body)).block()
        except (Untranslatable, IndexError):
            pass
    tr = Translator(parsed)
    out, missing = [], []

    def emit(lean_name, sig, rust_name, params, result, fallback, doc):
        try:
            if rust_name not in parsed or fns[rust_name][0].replace(" ", "") != params:
                raise Untranslatable("signature")
            body = tr.stmts(parsed[rust_name], {}, "b", "  ", result)
            out.append("/-- %s — translated from `PacketBuilder::%s` in src/packet.rs -/\ndef %s %s :=\n%s\n" % (doc, rust_name, lean_name, sig, body))
        except (Untranslatable, KeyError, TypeError) as ex:
            missing.append(rust_name)
            out.append("/-- `PacketBuilder::%s` could not be translated on this run (%s): this is the hand-written model's definition -/\ndef %s %s :=\n  %s\n"
                       % (rust_name, str(ex).replace("-/", ""), lean_name, sig, fallback))

    emit("addFrame", "(b : Builder) (f : Frame) : Res BErr Builder", "add_frame", "&mutself,frame:Frame", result_unit, "b.addFrame f",
         "`self` is `b`, `frame` is `f`; the result carries the builder after the call")
    emit("new", "(f : Frame) : Res BErr Builder", "new", "frame:Frame", result_builder, "Builder.new f", "`frame` is `f`")
    emit("framesLeft", "(b : Builder) : Res BErr Nat", "frames_left", "&self", None, "b.framesLeft", "with the accessors it calls inlined; `u16` subtraction is checked")
    try:
        btext = translate_build(fns, tr, BERR, Untranslatable, Parser, tokenize)
        out.append("/-- translated from `PacketBuilder::build` in src/packet.rs (the nested loops are `Prim.forEach` / `Prim.pushRange`) -/\ndef build (b : Builder) : Res BErr Packet :=\n%s\n" % btext)
    except (Untranslatable, KeyError, TypeError, IndexError) as ex:
        missing.append("build")
        out.append("/-- `PacketBuilder::build` could not be translated on this run (%s): this is the hand-written model's definition -/\ndef build (b : Builder) : Res BErr Packet :=\n  b.build\n" % str(ex).replace("-/", ""))
    text = ("import RossModel.Spec.SrcPrims\n"
            "/-! GENERATED by bin/extract (bin/rust2lean.py) from src/packet.rs of the repository under verification — do not edit.\n"
            "Every run of a check regenerates this file from /repo's working tree before building the theorems. -/\n"
            "namespace Ross.Src\nopen Ross\n\n" + "\n".join(out) +
            "\n/-- functions the translator could not translate on this run (they fall back to the model's definitions) -/\n"
            "def notTranslated : List String := [" + ", ".join('"%s"' % m for m in missing) + "]\n\nend Ross.Src\n")
    return text, missing


# ---------------------------------------------------------------- protocol layer (src/protocol.rs)

def protocol_fns(src):
    """name -> (params text, body text) of the fns in `impl<…> Protocol<…> { … }`"""
    m = re.search(r"impl\s*<[^{]*>\s*Protocol\s*<[^{]*>\s*\{", src)
    if not m:
        return {}
    i = m.end() - 1
    depth, j = 0, i
    while j < len(src):
        depth += src[j] == "{"
        depth -= src[j] == "}"
        if depth == 0:
            break
        j += 1
    impl = src[i + 1:j]
    out = {}
    for fm in re.finditer(r"(?:pub\s+)?fn\s+(\w+)\s*", impl):
        k = fm.end()
        if k < len(impl) and impl[k] == "<":          # generic parameters: skip to the matching `>`
            depth = 0
            for k in range(k, len(impl)):
                depth += impl[k] == "<"
                depth -= impl[k] == ">"
                if depth == 0:
                    break
            k += 1
            while k < len(impl) and impl[k].isspace():
                k += 1
        if k >= len(impl) or impl[k] != "(":
            continue
        depth = 0
        for e in range(k, len(impl)):
            depth += impl[e] == "("
            depth -= impl[e] == ")"
            if depth == 0:
                break
        params = impl[k + 1:e]
        b = impl.find("{", e)
        depth = 0
        for j2 in range(b, len(impl)):
            depth += impl[j2] == "{"
            depth -= impl[j2] == "}"
            if depth == 0:
                break
        out[fm.group(1)] = (re.sub(r"\s+", "", params), impl[b:j2 + 1])
    return out


class ProtoTranslator:
    """translates `tick`, `send_packet`, `remove_packet_handler` with `self` = `s : Proto` (rebound after every effect).
    Effects: `self.handle_packet(x, b)` = `s.dispatch x b`; `self.interface.try_send_packet(x)` = `s.ifaceSend x`;
    `self.interface.try_get_packet()` = `s.ifaceGet`; `self.handlers.remove(&id)` = `s.removeKey id`."""

    def expr(self, e, env):
        k = e[0]
        if k == "path":
            p = e[1]
            if p in (["true"], ["false"]):
                return (p[0], "bool")
            if p == ["BROADCAST_ADDRESS"]:
                return ("BROADCAST", "addr")
            if p == ["self", "device_address"]:
                return ("s.addr", "addr")
            if len(p) == 1 and p[0] in env:
                return env[p[0]]
            if len(p) == 2 and p[0] in env and env[p[0]][1] == "packet" and p[1] == "device_address":
                return ("%s.addr" % env[p[0]][0], "addr")
            if len(p) == 2 and p[0] in env and env[p[0]][1] == "handler" and p[1] == "1":
                return ("%s.2.captureAll" % env[p[0]][0], "bool")
            raise Untranslatable("path " + ".".join(p))
        if k == "bool":
            a, ta = self.expr(e[2], env)
            b, tb = self.expr(e[3], env)
            if (ta, tb) != ("bool", "bool"):
                raise Untranslatable("connective on %s, %s" % (ta, tb))
            return ("(%s %s %s)" % (a, e[1], b), "bool")
        if k == "not":
            a, ta = self.expr(e[1], env)
            if ta != "bool":
                raise Untranslatable("! on " + ta)
            return ("(!%s)" % a, "bool")
        if k == "cmp" and e[1] in ("==", "!="):
            a, ta = self.expr(e[2], env)
            b, tb = self.expr(e[3], env)
            if ta != tb or ta not in ("addr", "bool", "u32"):
                raise Untranslatable("comparison of %s and %s" % (ta, tb))
            return ("(%s %s %s)" % (a, e[1], b), "bool")
        raise Untranslatable("expression " + k)

    def result(self, e, env, ind):
        if e[0] == "match":
            return self.match(e, env, ind, [])
        if e[0] == "call" and e[1] == ("path", ["Ok"]) and e[2] == [("unit",)]:
            return "%s(s, .ok ())" % ind
        if e[0] == "call" and e[1] == ("path", ["Err"]) and len(e[2]) == 1:
            a = e[2][0]
            if a == ("path", ["ProtocolError::NoSuchHandler"]):
                return "%s(s, .error .noSuchHandler)" % ind
            if a[0] == "call" and a[1] == ("path", ["ProtocolError::InterfaceError"]) and len(a[2]) == 1 and a[2][0][0] == "path":
                v = a[2][0][1]
                if len(v) == 1 and v[0] in env and env[v[0]][1] == "perr":
                    return "%s(s, .error %s)" % (ind, env[v[0]][0])
                if len(v) == 1 and v[0] in env and env[v[0]][1] == "iferr_other":
                    return "%s(s, .error (.interface %s))" % (ind, env[v[0]][0])
        raise Untranslatable("result expression")

    def match(self, m, env, ind, rest):
        _, scrut, arms = m
        pats = {a[0][0]: a for a in arms}

        def arm(name, bind_ty=None):
            (pn, v), body = pats[name]
            env2 = dict(env)
            if v and v != "_" and bind_ty:
                env2[v] = (v, bind_ty)
            return v if (v and v != "_") else "_", self.stmts(body + rest, env2, ind + "  ")

        if scrut[0] == "call" and scrut[1] == ("path", ["self", "interface", "try_send_packet"]) and len(scrut[2]) == 1 and sorted(pats) == ["Err", "Ok"]:
            x, tx = self.expr(scrut[2][0], env)
            if tx != "packet":
                raise Untranslatable("try_send_packet of " + tx)
            _, a = arm("Ok")
            ev, b = arm("Err", "perr")
            return "%smatch s.ifaceSend %s with\n%s| (s, .ok _) =>\n%s\n%s| (s, .error %s) =>\n%s" % (ind, x, ind, a, ind, ev, b)
        if scrut == ("call", ("path", ["self", "interface", "try_get_packet"]), []) and sorted(pats) == ["Err", "Ok"]:
            pv, a = arm("Ok", "packet")
            ev, b = arm("Err", "iferr")
            return "%smatch s.ifaceGet with\n%s| (s, .ok %s) =>\n%s\n%s| (s, .error %s) =>\n%s" % (ind, ind, pv, a, ind, ev, b)
        if scrut[0] == "path" and len(scrut[1]) == 1 and env.get(scrut[1][0], (None, None))[1] == "iferr" and sorted(pats) == ["InterfaceError::NoPacketReceived", "_"]:
            v = env[scrut[1][0]][0]
            _, a = arm("InterfaceError::NoPacketReceived")
            env2 = dict(env)
            env2[scrut[1][0]] = ("t", "iferr_other")
            b = self.stmts(pats["_"][1] + rest, env2, ind + "  ")
            return "%smatch %s with\n%s| .noPacket =>\n%s\n%s| .other t =>\n%s" % (ind, v, ind, a, ind, b)
        if scrut[0] == "call" and scrut[1] == ("path", ["self", "handlers", "remove"]) and len(scrut[2]) == 1 and sorted(pats) == ["None", "Some"]:
            x, tx = self.expr(scrut[2][0], env)
            if tx != "u32":
                raise Untranslatable("remove of " + tx)
            _, a = arm("None")
            _, b = arm("Some")
            return "%smatch s.removeKey %s with\n%s| (s, false) =>\n%s\n%s| (s, true) =>\n%s" % (ind, x, ind, a, ind, b)
        raise Untranslatable("match")

    def stmts(self, ss, env, ind):
        if not ss:
            raise Untranslatable("fell off the end")
        st, rest = ss[0], ss[1:]
        k = st[0]
        if k in ("return", "tail"):
            if k == "tail" and rest and st[1][0] == "match":
                return self.match(st[1], env, ind, rest)
            return self.result(st[1], env, ind)
        if k == "do":
            e = st[1]
            if e[0] == "match":
                return self.match(e, env, ind, rest)
            if e[0] == "call" and e[1] == ("path", ["self", "handle_packet"]) and len(e[2]) == 2:
                x, tx = self.expr(e[2][0], env)
                b, tb = self.expr(e[2][1], env)
                if (tx, tb) != ("packet", "bool"):
                    raise Untranslatable("handle_packet arguments")
                return "%slet s := handlePacket s %s %s\n%s" % (ind, x, b, self.stmts(rest, env, ind))
            raise Untranslatable("statement")
        if k == "if" and st[1][0] == "cond":
            c, tc = self.expr(st[1][1], env)
            if tc != "bool":
                raise Untranslatable("condition")
            a = self.stmts(st[2] + rest, env, ind + "  ")
            b = self.stmts((st[3] or []) + rest, env, ind + "  ")
            return "%sif %s then\n%s\n%selse\n%s" % (ind, c, a, ind, b)
        raise Untranslatable("statement " + k)


class XchgTranslator(ProtoTranslator):
    """translates `exchange_packet` / `exchange_packets`: `self.send_packet(&packet)?; wait_closure(); loop { … }` and what
    follows the loop. The loop becomes a function recursive on a fuel argument (`none` = out of fuel); the caller supplies
    `rxQueue.length + 1`, and the theorems show that this is never exhausted. `R::try_from_packet` is `decode k` for the
    kind `k` of the reply type; the vector `events` of `exchange_packets` is threaded through the loop."""

    def __init__(self, many, loop_name):
        self.many, self.loop_name = many, loop_name

    def again(self, ind):
        return "%s%s k capture_all_addresses fuel s%s" % (ind, self.loop_name, " events" if self.many else "")

    def xresult(self, e, env):
        if e[0] == "call" and e[1] == ("path", ["Ok"]) and len(e[2]) == 1 and e[2][0][0] == "path" and len(e[2][0][1]) == 1:
            v = e[2][0][1][0]
            if v in env and env[v][1] == ("events" if self.many else "event"):
                return "(s, .ok %s)" % env[v][0]
        if e[0] == "call" and e[1] == ("path", ["Err"]) and len(e[2]) == 1:
            a = e[2][0]
            if a == ("path", ["ProtocolError::PacketTimeout"]):
                return "(s, .error .packetTimeout)"
            if a[0] == "call" and a[1] == ("path", ["ProtocolError::InterfaceError"]) and len(a[2]) == 1 and a[2][0][0] == "path":
                v = a[2][0][1]
                if len(v) == 1 and v[0] in env and env[v[0]][1] == "iferr_other":
                    return "(s, .error (.interface %s))" % env[v[0]][0]
        raise Untranslatable("result of an exchange")

    def lstmts(self, ss, env, ind):
        """statements inside the loop body; falling off the end is the next iteration"""
        if not ss:
            return self.again(ind)
        st, rest = ss[0], ss[1:]
        k = st[0]
        if k == "break":
            return ind + self.after(env)
        if k == "return":
            return "%ssome %s" % (ind, self.xresult(st[1], env))
        if k in ("do", "tail") and st[1][0] == "match":
            return self.lmatch(st[1], env, ind, rest)
        if k == "if":
            c = st[1]
            if c[0] == "cond":
                t, ty = self.expr(c[1], env)
                if ty != "bool":
                    raise Untranslatable("condition")
                return "%sif %s then\n%s\n%selse\n%s" % (ind, t, self.lstmts(st[2] + rest, env, ind + "  "), ind, self.lstmts((st[3] or []) + rest, env, ind + "  "))
            _, ctor, v, scrut = c
            if ctor == "Ok" and scrut[0] == "call" and scrut[1] == ("path", ["R::try_from_packet"]) and len(scrut[2]) == 1:
                x, tx = self.expr(scrut[2][0], env)
                if tx != "packet":
                    raise Untranslatable("try_from_packet of " + tx)
                env2 = dict(env)
                env2[v] = (v, "event")
                return ("%smatch decode k %s with\n%s| .ok %s =>\n%s\n%s| _ =>\n%s"
                        % (ind, x, ind, v, self.lstmts(st[2] + rest, env2, ind + "  "), ind, self.lstmts((st[3] or []) + rest, env, ind + "  ")))
            raise Untranslatable("if let")
        if k == "do" and self.many and st[1][0] == "call" and st[1][1] == ("path", ["events", "push"]) and len(st[1][2]) == 1 and st[1][2][0][0] == "path":
            v = st[1][2][0][1]
            if len(v) == 1 and v[0] in env and env[v[0]][1] == "event":
                return "%slet events := events ++ [%s]\n%s" % (ind, env[v[0]][0], self.lstmts(rest, env, ind))
        raise Untranslatable("statement in the receive loop: " + k)

    def lmatch(self, m, env, ind, rest):
        _, scrut, arms = m
        pats = {a[0][0]: a for a in arms}
        if scrut == ("call", ("path", ["self", "interface", "try_get_packet"]), []) and sorted(pats) == ["Err", "Ok"]:
            (_, pv), okb = pats["Ok"]
            (_, ev), errb = pats["Err"]
            env_ok, env_err = dict(env), dict(env)
            env_ok[pv] = (pv, "packet")
            env_err[ev] = (ev, "iferr")
            return ("%smatch s.ifaceGet with\n%s| (s, .ok %s) =>\n%s\n%s| (s, .error %s) =>\n%s"
                    % (ind, ind, pv, self.lstmts(okb + rest, env_ok, ind + "  "), ind, ev, self.lstmts(errb + rest, env_err, ind + "  ")))
        if scrut[0] == "path" and len(scrut[1]) == 1 and env.get(scrut[1][0], (None, None))[1] == "iferr" and sorted(pats) == ["InterfaceError::NoPacketReceived", "_"]:
            v = env[scrut[1][0]][0]
            env2 = dict(env)
            env2[scrut[1][0]] = ("t", "iferr_other")
            return ("%smatch %s with\n%s| .noPacket =>\n%s\n%s| .other t =>\n%s"
                    % (ind, v, ind, self.lstmts(pats["InterfaceError::NoPacketReceived"][1] + rest, env, ind + "  "), ind, self.lstmts(pats["_"][1] + rest, env2, ind + "  ")))
        raise Untranslatable("match in the receive loop")

    def function(self, body, lean_name, ety):
        """returns the Lean text of the loop function and of the exchange function"""
        env = {"packet": ("packet", "packet"), "capture_all_addresses": ("capture_all_addresses", "bool")}
        ss = list(body)
        if self.many:
            if not (ss and ss[0] == ("letmut", "events", ("vec0",))):
                raise Untranslatable("exchange_packets does not start with `let mut events = vec![]`")
            ss = ss[1:]
            env["events"] = ("events", "events")
        if not (len(ss) >= 4 and ss[0] == ("do", ("try", ("call", ("path", ["self", "send_packet"]), [("path", ["packet"])])))
                and ss[1] == ("do", ("call", ("path", ["wait_closure"]), [])) and ss[2][0] == "loop" and len(ss) == 4 and ss[3][0] in ("tail", "return")):
            raise Untranslatable("shape of the exchange function")
        tail = ss[3][1]
        self.after = lambda env2: "some " + self.xresult(tail, env2)
        loop_body = self.lstmts(ss[2][1], env, "    ")
        acc_sig = " → List Event" if self.many else ""
        acc_pat = ", _" if self.many else ""
        acc_var = ", events" if self.many else ""
        loop = ("/-- the receive loop of `Protocol::%s`, one iteration per unit of fuel (`none`: out of fuel) -/\n"
                "def %s (k : Kind) (capture_all_addresses : Bool) : Nat → Proto%s → Option (Proto × Except PErr %s)\n"
                "  | 0, _%s => none\n  | fuel + 1, s%s =>\n%s\n" % (lean_name_rust(lean_name), self.loop_name, acc_sig, ety, acc_pat, acc_var, loop_body))
        fn = ("/-- `self` is `s`, the reply type `R` is the event type of kind `k` — translated from `Protocol::%s` in src/protocol.rs -/\n"
              "def %s (s : Proto) (packet : Packet) (k : Kind) (capture_all_addresses : Bool) : Option (Proto × Except PErr %s) :=\n"
              "  match sendPacket s packet with\n  | (s, .error e) => some (s, .error e)\n  | (s, .ok _) =>\n    let s := s.waitMark\n    %s k capture_all_addresses (s.rxQueue.length + 1) s%s\n"
              % (lean_name_rust(lean_name), lean_name, ety, self.loop_name, " []" if self.many else ""))
        return loop + "\n" + fn


def lean_name_rust(n):
    return {"exchange": "exchange_packet", "exchangeAll": "exchange_packets"}[n]


def translate_protocol(src):
    """returns (lean text of Generated/ProtocolFns.lean, [names not translated])"""
    fns = protocol_fns(src)
    out, missing = [], []
    tr = ProtoTranslator()

    def emit(lean_name, sig, rust_name, params, env, fallback, doc):
        try:
            if rust_name not in fns or fns[rust_name][0] != params:
                raise Untranslatable("signature")
            body = tr.stmts(Parser(tokenize(fns[rust_name][1])).block(), env, "  ")
            out.append("/-- %s — translated from `Protocol::%s` in src/protocol.rs -/\ndef %s %s :=\n%s\n" % (doc, rust_name, lean_name, sig, body))
        except (Untranslatable, KeyError, TypeError, IndexError) as ex:
            missing.append(rust_name)
            out.append("/-- `Protocol::%s` could not be translated on this run (%s): this is the hand-written model's definition -/\ndef %s %s :=\n  %s\n"
                       % (rust_name, str(ex).replace("-/", ""), lean_name, sig, fallback))

    # handle_packet: `for h in self.handlers.values_mut() { if COND { h.0(packet, self); } }` is a fold over the table in key order
    try:
        if "handle_packet" not in fns or fns["handle_packet"][0] != "&self,packet:&Packet,owned_address:bool":
            raise Untranslatable("signature")
        hb = re.sub(r"//[^\n]*", "", fns["handle_packet"][1])
        hm = re.fullmatch(r"\{\s*(?:unsafe\s*\{)?\s*for\s+(\w+)\s+in\s+(?:transmute::<&Self,\s*&mut\s+Self>\(self\)|self)\s*\.handlers\s*\.values_mut\(\)\s*\{\s*if\s+(.*?)\s*\{\s*(\w+)\.0\(\s*(\w+),\s*(?:transmute\(self\)|self)\s*\)\s*;\s*\}\s*\}\s*\}?\s*\}", hb, re.S)
        if not hm or hm.group(1) != hm.group(3) or hm.group(4) != "packet":
            raise Untranslatable("shape of handle_packet")
        cond, cty = tr.expr(Parser(tokenize(hm.group(2))).expr(nostruct=True), {"owned_address": ("owned_address", "bool"), hm.group(1): (hm.group(1), "handler")})
        if cty != "bool":
            raise Untranslatable("condition of handle_packet")
        out.append("/-- translated from `Protocol::handle_packet` in src/protocol.rs: the loop over `handlers.values_mut()` is a fold over the table in key order; invoking a closure is `Proto.invoke` -/\n"
                   "def handlePacket (s : Proto) (packet : Packet) (owned_address : Bool) : Proto :=\n  s.handlers.foldl (fun s %s => if %s then s.invoke %s.2 packet else s) s\n" % (hm.group(1), cond, hm.group(1)))
    except (Untranslatable, KeyError, TypeError, IndexError) as ex:
        missing.append("handle_packet")
        out.append("/-- `Protocol::handle_packet` could not be translated on this run (%s): this is the hand-written model's definition -/\n"
                   "def handlePacket (s : Proto) (packet : Packet) (owned_address : Bool) : Proto :=\n  s.dispatch packet owned_address\n" % str(ex).replace("-/", ""))
    emit("tick", "(s : Proto) : Proto × Except PErr Unit", "tick", "&mutself", {}, "s.tick", "`self` is `s` (rebound after every effect)")
    emit("sendPacket", "(s : Proto) (packet : Packet) : Proto × Except PErr Unit", "send_packet", "&mutself,packet:&Packet", {"packet": ("packet", "packet")},
         "s.sendPacket packet", "`self` is `s`")
    emit("removeHandler", "(s : Proto) (id : Nat) : Proto × Except PErr Unit", "remove_packet_handler", "&mutself,id:u32", {"id": ("id", "u32")},
         "s.remove id", "`self` is `s`")
    # get_next_handler_id: `let mut x = 0; for id in self.handlers.keys() { if x == *id { x += 1; } } return x;` is a fold over the keys
    try:
        if "get_next_handler_id" not in fns or fns["get_next_handler_id"][0] != "&self":
            raise Untranslatable("signature")
        b = Parser(tokenize(fns["get_next_handler_id"][1])).block()
        if not (len(b) == 3 and b[0][0] == "letmut" and b[0][2][0] == "num" and b[1][0] == "for" and b[1][2] == ("call", ("path", ["self", "handlers", "keys"]), [])
                and b[2][0] in ("return", "tail") and b[2][1] == ("path", [b[0][1]])):
            raise Untranslatable("shape of get_next_handler_id")
        x, v, body = b[0][1], b[1][1], b[1][3]
        if not (len(body) == 1 and body[0][0] == "if" and body[0][3] is None and body[0][1][0] == "cond" and body[0][1][1][0] == "cmp" and body[0][1][1][1] == "=="
                and sorted([body[0][1][1][2], body[0][1][1][3]]) == sorted([("path", [x]), ("path", [v])])
                and body[0][2] == [("addassign", ("path", [x]), ("num", 1))]):
            raise Untranslatable("loop body of get_next_handler_id")
        out.append("/-- translated from `Protocol::get_next_handler_id` in src/protocol.rs (the loop over the ordered keys is a fold; `u32` ids are `Nat`s) -/\n"
                   "def nextHandlerId (s : Proto) : Nat :=\n  (s.handlers.map Prod.fst).foldl (fun %s %s => if %s = %s then %s + 1 else %s) %d\n" % (x, v, x, v, x, x, b[0][2][1]))
    except (Untranslatable, KeyError, TypeError, IndexError) as ex:
        missing.append("get_next_handler_id")
        out.append("/-- `Protocol::get_next_handler_id` could not be translated on this run (%s): this is the hand-written model's definition -/\n"
                   "def nextHandlerId (s : Proto) : Nat :=\n  nextId (s.handlers.map Prod.fst)\n" % str(ex).replace("-/", ""))
    # add_packet_handler: `let id = self.get_next_handler_id(); self.handlers.insert(id, (handler, capture)); Ok(id)`
    try:
        if "add_packet_handler" not in fns:
            raise Untranslatable("signature")
        prm = re.sub(r"#\[cfg\([^\]]*\)\]", "", fns["add_packet_handler"][0])
        if not re.fullmatch(r"&'smutself,(handler:Box<dynFnMut\(&Packet,&mutSelf\)(\+Send)?\+'a>,)+capture_all_addresses:bool,?", prm):
            raise Untranslatable("parameters " + prm)
        b = Parser(tokenize(fns["add_packet_handler"][1])).block()
        if not (len(b) == 3 and b[0] == ("let", "id", ("call", ("path", ["self", "get_next_handler_id"]), []))
                and b[1] == ("do", ("call", ("path", ["self", "handlers", "insert"]), [("path", ["id"]), ("tuple", [("path", ["handler"]), ("path", ["capture_all_addresses"])])]))
                and b[2] == ("tail", ("call", ("path", ["Ok"]), [("path", ["id"])]))):
            raise Untranslatable("shape of add_packet_handler")
        out.append("/-- `self` is `s`; the closure and its flag are `h` — translated from `Protocol::add_packet_handler` in src/protocol.rs -/\n"
                   "def addHandler (s : Proto) (h : Handler) : Proto × Nat :=\n  let id := nextHandlerId s\n  let s := s.insertKey id h\n  (s, id)\n")
    except (Untranslatable, KeyError, TypeError, IndexError) as ex:
        missing.append("add_packet_handler")
        out.append("/-- `Protocol::add_packet_handler` could not be translated on this run (%s): this is the hand-written model's definition -/\n"
                   "def addHandler (s : Proto) (h : Handler) : Proto × Nat :=\n  s.add h\n" % str(ex).replace("-/", ""))
    # the two exchange functions
    for lean_name, rust_name, many, loop_name, ety, fb in (("exchange", "exchange_packet", False, "exchangeLoop", "Event", "some (s.exchange packet k capture_all_addresses)"),
                                                         ("exchangeAll", "exchange_packets", True, "exchangeAllLoop", "(List Event)", "some (s.exchangeAll packet k capture_all_addresses)")):
        try:
            if rust_name not in fns or fns[rust_name][0] != "&mutself,packet:Packet,capture_all_addresses:bool,wait_closure:F,":
                raise Untranslatable("signature " + fns.get(rust_name, ("?",))[0])
            body = Parser(tokenize(fns[rust_name][1])).block()
            out.append(XchgTranslator(many, loop_name).function(body, lean_name, ety))
        except (Untranslatable, KeyError, TypeError, IndexError) as ex:
            missing.append(rust_name)
            acc_sig, acc_pat, acc_var, acc_arg = ((" → List Event", ", _", ", events", " events") if many else ("", "", "", ""))
            out.append("/-- `Protocol::%s` could not be translated on this run (%s): these are the hand-written model's definitions -/\n"
                       "def %s (k : Kind) (capture_all_addresses : Bool) : Nat → Proto%s → Option (Proto × Except PErr %s)\n  | 0, _%s => none\n  | _ + 1, s%s => some (s.%s k capture_all_addresses%s s.rxQueue)\n\n"
                       "def %s (s : Proto) (packet : Packet) (k : Kind) (capture_all_addresses : Bool) : Option (Proto × Except PErr %s) :=\n  %s\n"
                       % (rust_name, str(ex).replace("-/", ""), loop_name, acc_sig, ety, acc_pat, acc_var, loop_name, acc_arg, lean_name, ety, fb))
    text = ("import RossModel.Protocol\n"
            "/-! GENERATED by bin/extract (bin/rust2lean.py) from src/protocol.rs of the repository under verification — do not edit.\n"
            "Every run of a check regenerates this file from /repo's working tree before building the theorems. -/\n"
            "namespace Ross.Src\nopen Ross\n\n" + "\n".join(out) +
            "\n/-- functions the translator could not translate on this run (they fall back to the model's definitions) -/\n"
            "def protocolNotTranslated : List String := [" + ", ".join('"%s"' % m for m in missing) + "]\n\nend Ross.Src\n")
    return text, missing


# ---------------------------------------------------------------- link receivers (src/interface/{can,usart,serial}.rs)

RX_ERR = {"InterfaceError::BuilderError": ("berr", ".builderErr"), "InterfaceError::FrameError": ("ferr", ".frameErr")}
CMP_LEAN = {"==": "%s == %s", "!=": "%s != %s", ">": "decide (%s > %s)", "<": "decide (%s < %s)", ">=": "decide (%s ≥ %s)", "<=": "decide (%s ≤ %s)"}
CMP_FLIP = {"==": "==", "!=": "!=", ">": "<", "<": ">", ">=": "<=", "<=": ">="}


class RxTranslator:
    """translates the frame-level tail of one `try_get_packet` — from `let x = match Frame::from_…_frame(raw) { … };` to the
    end of the enclosing block, after which the receive loop goes round again — into a function
    `(st : RxSt) (r : Res FErr Frame) : RxSt × Option Emit`: `st` is `self.packet_builder` (rebound by `let st : RxSt := …`
    at every assignment and after every successful `add_frame` through a `ref mut` binding), `r` is what the frame decoder
    answered, the result is the state after the tail and what the call returns (`none` = the loop continues).
    Calls into src/packet.rs are the model's `Builder.new / addFrame / framesLeft / build` (tied by Reassembly.lean and the
    correspondence check); a panic inside one of them ends the call with `.panic` and the state as it was."""

    def __init__(self, decoder):
        self.decoder, self.decoded, self.n = decoder, False, 0

    def value(self, e, env):
        if e[0] == "path":
            p = e[1]
            if p == ["None"]:
                return ("none", "optbuilder")
            if len(p) == 1 and p[0] in env:
                return env[p[0]]
        if e[0] == "call" and e[1] == ("path", ["Some"]) and len(e[2]) == 1:
            v, ty = self.value(e[2][0], env)
            if ty == "builder":
                return ("(some %s)" % v, "optbuilder")
        raise Untranslatable("value expression")

    def call(self, e, env):
        """a call whose outcome is matched on: (lean term, type of Ok, type of Err or None, name rebound on Ok or None)"""
        if e[0] != "call" or e[1][0] != "path":
            raise Untranslatable("not a call")
        p, args = e[1][1], e[2]
        if p == ["Frame::" + self.decoder] and len(args) == 1 and args[0][0] == "path" and len(args[0][1]) == 1 and not self.decoded:
            self.decoded = True
            return ("r", "frame", "ferr", None)
        if p == ["PacketBuilder::new"] and len(args) == 1:
            v, ty = self.value(args[0], env)
            if ty == "frame":
                return ("Builder.new %s" % v, "builder", "berr", None)
        if len(p) == 2 and p[0] in env and env[p[0]][1] in ("builderref", "builder"):
            b, bty = env[p[0]]
            if p[1] == "add_frame" and len(args) == 1 and bty == "builderref":
                v, ty = self.value(args[0], env)
                if ty == "frame":
                    return ("%s.addFrame %s" % (b, v), "builderref", "berr", p[0])
            if p[1] == "build" and not args:
                return ("%s.build" % b, "packet", "berr", None)
            if p[1] == "frames_left" and not args:
                return ("%s.framesLeft" % b, "u16", None, None)
        raise Untranslatable("call " + ".".join(p))

    def ret(self, e, env, ind):
        if e[0] == "call" and e[1] == ("path", ["Ok"]) and len(e[2]) == 1:
            v, ty = self.value(e[2][0], env)
            if ty == "packet":
                return "%s(st, some (.packet %s))" % (ind, v)
        if e[0] == "call" and e[1] == ("path", ["Err"]) and len(e[2]) == 1:
            a = e[2][0]
            if a[0] == "call" and a[1][0] == "path" and a[1][1][0] in RX_ERR and len(a[1][1]) == 1 and len(a[2]) == 1:
                want, ctor = RX_ERR[a[1][1][0]]
                v, ty = self.value(a[2][0], env)
                if ty == want:
                    return "%s(st, some (%s %s))" % (ind, ctor, v)
        raise Untranslatable("return value")

    def match_res(self, c, okvar, errvar, env, ind, ok_body, err_body):
        t, okty, errty, rebind = c
        env_ok, env_err = dict(env), dict(env)
        if rebind:
            okname, upd = env[rebind][0], "%s  let st : RxSt := some %s\n" % (ind, env[rebind][0])
        else:
            okname, upd = (okvar if okvar and okvar != "_" else "_"), ""
            if okname != "_":
                env_ok[okvar] = (okvar, okty)
        ename = errvar if errvar and errvar != "_" else "_"
        if errty is None:
            self.n += 1
            ename = "e%d" % self.n
            eb = "%s  (st, some (.builderErr %s))" % (ind, ename)       # `frames_left` has no error answer; the model's type has
        else:
            if ename != "_":
                env_err[errvar] = (errvar, errty)
            eb = err_body(env_err, ind + "  ")
        return ("%smatch %s with\n%s| .panic => (st, some .panic)\n%s| .err %s =>\n%s\n%s| .ok %s =>\n%s%s"
                % (ind, t, ind, ind, ename, eb, ind, okname, upd, ok_body(env_ok, ind + "  ")))

    def never(self, env, ind):
        raise Untranslatable("an arm that must return falls through")

    def arms(self, m):
        pats = {a[0][0]: a for a in m[2]}
        if sorted(pats) != ["Err", "Ok"]:
            raise Untranslatable("match arms")
        return pats["Ok"], pats["Err"]

    def bind_match(self, m, env, ind, use):
        """`match CALL { Ok(x) => VALUE, Err(e) => return … }` used as a value: `use(lean value, type, env, ind)` continues"""
        c = self.call(m[1], env)
        if c[3]:
            raise Untranslatable("value of add_frame")
        ((_, okv), okb), ((_, errv), errb) = self.arms(m)
        if not (len(okb) == 1 and okb[0][0] == "tail"):
            raise Untranslatable("Ok arm of a value match")

        def ok_body(env2, ind2):
            v, ty = self.value(okb[0][1], env2)
            return use(v, ty, env2, ind2)
        return self.match_res(c, okv, errv, env, ind, ok_body, lambda env2, ind2: self.stmts(errb, env2, ind2, self.never))

    def drop_refs(self, env):
        return {k: v for k, v in env.items() if v[1] != "builderref"}

    def stmts(self, ss, env, ind, k):
        if not ss:
            return k(env, ind)
        s, rest = ss[0], ss[1:]
        kind = s[0]
        after = lambda _env, ind2: self.stmts(rest, env, ind2, k)       # bindings made inside a block end with it
        if kind == "return":
            return self.ret(s[1], env, ind)
        if kind == "assign":
            if s[1] != ("path", ["self", "packet_builder"]):
                raise Untranslatable("assignment to something else than self.packet_builder")
            env0 = self.drop_refs(env)

            def use(v, ty, _env2, ind2):
                if ty != "optbuilder":
                    raise Untranslatable("self.packet_builder = " + ty)
                return "%slet st : RxSt := %s\n%s" % (ind2, v, self.stmts(rest, env0, ind2, k))
            if s[2][0] == "match":
                return self.bind_match(s[2], env, ind, use)
            v, ty = self.value(s[2], env)
            return use(v, ty, env, ind)
        if kind == "let":
            name = s[1]
            if s[2][0] == "match":
                def use(v, ty, env2, ind2):
                    env3 = dict(env)
                    env3[name] = (v, ty)
                    return self.stmts(rest, env3, ind2, k)
                return self.bind_match(s[2], env, ind, use)
            v, ty = self.value(s[2], env)
            env3 = dict(env)
            env3[name] = (v, ty)
            return self.stmts(rest, env3, ind, k)
        if kind in ("do", "tail") and s[1][0] == "match":
            c = self.call(s[1][1], env)
            ((_, okv), okb), ((_, errv), errb) = self.arms(s[1])
            return self.match_res(c, okv, errv, env, ind, lambda env2, ind2: self.stmts(okb, env2, ind2, after), lambda env2, ind2: self.stmts(errb, env2, ind2, after))
        if kind == "if":
            c, then, els = s[1], s[2], s[3] or []
            if c[0] == "iflet":
                _, ctor, v, scrut = c
                if ctor == "Some" and scrut in (("path", ["self", "packet_builder"]), ("call", ("path", ["self", "packet_builder", "as_mut"]), [])):
                    env2 = dict(env)
                    env2[v] = (v, "builderref")
                    return ("%smatch st with\n%s| some %s =>\n%s\n%s| none =>\n%s"
                            % (ind, ind, v, self.stmts(then, env2, ind + "  ", after), ind, self.stmts(els, env, ind + "  ", after)))
                if ctor in ("Err", "Ok"):
                    cl = self.call(scrut, env)
                    if ctor == "Err":
                        return self.match_res(cl, None, v, env, ind, lambda env2, ind2: self.stmts(els, env2, ind2, after), lambda env2, ind2: self.stmts(then, env2, ind2, after))
                    return self.match_res(cl, v, None, env, ind, lambda env2, ind2: self.stmts(then, env2, ind2, after), lambda env2, ind2: self.stmts(els, env2, ind2, after))
                raise Untranslatable("if let " + ctor)
            e = c[1]
            if e[0] == "cmp":
                op, a, b = e[1], e[2], e[3]
                if a[0] == "num" and b[0] == "call":
                    op, a, b = CMP_FLIP[op], b, a
                if a[0] == "call" and b[0] == "num":
                    cl = self.call(a, env)
                    if cl[1] != "u16":
                        raise Untranslatable("comparison of a non-number")
                    self.n += 1
                    nv = "n%d" % self.n

                    def ok_body(env2, ind2):
                        return ("%sif %s then\n%s\n%selse\n%s" % (ind2, CMP_LEAN[op] % (nv, b[1]), self.stmts(then, env, ind2 + "  ", after), ind2, self.stmts(els, env, ind2 + "  ", after)))
                    return self.match_res(cl, nv, None, env, ind, ok_body, None)
            raise Untranslatable("condition")
        raise Untranslatable("statement " + kind)


def rx_segment(src, decoder):
    m = re.search(r"fn\s+try_get_packet\s*\([^)]*\)[^{]*\{", src)
    if not m:
        raise Untranslatable("no try_get_packet")
    i, depth = m.end() - 1, 0
    for j in range(i, len(src)):
        depth += src[j] == "{"
        depth -= src[j] == "}"
        if depth == 0:
            break
    body = re.sub(r"//[^\n]*", "", src[i + 1:j])
    m2 = re.search(r"let\s+\w+\s*=\s*match\s+Frame::%s\s*\(" % decoder, body)
    if not m2:
        raise Untranslatable("no `let x = match Frame::%s(..)`" % decoder)
    depth, end = 0, None
    for j in range(m2.start(), len(body)):
        depth += body[j] == "{"
        depth -= body[j] == "}"
        if depth < 0:
            end = j
            break
    if end is None:
        raise Untranslatable("enclosing block")
    pre, post = body[:m2.start()], body[end:]
    if "packet_builder" in pre or "packet_builder" in post or "return Ok" in post:
        raise Untranslatable("the receiver state is used outside the frame-level tail")
    if "loop" not in pre:
        raise Untranslatable("the tail is not inside a loop")
    return body[m2.start():end]


RECEIVERS = [("canAccept", "src/interface/can.rs", "Can", "from_bxcan_frame"), ("usartAccept", "src/interface/usart.rs", "Usart", "from_usart_frame"),
             ("serialAccept", "src/interface/serial.rs", "Serial", "from_usart_frame")]


def translate_receivers(read):
    """`read(rel)` returns the source text of a file; returns (lean text of Generated/Receivers.lean, [names not translated])"""
    out, missing = [], []
    for lean_name, rel, ty, decoder in RECEIVERS:
        sig = "(st : RxSt) (r : Res FErr Frame) : RxSt × Option Emit"
        try:
            seg = rx_segment(read(rel), decoder)
            tr = RxTranslator(decoder)
            body = tr.stmts(Parser(tokenize("{" + seg + "}")).block(), {}, "  ", lambda env, ind: "%s(st, none)" % ind)
            if not tr.decoded:
                raise Untranslatable("decoder call")
            out.append("/-- the frame-level tail of `%s::try_get_packet` in %s: `st` is `self.packet_builder`, `r` what `Frame::%s` answered; the result is the\nstate afterwards and what the call returns (`none`: the receive loop goes round again) -/\ndef %s %s :=\n%s\n"
                       % (ty, rel, decoder, lean_name, sig, body))
        except (Untranslatable, KeyError, TypeError, IndexError) as ex:
            missing.append(ty + "::try_get_packet")
            out.append("/-- the tail of `%s::try_get_packet` could not be translated on this run (%s): this is the hand-written model's definition -/\ndef %s %s :=\n  rxFrame st r\n"
                       % (ty, str(ex).replace("-/", ""), lean_name, sig))
    text = ("import RossModel.Link\n"
            "/-! GENERATED by bin/extract (bin/rust2lean.py) from src/interface/{can,usart,serial}.rs of the repository under verification — do not edit.\n"
            "Every run of a check regenerates this file from /repo's working tree before building the theorems. -/\n"
            "namespace Ross.Src\nopen Ross\n\n" + "\n".join(out) +
            "\n/-- receivers whose tail the translator could not translate on this run (they fall back to the model's `rxFrame`) -/\n"
            "def receiversNotTranslated : List String := [" + ", ".join('"%s"' % m for m in missing) + "]\n\nend Ross.Src\n")
    return text, missing


# ---------------------------------------------------------------- event decoders (src/event/*.rs)

DEC_FIELDS = {
    "bootloaderHello": ("BootloaderHelloEvent", ["programmer_address", "bootloader_address"]), "programmerHello": ("ProgrammerHelloEvent", ["programmer_address"]),
    "startFirmwareUpgrade": ("ProgrammerStartFirmwareUpgradeEvent", ["receiver_address", "programmer_address", "firmware_size"]),
    "ack": ("AckEvent", ["receiver_address", "transmitter_address"]), "data": ("DataEvent", ["receiver_address", "transmitter_address", "data_len", "data"]),
    "configuratorHello": ("ConfiguratorHelloEvent", []),
    "bcmChange": ("BcmChangeBrightnessEvent", ["bcm_address", "transmitter_address", "index", "value"]),
    "buttonPressed": ("ButtonPressedEvent", ["receiver_address", "button_address", "index"]), "buttonReleased": ("ButtonReleasedEvent", ["receiver_address", "button_address", "index"]),
    "systemTick": ("SystemTickEvent", ["receiver_address"]), "startConfigUpgrade": ("ProgrammerStartConfigUpgradeEvent", ["receiver_address", "programmer_address", "config_size"]),
    "setDeviceAddress": ("ProgrammerSetDeviceAddressEvent", ["receiver_address", "programmer_address", "new_address"]),
    "bcmAnimate": ("BcmAnimateBrightnessEvent", ["bcm_address", "transmitter_address", "index", "duration", "target_value"]),
    "relaySet": ("RelaySetValueEvent", ["relay_address", "transmitter_address", "index", "value"]), "gatewayDiscover": ("GatewayDiscoverEvent", ["device_address", "gateway_address"]),
}
DEC_TYPES = {"bootloaderHello": ["u16", "u16"], "programmerHello": ["u16"], "startFirmwareUpgrade": ["u16", "u16", "u32"], "ack": ["u16", "u16"], "data": ["u16", "u16", "u16", "bytes"], "configuratorHello": [],
             "bcmChange": ["u16", "u16", "u8", "bcm"], "buttonPressed": ["u16", "u16", "u8"], "buttonReleased": ["u16", "u16", "u8"], "systemTick": ["u16"],
             "startConfigUpgrade": ["u16", "u16", "u32"], "setDeviceAddress": ["u16", "u16", "u16"], "bcmAnimate": ["u16", "u16", "u8", "u32", "bcm"],
             "relaySet": ["u16", "u16", "u8", "relay"], "gatewayDiscover": ["u16", "u16"]}
DEC_ERR = {"ConvertPacketError::WrongSize": ".wrongSize", "ConvertPacketError::WrongType": ".wrongType", "ConvertPacketError::UnknownEnumVariant": ".unknownEnumVariant"}


class DecTranslator:
    """translates one `try_from_packet` of the fourteen decoders without loops and transmutes: a chain of
    `if COND { return Err(..); }`, `let x = READ;`, `Ok(Struct { .. })`. Every read that can panic (slice, index, `unwrap`)
    is one of the primitives of `Spec/SrcPrims.lean`, sequenced with `Res.bind` in source order — also inside conditions."""

    def __init__(self, kind, codes):
        self.kind, self.codes, self.n = kind, codes, 0

    def read(self, e, env):
        """an expression that may panic: (lean Res term, type), or None when `e` is pure"""
        # u16::from_be_bytes(packet.data[a..=b].try_into().unwrap())
        if e[0] == "call" and e[1][0] == "path" and e[1][1] in (["u16::from_be_bytes"], ["u32::from_be_bytes"]) and len(e[2]) == 1:
            a = e[2][0]
            if (a[0] == "call" and a[1][0] == "field" and a[1][2] == "unwrap" and not a[2] and a[1][1][0] == "call" and a[1][1][1][0] == "field"
                    and a[1][1][1][2] == "try_into" and not a[1][1][2] and a[1][1][1][1][0] == "index"):
                ix = a[1][1][1][1]
                if ix[1] == ("path", ["packet", "data"]) and ix[2][0] == "range_incl":
                    w = e[1][1][0][:3]
                    return ("Prim.be%sAt p.data %d %d" % (w[1:], ix[2][1], ix[2][2]), w)
            raise Untranslatable("from_be_bytes of something else")
        if e[0] == "index" and e[1] == ("path", ["packet", "data"]) and e[2][0] == "num":
            return ("Prim.idx p.data %d" % e[2][1], "u8")
        # `let mut v = vec![0; n as usize]; for i in 0..n as usize { v[i] = packet.data[i + K]; }` (rewritten to `__copy_from(n, K)` before parsing)
        if e[0] == "call" and e[1] == ("path", ["__copy_from"]) and len(e[2]) == 2 and e[2][0][0] == "path" and e[2][1][0] == "num":
            n, ty = self.pure(e[2][0], env)
            if ty != "u16":
                raise Untranslatable("copy loop over a length of type " + ty)
            return ("Prim.copyFrom p.data %d %s.toNat" % (e[2][1][1], n), "bytes")
        if e[0] == "try" and e[1][0] == "call" and e[1][1][0] == "path" and e[1][1][1] in (["BcmValue::deserialize"], ["RelayValue::deserialize"]) and len(e[1][2]) == 1:
            a = e[1][2][0]
            if a[0] == "index" and a[1] == ("path", ["packet", "data"]) and a[2][0] == "range_from":
                de, ty = ("BcmValue.de", "bcm") if e[1][1][1][0].startswith("Bcm") else ("RelayValue.de", "relay")
                return ("(Prim.tailFrom p.data %d).bind %s" % (a[2][1], de), ty)
            raise Untranslatable("deserialize of something else")
        return None

    def pure(self, e, env):
        if e[0] == "num":
            return (str(e[1]), "int")
        if e[0] == "path":
            p = e[1]
            if p == ["packet", "device_address"]:
                return ("p.addr", "u16")
            if p == ["packet", "is_error"]:
                return ("p.isError", "bool")
            if len(p) == 1 and p[0] in env:
                return env[p[0]]
            if len(p) == 1 and p[0] in self.codes:
                return ("(%d : UInt16)" % self.codes[p[0]], "u16")
            if p == ["BROADCAST_ADDRESS"]:
                return ("BROADCAST", "u16")
        if e[0] == "call" and e[1] == ("path", ["packet", "data", "len"]) and not e[2]:
            return ("p.data.length", "usize")
        if e[0] == "as" and e[1] == "usize":
            t, ty = self.pure(e[2], env)
            if ty in ("u16", "u8"):
                return ("%s.toNat" % t, "usize")
            if ty in ("usize", "int"):
                return (t, "usize")
        if e[0] == "arith" and e[1] == "+":
            a, ta = self.pure(e[2], env)
            b, tb = self.pure(e[3], env)
            if {ta, tb} <= {"usize", "int"} and "usize" in (ta, tb):
                return ("(%s + %s)" % (a, b), "usize")      # no overflow: a `u16` (or a length) plus a small literal
        raise Untranslatable("expression")

    def value(self, e, env, k):
        """evaluates `e`; `k(lean term, type)` continues; reads are bound first"""
        r = self.read(e, env)
        if r is not None:
            self.n += 1
            v = "x%d" % self.n
            return "(%s).bind fun %s =>\n%s" % (r[0], v, k(v, r[1]))
        if e[0] == "not":
            return self.value(e[1], env, lambda t, ty: k("(!%s)" % t, ty) if ty == "bool" else (_ for _ in ()).throw(Untranslatable("! on " + ty)))
        if e[0] == "cmp":
            def k1(a, ta):
                def k2(b, tb):
                    t1, t2 = (tb if ta == "int" else ta), (ta if tb == "int" else tb)
                    if t1 != t2 or t1 not in ("usize", "u16", "u8", "u32"):
                        raise Untranslatable("comparison of %s and %s" % (ta, tb))
                    return k(CMP_LEAN[e[1]] % (a, b) if e[1] in ("==", "!=") else CMP_LEAN[e[1]] % (a, b), "bool")
                return self.value(e[3], env, k2)
            return self.value(e[2], env, k1)
        t, ty = self.pure(e, env)
        return k(t, ty)

    def stmts(self, ss, env, ind):
        if not ss:
            raise Untranslatable("fell off the end")
        s, rest = ss[0], ss[1:]
        if s[0] == "if" and s[1][0] == "cond" and s[3] is None and len(s[2]) == 1 and s[2][0][0] == "return":
            err = self.err(s[2][0][1])
            return self.value(s[1][1], env, lambda t, ty: "%sif %s then .err %s else\n%s" % (ind, t, err, self.stmts(rest, env, ind)) if ty == "bool" else (_ for _ in ()).throw(Untranslatable("condition")))
        if s[0] == "let":
            def k(t, ty):
                env2 = dict(env)
                env2[s[1]] = (t, ty)
                return self.stmts(rest, env2, ind)
            return ind + self.value(s[2], env, k).lstrip()
        if s[0] in ("tail", "return") and not rest:
            e = s[1]
            if e[0] == "call" and e[1] == ("path", ["Ok"]) and len(e[2]) == 1 and e[2][0][0] == "struct" and e[2][0][1] in (DEC_FIELDS[self.kind][0], "Self"):
                fields = dict(e[2][0][2])
                want = DEC_FIELDS[self.kind][1]
                if sorted(fields) != sorted(want):
                    raise Untranslatable("fields of the result")
                args = []
                for f, ty in zip(want, DEC_TYPES[self.kind]):
                    t, tt = self.pure(fields[f], env)
                    if tt != ty:
                        raise Untranslatable("field %s : %s" % (f, tt))
                    args.append(t)
                return "%s.ok (.%s%s)" % (ind, self.kind, "".join(" " + a for a in args))
        raise Untranslatable("statement " + s[0])

    def err(self, e):
        if e[0] == "call" and e[1] == ("path", ["Err"]) and len(e[2]) == 1:
            a = e[2][0]
            if a[0] == "path" and len(a[1]) == 1 and a[1][0] in DEC_ERR:
                return DEC_ERR[a[1][0]]
            if a == ("call", ("path", ["ConvertPacketError::Event"]), [("path", ["EventError::WrongEventType"])]):
                return ".wrongEventType"
        raise Untranslatable("error value")


def translate_decoders(bodies, codes):
    """`bodies`: kind -> text of `fn try_from_packet` body (with braces); `codes`: constant name -> number.
    Returns (lean text of Generated/Decoders.lean, [kinds not translated])"""
    out, missing, done = [], [], []
    for kind in DEC_FIELDS:
        try:
            if kind not in bodies:
                raise Untranslatable("no try_from_packet found")
            src_text = re.sub(r"let\s+mut\s+(\w+)\s*=\s*vec!\[0;\s*(\w+)\s+as\s+usize\];\s*for\s+(\w+)\s+in\s+0\.\.\(?\2\s+as\s+usize\)?\s*\{\s*\1\[\3\]\s*=\s*packet\.data\[\3\s*\+\s*(\d+)\];\s*\}",
                              lambda m: "let %s = __copy_from(%s, %s);" % (m.group(1), m.group(2), m.group(4)), bodies[kind])
            body = Parser(tokenize(src_text)).block()
            text = DecTranslator(kind, codes).stmts(body, {}, "  ")
            text = "\n".join(l if l.startswith(" ") else "  " + l for l in text.split("\n"))
            out.append("/-- translated from `%s::try_from_packet` in src/event -/\ndef decode_%s (p : Packet) : Res CErr Event :=\n%s\n" % (DEC_FIELDS[kind][0], kind, text))
            done.append(kind)
        except (Untranslatable, KeyError, TypeError, IndexError) as ex:
            missing.append(DEC_FIELDS[kind][0] + "::try_from_packet")
            out.append("/-- `%s::try_from_packet` could not be translated on this run (%s): this is the hand-written model's definition -/\ndef decode_%s (p : Packet) : Res CErr Event :=\n  decode .%s p\n"
                       % (DEC_FIELDS[kind][0], str(ex).replace("-/", ""), kind, kind))
    disp = "\n".join("  | .%s => decode_%s p" % (k, k) for k in DEC_FIELDS)
    text = ("import RossModel.Spec.SrcPrims\n"
            "/-! GENERATED by bin/extract (bin/rust2lean.py) from src/event/*.rs of the repository under verification — do not edit.\n"
            "Every run of a check regenerates this file from /repo's working tree before building the theorems. -/\n"
            "namespace Ross.Src\nopen Ross\n\n" + "\n".join(out) +
            "\n/-- the decoder of every kind: the translated one where there is one (the message decoder — a `transmute_copy` — is outside the translated subset and is the model's) -/\n"
            "def decodeK (k : Kind) (p : Packet) : Res CErr Event :=\n  match k with\n" + disp + "\n  | k => decode k p\n"
            "\n/-- decoders the translator could not translate on this run (they fall back to the model's `decode`) -/\n"
            "def decodersNotTranslated : List String := [" + ", ".join('"%s"' % m for m in missing) + "]\n\nend Ross.Src\n")
    return text, missing


# ---------------------------------------------------------------- frame decoder (src/frame.rs): from_usart_frame after the COBS decoding

TOK2 = re.compile(r"\s*(?:(//[^\n]*)|(0x[0-9a-fA-F]+|\d+)|([A-Za-z_][A-Za-z_0-9]*(?:::[A-Za-z_][A-Za-z_0-9]*)*)|(=>|\+=|!=|==|>=|<=|&&|\|\||<<|>>|[-+!<>(){};:,.=\[\]&*?|]))")


def tokenize2(src):
    out, i = [], 0
    src = src.rstrip()
    while i < len(src):
        m = TOK2.match(src, i)
        if not m:
            if src[i:].strip() == "":
                break
            raise Untranslatable("token at %r" % src[i:i + 20])
        i = m.end()
        if m.group(1):
            continue
        out.append(m.group(2) or m.group(3) or m.group(4))
    return out


class BitParser(Parser):
    """the expression grammar with Rust's bit operators: comparison < `|` < `&` < shifts < additive < cast < unary"""

    def comparison(self, nostruct=False):
        a = self.bitor(nostruct)
        if self.peek() in ("!=", "==", ">=", "<=", ">", "<"):
            op = self.eat()
            return ("cmp", op, a, self.bitor(nostruct))
        return a

    def bitor(self, nostruct):
        a = self.bitand(nostruct)
        while self.peek() == "|":
            self.eat()
            a = ("bit", "|", a, self.bitand(nostruct))
        return a

    def bitand(self, nostruct):
        a = self.shift(nostruct)
        while self.peek() == "&":
            self.eat()
            a = ("bit", "&", a, self.shift(nostruct))
        return a

    def shift(self, nostruct):
        a = self.additive(nostruct)
        while self.peek() in ("<<", ">>"):
            op = self.eat()
            a = ("bit", op, a, self.additive(nostruct))
        return a


WIDTH = {"u8": 256, "u16": 65536}
FERR = {"FrameError::WrongSize": ".wrongSize", "FrameError::CobsError": ".cobsError", "FrameError::FrameIdMissing": ".frameIdMissing",
        "FrameError::FrameIsRemote": ".frameIsRemote", "FrameError::FrameIsStandard": ".frameIsStandard"}


class FrameTranslator:
    """translates what `Frame::from_usart_frame` does with the COBS-decoded bytes `frame` (`fr : List UInt8`). Unsigned values are
    `Nat` terms with their Rust type; `frame[k]` is the panicking read `Prim.idxF`; `<<` on `u8` / `u16` drops the bits shifted out
    (`% 256`, `% 65536`); `as` to a wider type is the identity; `||` / `&&` evaluate their right operand only when needed (it may
    panic); the array fill loop is the primitive `Prim.fill8`."""

    def __init__(self):
        self.n = 0

    def num(self, e, env, k):
        """evaluate a numeric or boolean expression; k(term, type) continues"""
        t = e[0]
        if t == "num":
            return k(str(e[1]), "int")
        if t == "index" and e[1] == ("path", ["frame"]) and e[2][0] == "num":
            self.n += 1
            v = "x%d" % self.n
            return "(Prim.idxF fr %d).bind fun %s =>\n%s" % (e[2][1], v, k("%s.toNat" % v, "u8"))
        if t == "path":
            p = e[1]
            if len(p) == 1 and p[0] in env:
                return k(*env[p[0]])
            if p in (["true"], ["false"]):
                return k(p[0], "bool")
            raise Untranslatable("path " + ".".join(p))
        if t == "call" and e[1] == ("path", ["frame", "len"]) and not e[2]:
            return k("fr.length", "usize")
        if t == "as":
            def k1(a, ta):
                if ta == "bool":
                    raise Untranslatable("cast of a bool")
                if e[1] in ("u16", "usize", "u32") and ta in ("u8", "u16", "usize", "int"):
                    if e[1] == "u16" and ta == "usize":
                        return k("(%s %% 65536)" % a, "u16")
                    return k(a, e[1])
                if e[1] == "u8" and ta in ("u16", "usize", "u32", "u8", "int"):
                    return k(a if ta == "u8" else "(%s %% 256)" % a, "u8")
                raise Untranslatable("cast %s as %s" % (ta, e[1]))
            return self.num(e[2], env, k1)
        if t == "not":
            return self.num(e[1], env, lambda a, ta: k("(!%s)" % a, "bool") if ta == "bool" else (_ for _ in ()).throw(Untranslatable("! on " + ta)))
        if t in ("bit", "arith", "cmp"):
            op = e[1]

            def k1(a, ta):
                def k2(b, tb):
                    ty = tb if ta == "int" else ta
                    if t == "cmp":
                        if ta != tb and "int" not in (ta, tb):
                            raise Untranslatable("comparison of %s and %s" % (ta, tb))
                        if ty == "bool":
                            raise Untranslatable("comparison of bools")
                        return k({"==": "(%s == %s)", "!=": "(%s != %s)", "<": "decide (%s < %s)", ">": "decide (%s > %s)", "<=": "decide (%s ≤ %s)", ">=": "decide (%s ≥ %s)"}[op] % (a, b), "bool")
                    if ty in ("bool", "int") and not (ta == tb == "int"):
                        raise Untranslatable("%s on %s, %s" % (op, ta, tb))
                    if op in ("<<", ">>"):
                        if tb != "int":
                            raise Untranslatable("shift by a non-literal")
                        ty = ta
                        if op == ">>":
                            return k("(%s >>> %s)" % (a, b), ty)
                        return k("((%s <<< %s) %% %d)" % (a, b, WIDTH[ty]) if ty in WIDTH else "(%s <<< %s)" % (a, b), ty)
                    if ta != tb and "int" not in (ta, tb):
                        raise Untranslatable("%s on %s, %s" % (op, ta, tb))
                    if op == "&":
                        return k("(%s &&& %s)" % (a, b), ty)
                    if op == "|":
                        return k("(%s ||| %s)" % (a, b), ty)
                    if op == "+" and ty in ("usize", "int"):
                        return k("(%s + %s)" % (a, b), ty)
                    raise Untranslatable("%s on %s" % (op, ty))
                return self.num(e[3], env, k2)
            return self.num(e[2], env, k1)
        raise Untranslatable("expression " + t)

    def cond(self, e, env, kt, kf, ind):
        """a condition with short-circuit connectives; kt() / kf() give the text of the branches"""
        if e[0] == "bool" and e[1] == "||":
            return self.cond(e[2], env, kt, lambda: self.cond(e[3], env, kt, kf, ind), ind)
        if e[0] == "bool" and e[1] == "&&":
            return self.cond(e[2], env, lambda: self.cond(e[3], env, kt, kf, ind), kf, ind)

        def k(t, ty):
            if ty != "bool":
                raise Untranslatable("condition of type " + ty)
            return "%sif %s then\n%s\n%selse\n%s" % (ind, t, kt(), ind, kf())
        return ind + self.num(e, env, k).lstrip()

    def err(self, e):
        if e[0] == "call" and e[1] == ("path", ["Err"]) and len(e[2]) == 1 and e[2][0][0] == "path" and e[2][0][1][0] in FERR:
            return FERR[e[2][0][1][0]]
        raise Untranslatable("error value")

    def stmts(self, ss, env, ind):
        if not ss:
            raise Untranslatable("fell off the end")
        s, rest = ss[0], ss[1:]
        if s[0] == "if" and s[1][0] == "cond" and s[3] is None and len(s[2]) == 1 and s[2][0][0] == "return":
            er = self.err(s[2][0][1])
            return self.cond(s[1][1], env, lambda: "%s  .err %s" % (ind, er), lambda: self.stmts(rest, env, ind), ind)
        if s[0] == "let":
            e = s[2]
            if e[0] == "call" and e[1] == ("path", ["__fill8"]) and len(e[2]) == 2 and e[2][0][0] == "num":
                def kf(n, tn):
                    if tn not in ("u8", "usize"):
                        raise Untranslatable("fill loop over a length of type " + tn)
                    env2 = dict(env)
                    env2[s[1]] = (s[1], "array8")
                    return "(Prim.fill8 fr %d %s).bind fun %s =>\n%s" % (e[2][0][1], n, s[1], self.stmts(rest, env2, ind))
                return ind + self.num(e[2][1], env, kf).lstrip()

            def k(t, ty):
                env2 = dict(env)
                env2[s[1]] = (s[1], ty)
                return "%slet %s := %s\n%s" % (ind, s[1], t, self.stmts(rest, env2, ind))
            return ind + self.num(e, env, k).lstrip()
        if s[0] == "letif" and s[2][0] == "cond":
            _, name, c, then, els = s
            if not (len(then) == 1 and then[0][0] == "tail" and len(els) == 1 and els[0][0] == "tail"):
                raise Untranslatable("let … = if")
            ctors = []
            for b in (then, els):
                e = b[0][1]
                if not (e[0] == "call" and e[1][0] == "path" and e[1][1][0] in ("FrameId::LastFrameId", "FrameId::CurrentFrameId") and len(e[2]) == 1):
                    raise Untranslatable("frame id constructor")
                ctors.append((e[1][1][0].endswith("LastFrameId"), e[2][0]))
            if ctors[0][0] == ctors[1][0]:
                raise Untranslatable("both branches build the same kind of frame id")

            def kc(ct, cty):
                if cty != "bool":
                    raise Untranslatable("condition")

                def k1(a, ta):
                    def k2(b, tb):
                        if ta != "u16" or tb != "u16":
                            raise Untranslatable("frame id of type %s / %s" % (ta, tb))
                        env2 = dict(env)
                        env2[name] = (name, "frameid")
                        last = ct if ctors[0][0] else "(!%s)" % ct
                        return "%slet %s_last := %s\n%slet %s := if %s then %s else %s\n%s" % (ind, name, last, ind, name, ct, a, b, self.stmts(rest, env2, ind))
                    return self.num(ctors[1][1], env, k2)
                return self.num(ctors[0][1], env, k1)
            return ind + self.num(c[1], env, kc).lstrip()
        if s[0] in ("tail", "return") and not rest:
            e = s[1]
            if e[0] == "call" and e[1] == ("path", ["Ok"]) and len(e[2]) == 1 and e[2][0][0] == "struct" and e[2][0][1] in ("Frame", "Self"):
                f = dict(e[2][0][2])
                if sorted(f) != ["data", "data_len", "device_address", "frame_id", "multi_frame_flag", "not_error_flag", "start_frame_flag"]:
                    raise Untranslatable("fields of the frame")

                def var(name, want):
                    v = f[name]
                    if not (v[0] == "path" and len(v[1]) == 1 and v[1][0] in env and env[v[1][0]][1] in want):
                        raise Untranslatable("field " + name)
                    return env[v[1][0]][0]
                fid = var("frame_id", ("frameid",))
                return ("%s.ok { notError := %s, start := %s, multi := %s, idLast := %s_last, fid := %s, addr := UInt16.ofNat %s, dataLen := %s, data := %s }"
                        % (ind, var("not_error_flag", ("bool",)), var("start_frame_flag", ("bool",)), var("multi_frame_flag", ("bool",)), fid, fid,
                           var("device_address", ("u16",)), var("data_len", ("u8",)), var("data", ("array8",))))
        raise Untranslatable("statement " + s[0])


def translate_frame(src):
    """returns (lean text of Generated/FrameFns.lean, [names not translated])"""
    missing = []
    sig = "(fr : List UInt8) : Res FErr Frame"
    try:
        m = re.search(r"pub fn from_usart_frame\s*\(\s*encoded:\s*Vec<u8>\s*\)\s*->\s*Result<Self,\s*FrameError>\s*\{", src)
        if not m:
            raise Untranslatable("signature")
        i, depth = m.end() - 1, 0
        for j in range(i, len(src)):
            depth += src[j] == "{"
            depth -= src[j] == "}"
            if depth == 0:
                break
        body = re.sub(r"//[^\n]*", "", src[i + 1:j])
        k = body.find("if frame.len()")
        if k < 0:
            raise Untranslatable("no size test on the decoded bytes")
        pre, seg = body[:k], body[k:]
        if not (re.search(r"CobsDecoder::new\(&mut frame\[\.\.\]\)", pre) and re.search(r"frame\.truncate\(n\)", pre)) or "encoded" in seg or "decoder" in seg:
            raise Untranslatable("the COBS part is not the recognised one")
        seg = re.sub(r"let\s+mut\s+(\w+)\s*=\s*\[0u8;\s*8\];\s*for\s+(\w+)\s+in\s+0\.\.\(?(\w+)\s+as\s+usize\)?\s*\{\s*\1\[\2\]\s*=\s*frame\[\2\s*\+\s*(\d+)\];\s*\}",
                     lambda mm: "let %s = __fill8(%s, %s);" % (mm.group(1), mm.group(4), mm.group(3)), seg)
        text = FrameTranslator().stmts(BitParser(tokenize2("{" + seg + "}")).block(), {}, "  ")
        text = "\n".join(l if l.startswith(" ") else "  " + l for l in text.split("\n"))
        out = ("/-- what `Frame::from_usart_frame` does with the COBS-decoded bytes (`frame` is `fr`): translated from src/frame.rs -/\n"
               "def fromUsartBody %s :=\n%s\n" % (sig, text))
    except (Untranslatable, KeyError, TypeError, IndexError) as ex:
        missing.append("from_usart_frame")
        out = ("/-- the part of `Frame::from_usart_frame` after the COBS decoding could not be translated on this run (%s): this is the hand-written model's -/\n"
               "def fromUsartBody %s :=\n  fromUsartModelBody fr\n" % (str(ex).replace("-/", ""), sig))
    ctext, cmissing = translate_can(src)
    etext, emissing = translate_can_enc(src)
    utext, umissing = translate_usart_enc(src)
    missing = missing + cmissing + emissing + umissing
    out = out + "\n" + ctext + "\n" + etext + "\n" + utext
    text = ("import RossModel.Spec.SrcPrims\n"
            "/-! GENERATED by bin/extract (bin/rust2lean.py) from src/frame.rs of the repository under verification — do not edit.\n"
            "Every run of a check regenerates this file from /repo's working tree before building the theorems. -/\n"
            "namespace Ross.Src\nopen Ross\n\n" + out +
            "\n/-- `Frame::from_usart_frame`: the COBS decoding (the model's `Cobs.decodeBody`, tied by the correspondence check), then the translated part -/\n"
            "def fromUsart (enc : List UInt8) : Res FErr Frame :=\n  match Cobs.decodeBody enc with\n  | none => .err .cobsError\n  | some fr => fromUsartBody fr\n"
            "\n/-- not translated on this run -/\ndef frameNotTranslated : List String := [" + ", ".join('"%s"' % x for x in missing) + "]\n\nend Ross.Src\n")
    return text, missing


class CanTranslator(FrameTranslator):
    """translates `Frame::from_bxcan_frame` over the model's `CanFrame` (`c`): `frame.id()` is `Id::Extended(id)` exactly when `c.ext`
    (`id.as_raw()` = `c.id`), `frame.data()` is `Some(..)` exactly when `!c.rtr` (the bytes are `c.data`), `frame.dlc()` is `c.dlc`;
    the array fill loop from the frame's bytes is `Prim.fill8 c.data 0 n`; reading the filled array at a constant index cannot panic."""

    def num(self, e, env, k):
        if e[0] == "call" and e[1] == ("path", ["frame", "dlc"]) and not e[2]:
            return k("c.dlc", "u8")
        if e[0] == "call" and e[1][0] == "path" and len(e[1][1]) == 2 and e[1][1][1] == "as_raw" and not e[2] and env.get(e[1][1][0], (None, None))[1] == "extid":
            return k("c.id", "u32")
        if e[0] == "index" and e[1][0] == "path" and len(e[1][1]) == 1 and env.get(e[1][1][0], (None, None))[1] == "array8" and e[2][0] == "num" and e[2][1] < 8:
            return k("(%s.getD %d 0).toNat" % (env[e[1][1][0]][0], e[2][1]), "u8")
        if e[0] == "as" and e[1] in ("u16", "u8"):
            def k1(a, ta):
                if ta == "u32" or (ta in ("usize",) and e[1] == "u16"):
                    return k("(%s %% %d)" % (a, 65536 if e[1] == "u16" else 256), e[1])
                return FrameTranslator.num(self, ("as", e[1], ("path", ["__v"])), {"__v": (a, ta)}, k)
            return self.num(e[2], env, k1)
        return super().num(e, env, k)

    def result(self, e, env, ind):
        if e[0] == "call" and e[1] == ("path", ["Err"]):
            return "%s.err %s" % (ind, self.err(e))
        if e[0] == "call" and e[1] == ("path", ["Ok"]):
            return FrameTranslator.stmts(self, [("tail", e)], env, ind)
        raise Untranslatable("result")

    def stmts(self, ss, env, ind):
        if not ss:
            raise Untranslatable("fell off the end")
        s, rest = ss[0], ss[1:]
        if s[0] == "if" and s[1][0] == "iflet" and not rest and s[3] is not None:
            _, ctor, v, scrut = s[1]
            if ctor == "Id::Extended" and scrut == ("call", ("path", ["frame", "id"]), []):
                env2 = dict(env)
                env2[v] = (v, "extid")
                return "%sif c.ext then\n%s\n%selse\n%s" % (ind, self.stmts(s[2], env2, ind + "  "), ind, self.stmts(s[3], env, ind + "  "))
            if ctor == "Some" and scrut == ("call", ("path", ["frame", "data"]), []):
                env2 = dict(env)
                env2[v] = (v, "candata")
                return "%sif (!c.rtr) then\n%s\n%selse\n%s" % (ind, self.stmts(s[2], env2, ind + "  "), ind, self.stmts(s[3], env, ind + "  "))
            raise Untranslatable("if let " + ctor)
        if s[0] == "if" and s[1][0] == "cond" and not rest and s[3] is not None:
            return self.cond(s[1][1], env, lambda: self.stmts(s[2], env, ind + "  "), lambda: self.stmts(s[3], env, ind + "  "), ind)
        if s[0] == "let":
            e = s[2]
            if e[0] == "call" and e[1] == ("path", ["__fill8c"]) and len(e[2]) == 2 and e[2][0][0] == "path" and env.get(e[2][0][1][0], (None, None))[1] == "candata":
                def kf(n, tn):
                    if tn not in ("u8", "usize"):
                        raise Untranslatable("fill loop over a length of type " + tn)
                    env2 = dict(env)
                    env2[s[1]] = (s[1], "array8")
                    return "(Prim.fill8 c.data 0 %s).bind fun %s =>\n%s" % (n, s[1], self.stmts(rest, env2, ind))
                return ind + self.num(e[2][1], env, kf).lstrip()
            if e[0] == "call" and e[1][0] == "path" and e[1][1][0] in ("FrameId::LastFrameId", "FrameId::CurrentFrameId") and len(e[2]) == 1:
                def kv(a, ta):
                    if ta not in ("u16", "int"):
                        raise Untranslatable("frame id of type " + ta)
                    env2 = dict(env)
                    env2[s[1]] = (s[1], "frameid")
                    return "%slet %s_last := %s\n%slet %s := %s\n%s" % (ind, s[1], "true" if e[1][1][0].endswith("LastFrameId") else "false", ind, s[1], a, self.stmts(rest, env2, ind))
                return ind + self.num(e[2][0], env, kv).lstrip()
        if s[0] in ("tail", "return") and not rest and s[1][0] == "call" and s[1][1] == ("path", ["Err"]):
            return "%s.err %s" % (ind, self.err(s[1]))
        return super().stmts(ss, env, ind)


def translate_can(src):
    sig = "(c : CanFrame) : Res FErr Frame"
    try:
        m = re.search(r"pub fn from_bxcan_frame\s*\(\s*frame:\s*BxFrame\s*\)\s*->\s*Result<Self,\s*FrameError>\s*\{", src)
        if not m:
            raise Untranslatable("signature")
        i, depth = m.end() - 1, 0
        for j in range(i, len(src)):
            depth += src[j] == "{"
            depth -= src[j] == "}"
            if depth == 0:
                break
        body = re.sub(r"//[^\n]*", "", src[i:j + 1])
        body = re.sub(r"let\s+mut\s+(\w+)\s*=\s*\[0u8;\s*8\];\s*for\s+(\w+)\s+in\s+0\.\.\(?(\w+)\s+as\s+usize\)?\s*\{\s*\1\[\2\]\s*=\s*(\w+)\[\2\];\s*\}",
                      lambda mm: "let %s = __fill8c(%s, %s);" % (mm.group(1), mm.group(4), mm.group(3)), body)
        text = CanTranslator().stmts(BitParser(tokenize2(body)).block(), {}, "  ")
        text = "\n".join(l if l.startswith(" ") else "  " + l for l in text.split("\n"))
        return ("/-- translated from `Frame::from_bxcan_frame` in src/frame.rs over the model's view of a `bxcan::Frame` -/\ndef fromCan %s :=\n%s\n" % (sig, text)), []
    except (Untranslatable, KeyError, TypeError, IndexError) as ex:
        return ("/-- `Frame::from_bxcan_frame` could not be translated on this run (%s): this is the hand-written model's definition -/\ndef fromCan %s :=\n  Ross.fromCan c\n" % (str(ex).replace("-/", ""), sig)), ["from_bxcan_frame"]



# ---------------------------------------------------------------- frame encoder (src/frame.rs): to_bxcan_frame

class CanEncTranslator(FrameTranslator):
    """translates `Frame::to_bxcan_frame` (`self` is `f : Frame`): the identifier is accumulated with `id |= …` (each a rebinding),
    a flag cast `as u32` is `bit`, `<<` on `u32` drops the bits shifted out, the two arms of `match self.frame_id` select by the kind
    of the frame id; the final `BxFrame::new_data(ExtendedId::new(id).unwrap(), Data::new(&self.data[0..n]).unwrap())` is the primitive
    `Prim.canFrame`, which panics when the identifier has more than 29 bits, the slice is out of range or longer than 8 bytes."""

    SELF = {"not_error_flag": ("f.notError", "bool"), "start_frame_flag": ("f.start", "bool"), "multi_frame_flag": ("f.multi", "bool"),
            "device_address": ("f.addr.toNat", "u16"), "data_len": ("f.dataLen", "u8")}

    def num(self, e, env, k):
        if e[0] == "path" and len(e[1]) == 2 and e[1][0] == "self" and e[1][1] in self.SELF:
            return k(*self.SELF[e[1][1]])
        if e[0] == "as" and e[1] in ("u32", "u8", "u16"):
            def k1(a, ta):
                if ta == "bool":
                    return k("bit %s" % a, e[1])
                return FrameTranslator.num(self, ("as", e[1], ("path", ["__v"])), {"__v": (a, ta)}, k)
            return self.num(e[2], env, k1)
        if e[0] == "call" and e[1] == ("path", ["__sel"]) and len(e[2]) == 2:
            def k1(a, ta):
                def k2(b, tb):
                    if ta != tb:
                        raise Untranslatable("arms of different types")
                    return k("(if f.idLast then %s else %s)" % (a, b), ta)
                return self.num(e[2][1], env, k2)
            return self.num(e[2][0], env, k1)
        if e[0] == "bit" and e[1] == "<<":
            def k1(a, ta):
                def k2(b, tb):
                    if tb != "int" or ta not in ("u32", "u16", "u8"):
                        raise Untranslatable("shift")
                    return k("((%s <<< %s) %% %d)" % (a, b, {"u32": 2 ** 32, "u16": 65536, "u8": 256}[ta]), ta)
                return self.num(e[3], env, k2)
            return self.num(e[2], env, k1)
        return super().num(e, env, k)

    def stmts(self, ss, env, ind):
        if not ss:
            raise Untranslatable("fell off the end")
        s, rest = ss[0], ss[1:]
        if s[0] == "letmut" and s[2][0] == "num":
            env2 = dict(env)
            env2[s[1]] = (s[1], "u32")
            return "%slet %s := %d\n%s" % (ind, s[1], s[2][1], self.stmts(rest, env2, ind))
        if s[0] == "orassign" and s[1][0] == "path" and len(s[1][1]) == 1 and env.get(s[1][1][0], (None, None))[1] == "u32":
            v = s[1][1][0]

            def k(t, ty):
                if ty not in ("u32", "int"):
                    raise Untranslatable("|= of " + ty)
                return "%slet %s := (%s ||| %s)\n%s" % (ind, v, v, t, self.stmts(rest, env, ind))
            return ind + self.num(s[2], env, k).lstrip()
        if s[0] in ("tail", "return") and not rest and s[1][0] == "call" and s[1][1] == ("path", ["__can"]) and len(s[1][2]) == 1:
            return ind + self.num(s[1][2][0], env, lambda t, ty: "%sPrim.canFrame %s f" % (ind, t) if ty == "u32" else (_ for _ in ()).throw(Untranslatable("identifier type"))).lstrip()
        raise Untranslatable("statement " + s[0])


class BitParser2(BitParser):
    def stmt(self):
        save = self.i
        if self.peek() not in ("if", "let", "return", "for", "match", "loop", "break"):
            try:
                e = self.expr()
                if self.peek() == "|" and self.peek(1) == "=":
                    self.eat(); self.eat()
                    rhs = self.expr()
                    self.eat(";")
                    return ("orassign", e, rhs)
            except Untranslatable:
                pass
            self.i = save
        return super().stmt()

    def bitor(self, nostruct):
        a = self.bitand(nostruct)
        while self.peek() == "|" and self.peek(1) != "=":
            self.eat()
            a = ("bit", "|", a, self.bitand(nostruct))
        return a


def translate_can_enc(src):
    sig = "(f : Frame) : Res FErr CanFrame"
    try:
        m = re.search(r"pub fn to_bxcan_frame\s*\(\s*&self\s*\)\s*->\s*BxFrame\s*\{", src)
        if not m:
            raise Untranslatable("signature")
        i, depth = m.end() - 1, 0
        for j in range(i, len(src)):
            depth += src[j] == "{"
            depth -= src[j] == "}"
            if depth == 0:
                break
        body = re.sub(r"//[^\n]*", "", src[i:j + 1])
        body = re.sub(r"match\s+self\.frame_id\s*\{\s*FrameId::LastFrameId\((\w+)\)\s*=>\s*(\w+)\s*\|=\s*([^,{}]+?),\s*FrameId::CurrentFrameId\(\1\)\s*=>\s*\2\s*\|=\s*([^,{}]+?),?\s*\}",
                      lambda mm: "%s |= __sel(%s, %s);" % (mm.group(2), mm.group(3).replace(mm.group(1), "__fid"), mm.group(4).replace(mm.group(1), "__fid")), body)
        body, n = re.subn(r"BxFrame::new_data\(\s*ExtendedId::new\((\w+)\)\.unwrap\(\),\s*Data::new\(&self\.data\[0\.\.self\.data_len as usize\]\)\.unwrap\(\),?\s*\)", r"__can(\1)", body)
        if n != 1:
            raise Untranslatable("construction of the bxcan frame")
        text = CanEncTranslator().stmts(BitParser2(tokenize2(body)).block(), {"__fid": ("f.fid", "u16")}, "  ")
        text = "\n".join(l if l.startswith(" ") else "  " + l for l in text.split("\n"))
        return ("/-- translated from `Frame::to_bxcan_frame` in src/frame.rs -/\ndef toCan %s :=\n%s\n" % (sig, text)), []
    except (Untranslatable, KeyError, TypeError, IndexError) as ex:
        return ("/-- `Frame::to_bxcan_frame` could not be translated on this run (%s): this is the hand-written model's definition -/\ndef toCan %s :=\n  Ross.toCan f\n" % (str(ex).replace("-/", ""), sig)), ["to_bxcan_frame"]


# ---------------------------------------------------------------- frame encoder (src/frame.rs): to_usart_frame

class UsartEncTranslator(CanEncTranslator):
    """translates `Frame::to_usart_frame`. The vector `frame` starts as `data_len + 5` zero bytes; the five header bytes are only
    touched through constant indices (`frame[k] |= e`, `frame[k] = e`, k < 5), so they are five accumulators `b0 … b4` (rebound at
    every statement); the copy loop `for i in 0..data_len { frame[i + 5] = self.data[i]; }` and the COBS call at the end are the
    recognised tail: the body is the five bytes followed by the first `data_len` data bytes (a panic when `data_len` exceeds the
    array), encoded by the model's `Cobs.encode` (the `cobs` crate is modelled)."""

    def stmts(self, ss, env, ind):
        if not ss:
            raise Untranslatable("fell off the end")
        s, rest = ss[0], ss[1:]
        if s[0] in ("orassign", "assign") and s[1][0] == "path" and len(s[1][1]) == 1 and env.get(s[1][1][0], (None, None))[1] == "u8" and s[1][1][0] in ("b0", "b1", "b2", "b3", "b4"):
            v = s[1][1][0]

            def k(t, ty):
                if ty not in ("u8", "int"):
                    raise Untranslatable("byte of type " + ty)
                return "%slet %s := %s\n%s" % (ind, v, "(%s ||| %s)" % (v, t) if s[0] == "orassign" else t, self.stmts(rest, env, ind))
            return ind + self.num(s[2], env, k).lstrip()
        if s[0] in ("tail", "return", "do") and not rest and s[1] == ("call", ("path", ["__usart"]), []):
            return ("%sif f.data.length < f.dataLen then .panic else\n%s.ok (Cobs.encode ([UInt8.ofNat b0, UInt8.ofNat b1, UInt8.ofNat b2, UInt8.ofNat b3, UInt8.ofNat b4] ++ f.data.take f.dataLen))" % (ind, ind))
        raise Untranslatable("statement " + s[0])


def translate_usart_enc(src):
    sig = "(f : Frame) : Res FErr (List UInt8)"
    try:
        m = re.search(r"pub fn to_usart_frame\s*\(\s*&self\s*\)\s*->\s*Vec<u8>\s*\{", src)
        if not m:
            raise Untranslatable("signature")
        i, depth = m.end() - 1, 0
        for j in range(i, len(src)):
            depth += src[j] == "{"
            depth -= src[j] == "}"
            if depth == 0:
                break
        body = re.sub(r"//[^\n]*", "", src[i:j + 1])
        body, n0 = re.subn(r"let\s+mut\s+frame\s*=\s*vec!\[0x00u8;\s*self\.data_len\s+as\s+usize\s*\+\s*5\];", "", body)
        body, n1 = re.subn(r"for\s+(\w+)\s+in\s+0\.\.self\.data_len\s+as\s+usize\s*\{\s*frame\[\1\s*\+\s*5\]\s*=\s*self\.data\[\1\];\s*\}\s*"
                           r"let\s+mut\s+encoded\s*=\s*vec!\[0;\s*max_encoding_length\(frame\.len\(\)\)\];\s*let\s+encoded_len\s*=\s*encode\(&frame\[\.\.\],\s*&mut\s+encoded\[\.\.\]\);\s*"
                           r"encoded\.truncate\(encoded_len\);\s*return\s+encoded;", "__usart()", body)
        if n0 != 1 or n1 != 1:
            raise Untranslatable("allocation, copy loop or COBS call not in the recognised form")
        body = re.sub(r"frame\[([0-4])\]", r"b\1", body)
        if "frame" in body.replace("frame_id", "").replace("frame_flag", ""):
            raise Untranslatable("the byte vector is used in another way")
        body = re.sub(r"match\s+self\.frame_id\s*\{\s*FrameId::LastFrameId\((\w+)\)\s*=>\s*(\w+)\s*\|=\s*([^,{}]+?),\s*FrameId::CurrentFrameId\(\1\)\s*=>\s*\2\s*\|=\s*([^,{}]+?),?\s*\}",
                      lambda mm: "%s |= __sel(%s, %s);" % (mm.group(2), mm.group(3).replace(mm.group(1), "__fid"), mm.group(4).replace(mm.group(1), "__fid")), body)
        env = {"__fid": ("f.fid", "u16")}
        for k in range(5):
            env["b%d" % k] = ("b%d" % k, "u8")
        text = UsartEncTranslator().stmts(BitParser2(tokenize2(body)).block(), env, "  ")
        text = "".join("  let b%d := 0\n" % k for k in range(5)) + "\n".join(l if l.startswith(" ") else "  " + l for l in text.split("\n"))
        return ("/-- translated from `Frame::to_usart_frame` in src/frame.rs (`b0 … b4` are the five header bytes of the vector) -/\ndef toUsart %s :=\n%s\n" % (sig, text)), []
    except (Untranslatable, KeyError, TypeError, IndexError) as ex:
        return ("/-- `Frame::to_usart_frame` could not be translated on this run (%s): this is the hand-written model's definition -/\ndef toUsart %s :=\n  Ross.toUsart f\n" % (str(ex).replace("-/", ""), sig)), ["to_usart_frame"]


if __name__ == "__main__":
    import sys
    src = open(sys.argv[1] if len(sys.argv) > 1 else "/repo/src/packet.rs").read()
    i = src.find("#[cfg(test)]")
    t, m = translate(src if i < 0 else src[:i])
    print(t)
    print("-- not translated:", m, file=sys.stderr)
    psrc = open("/repo/src/protocol.rs").read()
    t, m = translate_protocol(psrc)
    print(t)
    print("-- not translated:", m, file=sys.stderr)
    t, m = translate_receivers(lambda rel: open("/repo/" + rel).read())
    print(t)
    print("-- not translated:", m, file=sys.stderr)
