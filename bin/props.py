"""Per-property configuration of bin/check: scenario groups with (quick, thorough) case counts,
the rule by which a case counts as non-trivial, and what the check establishes."""
import re

TRUSTED_BASE = [
    "Lean 4.33.0 kernel (thorough tier: compiled modules re-checked by leanchecker)",
    "axioms admitted in `#print axioms` of every property theorem: propext, Classical.choice, Quot.sound only; no sorry/admit/axiom/native_decide/bv_decide/implemented_by/unsafe anywhere in lean/ (scanned on every run)",
    "the Lean model in lean/RossModel/*.lean is hand-written; theorems are about the model",
    "tie to /repo (checked on every run, finite): the harness crate links /repo's working tree unchanged (path dependency, feature std) and the compiled Lean driver (same definitions as the theorems) re-derives every observation; trusted for the tie: Lean compiler, rustc/cargo, harness generators/mocks/printers, catch_unwind",
    "translator (bin/extract, bin/rust2lean.py; trusted): anchored regular expressions for the constant tables and codec field layouts, and a parser/translator for a small statement subset of Rust for 49 functions (PacketBuilder::add_frame/new/frames_left/build; Protocol::tick/send_packet/handle_packet/add_packet_handler/remove_packet_handler/get_next_handler_id/exchange_packet/exchange_packets; the frame-level tail of Can/Usart/Serial::try_get_packet; fifteen event decoders and fifteen encoders; Frame::from_usart_frame after the COBS decoding Frame::from_bxcan_frame, Frame::to_bxcan_frame and Frame::to_usart_frame) with this reading: u16/usize/u32 values are Nat, `as u16` is mod 65536, u16 `+`/`-` are the checked operations of a debug build (explicit panic branch), references are values, `self` is threaded through the effects invoking a handler closure = Proto.invoke, try_send_packet = Proto.ifaceSend, try_get_packet = Proto.ifaceGet, handlers.remove / insert = Proto.removeKey / insertKey, the wait closure = Proto.waitMark (hand-written model primitives, tied to the code by the correspondence check); `loop` bodies run on fuel that the theorems prove sufficient; for the receivers self.packet_builder is the whole state and PacketBuilder calls are the model's Builder.*; for the decoders slices, indices and `try_into().unwrap()` are the panicking primitives of lean/RossModel/Spec/SrcPrims.lean and the value sub-codecs are the model's; anything outside the subset is not translated and falls back to the hand-written definition (recorded per run)",
    "modelled, not verified: cobs 0.1.4, bxcan data types (Can::receive/transmit replaced by a scripted stand-in in harness/vendor/bxcan-sim), nb::block!, embedded-hal and serialport traits, read_exact/write_all/flush, BTreeMap, Vec, closures (token + fixed sends), repr(C) layout of MessageValue on a little-endian host, overflow-checked integer arithmetic",
]

ASSUMPTIONS = [
    "devices are finite scripts; an exhausted script answers 'no data yet' forever",
    "little-endian host (MessageValue image)",
    "payloads at most 28672 bytes (4096 frames, the 12-bit frame id limit) wherever fragmentation is involved",
]

Q = lambda q, t: (q, t)

PROPS = {
    "C01": {
        "groups": {"e2e_usart": Q(24000, 150000), "e2e_serial": Q(24000, 150000), "e2e_can": Q(24000, 150000)},
        "rule": "generated runs of two real Protocol nodes joined by a recorded wire (events of all 16 kinds, addresses incl. broadcast and the sender's own, 0-4 handlers with random capture flags, 'no data yet' inserted by a seeded schedule: between any two bytes on USART, between link frames on the serial port, between frames on CAN); distinct by input text; non-trivial = at least two events sent and at least one handler registered",
        "explanation": "theorems C01_two_nodes_{usart,can,serial} (both nodes in the model: send_packet per event over a link sender under back-pressure, receiver polling under any schedule, any handler tables) and C01_end_to_end_* (model = specification for every event list, address pair, handler table and schedule) + differential runs of two real Protocol nodes joined by the recorded wire; a differing line is a concrete C01 violation because the model's answer is the specified handler log (order among the handlers of one packet not compared)",
    },
    "C02": {
        "groups": {"frag_rt_enum": Q(900, 86019), "frag_rt": Q(36000, 180000)},
        "rule": "packets (payload by seeded PRNG; every length 0..=70, the 7k-1/7k/7k+1 boundaries around 8, 1792 and 28672, random lengths up to 28672; both flags, boundary addresses) x the three frame paths (direct, real CAN codec, real USART codec); distinct by input text; non-trivial = multi-frame packet (payload > 8 bytes)",
        "explanation": "theorem reassembly_exact gives the closed form of frames_left/build after every prefix; the driver compares the real PacketBuilder's observations after every frame with it (digest) and the final packet with the input",
    },
    "C03": {
        "groups": {"ev_rt": Q(240000, 2000000), "ev_enc": Q(80000, 300000)},
        "rule": "generated events of all 16 kinds (boundary-biased scalars, every variant of every value type, data payloads up to 300 bytes with matching and non-matching declared length); distinct by input text; non-trivial = kind with at least one field (everything but configurator hello)",
        "explanation": "theorem decode_encode (all kinds, values, padding) + real to_packet -> try_from_packet on generated events; oracle evaluated on the implementation's own answer: decoded value equals the event, packet is a data packet addressed to the receiver",
    },
    "C04": {
        "groups": {"usart_dec_enum": Q(65793, 16843009), "can_dec_enum": Q(73728, 589824), "usart_dec": Q(320000, 3000000), "can_dec": Q(160000, 1000000)},
        "rule": "USART bodies: uniform bytes at every length 0..=255, short random bodies, declared data length 9..=250 with consistent size, COBS corner cases (ff chains, truncated runs, embedded zeros), single-fault mutations of valid encodings; CAN frames: standard/extended, data/remote, every dlc, field-wise ids; distinct by input text; non-trivial = input of at least 2 bytes",
        "explanation": "theorems fromUsart_no_panic / fromUsart_wf (all byte strings) and fromCan_no_panic / fromCan_wf (all constructible CAN frames) + the real decoders on malformed and valid streams; oracle on the implementation's answer: no panic, accepted frames are well-formed and survive real re-encoding for both links and real reassembly",
    },
    "C05": {
        "groups": {"ev_dec": Q(480000, 3000000)},
        "rule": "systematic sweep (every variant tag byte 0..=255 and flag-byte class at the layout positions; every length 0..=70 x both flags x near-miss codes for all 16 decoders: 26k cases) then mutated valid encodings of all kinds shown to their own or a random decoder; distinct by input text; non-trivial = payload of at least 2 bytes",
        "explanation": "theorems decode_no_panic, decode_ok_head, decode_err_applies, decode_reencode + all 16 real decoders; oracle on the implementation's answer: no panic, value in the kind's domain (raw-byte check for message values), reason validated by the Lean predicate cappliesB, accepted values re-encode and decode to themselves",
    },
    "C06": {
        "groups": {"rx_usart": Q(60000, 600000), "rx_serial": Q(60000, 600000), "rx_can": Q(60000, 600000)},
        "rule": "hostile receive histories per link: arbitrary bodies, interrupted packets of the same/other device and opposite error type, zero-length frames, line noise, swapped/duplicated/corrupted frames (incl. the length byte), declared length > 8, 200..255-byte bodies, foreign CAN frames, then two probe packets; would-blocks between bytes/frames; distinct by input text; non-trivial = at least 3 polls returned something other than 'nothing'",
        "explanation": "theorems run_resync, usart_resync, can_resync, serial_resync + the real receivers drained call by call; compared: every poll result and the number of device items left after every call; oracle on the implementation's answer: no panic, no spin, second probe delivered last, nothing delivered that the model does not deliver",
    },
    "C07": {
        "groups": {"builder_enum": Q(28850, 692402), "builder": Q(240000, 2000000)},
        "rule": "start frame (announcing 1, 2..4, up to 300 or 4096 frames; sometimes not a start frame) followed by up to 8 frames generated relative to the reference builder state: the exact next frame and single-attribute mutations (type, device, start flag, multi flag, id kind, id-1, id+1, id = announced) and unrelated frames; distinct by input text; non-trivial = at least 2 frames after the first",
        "explanation": "theorems addFrame_ok_iff, addFrame_err_applies, framesLeft_spec, build_spec, offer_inv, and the same acceptance specification proved about add_frame / new / frames_left as translated statement by statement from src/packet.rs on every run (C07_src_*) + the real PacketBuilder observed after every step (accept/reject, expected_frame_count, frame_count, frames_left, build twice); reasons validated by the Lean predicate appliesB, everything else compared",
    },
    "C08": {
        "groups": {"frt_can": Q(12000, 90000), "can_dec_enum": Q(73728, 589824), "can_enc": Q(160000, 1500000), "can_dec": Q(160000, 1500000), "can_rt": Q(160000, 1500000)},
        "rule": "frames: 8 flag combinations x both id kinds x ids (boundaries, single bits, uniform) x addresses x dataLen 0..=8 (+ ill-formed frames, judged as outside the property); CAN frames as in C04 plus encodings of canonical frames; distinct by input text; non-trivial = identifier/frame with at least one non-zero field",
        "explanation": "theorems toCan_layout, id_fields, fromCan_toCan, specFrames_canCanonical + real to_bxcan_frame / from_bxcan_frame / their composition; a differing line on a well-formed frame or constructible CAN frame is a concrete C08 violation (model = layout)",
    },
    "C09": {
        "groups": {"frt_usart": Q(12000, 90000), "usart_dec_enum": Q(65793, 65793), "usart_enc": Q(160000, 1500000), "usart_rt": Q(160000, 1500000), "usart_dec": Q(160000, 1000000)},
        "rule": "frames as in C08; USART bodies as in C04 (valid encodings and their single-fault mutations make up half of the stream); distinct by input text; non-trivial = frame with at least one data byte, or body of at least 5 bytes",
        "explanation": "theorems toUsart_layout, toUsart_transparent, fromUsart_toUsart, decodeBody_encode + real to_usart_frame / from_usart_frame (through the real cobs crate); encode side and round trip: a differing line on a well-formed frame is a concrete C09 violation",
    },
    "C10": {
        "groups": {"to_frames_enum": Q(600, 28673), "to_frames": Q(24000, 120000)},
        "rule": "packets as in C02; frames compared one by one (digest beyond 4 frames) with the chunk-based specification; distinct by input text; non-trivial = multi-frame packet",
        "explanation": "theorem toFrames_eq_spec (model of to_frames = independent chunking fragmenter for every payload up to 28672 bytes) + real to_frames; a differing line is a concrete C10 violation",
    },
    "C11": {
        "groups": {"ev_ref": Q(16000, 160000), "ev_enc": Q(240000, 2000000), "ev_dec": Q(240000, 1500000)},
        "rule": "events as in C03 (encode side, padding bytes masked); decoder packets as in C05, of which the ones the reference decoder accepts are compared by value; distinct by input text; non-trivial = kind with at least one field",
        "explanation": "theorems encode_eq_layout, refDecode_agrees, refDecode_encode + real to_packet vs the field-table layout and real try_from_packet vs the reference decoder",
    },
    "C12": {
        "groups": {"ev_xenc": Q(120000, 1000000), "ev_cross": Q(240000, 2000000)},
        "rule": "valid encodings of all kinds, with mutated bytes / event codes / flags / random payloads, shown to all 16 real decoders; distinct by input text; non-trivial = payload of at least 2 bytes",
        "explanation": "theorems decode_unique, cross_reject + acceptance mask of the 16 real decoders compared with the model's; oracle on the implementation's answer: at most one bit set",
    },
    "C13": {
        "groups": {"sched_usart_enum": Q(14076, 14076), "sched_serial_enum": Q(14076, 14076), "sched_can_enum": Q(126, 126), "loop_usart": Q(20000, 120000), "loop_serial": Q(20000, 120000), "loop_can": Q(20000, 120000)},
        "rule": "1..5 packets (single/multi-frame, both flags, boundary addresses, once per 50 cases up to the 4096-frame limit) sent through the real sender into a recording device, replayed into the real receiver with 'no data yet' inserted by a seeded schedule; distinct by input text; non-trivial = at least 2 packets or a multi-frame packet",
        "explanation": "theorems can_transparent, usart_transparent, serial_transparent (every packet list, every schedule) + real send -> real receive; compared: wire digest, every poll result, device items left after every call; oracle on the implementation's answer: emissions are exactly the packets sent",
    },
    "C14": {
        "groups": {"tx_usart_enum": Q(603, 603), "tx_can_enum": Q(45, 45), "tx_serial_enum": Q(2160, 2160), "tx_usart": Q(32000, 200000), "tx_can": Q(32000, 200000), "tx_serial": Q(32000, 200000)},
        "rule": "packets of 0..2000 bytes and the limits x device response scripts (USART would-block bursts; CAN would-block and displaced-frame reports; serial port short writes of 1..6 bytes, all-one-byte writes, zero writes, interrupted, I/O errors, flush failure); distinct by input text; non-trivial = multi-frame packet or a non-empty response script",
        "explanation": "theorems usartSend_exact, canSend_exact, serialSend_exact, writeAll_spec + real try_send_packet against scripted devices; device log (digest), flush count and result compared; a differing line is a concrete C14 violation (model = wire image)",
    },
    "C15": {"groups": {"proto_enum": Q(55987, 55987), "proto_send_enum": Q(74898, 74898), "proto": Q(160000, 1500000)}, "rule": None, "explanation": "theorems dispatch_spec, tick_spec (+ reach_sorted for the handler table), and tick_spec proved about Protocol::tick as translated from src/protocol.rs on every run (C15_src_tick_*) + the real Protocol over a scripted Interface"},
    "C16": {"groups": {"proto_send_enum": Q(74898, 74898), "proto": Q(160000, 1500000), "psend_usart": Q(20000, 200000), "psend_can": Q(20000, 200000), "psend_serial": Q(20000, 200000)}, "rule": None, "explanation": "theorems sendPacket_spec, nested_send_spec (re-entrant sends from callbacks), send_result, and the routing specification proved about Protocol::send_packet as translated from src/protocol.rs on every run (C16_src_sendPacket_*) + the real Protocol over a scripted Interface"},
    "C17": {"groups": {"proto_enum": Q(55987, 55987), "proto": Q(160000, 1500000)}, "rule": None, "explanation": "theorems nextId_fresh, add_spec, remove_spec, reach_sorted, removed_never_called(_nested), and nextId_fresh / remove_spec proved about get_next_handler_id / remove_packet_handler as translated from src/protocol.rs on every run (C17_src_*) + the real Protocol over a scripted Interface"},
    "C18": {"groups": {"proto_xchg_enum": Q(44816, 44816), "proto": Q(160000, 1500000)}, "rule": None, "explanation": "theorems exchangeLoop_first/timeout/error, exchangeAllLoop_spec, exchange_prefix + the real exchange_packet / exchange_packets instantiated for all 16 event types"},
    "C19": {
        "groups": {"rxh_usart": Q(60000, 400000), "rxh_serial": Q(60000, 400000), "rxh_can": Q(60000, 400000)},
        "rule": "the hostile histories of C06, with a counting global allocator read after every poll; distinct by input text; non-trivial = at least 3 polls returned something other than 'nothing'",
        "explanation": "PARTIAL: theorems C19_usart_history / C19_serial_history / C19_can_history (for EVERY device history, after every try_get_packet call: body buffer below the announced length <= 255, frames held <= frames announced <= 4096, the state of a fresh receiver right after a delivery or a reassembly error, no panic) bound the model's bookkeeping; the allocator itself is measured against it: live bytes after each call <= base + 1024 + 64 * frames announced (model state), = base when the model holds nothing, = base right after every delivered packet (evaluated on the implementation's own numbers even when its results differ from the model's), absolute ceiling inside a call",
        "assumptions": ["heap behaviour is measured at run time, not proved: allocator, Vec growth policy and temporaries are outside the model"],
    },
}
_proto_rule = "operation histories (add own/capture-all handler whose callback transmits 0..2 packets to other devices, remove live or random id, tick, send, exchange / exchange-all of a random kind) over a scripted Interface (rx queue of packets / nothing / link error, tx queue of ok / error), own address random, 0 or 0xffff; compared per operation: result, rx items left, log segment (handler calls with token and packet, transmissions, wait marks); distinct by input text; non-trivial = at least 3 operations"
for k in ("C15", "C16", "C17", "C18"):
    PROPS[k]["rule"] = _proto_rule


ENUM_SCOPES = {
    "proto_xchg_enum": "every receive queue of at most 4 items over {nothing, link error, ack for the device / for another device / for everybody, another event for the device, an error-flagged ack for the device} x {exchange_packet, exchange_packets} x {capture-all or not} x {request to another device, to the device itself} on devices 0x0005 and 0xffff, followed by a draining exchange and a tick (44816 histories)",
    "proto_send_enum": "every history of at most 5 operations over {register a plain handler, register a capture-all handler whose callback sends to the device's own address (re-entrant loop-back), register a handler whose callback sends to another device, remove id 0, tick, send to own / other / broadcast address} on devices 0x0005 and 0xffff, the link delivering own / foreign / broadcast packets in turn and failing every second transmission (74898 histories)",
    "proto_enum": "every history of at most 6 operations over {register own-address handler, register capture-all handler, remove id 0 / 1 / 2, tick} on a device whose link alternately delivers a packet for it and a packet for another device (55987 histories)",
    "sched_usart_enum": "three packet sets (1, 2 and 1+3+1 frames): every placement of one or two would-blocks before any byte of the wire, and a would-block before every byte (14076 index points incl. fillers)",
    "sched_serial_enum": "the same packet sets on the serial port: one or two time-outs before any link frame / interrupts before any other byte, and all positions at once",
    "sched_can_enum": "the same packet sets on CAN: one or two would-blocks before any frame, and before every frame",
    "tx_usart_enum": "the same packet sets: a burst of 1..3 would-blocks before every byte index of the wire",
    "tx_can_enum": "the same packet sets: a displaced-frame report, a would-block, or two would-blocks then a displaced report at every transmit index",
    "tx_serial_enum": "the same packet sets: an I/O error, a zero-length write, an interrupt or a short write of 1..3 bytes at each of the first 40 write calls, the other calls accepting 1, 2 or all bytes; flush failing on the second send in one case of seven",
    "frag_rt_enum": "every payload length 0..=299 (thorough: 0..=28672, the 4096-frame limit) through each of the three frame paths",
    "to_frames_enum": "every payload length 0..=599 (thorough: 0..=28672)",
    "usart_dec_enum": "every byte string of length 0..=2 (65793; thorough: 0..=3, 16843009) as a USART body",
    "can_dec_enum": "every combination of 3 flag bits x 6 reserved identifier bits x id nibble x dlc 0..=8 (73728; thorough: x 8 address classes, 589824) as an extended CAN data frame",
    "builder_enum": "every sequence of at most 3 (thorough: 4) frames over a 24-frame alphabet (exact next frames, every single-attribute deviation, ids 0..4/255..258/4095, lengths 0/1/3/8) after a start frame announcing 3 resp. 258 frames (28850; thorough 692402)",
}


def nontrivial(group, inp, obs):
    t = inp.split(" ")
    g = group[:-5] if group.endswith("_enum") else group
    if g == "corpus":
        return True
    if g in ("usart_dec",):
        return len(t[1]) >= 4
    if g in ("can_dec",):
        return not t[1].endswith(":0:-")
    if g in ("usart_enc", "usart_rt", "can_enc", "can_rt"):
        return not t[1].endswith(":0:0000000000000000")
    if g in ("to_frames", "frag_rt", "frt_can", "frt_usart"):
        m = re.search(r"x(\d+)$", t[-1])
        return bool(m) and int(m.group(1)) > 8
    if g == "builder":
        return t[2].count(",") >= 1
    if g in ("ev_enc", "ev_rt", "ev_xenc", "ev_ref"):
        return not t[1].startswith("k5")
    if g in ("ev_dec",):
        return len(t[2].split(":")[-1]) >= 4
    if g in ("ev_cross",):
        return len(t[1].split(":")[-1]) >= 4
    if g.startswith("rx"):
        return sum(1 for x in obs.split(",") if not x.startswith("nothing")) >= 3
    if g.startswith("psend"):
        return t[4] != "-"
    if g.startswith("sched"):
        return "+" in t[2] or len(t[2].split(":")[-1]) > 16
    if g.startswith("tx"):
        m = re.search(r"x(\d+)$", t[2])
        return (bool(m) and int(m.group(1)) > 8) or t[3] != "-"
    if g.startswith("loop"):
        m = re.search(r"x(\d+)$", t[2].split("+")[0])
        return "+" in t[2] or (bool(m) and int(m.group(1)) > 8)
    if g.startswith("e2e"):
        return t[4] != "-" and "+" in t[5]
    if g.startswith("proto"):
        return t[4].count(";") >= 2
    return True
