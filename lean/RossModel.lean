import RossModel.Basic
import RossModel.Cobs
import RossModel.Frame
import RossModel.Packet
import RossModel.Event
import RossModel.Link
import RossModel.Protocol
