import RossModel.Lemmas.Builder
import RossModel.Lemmas.Accept
/-!
# C07 — Reassembly accepts only the exact next frame of the same packet

A packet under reassembly accepts a frame only if it is a non-start, multi-frame continuation of the
same error type and device address whose id is exactly the next expected one and below the announced
frame count; every other frame is rejected with a reason that truly applies and leaves the
reassembly state unchanged. The packet can be completed only when exactly the announced number of
frames has been accepted (otherwise missing frames are reported, repeatably), its payload is the in-
order concatenation of the accepted frames' payloads, and accepted plus remaining frames always
equals the announced count without underflow.

Quantifier: for all start frames (announcing 1..=4096 frames, multi or single, either error type) followed by
all finite sequences of arbitrary well-formed frames: right/wrong device, right/wrong error type,
start/continuation, single/multi, ids before, at and after the expected position and the announced
count, any data length

The theorems below are the formal statements over the model; their proofs are in `RossModel/Lemmas`.
-/
namespace Ross.Props
open Ross

/-- C07: a frame is accepted exactly when it is the non-start, multi-frame continuation of the same
error type and device with the next id, below the announced count; then it is appended, nothing else changes -/
theorem C07_addFrame_ok_iff (b : Builder) (f : Frame) (b' : Builder) :
    b.addFrame f = .ok b' ↔ b.Accepts f ∧ b' = { b with frames := b.frames ++ [f] } :=
  Ross.addFrame_ok_iff b f b'

/-- C07: every rejection carries a reason that truly applies (the builder is a value: a rejected
frame leaves it as it was) -/
theorem C07_addFrame_err_applies (b : Builder) (f : Frame) (r : BErr) (h : b.addFrame f = .err r) : Applies r b f :=
  Ross.addFrame_err_applies b f r h

theorem C07_new_spec (f : Frame) (hid : f.fid < 4096) :
    (f.start = true ∧ f.idLast = true →
      Builder.new f = .ok { isError := !f.notError, expected := f.fid + 1, addr := f.addr, frames := [f] }) ∧
    (¬ (f.start = true ∧ f.idLast = true) → Builder.new f = .err .outOfOrder) :=
  Ross.new_spec f hid

/-- C07: accepted + remaining = announced, without underflow -/
theorem C07_framesLeft_spec (b : Builder) (hb : b.Inv) :
    b.framesLeft = .ok (b.expected - b.frames.length) ∧ b.frameCount = b.frames.length ∧
    b.frames.length + (b.expected - b.frames.length) = b.expected :=
  Ross.framesLeft_spec b hb

/-- C07: the packet can be completed exactly when the announced number of frames was accepted;
otherwise missing frames are reported (and `build` is a pure function: asking again gives the same) -/
theorem C07_build_spec (b : Builder) (hw : ∀ f ∈ b.frames, f.dataLen ≤ f.data.length) :
    (b.frames.length ≠ b.expected → b.build = .err .missingFrames) ∧
    (b.frames.length = b.expected → ∃ d, payloads b.frames = some d ∧
        b.build = .ok { isError := b.isError, addr := b.addr, data := d }) :=
  Ross.build_spec b hw

theorem C07_offer_inv (b : Builder) (hb : b.Inv) (fs : List Frame) : (fs.foldl Builder.offer b).Inv :=
  Ross.offer_inv b hb fs

/-- the executable predicate with which the driver validates the rejection reason reported by the real
`PacketBuilder` decides exactly `Applies` -/
theorem C07_appliesB_iff (r : BErr) (b : Builder) (f : Frame) : appliesB r b f = true ↔ Applies r b f :=
  Ross.appliesB_iff r b f

/-! non-vacuity (kernel-evaluated): a two-frame packet of device 7 — the exact next frame completes it, the same frame
from device 8 or with id 2 is rejected with a reason that applies, and before completion `build` reports missing frames -/
example :
    let f0 : Frame := { notError := true, start := true, multi := true, idLast := true, fid := 1, addr := 7, dataLen := 8, data := [1, 1, 2, 3, 4, 5, 6, 7] }
    let f1 : Frame := { notError := true, start := false, multi := true, idLast := false, fid := 1, addr := 7, dataLen := 3, data := [1, 8, 9, 0, 0, 0, 0, 0] }
    (match Builder.new f0 with
      | .ok b => (b.build, b.addFrame { f1 with addr := 8 }, b.addFrame { f1 with fid := 2 },
          (match b.addFrame f1 with | .ok b' => (b'.framesLeft, b'.build) | _ => (.panic, .panic)))
      | _ => (.panic, .panic, .panic, .panic, .panic)) =
    (.err .missingFrames, .err .deviceAddressMismatch, .err .outOfOrder, .ok 0, .ok ⟨false, 7, [1, 2, 3, 4, 5, 6, 7, 8, 9]⟩) := by
  decide

end Ross.Props
