import RossModel.Lemmas.SourceTie
import RossModel.Lemmas.Event
import RossModel.Lemmas.SourceDecoders
/-!
# C12 — A packet is never ambiguous between event kinds

For any packet at most one of the sixteen event kinds decodes it successfully, and a packet produced
by encoding an event of one kind is rejected by every other kind's decoder. A receiver that tries
decoders in turn therefore classifies every packet uniquely.

Quantifier: for all packets (all 65536 leading codes, all payload lengths, both error flags, arbitrary remaining
bytes) against all 16 decoders, and for all encoded events of each kind against the 15 other
decoders

The theorems below are the formal statements over the model; their proofs are in `RossModel/Lemmas`.
-/
namespace Ross.Props
open Ross

/-- C12: at most one kind decodes a packet -/
theorem C12_decode_unique (k₁ k₂ : Kind) (p : Packet) (e₁ e₂ : Event)
    (h₁ : decode k₁ p = .ok e₁) (h₂ : decode k₂ p = .ok e₂) : k₁ = k₂ :=
  Ross.decode_unique k₁ k₂ p e₁ e₂ h₁ h₂

/-- C12: the encoding of an event of one kind is rejected by every other kind's decoder -/
theorem C12_cross_reject (pad : Pad) (e : Event) (k : Kind) (hk : k ≠ e.kind) (hwf : e.WF) :
    ∃ r, decode k (encode pad e) = .err r :=
  Ross.cross_reject pad e k hk hwf

/-! ### tie to the source text (constants regenerated from /repo by `bin/extract` on every run) -/
/-- the sixteen code constants are the model's pairwise distinct codes and every decoder checks its own -/
theorem C12_src_codes : (SrcTie.codesOk && SrcTie.constUseOk) = true := by decide

/-! non-vacuity (kernel-evaluated): the encoding of an ack event is rejected by the data decoder and vice versa -/
example : decode .data (encode ⟨0, 0, 0⟩ (.ack 1 2)) = .err .wrongSize ∧
    decode .ack (encode ⟨0, 0, 0⟩ (.data 1 2 0 [])) = .err .wrongSize ∧
    decode .buttonReleased (encode ⟨0, 0, 0⟩ (.buttonPressed 1 2 3)) = .err .wrongEventType := by decide

/-- **C12 about the decoders as they read now** (`Src.decodeK`: `try_from_packet` translated from `src/event/*.rs` on
every run, fifteen kinds; the message decoder is the model's): no packet is accepted by the decoders of two
kinds, and the encoding of an event of one kind is rejected by every other kind's translated decoder -/
theorem C12_src_decode_unique (k₁ k₂ : Kind) (p : Packet) (e₁ e₂ : Event)
    (h₁ : Src.decodeK k₁ p = .ok e₁) (h₂ : Src.decodeK k₂ p = .ok e₂) : k₁ = k₂ :=
  Ross.decode_unique k₁ k₂ p e₁ e₂ (((Ross.src_decodeK_agrees k₁ p).1 e₁).1 h₁) (((Ross.src_decodeK_agrees k₂ p).1 e₂).1 h₂)

theorem C12_src_cross_reject (pad : Pad) (e : Event) (k : Kind) (hk : k ≠ e.kind) (hwf : e.WF) :
    ∃ r, Src.decodeK k (encode pad e) = .err r := by
  obtain ⟨r, hr⟩ := Ross.cross_reject pad e k hk hwf
  have ha := Ross.src_decodeK_agrees k (encode pad e)
  cases hs : Src.decodeK k (encode pad e) with
  | ok v => have := (ha.1 v).1 hs; rw [hr] at this; cases this
  | err r' => exact ⟨r', rfl⟩
  | panic => exact absurd hs ha.2

end Ross.Props
