import RossModel.Lemmas.TwoNodes
import RossModel.Lemmas.SerialEnd
import RossModel.Lemmas.EndToEnd
/-!
# C01 — End-to-end: sent events reach the peer's handlers intact, once, in order

When one node sends any sequence of events to a peer over a CAN, USART or serial-port link, the
peer's registered packet handlers observe exactly the events addressed to it or to broadcast, each
exactly once and in the order sent, and each decodes to a value equal to the one sent. Events
addressed to other devices reach only handlers registered to capture all addresses, and nothing is
delivered that was not sent.

Quantifier: for all finite sequences of events of all 16 kinds with arbitrary field values and payload sizes
(single-frame and multi-frame packets), all pairs of node addresses including the broadcast address,
all three link types, every mix of own-address/capture-all handlers, and every interleaving of data
arrival with the receiver's polling

The theorems below are the formal statements over the model; their proofs are in `RossModel/Lemmas`.
-/
namespace Ross.Props
open Ross

/-- C01 (USART link): for every event sequence, every pair of addresses, every handler table and every
placement of would-blocks between any two bytes: the peer's handlers are called, in order, exactly with
the packets of the routed events — all handlers when the event is for the peer or for everybody,
otherwise the capture-all handlers — and each such packet decodes to the event that was sent -/
theorem C01_end_to_end_usart (pad : Pad) (es : List Event) (hwf : ∀ e ∈ es, e.WF ∧ (encode pad e).data.length ≤ 28672)
    (a b : UInt16) (handlers : List (Nat × Handler)) (s : List ByteItem)
    (hs : s.filter notWouldBlock =
      (wireOf (((es.filter (routed a)).map (encode pad)).flatMap usartBodies)).map .byte) :
    let rx : Proto := ⟨b, handlers, (usartPolls LinkSt.init s).map toRx, [], []⟩
    callsOf rx.tickAll.log =
      (es.filter (routed a)).flatMap (fun e =>
        (recipients handlers (e.receiver == b || e.receiver == BROADCAST)).map fun h => (h.token, encode pad e)) ∧
    ∀ e ∈ es, decode e.kind (encode pad e) = .ok e :=
  Ross.end_to_end_usart pad es hwf a b handlers s hs

/-- C01 (CAN link) -/
theorem C01_end_to_end_can (pad : Pad) (es : List Event) (hwf : ∀ e ∈ es, e.WF ∧ (encode pad e).data.length ≤ 28672)
    (a b : UInt16) (handlers : List (Nat × Handler)) (s : List CanItem)
    (hs : s.filter isCanFrame = (((es.filter (routed a)).map (encode pad)).flatMap canWire).map .frame) :
    let rx : Proto := ⟨b, handlers, (canPolls none s).map toRx, [], []⟩
    callsOf rx.tickAll.log =
      (es.filter (routed a)).flatMap (fun e =>
        (recipients handlers (e.receiver == b || e.receiver == BROADCAST)).map fun h => (h.token, encode pad e)) ∧
    ∀ e ∈ es, decode e.kind (encode pad e) = .ok e :=
  Ross.end_to_end_can pad es hwf a b handlers s hs

/-- C01 (serial-port link): time-outs anywhere between link frames -/
theorem C01_end_to_end_serial (pad : Pad) (es : List Event) (hwf : ∀ e ∈ es, e.WF ∧ (encode pad e).data.length ≤ 28672)
    (a b : UInt16) (handlers : List (Nat × Handler)) (segs : List Seg)
    (hnoise : ∀ sg ∈ segs, ∀ bs, sg = .noise bs → ∀ b ∈ bs, b ≠ 0)
    (hs : Seg.bodies segs = ((es.filter (routed a)).map (encode pad)).flatMap usartBodies) :
    let rx : Proto := ⟨b, handlers, (serialPolls LinkSt.init (segs.flatMap Seg.items)).map toRx, [], []⟩
    callsOf rx.tickAll.log =
      (es.filter (routed a)).flatMap (fun e =>
        (recipients handlers (e.receiver == b || e.receiver == BROADCAST)).map fun h => (h.token, encode pad e)) ∧
    ∀ e ∈ es, decode e.kind (encode pad e) = .ok e :=
  Ross.end_to_end_serial pad es hwf a b handlers segs hnoise hs

/-- **both nodes in the model (USART):** node `a` (any handler table whose callbacks transmit nothing) calls `send_packet`
for every event of `es` on a USART whose device may answer would-block any number of times before any byte (`rs`); node
`b` polls a device that delivers exactly the bytes node `a`'s device accepted, with "no data yet" anywhere (`s`). Then
`b`'s handlers are called, in order, exactly once per event not addressed to `a` itself — all handlers when the event
is for `b` or for everybody, the capture-all handlers otherwise — each with a packet that decodes to the event sent.
(Composition of C16, C14, C13, C15 and C03; nothing about the wire is assumed.) -/
theorem C01_two_nodes_usart (pad : Pad) (es : List Event) (hwf : ∀ e ∈ es, e.WF ∧ (encode pad e).data.length ≤ 28672)
    (nodeA : Proto) (hA : ∀ h ∈ nodeA.handlers, h.2.sends = []) (hlog : nodeA.log = [])
    (rs : List WResp) (hrs : ∀ r ∈ rs, r ≠ .error)
    (b : UInt16) (handlers : List (Nat × Handler)) (s : List ByteItem)
    (hs : s.filter notWouldBlock =
      (usartSendMany ((txOf (nodeA.sendAll (es.map (encode pad))).log).map usartBodies) rs).map .byte) :
    let rx : Proto := ⟨b, handlers, (usartPolls LinkSt.init s).map toRx, [], []⟩
    callsOf rx.tickAll.log =
      (es.filter (routed nodeA.addr)).flatMap (fun e =>
        (recipients handlers (e.receiver == b || e.receiver == BROADCAST)).map fun h => (h.token, encode pad e)) ∧
    ∀ e ∈ es, decode e.kind (encode pad e) = .ok e :=
  Ross.two_nodes_usart pad es hwf nodeA hA hlog rs hrs b handlers s hs

/-- **both nodes in the model (CAN):** as `C01_two_nodes_usart`, over CAN controllers whose mailboxes may be busy any
number of times but never report a displaced frame -/
theorem C01_two_nodes_can (pad : Pad) (es : List Event) (hwf : ∀ e ∈ es, e.WF ∧ (encode pad e).data.length ≤ 28672)
    (nodeA : Proto) (hA : ∀ h ∈ nodeA.handlers, h.2.sends = []) (hlog : nodeA.log = [])
    (rs : List TxResp) (hrs : ∀ r ∈ rs, r ≠ .displaced)
    (b : UInt16) (handlers : List (Nat × Handler)) (s : List CanItem)
    (hs : s.filter isCanFrame =
      (canSendMany ((txOf (nodeA.sendAll (es.map (encode pad))).log).map canWire) rs).1.map .frame) :
    let rx : Proto := ⟨b, handlers, (canPolls none s).map toRx, [], []⟩
    callsOf rx.tickAll.log =
      (es.filter (routed nodeA.addr)).flatMap (fun e =>
        (recipients handlers (e.receiver == b || e.receiver == BROADCAST)).map fun h => (h.token, encode pad e)) ∧
    ∀ e ∈ es, decode e.kind (encode pad e) = .ok e :=
  Ross.two_nodes_can pad es hwf nodeA hA hlog rs hrs b handlers s hs

/-- **both nodes in the model (serial port):** node `a` sends every event over a serial port that may accept any positive
number of bytes per write and interrupt any write, and whose flushes succeed; node `b` reads a port that delivers exactly
the bytes `a`'s port accepted (`bytesOf`), timing out any number of times between link frames (`segs`: gaps and whole
link frames of at most 255 bytes; which frames they are is *derived* from the byte stream, `wireOf_inj`) -/
theorem C01_two_nodes_serial (pad : Pad) (es : List Event) (hwf : ∀ e ∈ es, e.WF ∧ (encode pad e).data.length ≤ 28672)
    (nodeA : Proto) (hA : ∀ h ∈ nodeA.handlers, h.2.sends = []) (hlog : nodeA.log = [])
    (rs : List IoResp) (fls : List FlushResp) (hrs : ∀ r ∈ rs, r.isFault = false) (hfl : ∀ f ∈ fls, f = .ok)
    (b : UInt16) (handlers : List (Nat × Handler)) (segs : List Seg)
    (hn : ∀ sg ∈ segs, sg.isNoise = false) (hok : ∀ sg ∈ segs, sg.Ok)
    (hs : bytesOf (segs.flatMap Seg.items) =
      (serialSendMany ((txOf (nodeA.sendAll (es.map (encode pad))).log).map usartBodies) rs fls).1) :
    let rx : Proto := ⟨b, handlers, (serialPolls LinkSt.init (segs.flatMap Seg.items)).map toRx, [], []⟩
    callsOf rx.tickAll.log =
      (es.filter (routed nodeA.addr)).flatMap (fun e =>
        (recipients handlers (e.receiver == b || e.receiver == BROADCAST)).map fun h => (h.token, encode pad e)) ∧
    ∀ e ∈ es, decode e.kind (encode pad e) = .ok e :=
  Ross.two_nodes_serial pad es hwf nodeA hA hlog rs fls hrs hfl b handlers segs hn hok hs

/-! non-vacuity (kernel-evaluated): node 5 sends an ack to node 9, an ack to itself (looped back, not transmitted) and a
data event to everybody over USART; node 9, with an own-address handler (token 0) and a capture-all handler (token 1),
receives exactly the two routed events, each once per handler, in order -/
example :
    let es : List Event := [.ack 9 5, .ack 5 5, .data 0xffff 5 2 [1, 2]]
    let pad : Pad := ⟨0, 0, 0⟩
    let s : List ByteItem := (wireOf (List.flatMap usartBodies (List.map (encode pad) (List.filter (routed 5) es)))).map .byte
    let rx : Proto := { addr := 9, handlers := [(0, ⟨0, false, []⟩), (1, ⟨1, true, []⟩)],
                        rxQueue := List.map toRx (usartPolls LinkSt.init s), txQueue := [], log := [] }
    (callsOf rx.tickAll.log).map (fun c => (c.1, c.2.data)) =
      [(0, [0, 3, 0, 5]), (1, [0, 3, 0, 5]), (0, [0, 4, 0, 5, 0, 2, 1, 2]), (1, [0, 4, 0, 5, 0, 2, 1, 2])] := by decide

end Ross.Props
