import RossModel.Lemmas.SourceTie
import RossModel.Lemmas.Reassemble
/-!
# C02 — Fragmentation followed by in-order reassembly returns the original packet

Splitting any packet (payload 0..=28672 bytes) into frames and feeding those frames in order into a fresh
reassembler yields, exactly when the last frame has been added and not earlier, a packet equal to the
original — directly, through the CAN codec, and through the USART codec.
-/
namespace Ross.Props
open Ross

/-- the three frame paths -/
inductive Path where | direct | can | usart

/-- a frame sent over a path: handed over, or encoded and decoded again -/
def Path.carry : Path → Frame → Res FErr Frame
  | .direct, f => .ok f
  | .can, f => match toCan f with | .ok c => fromCan c | .err e => .err e | .panic => .panic
  | .usart, f => match toUsart f with | .ok u => fromUsart u | .err e => .err e | .panic => .panic

/-- every path is the identity on every frame of every fragmentation -/
theorem C02_path_identity (path : Path) (p : Packet) (hn : p.data.length ≤ 28672) :
    ∀ f ∈ specFrames p, path.carry f = .ok f := by
  intro f hf
  cases path with
  | direct => rfl
  | can => exact fromCan_toCan f (specFrames_canCanonical p hn f hf)
  | usart =>
    obtain ⟨hwf, hk⟩ := specFrames_wf p hn f hf
    simp only [Path.carry, toUsart_layout f hwf, ← usartBody_eq]
    rw [fromUsart_toUsart f hwf, normKind_of_consistent f hk]

/-- C02: `to_frames` succeeds and is the documented fragmentation; after every non-empty prefix of it the
reassembler is in a good state, reports how many frames are left (zero exactly after the last), refuses to
build before the last frame and builds the original packet after it -/
theorem C02_reassembly (p : Packet) (hn : p.data.length ≤ 28672) :
    p.toFrames = .ok (specFrames p) ∧
    ∀ k, 1 ≤ k → k ≤ (specFrames p).length →
      ∃ b, feedPrefix (specFrames p) k = .ok b ∧
        b.framesLeft = .ok ((specFrames p).length - k) ∧
        (k < (specFrames p).length → b.build = .err .missingFrames) ∧
        (k = (specFrames p).length → b.build = .ok p) :=
  ⟨toFrames_eq_spec p hn, fun k h1 h2 => reassembly_exact p hn k h1 h2⟩

/-- non-vacuity: a 3-frame error packet satisfies the hypothesis and is reassembled, by evaluation -/
example :
    (let p : Packet := ⟨true, 0xfffe, (List.range 20).map UInt8.ofNat⟩
     match p.toFrames with
     | .ok fs => decide (p.data.length ≤ 28672) && fs.length == 3 && (reassemble fs == .ok p)
     | _ => false) = true := by decide

/-! ### tie to the source text (constants regenerated from /repo by `bin/extract` on every run) -/
/-- the model's `toFrames` is `to_frames` with the constants that stand in `src/packet.rs` (lengths 0..=30) -/
theorem C02_src_fragmentation : SrcTie.fragOk = true := by decide

end Ross.Props
