import RossModel.Lemmas.Packet
/-!
# C10 — Fragmentation produces exactly the documented frame sequence

A packet of at most 8 bytes becomes exactly one non-multi start frame carrying the payload
unchanged; a larger packet of n bytes becomes ceil(n/7) multi-frame frames, each holding one id byte
followed by the next up-to-7 payload bytes in order, all full except possibly the last, the first
marked as start and announcing the index of the last frame, the others carrying their own index 1,
2, .... Every frame carries the packet's device address and error type, has at most 8 data bytes
with the unused ones zero, and its first data byte equals the low byte of its frame id.

Quantifier: for all packets with either error flag, any address and payloads of 0..=28672 bytes, compared frame-
by-frame with an independently written fragmenter

The theorems below are the formal statements over the model; their proofs are in `RossModel/Lemmas`.
-/
namespace Ross.Props
open Ross

theorem C10_toFrames_eq_spec (p : Packet) (hn : p.data.length ≤ 28672) : p.toFrames = .ok (specFrames p) :=
  Ross.toFrames_eq_spec p hn

end Ross.Props
