import RossModel.Lemmas.SourceTie
import RossModel.Lemmas.Run
import RossModel.Lemmas.Transparent
import RossModel.Lemmas.Packet
/-!
# C10 — Fragmentation produces exactly the documented frame sequence

A packet of at most 8 bytes becomes exactly one non-multi start frame carrying the payload
unchanged; a larger packet of n bytes becomes ceil(n/7) multi-frame frames, each holding one id byte
followed by the next up-to-7 payload bytes in order, all full except possibly the last, the first
marked as start and announcing the index of the last frame, the others carrying their own index 1,
2, .... Every frame carries the packet's device address and error type, has at most 8 data bytes
with the unused ones zero, and its first data byte equals the low byte of its frame id.

Quantifier: for all packets with either error flag, any address and payloads of 0..=28672 bytes, compared frame-
by-frame with an independently written fragmenter

The theorems below are the formal statements over the model; their proofs are in `RossModel/Lemmas`.
-/
namespace Ross.Props
open Ross

theorem C10_toFrames_eq_spec (p : Packet) (hn : p.data.length ≤ 28672) : p.toFrames = .ok (specFrames p) :=
  Ross.toFrames_eq_spec p hn

/-- number of frames: one for payloads of at most 8 bytes, otherwise ⌈n / 7⌉ -/
theorem C10_count (p : Packet) :
    (specFrames p).length = if p.data.length ≤ 8 then 1 else (p.data.length + 6) / 7 := by
  unfold specFrames; split
  · rfl
  · simp [chunks7_length]

/-- every frame is well-formed (at most 8 data bytes, 12-bit id, unused bytes zero) and its id kind follows the
start flag -/
theorem C10_frames_wf (p : Packet) (hn : p.data.length ≤ 28672) : ∀ f ∈ specFrames p, f.WF ∧ f.idLast = f.start :=
  Ross.specFrames_wf p hn

/-- exactly the first frame is marked as start -/
theorem C10_first_is_start (p : Packet) :
    ∃ f0 rest, specFrames p = f0 :: rest ∧ f0.start = true ∧ ∀ f ∈ rest, f.start = false :=
  Ross.specFrames_shape p

/-- non-vacuity: the repository's 14-byte test vector becomes its two golden frames -/
example : (⟨false, 0x0101, [1, 2, 3, 4, 5, 6, 7, 8, 9, 10, 11, 12, 13, 14]⟩ : Packet).toFrames = .ok
    [{ notError := true, start := true, multi := true, idLast := true, fid := 1, addr := 0x0101, dataLen := 8,
       data := [1, 1, 2, 3, 4, 5, 6, 7] },
     { notError := true, start := false, multi := true, idLast := false, fid := 1, addr := 0x0101, dataLen := 8,
       data := [1, 8, 9, 10, 11, 12, 13, 14] }] := by decide

/-! ### tie to the source text (constants regenerated from /repo by `bin/extract` on every run) -/
/-- the model's `toFrames` is `to_frames` with the constants that stand in `src/packet.rs` (lengths 0..=30) -/
theorem C10_src_fragmentation : SrcTie.fragOk = true := by decide

/-- on the frames of a multi-frame packet the first data byte is the low byte of the frame id, a non-multi frame is the
single start frame with id 0, and the id kind follows the start flag -/
theorem C10_first_byte_is_id (p : Packet) (hn : p.data.length ≤ 28672) :
    ∀ f ∈ specFrames p,
      if f.multi then 1 ≤ f.dataLen ∧ f.idLast = f.start ∧ (f.data.headD 0).toNat = f.fid % 256
      else f.start = true ∧ f.idLast = true ∧ f.fid = 0 :=
  fun f hf => (Ross.specFrames_canCanonical p hn f hf).2

end Ross.Props
