import RossModel.Lemmas.Can
import RossModel.Lemmas.FrameWF
/-!
# C04 — Frame decoders never crash on untrusted input; accepted frames are well-formed

Decoding any byte string as a USART frame, or any CAN frame (standard or extended id, data or
remote, any length) as a ROSS frame, returns either a frame or an error value; it never panics,
overflows or indexes out of bounds. Every frame it returns is well-formed - at most 8 data bytes,
frame id below 4096, unused data bytes zero - so it can be re-encoded for either link and fed to
reassembly without failure.

Quantifier: for all byte strings of length 0..=255 (every length the link framing can announce), in particular
malformed COBS (embedded zero bytes, truncated runs), bodies whose declared data length exceeds 8 or
disagrees with the actual length; and for all CAN frames constructible through the driver API

The theorems below are the formal statements over the model; their proofs are in `RossModel/Lemmas`.
-/
namespace Ross.Props
open Ross

/-- C04: decoding any byte string as a USART frame never panics -/
theorem C04_fromUsart_no_panic (enc : List UInt8) : fromUsart enc ≠ .panic :=
  Ross.fromUsart_no_panic enc

/-- C04: every frame the USART decoder returns is well-formed -/
theorem C04_fromUsart_wf (enc : List UInt8) (f : Frame) (h : fromUsart enc = .ok f) : f.WF :=
  Ross.fromUsart_wf enc f h

theorem C04_fromCan_no_panic (c : CanFrame) (h : c.Constructible) : fromCan c ≠ .panic :=
  Ross.fromCan_no_panic c h

/-- C04: every frame the CAN decoder returns is well-formed -/
theorem C04_fromCan_wf (c : CanFrame) (hc : c.Constructible) (f : Frame) (h : fromCan c = .ok f) : f.WF :=
  Ross.fromCan_wf c hc f h

end Ross.Props
