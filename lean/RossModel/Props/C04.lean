import RossModel.Lemmas.SourceTie
import RossModel.Lemmas.Usart
import RossModel.Lemmas.Builder
import RossModel.Lemmas.Can
import RossModel.Lemmas.FrameWF
import RossModel.Lemmas.SourceFrame
/-!
# C04 — Frame decoders never crash on untrusted input; accepted frames are well-formed

Decoding any byte string as a USART frame, or any CAN frame (standard or extended id, data or
remote, any length) as a ROSS frame, returns either a frame or an error value; it never panics,
overflows or indexes out of bounds. Every frame it returns is well-formed - at most 8 data bytes,
frame id below 4096, unused data bytes zero - so it can be re-encoded for either link and fed to
reassembly without failure.

Quantifier: for all byte strings of length 0..=255 (every length the link framing can announce), in particular
malformed COBS (embedded zero bytes, truncated runs), bodies whose declared data length exceeds 8 or
disagrees with the actual length; and for all CAN frames constructible through the driver API

The theorems below are the formal statements over the model; their proofs are in `RossModel/Lemmas`.
-/
namespace Ross.Props
open Ross

/-- C04: decoding any byte string as a USART frame never panics -/
theorem C04_fromUsart_no_panic (enc : List UInt8) : fromUsart enc ≠ .panic :=
  Ross.fromUsart_no_panic enc

/-- C04: every frame the USART decoder returns is well-formed -/
theorem C04_fromUsart_wf (enc : List UInt8) (f : Frame) (h : fromUsart enc = .ok f) : f.WF :=
  Ross.fromUsart_wf enc f h

theorem C04_fromCan_no_panic (c : CanFrame) (h : c.Constructible) : fromCan c ≠ .panic :=
  Ross.fromCan_no_panic c h

/-- C04: every frame the CAN decoder returns is well-formed -/
theorem C04_fromCan_wf (c : CanFrame) (hc : c.Constructible) (f : Frame) (h : fromCan c = .ok f) : f.WF :=
  Ross.fromCan_wf c hc f h

/-- a well-formed frame can be re-encoded for either link and fed to reassembly without failure: both encoders
return a value, starting a packet with it returns a builder or an error value, and so does adding it to any builder -/
theorem C04_wf_usable (f : Frame) (h : f.WF) (b : Builder) :
    (∃ c, toCan f = .ok c) ∧ (∃ u, toUsart f = .ok u) ∧ Builder.new f ≠ .panic ∧ b.addFrame f ≠ .panic := by
  refine ⟨⟨_, toCan_layout f h⟩, ⟨_, toUsart_layout f h⟩, ?_, addFrame_no_panic b f⟩
  by_cases hc : f.start = true ∧ f.idLast = true
  · rw [(new_spec f h.2.2.1).1 hc]; simp
  · rw [(new_spec f h.2.2.1).2 hc]; simp

/-- non-vacuity: the malformed bodies that crashed the pinned decoder are rejected with an error value -/
example : fromUsart [0x05, 0x01] = .err .cobsError ∧ fromUsart [0x01, 0x00, 0x01] = .err .cobsError ∧
    fromUsart [] = .err .cobsError := by decide

/-! ### tie to the source text (constants regenerated from /repo by `bin/extract` on every run) -/
/-- the size check and header unpacking of `from_usart_frame`, and the field extraction of `from_bxcan_frame`, use the
constants the model uses -/
theorem C04_src_decoders : (SrcTie.fromUsartOk && SrcTie.fromCanOk) = true := by decide

/-- **C04 about the USART frame decoder as it reads now.** `Src.fromUsart` is the model's COBS decoder followed by
`Src.fromUsartBody`, the part of `Frame::from_usart_frame` after the COBS decoding translated statement by statement from
`src/frame.rs` on every run (the size test with its short-circuit `||`, every `frame[k]` as a read that panics when `k`
is not an index, shifts and masks with Rust's widths, the array fill loop). For **every** byte string: it does not panic,
and every frame it returns is well-formed. -/
theorem C04_src_fromUsart_total (enc : List UInt8) :
    Src.fromUsart enc ≠ .panic ∧ ∀ f, Src.fromUsart enc = .ok f → f.WF := by
  have ha := Ross.src_fromUsart_agrees enc
  exact ⟨fun hp => Ross.fromUsart_no_panic enc (ha.2.1 hp), fun f h => Ross.fromUsart_wf enc f ((ha.1 f).1 h)⟩

/-- **C04 about the CAN frame decoder as it reads now.** `Src.fromCan` is `Frame::from_bxcan_frame` translated statement by
statement from `src/frame.rs` on every run over the model's view of a `bxcan::Frame`. On every frame constructible through
the driver API it does not panic, and every frame it returns is well-formed. -/
theorem C04_src_fromCan_total (c : CanFrame) (hc : c.Constructible) :
    Src.fromCan c ≠ .panic ∧ ∀ f, Src.fromCan c = .ok f → f.WF := by
  have ha := Ross.src_fromCan_agrees c
  exact ⟨fun hp => Ross.fromCan_no_panic c hc (ha.2.1 hp), fun f h => Ross.fromCan_wf c hc f ((ha.1 f).1 h)⟩

end Ross.Props
