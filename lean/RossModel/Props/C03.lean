import RossModel.Lemmas.SourceTie
import RossModel.Lemmas.Event
import RossModel.Lemmas.SourceEncoders
/-!
# C03 — Every event survives encode -> decode unchanged

For every event kind, encoding an event value into a packet and decoding that packet as the same
kind returns a value equal to the original. The packet produced is a non-error packet addressed to
the event's receiver (broadcast for the programmer and configurator hello announcements); for data
events this is required whenever the declared length equals the payload length.

Quantifier: for all values of all 16 event kinds: every 16-bit address and code, every 8-bit index, every 32-bit
size/duration, every variant and component of brightness, relay and message values, data payloads of
0..=65535 bytes

The theorems below are the formal statements over the model; their proofs are in `RossModel/Lemmas`.
-/
namespace Ross.Props
open Ross

theorem C03_decode_encode (pad : Pad) (e : Event) (h : e.WF) : decode e.kind (encode pad e) = .ok e :=
  Ross.decode_encode pad e h

/-- the packet produced is a non-error packet addressed to the event's receiver -/
theorem C03_encode_head (pad : Pad) (e : Event) : (encode pad e).isError = false ∧ (encode pad e).addr = e.receiver := by
  cases e <;> exact ⟨rfl, rfl⟩

/-- the two hello announcements are broadcast -/
theorem C03_hello_broadcast (p : UInt16) :
    (Event.programmerHello p).receiver = BROADCAST ∧ Event.configuratorHello.receiver = BROADCAST := ⟨rfl, rfl⟩

/-- the only well-formedness condition: a data event declares the length of its payload -/
theorem C03_wf_iff (e : Event) : e.WF ↔ ∀ r t n d, e = .data r t n d → n.toNat = d.length := by
  cases e <;> simp [Event.WF]
  constructor
  · intro h r t n d _ _ hn hd; subst hn hd; exact h
  · intro h; exact h _ _ _ _ rfl rfl rfl rfl

/-- non-vacuity: a data event with a 3-byte payload, a message and an animate event round-trip (evaluated by the kernel) -/
example : decode .data (encode ⟨0, 0, 0⟩ (.data 0x0102 0x0304 3 [7, 8, 9])) = .ok (.data 0x0102 0x0304 3 [7, 8, 9]) := by decide
example : decode .message (encode ⟨1, 2, 3⟩ (.message 1 2 3 (.u16 0xbeef))) = .ok (.message 1 2 3 (.u16 0xbeef)) := by decide

/-! ### tie to the source text (constants regenerated from /repo by `bin/extract` on every run) -/
/-- every encoder writes and every decoder checks the code constant of its own kind; the sub-codec tags are the model's -/
theorem C03_src_codecs : (SrcTie.constUseOk && SrcTie.bcmTagsOk && SrcTie.relayTagsOk) = true := by decide

/-- the model's `encode` writes, for every kind, the fields every `to_packet` in `src/event/*.rs` writes — in the source's
order and widths, with the source's device-address field — and the model's `decode` reads every field from the offset
and width every `try_from_packet` reads it from (both translated from the source text in terms of the Rust field names) -/
theorem C03_src_layouts : (SrcTie.encoderLayoutOk && SrcTie.decoderLayoutOk) = true := by decide

/-- **C03 about both sides as they read now.** `Src.encodeE` is what `to_packet` of the event's kind writes, read from
`src/event/*.rs` on every run (fifteen kinds; only emitted when every `data.…` call, every struct field, the device
address and the error flag are accounted for; the message encoder is the model's), `Src.decodeK` is `try_from_packet`
translated statement by statement (fifteen kinds; the message decoder is the model's). For every well-formed event the
translated decoder of its kind returns exactly that event from what the encoder wrote. -/
theorem C03_src_roundtrip (pad : Pad) (e : Event) (h : e.WF) : Src.decodeK e.kind (Src.encodeE pad e) = .ok e :=
  Ross.src_roundtrip pad e h

end Ross.Props
