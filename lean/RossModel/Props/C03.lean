import RossModel.Lemmas.Event
/-!
# C03 — Every event survives encode -> decode unchanged

For every event kind, encoding an event value into a packet and decoding that packet as the same
kind returns a value equal to the original. The packet produced is a non-error packet addressed to
the event's receiver (broadcast for the programmer and configurator hello announcements); for data
events this is required whenever the declared length equals the payload length.

Quantifier: for all values of all 16 event kinds: every 16-bit address and code, every 8-bit index, every 32-bit
size/duration, every variant and component of brightness, relay and message values, data payloads of
0..=65535 bytes

The theorems below are the formal statements over the model; their proofs are in `RossModel/Lemmas`.
-/
namespace Ross.Props
open Ross

theorem C03_decode_encode (pad : Pad) (e : Event) (h : e.WF) : decode e.kind (encode pad e) = .ok e :=
  Ross.decode_encode pad e h

end Ross.Props
