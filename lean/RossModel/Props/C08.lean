import RossModel.Lemmas.SourceTie
import RossModel.Lemmas.Can
import RossModel.Lemmas.Transparent
import RossModel.Lemmas.SourceFrame
/-!
# C08 — CAN frame codec follows the identifier bit layout and round-trips

Encoding a well-formed frame yields an extended-id CAN data frame whose identifier carries not-error
in bit 28, start in bit 27, multi-frame in bit 26, the frame id's high nibble in bits 19..16, the
device address in bits 15..0 and zeros elsewhere, and whose payload is exactly the frame's data
bytes. Decoding inverts this for every extended identifier and payload (ignoring reserved bits; for
multi-frame frames the id's low byte is the first data byte, and a non-multi frame is always a
single-frame packet start); standard-id frames, remote frames and multi-frame frames without data
are rejected. Consequently decode(encode(f)) = f for every frame that fragmentation can produce.

Quantifier: for all 2^29 extended identifiers x data lengths 0..=8 x payload bytes on the decode side; for all
well-formed frames (both id kinds, ids 0..=4095, any address, flags, data) on the encode side; plus
standard-id and remote frames of every length

The theorems below are the formal statements over the model; their proofs are in `RossModel/Lemmas`.
-/
namespace Ross.Props
open Ross

/-- C08 encode side: the identifier and payload are exactly the published layout -/
theorem C08_toCan_layout (f : Frame) (h : f.WF) :
    toCan f = .ok { ext := true, id := layoutId f, rtr := false, dlc := f.dataLen, data := f.data.take f.dataLen } :=
  Ross.toCan_layout f h

/-- field extraction stated arithmetically, for every identifier -/
theorem C08_id_fields (id : Nat) :
    (((id >>> 28) &&& 1) != 0) = decide (id / 2^28 % 2 = 1) ∧
    (((id >>> 27) &&& 1) != 0) = decide (id / 2^27 % 2 = 1) ∧
    (((id >>> 26) &&& 1) != 0) = decide (id / 2^26 % 2 = 1) ∧
    ((id >>> 16) &&& 0xf) = id / 2^16 % 16 ∧
    ((id >>> 0) &&& 0xffff) = id % 65536 :=
  Ross.id_fields id

theorem C08_fromCan_toCan (f : Frame) (h : f.CanCanonical) :
    (match toCan f with | .ok c => fromCan c | .err e => .err e | .panic => .panic) = .ok f :=
  Ross.fromCan_toCan f h

/-- C08: every frame that fragmentation produces survives the CAN codec unchanged -/
theorem C08_specFrames_canCanonical (p : Packet) (hn : p.data.length ≤ 28672) : ∀ f ∈ specFrames p, f.CanCanonical :=
  Ross.specFrames_canCanonical p hn

/-- standard-id frames, remote frames and multi-frame frames without data are rejected -/
theorem C08_fromCan_rejects (c : CanFrame) :
    (c.ext = false → fromCan c = .err .frameIsStandard) ∧
    (c.ext = true → c.rtr = true → fromCan c = .err .frameIsRemote) ∧
    (c.ext = true → c.rtr = false → c.id / 2^26 % 2 = 1 → c.dlc = 0 → fromCan c = .err .frameIdMissing) := by
  obtain ⟨_, _, i3, _, _⟩ := id_fields c.id
  refine ⟨?_, ?_, ?_⟩
  · intro h; simp [fromCan, h]
  · intro h1 h2; simp [fromCan, h1, h2]
  · intro h1 h2 h3 h4
    have hm : (((c.id >>> 26) &&& 0x0001) != 0) = true := by rw [i3]; simp [h3]
    unfold fromCan
    simp only [h1, h2, h4, Bool.not_true, Bool.false_eq_true, if_false, hm, if_true]
    simp

/-! ### tie to the source text (constants regenerated from /repo by `bin/extract` on every run) -/
/-- `to_bxcan_frame` / `from_bxcan_frame` in `src/frame.rs` use the shifts and masks the model uses (both id arms) -/
theorem C08_src_can_codec : (SrcTie.toCanOk && SrcTie.fromCanOk) = true := by decide

/-! non-vacuity (kernel-evaluated): the repository's own test vector -/
example :
    let f : Frame := { notError := true, start := false, multi := true, idLast := false, fid := 0x555, addr := 0x5555, dataLen := 8, data := [0x55, 0x55, 0x55, 0x55, 0x55, 0x55, 0x55, 0x55] }
    let c : CanFrame := { ext := true, id := 0x14055555, rtr := false, dlc := 8, data := [0x55, 0x55, 0x55, 0x55, 0x55, 0x55, 0x55, 0x55] }
    toCan f = .ok c ∧ fromCan c = .ok f := by decide

/-- **C08's decoding clause about the decoder as it reads now**: the translated `from_bxcan_frame` (`Src.fromCan`, translated
from `src/frame.rs` on every run) inverts the encoding of every frame in canonical form -/
theorem C08_src_fromCan_toCan (f : Frame) (h : f.CanCanonical) :
    (match toCan f with | .ok c => Src.fromCan c | .err e => .err e | .panic => .panic) = .ok f := by
  have := Ross.fromCan_toCan f h
  cases hc : toCan f with
  | ok c => rw [hc] at this; exact ((Ross.src_fromCan_agrees c).1 f).2 this
  | err e => rw [hc] at this; exact this
  | panic => rw [hc] at this; exact this

/-- **C08's encode side about the encoder as it reads now**: `Src.toCan` is `Frame::to_bxcan_frame` translated statement by
statement from `src/frame.rs` on every run (the identifier accumulated with `id |= …`, the `match` on the kind of the frame
id, the construction of the `bxcan` frame with its two `unwrap`s and its slice). For every well-formed frame it returns
exactly the published layout: extended identifier `layoutId f`, data frame, `dlc` = data length, the first `dlc` data bytes. -/
theorem C08_src_toCan_layout (f : Frame) (h : f.WF) :
    Src.toCan f = .ok { ext := true, id := layoutId f, rtr := false, dlc := f.dataLen, data := f.data.take f.dataLen } := by
  rw [Ross.src_toCan_eq]; exact Ross.toCan_layout f h

/-- the round trip through both translated sides: `Src.fromCan` inverts `Src.toCan` on every frame in canonical form -/
theorem C08_src_roundtrip (f : Frame) (h : f.CanCanonical) :
    (match Src.toCan f with | .ok c => Src.fromCan c | .err e => .err e | .panic => .panic) = .ok f := by
  rw [Ross.src_toCan_eq]; exact C08_src_fromCan_toCan f h

/-! non-vacuity (kernel-evaluated on the **translated** codec): the identifier of a multi-frame start frame announcing 0x123
frames from device 0x4567, and its decoding -/
example :
    let f : Frame := ⟨true, true, true, true, 0x123, 0x4567, 3, [0x23, 7, 8, 0, 0, 0, 0, 0]⟩
    Src.toCan f = .ok ⟨true, 0x1c014567, false, 3, [0x23, 7, 8]⟩ ∧ Src.fromCan ⟨true, 0x1c014567, false, 3, [0x23, 7, 8]⟩ = .ok f := by decide

end Ross.Props
