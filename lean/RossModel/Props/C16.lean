import RossModel.Lemmas.SourceTie
import RossModel.Lemmas.Protocol
/-!
# C16 — Sending routes a packet to local handlers or to the link, as addressed

Sending a packet addressed to the device's own address delivers it exactly once to every local
handler and does not put it on the link, except that a device whose own address is the broadcast
address also transmits it; sending any other packet transmits it exactly once, unmodified, and
invokes no local handler. Link send errors are returned to the caller.

Quantifier: for all own addresses (including 0xffff), all destination addresses (own, broadcast, other), all
packets, all handler tables and all link send outcomes

The theorems below are the formal statements over the model; their proofs are in `RossModel/Lemmas`.
-/
namespace Ross.Props
open Ross

/-- C16: routing of `send_packet` -/
theorem C16_sendPacket_spec (s : Proto) (p : Packet) :
    (p.addr = s.addr → s.addr ≠ BROADCAST →
        (s.sendPacket p).2 = .ok () ∧
        callsOf (s.sendPacket p).1.log = callsOf s.log ++ (s.handlers.map fun x => (x.2.token, p)) ∧
        txOf (s.sendPacket p).1.log = txOf s.log ++ (s.handlers.map Prod.snd).flatMap (·.sends)) ∧
    (p.addr = s.addr → s.addr = BROADCAST →
        callsOf (s.sendPacket p).1.log = callsOf s.log ++ (s.handlers.map fun x => (x.2.token, p)) ∧
        txOf (s.sendPacket p).1.log = txOf s.log ++ (s.handlers.map Prod.snd).flatMap (·.sends) ++ [p]) ∧
    (p.addr ≠ s.addr →
        callsOf (s.sendPacket p).1.log = callsOf s.log ∧ txOf (s.sendPacket p).1.log = txOf s.log ++ [p]) :=
  Ross.sendPacket_spec s p

/-! ### tie to the source text (constants regenerated from /repo by `bin/extract` on every run) -/
/-- `BROADCAST_ADDRESS` in `src/protocol.rs` is the model's -/
theorem C16_src_broadcast : SrcTie.broadcastOk = true := by decide

/-- link send errors are returned to the caller: sending a packet addressed to another device returns exactly what the
link answered to its transmission (`Ok`, or the interface error) -/
theorem C16_send_result (s : Proto) (p : Packet) (h : (p.addr == s.addr) = false) :
    (s.sendPacket p).2 = nextTxAnswer s.txQueue :=
  Ross.sendPacket_result s p h

end Ross.Props
