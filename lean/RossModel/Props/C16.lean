import RossModel.Lemmas.SourceTie
import RossModel.Lemmas.Protocol
/-!
# C16 — Sending routes a packet to local handlers or to the link, as addressed

Sending a packet addressed to the device's own address delivers it exactly once to every local
handler and does not put it on the link, except that a device whose own address is the broadcast
address also transmits it; sending any other packet transmits it exactly once, unmodified, and
invokes no local handler. Link send errors are returned to the caller.

Quantifier: for all own addresses (including 0xffff), all destination addresses (own, broadcast, other), all
packets, all handler tables and all link send outcomes

The theorems below are the formal statements over the model; their proofs are in `RossModel/Lemmas`.
-/
namespace Ross.Props
open Ross

/-- C16: routing of `send_packet` -/
theorem C16_sendPacket_spec (s : Proto) (p : Packet) :
    (p.addr = s.addr → s.addr ≠ BROADCAST →
        (s.sendPacket p).2 = .ok () ∧
        callsOf (s.sendPacket p).1.log = callsOf s.log ++ (s.handlers.map fun x => (x.2.token, p)) ∧
        txOf (s.sendPacket p).1.log = txOf s.log ++ (s.handlers.map Prod.snd).flatMap (fun h => wireSends s.addr h.sends)) ∧
    (p.addr = s.addr → s.addr = BROADCAST →
        callsOf (s.sendPacket p).1.log = callsOf s.log ++ (s.handlers.map fun x => (x.2.token, p)) ∧
        txOf (s.sendPacket p).1.log = txOf s.log ++ (s.handlers.map Prod.snd).flatMap (fun h => wireSends s.addr h.sends) ++ [p]) ∧
    (p.addr ≠ s.addr →
        callsOf (s.sendPacket p).1.log = callsOf s.log ∧ txOf (s.sendPacket p).1.log = txOf s.log ++ [p]) :=
  Ross.sendPacket_spec s p

/-- C16 for a send issued from inside a handler's callback (through the `&mut Protocol` the callback is handed): the
same routing. A packet for the device itself is delivered — re-entrantly, while the outer delivery is still in progress —
exactly once to every registered handler in id order and stays off the link, unless the device's own address is the
broadcast address, in which case it is also transmitted; any other packet is transmitted once, unmodified, and no handler
is invoked. The outer delivery (`callsOf`) and the registry are not disturbed -/
theorem C16_nested_send_spec (s : Proto) (q : Packet) :
    Proto.SameCfg s (s.nestedSend q) ∧ callsOf (s.nestedSend q).log = callsOf s.log ∧
    (q.addr = s.addr → s.addr ≠ BROADCAST →
        ncallsOf (s.nestedSend q).log = ncallsOf s.log ++ (s.handlers.map fun x => (x.2.token, q)) ∧
        txOf (s.nestedSend q).log = txOf s.log) ∧
    (q.addr = s.addr → s.addr = BROADCAST →
        ncallsOf (s.nestedSend q).log = ncallsOf s.log ++ (s.handlers.map fun x => (x.2.token, q)) ∧
        txOf (s.nestedSend q).log = txOf s.log ++ [q]) ∧
    (q.addr ≠ s.addr →
        ncallsOf (s.nestedSend q).log = ncallsOf s.log ∧ txOf (s.nestedSend q).log = txOf s.log ++ [q]) :=
  Ross.nestedSend_spec s q

/-- C16, whole send: what the callbacks of the handlers a packet is delivered to send in turn is routed by the same rule
— looped back to every handler (`loopCalls`) or put on the link (`wireSends`) -/
theorem C16_send_own_nested (s : Proto) (p : Packet) (h : p.addr = s.addr) :
    ncallsOf (s.sendPacket p).1.log = ncallsOf s.log ++
      (s.handlers.map Prod.snd).flatMap (fun h => loopCalls s.addr s.handlers h.sends) :=
  Ross.sendPacket_ncalls s p h

/-! non-vacuity (kernel-evaluated): device 5 with two handlers; handler 0's callback sends one packet to the device itself
and one to device 6. Sending a packet to device 5 invokes handler 0, whose loop-back reaches both handlers re-entrantly
and whose other packet goes out; then handler 1 is invoked; nothing else is transmitted -/
example :
    ((((Proto.init 5 [] []).add ⟨0, false, [⟨false, 5, [0xaa]⟩, ⟨false, 6, [0xbb]⟩]⟩).1.add ⟨1, true, []⟩).1.sendPacket ⟨false, 5, [2]⟩).1.log =
    [.call 0 ⟨false, 5, [2]⟩, .ncall 0 ⟨false, 5, [0xaa]⟩, .ncall 1 ⟨false, 5, [0xaa]⟩, .tx ⟨false, 6, [0xbb]⟩ true,
     .call 1 ⟨false, 5, [2]⟩] := by
  decide

/-! ### tie to the source text (constants regenerated from /repo by `bin/extract` on every run) -/
/-- `BROADCAST_ADDRESS` in `src/protocol.rs` is the model's -/
theorem C16_src_broadcast : SrcTie.broadcastOk = true := by decide

/-- link send errors are returned to the caller: sending a packet addressed to another device returns exactly what the
link answered to its transmission (`Ok`, or the interface error) -/
theorem C16_send_result (s : Proto) (p : Packet) (h : (p.addr == s.addr) = false) :
    (s.sendPacket p).2 = nextTxAnswer s.txQueue :=
  Ross.sendPacket_result s p h

end Ross.Props
