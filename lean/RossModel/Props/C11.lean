import RossModel.Lemmas.SourceTie
import RossModel.Lemmas.Event
import RossModel.Lemmas.Layout
import RossModel.Lemmas.SourceEncoders
/-!
# C11 — Event encodings are the published byte layouts, and decoders read exactly those

Every event encoder emits exactly the published layout: the kind's 16-bit big-endian event code from
the fixed table 0x0000-0x000f, then the kind's fields in their documented order and big-endian
widths, with the documented sub-encodings for brightness, relay and message values; the packet is
addressed to the receiver. Every decoder extracts from any such packet the same field values as an
independently written reference decoder, so nodes built from different revisions interoperate.

Quantifier: for all values of all 16 event kinds on the encode side, and for all packets the reference decoder
accepts on the decode side

The theorems below are the formal statements over the model; their proofs are in `RossModel/Lemmas`.
-/
namespace Ross.Props
open Ross Ross.Spec

/-- C11 (encode side): for every event and every padding, the encoder's packet is the published one -/
theorem C11_encode_eq_layout (pad : Pad) (e : Event) : encode pad e = specEncode pad e :=
  Ross.encode_eq_layout pad e

/-- C11 (decode side): on every packet the reference decoder accepts, the decoder extracts the same
field values -/
theorem C11_refDecode_agrees (k : Kind) (p : Packet) (e : Event) (h : refDecode k p = some e) : decode k p = .ok e :=
  Ross.refDecode_agrees k p e h

/-- C11: the reference decoder accepts every published encoding (so agreement with it is not vacuous) -/
theorem C11_refDecode_encode (pad : Pad) (e : Event) (h : e.WF) : refDecode e.kind (encode pad e) = some e :=
  Ross.refDecode_encode pad e h

/-- the event codes are the published table `0x0000 … 0x000f`, pairwise distinct -/
theorem C11_codes (k : Kind) : k.code = publishedCode k := Ross.code_published k

theorem C11_codes_injective (k₁ k₂ : Kind) (h : k₁.code = k₂.code) : k₁ = k₂ := Ross.code_injective k₁ k₂ h

/-! ### tie to the source text (constants regenerated from /repo by `bin/extract` on every run) -/
/-- the event code constants of `src/event/event_code.rs` are the model's (= the published table, `C11_codes`), every
encoder and decoder uses the constant of its own kind, and the brightness / relay tags are the model's -/
theorem C11_src_tables : (SrcTie.codesOk && SrcTie.constUseOk && SrcTie.bcmTagsOk && SrcTie.relayTagsOk) = true := by decide

/-- field layouts: what every `to_packet` writes (order, widths, device-address field) and what every `try_from_packet`
reads (offsets, widths), translated from the source text, is what the model's `encode` / `decode` do — and the model's
`encode` is the published layout (`C11_encode_eq_layout`) -/
theorem C11_src_layouts : (SrcTie.encoderLayoutOk && SrcTie.decoderLayoutOk) = true := by decide

/-! non-vacuity (kernel-evaluated): the published encoding of an ack event, and a data event read by the reference decoder -/
example : specEncode ⟨0, 0, 0⟩ (.ack 0xabab 0x0123) = ⟨false, 0xabab, [0x00, 0x03, 0x01, 0x23]⟩ := by decide
example : refDecode .data ⟨false, 0x0101, [0, 4, 0x12, 0x34, 0, 2, 7, 8]⟩ = some (.data 0x0101 0x1234 2 [7, 8]) := by decide

/-- **C11 about the encoders as they read now**: what `to_packet` writes (read from the sources on every run, `Src.encodeE`)
is, for every event, the model's `encode` — which `C11_encode_eq_layout` shows to be the published byte layout -/
theorem C11_src_encoders_eq (pad : Pad) (e : Event) : Src.encodeE pad e = encode pad e :=
  Ross.src_encodeE_eq pad e

end Ross.Props
