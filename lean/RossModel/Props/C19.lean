import RossModel.Lemmas.Memory
/-!
# C19 — Receiver memory is bounded by the packet in flight and freed at boundaries

However long and however hostile the incoming traffic, the heap memory held by a link receiver
between polls is bounded by a constant plus a term proportional to the announced size of the single
packet currently being reassembled (itself at most 4096 frames), and a raw link frame buffer never
grows beyond the 255 bytes its length byte can announce. Immediately after a packet has been
delivered or a reassembly error reported, the receiver holds no more memory than a freshly created
one.

Quantifier: for all finite traffic histories as in C06 and C13, of any length, measured after every poll

The theorems below are the formal statements over the model; their proofs are in `RossModel/Lemmas`.
-/
namespace Ross.Props
open Ross

/-- one well-formed frame: the invariant is kept; a delivery or a reassembly error leaves no builder;
nothing panics -/
theorem C19_rxStep_inv (st : RxSt) (f : Frame) (hf : f.WF) (h : RxInv st) :
    RxInv (rxStep st f).1 ∧
    (∀ p, (rxStep st f).2 = some (.packet p) → (rxStep st f).1 = none) ∧
    (∀ e, (rxStep st f).2 = some (.builderErr e) → (rxStep st f).1 = none) ∧
    (rxStep st f).2 ≠ some .panic :=
  Ross.rxStep_inv st f hf h

theorem C19_run_inv (st : RxSt) (rs : List (Res FErr Frame)) (hr : ∀ r ∈ rs, (∀ f, r = .ok f → f.WF) ∧ r ≠ .panic)
    (h : RxInv st) : RxInv (run st rs).2 ∧ Emit.panic ∉ (run st rs).1 :=
  Ross.run_inv st rs hr h

theorem C19_usartStep_phase (st : LinkSt) (it : ByteItem) (h : PhaseInv st.ph) : PhaseInv (usartStep st it).1.ph :=
  Ross.usartStep_phase st it h

end Ross.Props
