import RossModel.Lemmas.Memory
import RossModel.Lemmas.MemoryTrace
import RossModel.Lemmas.SourceReceivers
/-!
# C19 — Receiver memory is bounded by the packet in flight and freed at boundaries

However long and however hostile the incoming traffic, the heap memory held by a link receiver
between polls is bounded by a constant plus a term proportional to the announced size of the single
packet currently being reassembled (itself at most 4096 frames), and a raw link frame buffer never
grows beyond the 255 bytes its length byte can announce. Immediately after a packet has been
delivered or a reassembly error reported, the receiver holds no more memory than a freshly created
one.

Quantifier: for all finite traffic histories as in C06 and C13, of any length, measured after every poll

The theorems below are the formal statements over the model; their proofs are in `RossModel/Lemmas`.
-/
namespace Ross.Props
open Ross

/-- one well-formed frame: the invariant is kept; a delivery or a reassembly error leaves no builder;
nothing panics -/
theorem C19_rxStep_inv (st : RxSt) (f : Frame) (hf : f.WF) (h : RxInv st) :
    RxInv (rxStep st f).1 ∧
    (∀ p, (rxStep st f).2 = some (.packet p) → (rxStep st f).1 = none) ∧
    (∀ e, (rxStep st f).2 = some (.builderErr e) → (rxStep st f).1 = none) ∧
    (rxStep st f).2 ≠ some .panic :=
  Ross.rxStep_inv st f hf h

theorem C19_run_inv (st : RxSt) (rs : List (Res FErr Frame)) (hr : ∀ r ∈ rs, (∀ f, r = .ok f → f.WF) ∧ r ≠ .panic)
    (h : RxInv st) : RxInv (run st rs).2 ∧ Emit.panic ∉ (run st rs).1 :=
  Ross.run_inv st rs hr h

theorem C19_usartStep_phase (st : LinkSt) (it : ByteItem) (h : PhaseInv st.ph) : PhaseInv (usartStep st it).1.ph :=
  Ross.usartStep_phase st it h

/-- C19 over **every** USART device history (any bytes, would-blocks and read errors in any order): after every
`try_get_packet` call the body buffer is shorter than the length byte announced, the builder holds at most the
announced number of frames, after a delivered packet or a reported reassembly error the receiver is in the state
of a freshly created one, and no call panics. (`bytePollsSt` lists, per call, the result, the number of device
items left unread and the state left; its projection to the results is `usartPolls`, `bytePollsSt_outs`.) -/
theorem C19_usart_history (s : List ByteItem) : ∀ x ∈ bytePollsSt usartStep LinkSt.init s, CallOk x :=
  Ross.usartPollsSt_ok s

/-- the same for every serial-port history (bytes, timeouts, interrupts, end of file, I/O errors) -/
theorem C19_serial_history (s : List ByteItem) : ∀ x ∈ serialPollsSt LinkSt.init s, CallOk x :=
  Ross.serialPollsSt_ok s

/-- the same for every CAN history of driver-constructible frames, would-blocks and overruns -/
theorem C19_can_history (s : List CanItem) (hs : ∀ it ∈ s, canItemOk it) : ∀ x ∈ canPollsSt none s, CanCallOk x :=
  Ross.canPollsSt_ok none s hs trivial

/-- the numbers: body buffer below the announced length (at most 255), frames held at most the frames announced
(at most 4096) -/
theorem C19_bounds (st : LinkSt) (h : LinkInv st) :
    (∀ len acc, st.ph = .body len acc → acc.length < len ∧ len ≤ 255) ∧
    held st.rx ≤ announced st.rx ∧ announced st.rx ≤ 4096 :=
  Ross.LinkInv.bounds st h

/-- non-vacuity: a two-frame packet interrupted after its first frame leaves a builder holding one of two
announced frames; the invariant is a real constraint on that state -/
example :
    (bytePollsSt usartStep LinkSt.init
      ([0x00, 0x0e, 0x03, 0xe0, 0x01, 0x0b, 0x07, 0x08, 0x01, 0x0a, 0x4e, 0x33, 0x42, 0x56, 0xec, 0x3c].map .byte)).map
      (fun x => (x.1, x.2.1, held x.2.2.rx, announced x.2.2.rx)) = [(.nothing, 0, 1, 2)] := by decide

/-- **Source tie (control flow).** C19's frame-level clause about the receivers' bookkeeping **as translated from
`src/interface/{can,usart,serial}.rs` on every run**: given one well-formed frame, each of the three keeps the invariant
(frames held ≤ frames announced ≤ 4096), holds no builder right after a delivered packet or a reported reassembly
error, and does not panic -/
theorem C19_src_accept_inv (st : RxSt) (f : Frame) (hf : f.WF) (h : RxInv st) :
    ∀ step ∈ [Src.canAccept, Src.usartAccept, Src.serialAccept],
    RxInv (step st (.ok f)).1 ∧
    (∀ p, (step st (.ok f)).2 = some (.packet p) → (step st (.ok f)).1 = none) ∧
    (∀ e, (step st (.ok f)).2 = some (.builderErr e) → (step st (.ok f)).1 = none) ∧
    (step st (.ok f)).2 ≠ some .panic := by
  intro step hstep
  have hs : step st (.ok f) = rxStep st f := by
    simp only [List.mem_cons, List.not_mem_nil, or_false] at hstep
    rcases hstep with rfl | rfl | rfl
    · exact Ross.src_canAccept_eq st (.ok f)
    · exact Ross.src_usartAccept_eq st (.ok f)
    · exact Ross.src_serialAccept_eq st (.ok f)
  rw [hs]
  exact Ross.rxStep_inv st f hf h

/-- an undecodable link frame leaves the translated receivers' state as it was (and is reported) -/
theorem C19_src_accept_frame_error (st : RxSt) (e : FErr) :
    ∀ step ∈ [Src.canAccept, Src.usartAccept, Src.serialAccept], step st (.err e) = (st, some (.frameErr e)) := by
  intro step hstep
  simp only [List.mem_cons, List.not_mem_nil, or_false] at hstep
  rcases hstep with rfl | rfl | rfl
  · exact Ross.src_canAccept_eq st (.err e)
  · exact Ross.src_usartAccept_eq st (.err e)
  · exact Ross.src_serialAccept_eq st (.err e)

end Ross.Props
