import RossModel.Lemmas.SourceTie
import RossModel.Lemmas.FrameWF
import RossModel.Lemmas.Cobs
import RossModel.Lemmas.Usart
import RossModel.Lemmas.SourceFrame
/-!
# C09 — USART frame codec follows the byte layout, round-trips, emits no delimiter byte

Encoding a well-formed frame for USART yields the COBS encoding of a 5-byte header (flags in bits
7..5 and the frame id's high nibble in bits 3..0, id low byte, device address big-endian, data
length) followed by the data bytes; the result contains no zero byte and is at most 14 bytes, so it
is transparent to the zero-delimited, length-prefixed link framing. Decoding inverts it -
decode(encode(f)) = f for every well-formed frame, with the id interpreted as last-frame id or
current id according to the start flag - and a body whose size disagrees with its declared data
length is rejected.

Quantifier: for all well-formed frames: all 8 flag combinations, both id kinds, ids 0..=4095, all 65536
addresses, data lengths 0..=8, arbitrary data bytes including 0x00 and 0xff runs; and on the decode
side all valid COBS encodings of all 5..=13-byte bodies

The theorems below are the formal statements over the model; their proofs are in `RossModel/Lemmas`.
-/
namespace Ross.Props
open Ross

/-- C09: `to_usart_frame` emits the COBS encoding of header ++ data, it never panics on a well-formed frame -/
theorem C09_toUsart_layout (f : Frame) (h : f.WF) :
    toUsart f = .ok (Cobs.encode (header f ++ f.data.take f.dataLen)) :=
  Ross.toUsart_layout f h

/-- C09: no delimiter byte, at most 14 bytes -/
theorem C09_toUsart_transparent (f : Frame) (h : f.WF) :
    ∃ u, toUsart f = .ok u ∧ (∀ b ∈ u, b ≠ 0) ∧ u.length = f.dataLen + 6 ∧ u.length ≤ 14 :=
  Ross.toUsart_transparent f h

/-- C09: decoding inverts encoding on every well-formed frame -/
theorem C09_fromUsart_toUsart (f : Frame) (h : f.WF) :
    fromUsart (Cobs.encode (usartBody f)) = .ok (normKind f) :=
  Ross.fromUsart_toUsart f h

/-- the COBS layer round-trips every body the encoder can be given (1..=253 bytes; frames are 5..=13) -/
theorem C09_decodeBody_encode (xs : List UInt8) (hne : xs ≠ []) (hlen : xs.length < 254) :
    Cobs.decodeBody (Cobs.encode xs) = some xs :=
  Cobs.decodeBody_encode xs hne hlen

/-- decoding any byte string: a COBS error, a size error, or — exactly when the decoded body has a 5-byte header
whose length byte is at most 8 and equals the number of bytes that follow — the frame unpacked from it; in particular a
body whose size disagrees with its declared data length is rejected -/
theorem C09_fromUsart_cases (enc : List UInt8) :
    fromUsart enc = .err .cobsError ∨ fromUsart enc = .err .wrongSize ∨
    ∃ fr c0 c1 c2 c3 c4 rest, Cobs.decodeBody enc = some fr ∧ fr = c0 :: c1 :: c2 :: c3 :: c4 :: rest ∧
      rest.length = c4.toNat ∧ c4.toNat ≤ 8 ∧ fromUsart enc = .ok (unpack c0 c1 c2 c3 c4 rest) :=
  Ross.fromUsart_cases enc

/-- non-vacuity: the repository's own test vector -/
example : fromUsart [0x0e, 0xa5, 0x55, 0x55, 0x55, 0x08, 0x55, 0x55, 0x55, 0x55, 0x55, 0x55, 0x55, 0x55] =
    .ok { notError := true, start := false, multi := true, idLast := false, fid := 0x555, addr := 0x5555, dataLen := 8,
          data := [0x55, 0x55, 0x55, 0x55, 0x55, 0x55, 0x55, 0x55] } := by decide

/-! ### tie to the source text (constants regenerated from /repo by `bin/extract` on every run) -/
/-- `to_usart_frame` / `from_usart_frame` in `src/frame.rs` use the shifts, masks and size numbers the model uses -/
theorem C09_src_usart_codec : (SrcTie.toUsartOk && SrcTie.fromUsartOk) = true := by decide

/-- **C09's decoding clause about the decoder as it reads now**: the translated `from_usart_frame` (`Src.fromUsart`: the
model's COBS decoder, then the size test and field extraction translated from `src/frame.rs` on every run) inverts the
encoding of every well-formed frame -/
theorem C09_src_fromUsart_toUsart (f : Frame) (h : f.WF) :
    Src.fromUsart (Cobs.encode (usartBody f)) = .ok (normKind f) := by
  exact ((Ross.src_fromUsart_agrees _).1 _).2 (Ross.fromUsart_toUsart f h)

/-- **C09's encode side about the encoder as it reads now**: `Src.toUsart` is `Frame::to_usart_frame` translated from
`src/frame.rs` on every run (the five header bytes updated as the source updates them, casts keeping the low 8 bits, the copy of
the data bytes, then the model's COBS encoder). For every well-formed frame it emits the COBS encoding of the published header
followed by the data bytes, contains no delimiter byte and is at most 14 bytes long. -/
theorem C09_src_toUsart_layout (f : Frame) (h : f.WF) :
    Src.toUsart f = .ok (Cobs.encode (header f ++ f.data.take f.dataLen)) ∧
    ∃ u, Src.toUsart f = .ok u ∧ (∀ b ∈ u, b ≠ 0) ∧ u.length = f.dataLen + 6 ∧ u.length ≤ 14 := by
  rw [Ross.src_toUsart_eq]; exact ⟨Ross.toUsart_layout f h, Ross.toUsart_transparent f h⟩

/-- the round trip through both translated sides: `Src.fromUsart` inverts `Src.toUsart` on every well-formed frame (up to the
kind of frame id, which is not on the wire) -/
theorem C09_src_roundtrip (f : Frame) (h : f.WF) :
    (match Src.toUsart f with | .ok u => Src.fromUsart u | .err e => .err e | .panic => .panic) = .ok (normKind f) := by
  have hu : toUsart f = .ok (Cobs.encode (usartBody f)) := by
    unfold toUsart
    have hl : ¬ f.data.length < f.dataLen := by have := h.1; have := h.2.1; omega
    simp [hl]
  rw [Ross.src_toUsart_eq, hu]
  simp only []
  exact ((Ross.src_fromUsart_agrees _).1 _).2 (Ross.fromUsart_toUsart f h)

end Ross.Props
