import RossModel.Lemmas.Send
/-!
# C14 — Senders put byte-exact frames on the link, in order, even under back-pressure

Sending a packet writes its frames to the link in order, each exactly once and byte-exact - on USART
and the serial port as a zero delimiter, a length byte and the encoded frame, on CAN as one CAN
frame per ROSS frame - even when the device repeatedly reports would-block or accepts only part of a
write, and it returns only after everything was handed to the device. Serial-port write or flush
failures and a CAN controller reporting that a pending frame was displaced are returned as errors
rather than ignored.

Quantifier: for all packets (0..=28672 payload bytes) and all device behaviours: would-block any number of times
before any byte/frame is accepted, short writes of any positive size on the serial port, an I/O
error at any write or at flush, a displaced-frame report at any CAN transmit

The theorems below are the formal statements over the model; their proofs are in `RossModel/Lemmas`.
-/
namespace Ross.Props
open Ross

/-- C14 (USART): however often the device would block before accepting a byte, exactly the wire image
is handed to the device, in order, each byte once -/
theorem C14_usartSend_exact (p : Packet) (hn : p.data.length ≤ 28672) (rs : List WResp) (h : ∀ r ∈ rs, r ≠ .error) :
    usartSend p rs = .ok (wireOf (usartBodies p)) :=
  Ross.usartSend_exact p hn rs h

/-- C14 (CAN): with no displaced report, every frame of the packet is transmitted once, in order,
however often the controller would block; a displaced report is returned as an error -/
theorem C14_canSend_exact (p : Packet) (hn : p.data.length ≤ 28672) (rs : List TxResp) :
    (canSend p rs).1 <+: canWire p ∧
    ((canSend p rs).2 = .ok () → (canSend p rs).1 = canWire p) ∧
    ((∀ r ∈ rs, r ≠ .displaced) → (canSend p rs).2 = .ok ()) ∧
    ((canSend p rs).2 = .ok () ∨ (canSend p rs).2 = .err .mailboxFull) :=
  Ross.canSend_exact p hn rs

/-- C14 (serial port): short writes of any positive size and interrupted writes do not lose or reorder a
byte; a failing write or flush is returned as an error, with only a prefix of the wire image written -/
theorem C14_serialSend_exact (p : Packet) (hn : p.data.length ≤ 28672) (rs : List IoResp) (fl : FlushResp) :
    (serialSend p rs fl).1 <+: wireOf (usartBodies p) ∧
    ((serialSend p rs fl).2 = .ok () → (serialSend p rs fl).1 = wireOf (usartBodies p) ∧ fl = .ok) ∧
    ((∀ r ∈ rs, r.isFault = false) → fl = .ok → (serialSend p rs fl).2 = .ok ()) ∧
    (fl = .ioError → (serialSend p rs fl).2 = .err .writeError) ∧
    ((serialSend p rs fl).2 = .ok () ∨ (serialSend p rs fl).2 = .err .writeError) :=
  Ross.serialSend_exact p hn rs fl

end Ross.Props
