import RossModel.Lemmas.SendMany
import RossModel.Lemmas.Send
/-!
# C14 — Senders put byte-exact frames on the link, in order, even under back-pressure

Sending a packet writes its frames to the link in order, each exactly once and byte-exact - on USART
and the serial port as a zero delimiter, a length byte and the encoded frame, on CAN as one CAN
frame per ROSS frame - even when the device repeatedly reports would-block or accepts only part of a
write, and it returns only after everything was handed to the device. Serial-port write or flush
failures and a CAN controller reporting that a pending frame was displaced are returned as errors
rather than ignored.

Quantifier: for all packets (0..=28672 payload bytes) and all device behaviours: would-block any number of times
before any byte/frame is accepted, short writes of any positive size on the serial port, an I/O
error at any write or at flush, a displaced-frame report at any CAN transmit

The theorems below are the formal statements over the model; their proofs are in `RossModel/Lemmas`.
-/
namespace Ross.Props
open Ross

/-- C14 (USART): however often the device would block before accepting a byte, exactly the wire image
is handed to the device, in order, each byte once -/
theorem C14_usartSend_exact (p : Packet) (hn : p.data.length ≤ 28672) (rs : List WResp) (h : ∀ r ∈ rs, r ≠ .error) :
    usartSend p rs = .ok (wireOf (usartBodies p)) :=
  Ross.usartSend_exact p hn rs h

/-- C14 (CAN): with no displaced report, every frame of the packet is transmitted once, in order,
however often the controller would block; a displaced report is returned as an error -/
theorem C14_canSend_exact (p : Packet) (hn : p.data.length ≤ 28672) (rs : List TxResp) :
    (canSend p rs).1 <+: canWire p ∧
    ((canSend p rs).2 = .ok () → (canSend p rs).1 = canWire p) ∧
    ((∀ r ∈ rs, r ≠ .displaced) → (canSend p rs).2 = .ok ()) ∧
    ((canSend p rs).2 = .ok () ∨ (canSend p rs).2 = .err .mailboxFull) :=
  Ross.canSend_exact p hn rs

/-- C14 (serial port): short writes of any positive size and interrupted writes do not lose or reorder a
byte; a failing write or flush is returned as an error, with only a prefix of the wire image written -/
theorem C14_serialSend_exact (p : Packet) (hn : p.data.length ≤ 28672) (rs : List IoResp) (fl : FlushResp) :
    (serialSend p rs fl).1 <+: wireOf (usartBodies p) ∧
    ((serialSend p rs fl).2 = .ok () → (serialSend p rs fl).1 = wireOf (usartBodies p) ∧ fl = .ok) ∧
    ((∀ r ∈ rs, r.isFault = false) → fl = .ok → (serialSend p rs fl).2 = .ok ()) ∧
    (fl = .ioError → (serialSend p rs fl).2 = .err .writeError) ∧
    ((serialSend p rs fl).2 = .ok () ∨ (serialSend p rs fl).2 = .err .writeError) :=
  Ross.serialSend_exact p hn rs fl

/-- several sends on one serial-port instance, for **every** device behaviour (short writes, zero writes, interrupts,
I/O errors at any write, any flush answers): the device receives the concatenation of one piece per send, each piece a
prefix of *that* send's wire image and the whole image when the send returned `Ok` — a failed send never leaks bytes
into a later one -/
theorem C14_serialSendMany_spec (ps : List Packet) (rs : List IoResp) (fls : List FlushResp) :
    ∃ ws, (serialSendMany (ps.map usartBodies) rs fls).1 = ws.flatten ∧
      SendPieces wireOf ws (ps.map usartBodies) (serialSendMany (ps.map usartBodies) rs fls).2.2 :=
  Ross.serialSendMany_spec _ rs fls

/-- with a healthy port every send succeeds, the port is flushed once per send, and exactly the concatenated wire
images reach the device -/
theorem C14_serialSendMany_exact (ps : List Packet) (rs : List IoResp) (fls : List FlushResp)
    (hr : ∀ r ∈ rs, r.isFault = false) (hf : ∀ f ∈ fls, f = .ok) :
    serialSendMany (ps.map usartBodies) rs fls =
      ((ps.map usartBodies).flatMap wireOf, (ps.map usartBodies).length, (ps.map usartBodies).map fun _ => .ok ()) :=
  Ross.serialSendMany_exact _ rs fls hr hf

/-- USART: however often the device would block, several sends put exactly the concatenated wire images on it -/
theorem C14_usartSendMany_exact (ps : List Packet) (rs : List WResp) (h : ∀ r ∈ rs, r ≠ .error) :
    usartSendMany (ps.map usartBodies) rs = (ps.map usartBodies).flatMap wireOf :=
  Ross.usartSendMany_exact _ rs h

/-- CAN: every send hands a prefix of its own frames to the controller, all of them when it returns `Ok`, whatever
was displaced before -/
theorem C14_canSendMany_spec (ps : List Packet) (rs : List TxResp) :
    ∃ ws, (canSendMany (ps.map canWire) rs).1 = ws.flatten ∧ SendPieces id ws (ps.map canWire) (canSendMany (ps.map canWire) rs).2 :=
  Ross.canSendMany_spec _ rs

/-- non-vacuity: the wire image of the packet `[1, 2, 3]`, as observed on the real serial port after repair D7 -/
example : wireOf (usartBodies ⟨false, 9, [1, 2, 3]⟩) = [0x00, 0x09, 0x02, 0xc0, 0x01, 0x06, 0x09, 0x03, 0x01, 0x02, 0x03] := by
  decide

/-- CAN: when the controller never reports a displaced frame every send succeeds and exactly the concatenated frames
are handed over, however often the mailboxes were busy -/
theorem C14_canSendMany_exact (ps : List Packet) (rs : List TxResp) (h : ∀ r ∈ rs, r ≠ .displaced) :
    canSendMany (ps.map canWire) rs = ((ps.map canWire).flatten, (ps.map canWire).map fun _ => .ok ()) :=
  Ross.canSendMany_exact _ rs h

end Ross.Props
