import RossModel.Lemmas.SourceTie
import RossModel.Lemmas.Exchange
import RossModel.Lemmas.SourceProtocol
/-!
# C18 — Exchange returns the first (or all) matching replies in arrival order

An exchange routes the request exactly like an ordinary send, runs the wait callback exactly once
after that, and then polls the link: the single-reply form returns the first received packet, in
arrival order, that is addressed to the device or to broadcast (or to anyone when capturing all
addresses) and decodes as the requested event kind, consuming nothing after it, while the multi-
reply form returns all such packets in order and drains the link. If the link runs dry without a
match the single-reply form reports a timeout and the multi-reply form an empty list; link errors
are propagated.

Quantifier: for all requests, all own addresses, both capture modes, all requested event kinds, and all finite
queues of incoming packets (matching, wrong kind, wrong address, error packets) optionally ending in
a link error

The theorems below are the formal statements over the model; their proofs are in `RossModel/Lemmas`.
-/
namespace Ross.Props
open Ross

/-- C18 (single reply): the first packet, in arrival order, that passes the address filter and decodes
as the requested kind is returned and nothing after it is consumed -/
theorem C18_exchangeLoop_first (s : Proto) (k : Kind) (capture : Bool) (pre : List (Except IfErr Packet))
    (r : Packet) (e : Event) (post : List (Except IfErr Packet))
    (hpre : ∀ x ∈ pre, Skipped s.addr k capture x) (hr : matchesReply s.addr k capture r = some e) :
    s.exchangeLoop k capture (pre ++ .ok r :: post) = ({ s with rxQueue := post }, .ok e) :=
  Ross.exchangeLoop_first s k capture pre r e post hpre hr

/-- C18: if the link runs dry (or the queue ends) before a match, a timeout is reported -/
theorem C18_exchangeLoop_timeout (s : Proto) (k : Kind) (capture : Bool) (pre : List (Except IfErr Packet))
    (hpre : ∀ x ∈ pre, Skipped s.addr k capture x) :
    s.exchangeLoop k capture pre = ({ s with rxQueue := [] }, .error .packetTimeout) ∧
    ∀ post, s.exchangeLoop k capture (pre ++ .error .noPacket :: post)
      = ({ s with rxQueue := post }, .error .packetTimeout) :=
  Ross.exchangeLoop_timeout s k capture pre hpre

/-- C18: a link error before any match is propagated -/
theorem C18_exchangeLoop_error (s : Proto) (k : Kind) (capture : Bool) (pre : List (Except IfErr Packet))
    (t : Nat) (post : List (Except IfErr Packet)) (hpre : ∀ x ∈ pre, Skipped s.addr k capture x) :
    s.exchangeLoop k capture (pre ++ .error (.other t) :: post) = ({ s with rxQueue := post }, .error (.interface t)) :=
  Ross.exchangeLoop_error s k capture pre t post hpre

/-- C18 (all replies): every matching packet up to the point where the link runs dry, in arrival order -/
theorem C18_exchangeAllLoop_spec (s : Proto) (k : Kind) (capture : Bool) (acc : List Event)
    (q : List (Except IfErr Packet)) (hq : ∀ x ∈ q, ∀ t, x ≠ .error (.other t)) :
    (s.exchangeAllLoop k capture acc q).2 = .ok (acc ++ (drained q).filterMap (matchesReply s.addr k capture)) :=
  Ross.exchangeAllLoop_spec s k capture acc q hq

/-- C18: the request is routed exactly like an ordinary send, and the wait callback runs once, after it -/
theorem C18_exchange_prefix (s : Proto) (p : Packet) (k : Kind) (capture : Bool) :
    ((s.sendPacket p).2 = .ok () →
      ∃ s', s' = { (s.sendPacket p).1 with log := (s.sendPacket p).1.log ++ [LogEntry.wait] } ∧
        s.exchange p k capture = s'.exchangeLoop k capture s'.rxQueue) ∧
    (∀ e, (s.sendPacket p).2 = .error e → s.exchange p k capture = ((s.sendPacket p).1, .error e)) :=
  Ross.exchange_prefix s p k capture

/-! ### tie to the source text (constants regenerated from /repo by `bin/extract` on every run) -/
/-- `BROADCAST_ADDRESS` in `src/protocol.rs` is the model's -/
theorem C18_src_broadcast : SrcTie.broadcastOk = true := by decide

/-- the multi-reply form drains the link: exactly the items up to and including the first "nothing" (or link error) are
consumed; nothing else of the protocol state changes -/
theorem C18_exchangeAll_drains (s : Proto) (k : Kind) (capture : Bool) (acc : List Event) (q : List (Except IfErr Packet)) :
    (s.exchangeAllLoop k capture acc q).1 = { s with rxQueue := afterDrain q } :=
  Ross.exchangeAllLoop_queue s k capture acc q

/-- the multi-reply form propagates a link error that follows any number of packets -/
theorem C18_exchangeAll_error (s : Proto) (k : Kind) (capture : Bool) (acc : List Event) (pre : List Packet) (t : Nat)
    (post : List (Except IfErr Packet)) :
    (s.exchangeAllLoop k capture acc (pre.map .ok ++ .error (.other t) :: post)).2 = .error (.interface t) :=
  Ross.exchangeAllLoop_error s k capture acc pre t post

/-! non-vacuity (kernel-evaluated): device 5 sends a request to device 9 and waits for an ack: a queued ack for another
device is skipped, the first ack addressed to device 5 is returned, the one after it stays queued; the request went
out once and the wait closure ran once -/
example :
    let pad : Pad := ⟨0, 0, 0⟩
    let s0 := Proto.init 5 [.ok ⟨false, 9, [0, 3, 0, 7]⟩, .ok (encode pad (.ack 5 7)), .ok (encode pad (.ack 5 8))] []
    let r := s0.exchange ⟨false, 9, [1]⟩ .ack false
    ((match r.2 with | .ok e => e == .ack 5 7 | .error _ => false), r.1.rxQueue.length, r.1.log) =
      (true, 1, [.tx ⟨false, 9, [1]⟩ true, .wait]) := by decide

/-- **Source tie (control flow).** `exchange_packet` and `exchange_packets` as translated statement by statement from
`src/protocol.rs` on every run (`self.send_packet(&packet)?`, the wait closure, the `loop` over
`interface.try_get_packet()` with its `break` and early `return`s, the vector of collected replies; the loop runs on
`rxQueue.length + 1` units of fuel) never run out of fuel and compute what the model's `Proto.exchange` /
`Proto.exchangeAll` do, for every state, request, reply kind and capture flag -/
theorem C18_src_exchange_eq (s : Proto) (p : Packet) (k : Kind) (capture : Bool) :
    Src.exchange s p k capture = some (s.exchange p k capture) ∧
    Src.exchangeAll s p k capture = some (s.exchangeAll p k capture) :=
  ⟨Ross.src_exchange_eq s p k capture, Ross.src_exchangeAll_eq s p k capture⟩

/-- C18 (single reply) **about the translated receive loop**: with enough fuel for the queue, the first packet in arrival
order that passes the address filter and decodes as the requested kind is returned and nothing after it is consumed -/
theorem C18_src_exchangeLoop_first (s : Proto) (k : Kind) (capture : Bool) (pre : List (Except IfErr Packet))
    (r : Packet) (e : Event) (post : List (Except IfErr Packet))
    (hq : s.rxQueue = pre ++ .ok r :: post)
    (hpre : ∀ x ∈ pre, Skipped s.addr k capture x) (hr : matchesReply s.addr k capture r = some e) :
    Src.exchangeLoop k capture (s.rxQueue.length + 1) s = some ({ s with rxQueue := post }, .ok e) := by
  rw [Ross.src_exchangeLoop_eq k capture _ s (Nat.lt_succ_self _), hq]
  exact congrArg some (Ross.exchangeLoop_first s k capture pre r e post hpre hr)

end Ross.Props
