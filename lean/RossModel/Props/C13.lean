import RossModel.Lemmas.Calls
import RossModel.Lemmas.SerialEnd
import RossModel.Lemmas.Transparent
import RossModel.Lemmas.SourceReceivers
/-!
# C13 — Each link is transparent to packet sequences under every polling schedule

For each link type, any sequence of packets written by the sender is returned by the receiver as the
identical sequence - same count, order, error flags, addresses and payloads - with no spurious
errors, however the arrival of frames (single bytes on USART) is interleaved with polling. A poll
that finds only part of a packet reports 'nothing received' and keeps the partial packet so that a
later poll completes it; each successful poll returns exactly one packet and leaves the following
ones queued.

Quantifier: for all finite packet sequences (mixed single/multi-frame, both error types, any addresses, payloads
up to the 4096-frame limit), all three links, and all schedules in which the device reports 'no data
yet' any number of times at any point (between frames on CAN and serial port, between any two bytes
on USART) as long as data eventually arrives

The theorems below are the formal statements over the model; their proofs are in `RossModel/Lemmas`.
-/
namespace Ross.Props
open Ross

/-- C13 (CAN): any sequence of packets, with "no frame yet" answers anywhere between the frames, is
received as exactly that sequence -/
theorem C13_can_transparent (ps : List Packet) (hn : ∀ p ∈ ps, p.data.length ≤ 28672) (s : List CanItem)
    (hs : s.filter isCanFrame = (ps.flatMap canWire).map .frame) :
    emitsOf (canPolls none s) = ps.map fun p => .emit (.packet p) :=
  Ross.can_transparent ps hn s hs

/-- C13 (USART): any sequence of packets, under **every** placement of "no data yet" between any two
bytes, is received as exactly that sequence, with no error -/
theorem C13_usart_transparent (ps : List Packet) (hn : ∀ p ∈ ps, p.data.length ≤ 28672) (s : List ByteItem)
    (hs : s.filter notWouldBlock = (wireOf (ps.flatMap usartBodies)).map .byte) :
    emitsOf (usartPolls LinkSt.init s) = ps.map fun p => .emit (.packet p) :=
  Ross.usart_transparent ps hn s hs

/-- C13 (serial port): any sequence of packets, with read time-outs anywhere between link frames, is
received as exactly that sequence, with no error -/
theorem C13_serial_transparent (ps : List Packet) (hn : ∀ p ∈ ps, p.data.length ≤ 28672) (segs : List Seg)
    (hnoise : ∀ sg ∈ segs, ∀ bs, sg = .noise bs → ∀ b ∈ bs, b ≠ 0)
    (hs : Seg.bodies segs = ps.flatMap usartBodies) :
    emitsOf (serialPolls LinkSt.init (segs.flatMap Seg.items)) = ps.map fun p => .emit (.packet p) :=
  Ross.serial_transparent ps hn segs hnoise hs

/-- no look-ahead (both byte links; `step` is `usartStep` or `serialStep`): the calls that return while a script `s` is
being consumed — results, states, and the device items unread at each return — are the same whatever follows `s`
(the unread counts grow by the length of what follows), and consumption then resumes from the state reached -/
theorem C13_no_lookahead (step : LinkSt → ByteItem → LinkSt × Option Out) (st : LinkSt) (s t : List ByteItem) :
    byteCalls step st (s ++ t) =
      (shiftLeft t.length (byteCalls step st s).1 ++ (byteCalls step (byteCalls step st s).2 t).1,
       (byteCalls step (byteCalls step st s).2 t).2) :=
  Ross.byteCalls_append step st s t

/-- hence every call returning while `s` is consumed leaves everything behind `s` — e.g. all bytes of the following
packets — queued on the device -/
theorem C13_following_stay_queued (step : LinkSt → ByteItem → LinkSt × Option Out) (st : LinkSt) (s t : List ByteItem) :
    ∃ rest, (byteCalls step st (s ++ t)).1 = shiftLeft t.length (byteCalls step st s).1 ++ rest ∧
      ∀ x ∈ shiftLeft t.length (byteCalls step st s).1, t.length ≤ x.2.1 :=
  Ross.byteCalls_prefix step st s t

/-- the per-call trace that the correspondence check compares with the real receiver (results and `@items left`) is
this list of returning calls plus the final call on the exhausted script -/
theorem C13_trace_is_calls (step : LinkSt → ByteItem → LinkSt × Option Out) (st : LinkSt) (s : List ByteItem) :
    bytePollsSt step st s =
      (match (byteCalls step st s).1.getLast? with
        | some (.nothing, 0, _) => (byteCalls step st s).1
        | _ => (byteCalls step st s).1 ++ [endEntry (byteCalls step st s).2]) :=
  Ross.bytePollsSt_eq_calls step st s

/-- the same on CAN: the calls returning while the frames `s` are consumed — results, states, frames left in the
controller — do not depend on the frames that follow, which all stay queued -/
theorem C13_can_no_lookahead (st : RxSt) (s t : List CanItem) :
    canCalls st (s ++ t) =
      (shiftLeftCan t.length (canCalls st s).1 ++ (canCalls (canCalls st s).2 t).1, (canCalls (canCalls st s).2 t).2) :=
  Ross.canCalls_append st s t

/-! non-vacuity (kernel-evaluated): the wire of packet `[1, 2, 3]` for device 9 with a would-block before it and one in
the middle of the frame body — the first call finds nothing, the second waits the pause out and returns the packet -/
example : usartPolls LinkSt.init ([.wouldBlock] ++ ([0x00, 0x09, 0x02, 0xc0, 0x01, 0x06, 0x09, 0x03, 0x01].map ByteItem.byte) ++
      [.wouldBlock] ++ ([0x02, 0x03].map ByteItem.byte)) =
    [.nothing, .emit (.packet ⟨false, 9, [1, 2, 3]⟩), .nothing] := by decide

/-- **Source tie (control flow).** The frame-level step of each receiver as translated from
`src/interface/{can,usart,serial}.rs` on every run is the model's `rxFrame` (the function the poll traces of the
transparency theorems are built on), and so is every run of it over a sequence of decoder answers: the emissions of a
receiver depend on the decoded link frames alone, not on how they were split over calls. -/
theorem C13_src_run_eq (st : RxSt) (rs : List (Res FErr Frame)) :
    runWith Src.canAccept st rs = run st rs ∧ runWith Src.usartAccept st rs = run st rs ∧
    runWith Src.serialAccept st rs = run st rs :=
  ⟨Ross.runWith_eq _ Ross.src_canAccept_eq st rs, Ross.runWith_eq _ Ross.src_usartAccept_eq st rs,
   Ross.runWith_eq _ Ross.src_serialAccept_eq st rs⟩

end Ross.Props
