import RossModel.Lemmas.SourceTie
import RossModel.Lemmas.ExactLength
import RossModel.Lemmas.Layout
import RossModel.Lemmas.Applies
import RossModel.Lemmas.Accept
import RossModel.Lemmas.Event
import RossModel.Lemmas.SourceDecoders
/-!
# C05 — Event decoders never crash on untrusted packets; accept only exact encodings

Decoding any packet - any payload length including empty, any bytes, error flag set or clear - as
any event kind returns a value or an error; it never panics and never yields a value outside the
kind's domain (unknown variant tags and non-boolean flag bytes are rejected, not materialised). A
packet is accepted only if it is a non-error packet carrying that kind's event code with exactly the
length the kind's layout requires, the reported rejection reason is one that truly applies, and
every accepted value re-encodes to a packet that decodes to the same value.

Quantifier: for all packets with payload length 0..=70 and beyond (every length around each kind's fixed size,
and variable-length data events up to 65541), all 65536 event codes, both error flags, arbitrary
payload bytes including every variant tag 0..=255 and every 32-bit message tag, against all 16
decoders

The theorems below are the formal statements over the model; their proofs are in `RossModel/Lemmas`.
-/
namespace Ross.Props
open Ross

/-- C05 (totality): no decoder panics on any packet -/
theorem C05_decode_no_panic (k : Kind) (p : Packet) : decode k p ≠ .panic :=
  Ross.decode_no_panic k p

/-- C05 (accept only exact encodings) / C12: an accepted packet is a non-error packet carrying this kind's code -/
theorem C05_decode_ok_head (k : Kind) (p : Packet) (e : Event) (h : decode k p = .ok e) :
    p.isError = false ∧ p.code? = some k.code ∧ sizeOk k p.data.length = true :=
  Ross.decode_ok_head k p e h

/-- C05: whatever reason a decoder reports, it is one that truly applies to the packet -/
theorem C05_decode_err_applies (k : Kind) (p : Packet) (r : CErr) (h : decode k p = .err r) : CApplies r k p :=
  Ross.decode_err_applies k p r h

/-- C05: every accepted value re-encodes to a packet that decodes to the same value -/
theorem C05_decode_reencode (pad : Pad) (k : Kind) (p : Packet) (e : Event) (h : decode k p = .ok e) :
    decode k (encode pad e) = .ok e :=
  Ross.decode_reencode pad k p e h

/-- the executable predicate with which the driver validates the rejection reason reported by the real decoders
decides exactly `CApplies` -/
theorem C05_cappliesB_iff (r : CErr) (k : Kind) (p : Packet) : cappliesB r k p = true ↔ CApplies r k p :=
  Ross.cappliesB_iff r k p

/-- a packet is accepted only with **exactly** the payload length the published layout gives the decoded value
(`layoutLen`; for data events 6 + the declared length, for brightness events the length of the tagged variant) -/
theorem C05_decode_ok_length (k : Kind) (p : Packet) (e : Event) (h : decode k p = .ok e) :
    p.data.length = layoutLen e :=
  Ross.decode_ok_length k p e h

/-- `layoutLen` is the length of the published encoding -/
theorem C05_layoutLen_spec (pad : Pad) (e : Event) : (encode pad e).data.length = layoutLen e := by
  rw [Ross.encode_eq_layout]; exact Ross.specEncode_length pad e

/-- non-vacuity: the inputs that crashed / were materialised by the pinned decoders are rejected with a reason -/
example : decode .data ⟨false, 0x0101, []⟩ = .err .wrongSize ∧
    decode .message ⟨false, 1, [0, 12, 0x12, 0x34, 0, 7, 7, 0, 0, 0, 0, 0, 0, 0]⟩ = .err .unknownEnumVariant ∧
    decode .message ⟨false, 1, [0, 12, 0x12, 0x34, 0, 7, 3, 0, 0, 0, 2, 0, 0, 0]⟩ = .err .unknownEnumVariant := by decide

/-! ### tie to the source text (constants regenerated from /repo by `bin/extract` on every run) -/
/-- the size guard at the head of every decoder in `src/event/*.rs` is the model's `sizeOk`; the brightness and relay
variant tables are the model's -/
theorem C05_src_guards : (SrcTie.sizeGuardsOk && SrcTie.bcmTagsOk && SrcTie.relayTagsOk && SrcTie.constUseOk) = true := by decide

/-- the model's `decode` reads every field of every kind from the offset and width `try_from_packet` reads it from -/
theorem C05_src_reads : SrcTie.decoderLayoutOk = true := by decide

/-! ### tie to the source text (control flow translated from /repo by `bin/extract` on every run) -/
/-- **C05 about the decoders as they read now.** `Src.decodeK k` is `try_from_packet` of kind `k` translated statement by
statement from `src/event/*.rs` on every run (fifteen kinds: guard chain in source order, every slice, index,
`try_into().unwrap()` and the data decoder's copy loop as a primitive that panics exactly when the Rust expression does;
the message decoder — a `transmute_copy` — is outside the translated subset and is the model's). For **every** packet: the translated decoder does not panic, and it
accepts exactly when the model's `decode` accepts, with the same value. -/
theorem C05_src_decoders_total (k : Kind) (p : Packet) :
    Src.decodeK k p ≠ .panic ∧ ∀ e, Src.decodeK k p = .ok e ↔ decode k p = .ok e :=
  ⟨(Ross.src_decodeK_agrees k p).2, (Ross.src_decodeK_agrees k p).1⟩

/-- hence what a translated decoder accepts is a non-error packet carrying its kind's code with exactly the payload length
of the published layout, and the accepted value re-encodes to a packet that decodes to itself -/
theorem C05_src_accepts_exact (pad : Pad) (k : Kind) (p : Packet) (e : Event) (h : Src.decodeK k p = .ok e) :
    p.isError = false ∧ p.code? = some k.code ∧ p.data.length = layoutLen e ∧ Src.decodeK k (encode pad e) = .ok e := by
  have hm := ((Ross.src_decodeK_agrees k p).1 e).1 h
  have hh := Ross.decode_ok_head k p e hm
  exact ⟨hh.1, hh.2.1, Ross.decode_ok_length k p e hm,
    ((Ross.src_decodeK_agrees k (encode pad e)).1 e).2 (Ross.decode_reencode pad k p e hm)⟩

/-! non-vacuity (kernel-evaluated on the **translated** decoders): a well-formed button event is decoded; the packet that crashed
the pinned data decoder (header shorter than 6 bytes) and a data event declaring more bytes than it carries are rejected -/
example : Src.decodeK .buttonPressed ⟨false, 0x0102, [0, 7, 0x12, 0x34, 5]⟩ = .ok (.buttonPressed 0x0102 0x1234 5) ∧
    (match Src.decodeK .data ⟨false, 0x0101, [0, 4]⟩ with | .err _ => true | _ => false) = true ∧
    (match Src.decodeK .data ⟨false, 1, [0, 4, 0, 2, 0xff, 0xff]⟩ with | .err _ => true | _ => false) = true ∧
    Src.decodeK .data ⟨false, 1, [0, 4, 0, 2, 0, 2, 9, 8]⟩ = .ok (.data 1 2 2 [9, 8]) := by decide

end Ross.Props
