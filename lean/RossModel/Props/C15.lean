import RossModel.Lemmas.SourceTie
import RossModel.Lemmas.Protocol
/-!
# C15 — A tick delivers each received packet to exactly the right handlers, once

Each protocol tick consumes at most one packet from the link and delivers it, unmodified, exactly
once to every registered handler if it is addressed to the device's own address or to broadcast, and
otherwise exactly once to every capture-all handler and to no other. 'Nothing received' is a success
with no handler calls and any other link error is returned to the caller with no handler calls. A
handler may transmit packets to other devices through the protocol handle it is given without
disturbing delivery of the current packet to the remaining handlers.

Quantifier: for all handler tables (any number of handlers, any mix of capture-all flags, built by any
add/remove history), all own addresses including 0xffff, all received packets (own, broadcast,
foreign address; data or error packets) and all link results including every error kind

The theorems below are the formal statements over the model; their proofs are in `RossModel/Lemmas`.
-/
namespace Ross.Props
open Ross

/-- C15: a dispatched packet reaches exactly the recipients, in id order, each once, unmodified; the packets their
callbacks send to other devices go out in that order (`wireSends`), and those they send to the device's own address are
looped back to every registered handler (`loopCalls`, C16) — neither disturbs the delivery of the current packet
(`callsOf`) to the remaining handlers; nothing else about the node changes -/
theorem C15_dispatch_spec (s : Proto) (p : Packet) (owned : Bool) :
    Proto.SameCfg s (s.dispatch p owned) ∧
    callsOf (s.dispatch p owned).log = callsOf s.log ++ (recipients s.handlers owned).map (fun h => (h.token, p)) ∧
    ncallsOf (s.dispatch p owned).log = ncallsOf s.log ++
      (recipients s.handlers owned).flatMap (fun h => loopCalls s.addr s.handlers h.sends) ∧
    txOf (s.dispatch p owned).log = txOf s.log ++ (recipients s.handlers owned).flatMap (fun h => wireSends s.addr h.sends) :=
  Ross.dispatch_spec s p owned

/-- C15: `tick` consumes one link result; a packet for us or for everybody goes to every handler,
any other packet to the capture-all handlers; "nothing" is a success without calls; any other link
error is returned without calls -/
theorem C15_tick_spec (s : Proto) :
    match s.rxQueue with
    | [] => s.tick = (s, .ok ())
    | .ok p :: q =>
      (s.tick).2 = .ok () ∧ (s.tick).1.rxQueue = q ∧ (s.tick).1.handlers = s.handlers ∧
      callsOf (s.tick).1.log = callsOf s.log ++
        (recipients s.handlers (p.addr == s.addr || p.addr == BROADCAST)).map (fun h => (h.token, p))
    | .error .noPacket :: q => s.tick = ({ s with rxQueue := q }, .ok ())
    | .error (.other t) :: q => s.tick = ({ s with rxQueue := q }, .error (.interface t)) :=
  Ross.tick_spec s

/-! ### tie to the source text (constants regenerated from /repo by `bin/extract` on every run) -/
/-- `BROADCAST_ADDRESS` in `src/protocol.rs` is the model's -/
theorem C15_src_broadcast : SrcTie.broadcastOk = true := by decide

/-! non-vacuity (kernel-evaluated): device 5 with an own-address handler (token 0) and a capture-all handler (token 1)
that transmits a packet to device 6; a packet for device 5 reaches both in id order, a packet for device 9 only the
capture-all handler -/
example :
    ((((Proto.init 5 [.ok ⟨false, 5, [1]⟩, .ok ⟨false, 9, [2]⟩] []).add ⟨0, false, []⟩).1.add ⟨1, true, [⟨false, 6, [3]⟩]⟩).1.tick.1.tick.1.log) =
    [.call 0 ⟨false, 5, [1]⟩, .call 1 ⟨false, 5, [1]⟩, .tx ⟨false, 6, [3]⟩ true, .call 1 ⟨false, 9, [2]⟩, .tx ⟨false, 6, [3]⟩ true] := by
  decide

end Ross.Props
