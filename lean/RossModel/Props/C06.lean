import RossModel.Lemmas.Calls
import RossModel.Lemmas.SerialEnd
import RossModel.Lemmas.Resync
import RossModel.Lemmas.Run
import RossModel.Lemmas.SourceReceivers
/-!
# C06 — Receivers survive corrupted and foreign traffic and resynchronise

For any sequence of whole link frames - valid, corrupted, wrongly sized, duplicated, reordered,
interrupted mid-packet or foreign - every poll of a CAN, USART or serial-port receiver returns (a
packet, an error or 'nothing received') without panicking, without blocking forever and without
consuming input beyond the frames supplied. After any such prefix, if two complete well-formed
packets arrive back-to-back, the second is always delivered intact and the first is either delivered
intact or dropped with an error - never delivered altered or merged with stale data.

Quantifier: for all finite sequences of link frames: on USART/serial a delimiter, any length byte 0..=255 and
that many arbitrary body bytes, optionally separated by non-zero line noise; on CAN any driver-
constructible frame; with any interrupted multi-frame packets from the same or other devices, of the
same or opposite error type, left pending before the two probe packets

The theorems below are the formal statements over the model; their proofs are in `RossModel/Lemmas`.
-/
namespace Ross.Props
open Ross

/-- C06 at frame level: whatever the receiver was in the middle of, two complete packets arriving
back to back end with the second delivered intact and a clean receiver; the first is delivered intact
or dropped with errors; nothing else is ever delivered -/
theorem C06_run_resync (st : RxSt) (a b : Packet) (ha : a.data.length ≤ 28672) (hb : b.data.length ≤ 28672) :
    ∃ outs, run st ((specFrames a ++ specFrames b).map .ok) = (outs, none) ∧
      (outs = [.packet a, .packet b] ∨
       ∃ errs : List BErr, errs ≠ [] ∧ outs = errs.map .builderErr ++ [.packet b]) :=
  Ross.run_resync st a b ha hb

/-- C06 (USART): after **any** sequence of whole link frames with arbitrary bodies (and any placement of
would-blocks), two well-formed packets arriving back to back: the receiver never blocks, never panics,
reads nothing beyond the script; the second packet is delivered intact, the first is delivered intact or
dropped with errors, and nothing else is delivered in the probe phase -/
theorem C06_usart_resync (junk : List (List UInt8)) (hj : ∀ x ∈ junk, x.length ≤ 255) (a b : Packet)
    (ha : a.data.length ≤ 28672) (hb : b.data.length ≤ 28672) (s : List ByteItem)
    (hs : s.filter notWouldBlock = (wireOf (junk ++ usartBodies a ++ usartBodies b)).map .byte) :
    ∃ outsJ outs, emitsOf (usartPolls LinkSt.init s) = (outsJ ++ outs).map .emit ∧
      Emit.panic ∉ outsJ ∧ ProbeOutcome a b outs :=
  Ross.usart_resync junk hj a b ha hb s hs

/-- C06 (CAN): the same after any sequence of driver-constructible CAN frames -/
theorem C06_can_resync (junk : List CanFrame) (hj : ∀ c ∈ junk, c.Constructible) (a b : Packet)
    (ha : a.data.length ≤ 28672) (hb : b.data.length ≤ 28672) (s : List CanItem)
    (hs : s.filter isCanFrame = (junk ++ canWire a ++ canWire b).map .frame) :
    ∃ outsJ outs, emitsOf (canPolls none s) = (outsJ ++ outs).map .emit ∧
      Emit.panic ∉ outsJ ∧ ProbeOutcome a b outs :=
  Ross.can_resync junk hj a b ha hb s hs

theorem C06_serial_resync (segs : List Seg) (hok : ∀ sg ∈ segs, sg.Ok) (junk : List (List UInt8)) (a b : Packet)
    (ha : a.data.length ≤ 28672) (hb : b.data.length ≤ 28672)
    (hs : Seg.bodies segs = junk ++ usartBodies a ++ usartBodies b) :
    ∃ outsJ outs, emitsOf (serialPolls LinkSt.init (segs.flatMap Seg.items)) = (outsJ ++ outs).map .emit ∧
      Emit.panic ∉ outsJ ∧ ProbeOutcome a b outs :=
  Ross.serial_resync segs hok junk a b ha hb hs

/-- "without blocking forever": over junk made of whole link frames followed by the two probes, no call of the USART
receiver spins (no `blocked` entry), for every placement of would-blocks -/
theorem C06_usart_never_blocked (junk : List (List UInt8)) (hj : ∀ x ∈ junk, x.length ≤ 255) (a b : Packet)
    (ha : a.data.length ≤ 28672) (hb : b.data.length ≤ 28672) (s : List ByteItem)
    (hs : s.filter notWouldBlock = (wireOf (junk ++ usartBodies a ++ usartBodies b)).map .byte) :
    Out.blocked ∉ usartPolls LinkSt.init s := by
  obtain ⟨outsJ, outs, h, _, _⟩ := Ross.usart_resync junk hj a b ha hb s hs
  exact no_blocked_of_emitsOf _ _ h

/-- no look-ahead (both byte links; `step` is `usartStep` or `serialStep`): the calls that return while a script `s` is
being consumed — results, states, and the device items unread at each return — are the same whatever follows `s`
(the unread counts grow by the length of what follows), and consumption then resumes from the state reached -/
theorem C06_no_lookahead (step : LinkSt → ByteItem → LinkSt × Option Out) (st : LinkSt) (s t : List ByteItem) :
    byteCalls step st (s ++ t) =
      (shiftLeft t.length (byteCalls step st s).1 ++ (byteCalls step (byteCalls step st s).2 t).1,
       (byteCalls step (byteCalls step st s).2 t).2) :=
  Ross.byteCalls_append step st s t

/-- hence every call returning while `s` is consumed leaves everything behind `s` — e.g. all bytes of the following
packets — queued on the device -/
theorem C06_following_stay_queued (step : LinkSt → ByteItem → LinkSt × Option Out) (st : LinkSt) (s t : List ByteItem) :
    ∃ rest, (byteCalls step st (s ++ t)).1 = shiftLeft t.length (byteCalls step st s).1 ++ rest ∧
      ∀ x ∈ shiftLeft t.length (byteCalls step st s).1, t.length ≤ x.2.1 :=
  Ross.byteCalls_prefix step st s t

/-- the per-call trace that the correspondence check compares with the real receiver (results and `@items left`) is
this list of returning calls plus the final call on the exhausted script -/
theorem C06_trace_is_calls (step : LinkSt → ByteItem → LinkSt × Option Out) (st : LinkSt) (s : List ByteItem) :
    bytePollsSt step st s =
      (match (byteCalls step st s).1.getLast? with
        | some (.nothing, 0, _) => (byteCalls step st s).1
        | _ => (byteCalls step st s).1 ++ [endEntry (byteCalls step st s).2]) :=
  Ross.bytePollsSt_eq_calls step st s

/-- the same on CAN: the calls returning while the frames `s` are consumed — results, states, frames left in the
controller — do not depend on the frames that follow, which all stay queued -/
theorem C06_can_no_lookahead (st : RxSt) (s t : List CanItem) :
    canCalls st (s ++ t) =
      (shiftLeftCan t.length (canCalls st s).1 ++ (canCalls (canCalls st s).2 t).1, (canCalls (canCalls st s).2 t).2) :=
  Ross.canCalls_append st s t

/-! non-vacuity (kernel-evaluated): a corrupted link frame (three non-delimiter bytes announced as a frame) and a would-block,
then two small packets back to back: one frame error, then both packets intact; and an interrupted ten-byte packet
(only its first frame arrives) before the same two probes: the first probe is dropped with a reassembly error, the
second is delivered intact — the two branches of `ProbeOutcome` -/
example :
    let a : Packet := ⟨false, 7, [1, 2]⟩
    let b : Packet := ⟨true, 8, [3]⟩
    emitsOf (usartPolls LinkSt.init (.wouldBlock :: (wireOf ([[9, 9, 9]] ++ usartBodies a ++ usartBodies b)).map .byte)) =
      [.emit (.frameErr .cobsError), .emit (.packet a), .emit (.packet b)] := by decide
example :
    let a : Packet := ⟨false, 7, [1, 2]⟩
    let b : Packet := ⟨true, 8, [3]⟩
    let big : Packet := ⟨false, 7, [1, 2, 3, 4, 5, 6, 7, 8, 9, 10]⟩
    emitsOf (usartPolls LinkSt.init ((wireOf ((usartBodies big).take 1 ++ usartBodies a ++ usartBodies b)).map .byte)) =
      [.emit (.builderErr .outOfOrder), .emit (.packet b)] := by decide +kernel

/-- **Source tie (control flow).** What each of the three `try_get_packet` functions does with one decoded link frame —
translated statement by statement from `src/interface/{can,usart,serial}.rs` on every run
(`RossModel/Generated/Receivers.lean`: `self.packet_builder` is the state, a successful `add_frame` / `new` /
assignment rebinds it, every early `return` is an emission) — is the model's `rxFrame`, for every receiver state and
every decoder answer. The byte- and frame-level theorems above are therefore about the bookkeeping as the code reads now. -/
theorem C06_src_accept_eq (st : RxSt) (r : Res FErr Frame) :
    Src.canAccept st r = rxFrame st r ∧ Src.usartAccept st r = rxFrame st r ∧ Src.serialAccept st r = rxFrame st r :=
  ⟨Ross.src_canAccept_eq st r, Ross.src_usartAccept_eq st r, Ross.src_serialAccept_eq st r⟩

/-- C06 at frame level **about the translated receivers**: whatever any of the three was in the middle of, two complete
packets arriving back to back end with the second delivered intact and no builder left; the first is delivered intact
or dropped with errors; nothing else is delivered -/
theorem C06_src_run_resync (st : RxSt) (a b : Packet) (ha : a.data.length ≤ 28672) (hb : b.data.length ≤ 28672) :
    ∀ step ∈ [Src.canAccept, Src.usartAccept, Src.serialAccept],
    ∃ outs, runWith step st ((specFrames a ++ specFrames b).map .ok) = (outs, none) ∧
      (outs = [.packet a, .packet b] ∨
       ∃ errs : List BErr, errs ≠ [] ∧ outs = errs.map .builderErr ++ [.packet b]) := by
  intro step hstep
  have h : ∀ st r, step st r = rxFrame st r := by
    simp only [List.mem_cons, List.not_mem_nil, or_false] at hstep
    rcases hstep with rfl | rfl | rfl
    · exact Ross.src_canAccept_eq
    · exact Ross.src_usartAccept_eq
    · exact Ross.src_serialAccept_eq
  rw [Ross.runWith_eq step h]
  exact Ross.run_resync st a b ha hb

end Ross.Props
