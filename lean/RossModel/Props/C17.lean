import RossModel.Lemmas.History
import RossModel.Lemmas.Protocol
/-!
# C17 — Handler ids are unique and removal removes exactly one handler

Registering a handler returns an id different from the id of every currently registered handler and
never replaces or unregisters an existing handler; removing an id unregisters exactly that handler,
which is never invoked afterwards, and leaves all others registered. Removing an id that is not
registered reports 'no such handler' and changes nothing.

Quantifier: for all finite sequences of register (own-address or capture-all) / remove (any id, registered or
not) operations interleaved with packet deliveries that reveal which handlers are live

The theorems below are the formal statements over the model; their proofs are in `RossModel/Lemmas`.
-/
namespace Ross.Props
open Ross

/-- C17: the id handed out is not in use, and it is the least such id -/
theorem C17_nextId_fresh (ids : List Nat) (hs : ids.Pairwise (· < ·)) :
    nextId ids ∉ ids ∧ ∀ m < nextId ids, m ∈ ids :=
  Ross.nextId_fresh ids hs

/-- C17: registering returns an unused id, keeps the invariant, keeps every registered handler under
its id, and adds exactly the new one -/
theorem C17_add_spec (s : Proto) (hs : s.Sorted) (h : Handler) :
    (s.add h).2 ∉ s.handlers.map Prod.fst ∧ (s.add h).1.Sorted ∧
    ∀ e, e ∈ (s.add h).1.handlers ↔ e = ((s.add h).2, h) ∨ e ∈ s.handlers :=
  Ross.add_spec s hs h

/-- C17: removing a registered id removes exactly that handler; removing an unknown id changes nothing -/
theorem C17_remove_spec (s : Proto) (hs : s.Sorted) (id : Nat) :
    (id ∈ s.handlers.map Prod.fst → (s.remove id).2 = .ok () ∧ (s.remove id).1.Sorted ∧
        ∀ e, e ∈ (s.remove id).1.handlers ↔ e ∈ s.handlers ∧ e.1 ≠ id) ∧
    (id ∉ s.handlers.map Prod.fst → s.remove id = (s, .error .noSuchHandler)) :=
  Ross.remove_spec s hs id

/-- C17 over histories: whatever is registered, removed, received or sent, the ids of the registered
handlers stay pairwise distinct (strictly ascending) -/
theorem C17_reach_sorted (s : Proto) (hs : s.Sorted) (ops : List Op) : (s.reach ops).Sorted :=
  Ross.reach_sorted s hs ops

/-- C17 over histories: a handler that is not registered (never was, or was removed) is never invoked,
whatever happens afterwards, as long as it is not registered again — even if its id is handed out again -/
theorem C17_removed_never_called (s : Proto) (hs : s.Sorted) (t : Nat) (ht : t ∉ tokens s) (ops : List Op)
    (hops : ∀ op ∈ ops, ∀ h, op = .add h → h.token ≠ t) :
    ∃ new, callsOf (s.reach ops).log = callsOf s.log ++ new ∧ ∀ c ∈ new, c.1 ≠ t :=
  Ross.removed_never_called s hs t ht ops hops

/-- C17 over histories: nor is it invoked re-entrantly (by the loop-back send of another handler's callback) -/
theorem C17_removed_never_called_nested (s : Proto) (hs : s.Sorted) (t : Nat) (ht : t ∉ tokens s) (ops : List Op)
    (hops : ∀ op ∈ ops, ∀ h, op = .add h → h.token ≠ t) :
    ∃ new, ncallsOf (s.reach ops).log = ncallsOf s.log ++ new ∧ ∀ c ∈ new, c.1 ≠ t :=
  Ross.removed_never_called_nested s hs t ht ops hops

/-! non-vacuity (kernel-evaluated): three handlers get ids 0, 1, 2; id 1 is removed; the next registration gets the least
free id 1 again and the other two stay under their ids; removing id 1 a second time (before that) reports
`NoSuchHandler` -/
example :
    let s3 := ((((Proto.init 5 [] []).add ⟨10, false, []⟩).1.add ⟨11, true, []⟩).1.add ⟨12, false, []⟩).1
    let s4 := (s3.remove 1).1
    ((s4.add ⟨13, false, []⟩).2, ((s4.add ⟨13, false, []⟩).1.handlers.map fun x => (x.1, x.2.token)),
      (match (s4.remove 1).2 with | .error .noSuchHandler => true | _ => false)) =
      (1, [(0, 10), (1, 13), (2, 12)], true) := by decide

end Ross.Props
