import RossModel.CodecEvent
import RossModel.Protocol
/-!
# `proto` scenario: text forms of protocol histories and the model run
-/
namespace Ross.Codec

def parseRxq (s : String) : Option (List (Except IfErr Packet)) :=
  (if s = "-" then [] else s.splitOn ",").mapM fun t =>
    if t = "n" then some (.error .noPacket) else if t = "e" then some (.error (.other 0)) else (parsePacket t).map .ok

def parseTxq (s : String) : Option (List (Option Nat)) :=
  if s = "-" then some [] else s.toList.mapM fun c => if c = 'o' then some none else if c = 'e' then some (some 0) else none

def showPErr : PErr → String
  | .interface _ => "ifErr" | .noSuchHandler => "NoSuchHandler" | .packetTimeout => "timeout"

def showLogEntry : LogEntry → String
  | .call t p => "c" ++ toString t ++ "/" ++ showPacket p
  | .ncall t p => "n" ++ toString t ++ "/" ++ showPacket p
  | .tx p ok => "t" ++ (if ok then "ok" else "er") ++ "/" ++ showPacket p
  | .wait => "w"

/-- run one op of the history; returns the new state and the result text -/
def runOp (s : Proto) (op : String) : Option (Proto × String) :=
  match op.splitOn "/" with
  | ["add", c, tok, sends] => do
    let t ← tok.toNat?
    let ss ← (if sends = "-" then [] else sends.splitOn "+").mapM parsePacket
    let (s', id) := s.add ⟨t, c == "c", ss⟩
    pure (s', "id" ++ toString id)
  | ["rm", id] => do
    let i ← id.toNat?
    let (s', r) := s.remove i
    pure (s', match r with | .ok _ => "ok" | .error e => showPErr e)
  | ["tick"] =>
    let (s', r) := s.tick
    some (s', match r with | .ok _ => "ok" | .error e => showPErr e)
  | ["send", p] => do
    let pk ← parsePacket p
    let (s', r) := s.sendPacket pk
    pure (s', match r with | .ok _ => "ok" | .error e => showPErr e)
  | ["xchg", k, c, p] => do
    let kind ← k.toNat?.bind kindOfIdx
    let pk ← parsePacket p
    let (s', r) := s.exchange pk kind (c == "c")
    pure (s', match r with | .ok e => "ok(" ++ showEvent e ++ ")" | .error e => showPErr e)
  | ["xall", k, c, p] => do
    let kind ← k.toNat?.bind kindOfIdx
    let pk ← parsePacket p
    let (s', r) := s.exchangeAll pk kind (c == "c")
    pure (s', match r with
      | .ok es => "ok(" ++ (if es.isEmpty then "-" else String.intercalate "+" (es.map showEvent)) ++ ")"
      | .error e => showPErr e)
  | _ => none

/-- run a history; per operation `<result>@<rx items left>#<log length>`, the whole log, and the number of registered
handlers before each operation -/
def runProtoStepsN (addr rxq txq ops : String) : Option (List String × List String × List Nat) := do
  let a ← parseHexNat addr
  let rx ← parseRxq rxq
  let tx ← parseTxq txq
  let opl := if ops = "-" then [] else ops.splitOn ";"
  let rec go (s : Proto) (ops : List String) (acc : List String) (ns : List Nat) : Option (Proto × List String × List Nat) :=
    match ops with
    | [] => some (s, acc.reverse, ns.reverse)
    | o :: t => match runOp s o with
      | some (s', r) => go s' t ((r ++ "@" ++ toString s'.rxQueue.length ++ "#" ++ toString s'.log.length) :: acc) (s.handlers.length :: ns)
      | none => none
  let (s, rs, ns) ← go (Proto.init (UInt16.ofNat a) rx tx) opl [] []
  pure (rs, s.log.map showLogEntry, ns)

/-- run a history; per operation `<result>@<rx items left>#<log length>`, and the whole log -/
def runProtoSteps (addr rxq txq ops : String) : Option (List String × List String) := do
  let a ← parseHexNat addr
  let rx ← parseRxq rxq
  let tx ← parseTxq txq
  let opl := if ops = "-" then [] else ops.splitOn ";"
  let rec go (s : Proto) (ops : List String) (acc : List String) : Option (Proto × List String) :=
    match ops with
    | [] => some (s, acc.reverse)
    | o :: t => match runOp s o with
      | some (s', r) => go s' t ((r ++ "@" ++ toString s'.rxQueue.length ++ "#" ++ toString s'.log.length) :: acc)
      | none => none
  let (s, rs) ← go (Proto.init (UInt16.ofNat a) rx tx) opl []
  pure (rs, s.log.map showLogEntry)

end Ross.Codec
