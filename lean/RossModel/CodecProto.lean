import RossModel.CodecEvent
import RossModel.Protocol
/-!
# `proto` scenario: text forms of protocol histories and the model run
-/
namespace Ross.Codec

def parseRxq (s : String) : Option (List (Except IfErr Packet)) :=
  (if s = "-" then [] else s.splitOn ",").mapM fun t =>
    if t = "n" then some (.error .noPacket) else if t = "e" then some (.error (.other 0))
    else if t.startsWith "e" then (t.drop 1).toString.toNat?.map fun n => .error (.other n)      -- `e1`…`e7`: a link error of kind n
    else (parsePacket t).map .ok

def parseTxq (s : String) : Option (List (Option Nat)) :=
  if s = "-" then some [] else s.toList.mapM fun c => if c = 'o' then some none else if c = 'e' then some (some 0) else none

def showPErr : PErr → String
  | .interface t => (if t = 0 then "ifErr" else "ifErr" ++ toString t) | .noSuchHandler => "NoSuchHandler" | .packetTimeout => "timeout"

def showLogEntry : LogEntry → String
  | .call t p => "c" ++ toString t ++ "/" ++ showPacket p
  | .ncall t p => "n" ++ toString t ++ "/" ++ showPacket p
  | .tx p ok => "t" ++ (if ok then "ok" else "er") ++ "/" ++ showPacket p
  | .wait => "w"

/-- run one op of the history; returns the new state and the result text -/
def runOp (s : Proto) (op : String) : Option (Proto × String) :=
  match op.splitOn "/" with
  | ["add", c, tok, sends] => do
    let t ← tok.toNat?
    let ss ← (if sends = "-" then [] else sends.splitOn "+").mapM parsePacket
    let (s', id) := s.add ⟨t, c == "c", ss⟩
    pure (s', "id" ++ toString id)
  | ["rm", id] => do
    let i ← id.toNat?
    let (s', r) := s.remove i
    pure (s', match r with | .ok _ => "ok" | .error e => showPErr e)
  | ["tick"] =>
    let (s', r) := s.tick
    some (s', match r with | .ok _ => "ok" | .error e => showPErr e)
  | ["send", p] => do
    let pk ← parsePacket p
    let (s', r) := s.sendPacket pk
    pure (s', match r with | .ok _ => "ok" | .error e => showPErr e)
  | ["xchg", k, c, p] => do
    let kind ← k.toNat?.bind kindOfIdx
    let pk ← parsePacket p
    let (s', r) := s.exchange pk kind (c == "c")
    pure (s', match r with | .ok e => "ok(" ++ showEvent e ++ ")" | .error e => showPErr e)
  | ["xall", k, c, p] => do
    let kind ← k.toNat?.bind kindOfIdx
    let pk ← parsePacket p
    let (s', r) := s.exchangeAll pk kind (c == "c")
    pure (s', match r with
      | .ok es => "ok(" ++ (if es.isEmpty then "-" else String.intercalate "+" (es.map showEvent)) ++ ")"
      | .error e => showPErr e)
  | _ => none

/-- the id an implementation's answer `id<N>@…` to a registration names -/
def implIdOf (res : String) : Option Nat :=
  if res.startsWith "id" then (((res.drop 2).toString.splitOn "@").headD "").toNat? else none

/-- the transmissions of a log segment in text form: (packet text, answer was ok) -/
def txEntriesOf (seg : List String) : List (String × Bool) :=
  seg.filterMap fun x =>
    if x.startsWith "tok/" then some ((x.drop 4).toString, true)
    else if x.startsWith "ter/" then some ((x.drop 4).toString, false) else none

/-- reorder the next link answers so that every transmission the model makes in this operation meets the answer the
implementation's transmission of the same packet met (no property fixes which of several transmissions of one operation
is handed to the link first): `dry` = the packets the model transmits, in its order; `impl` = the implementation's
transmissions with their answers. `none` when the two do not transmit the same packets -/
def followAnswers (lastMatch : Bool) (dry : List String) (impl : List (String × Bool)) : Option (List Bool) :=
  -- when one packet is transmitted several times with different answers the matching is ambiguous: `lastMatch` selects
  -- the other of the two simple strategies (the driver tries both)
  let rec go (dry : List String) (impl : List (String × Bool)) (acc : List Bool) : Option (List Bool) :=
    match dry with
    | [] => if impl.isEmpty then some acc.reverse else none
    | q :: t =>
      match (if lastMatch then impl.reverse else impl).find? (·.1 == q) with
      | none => none
      | some e => go t (if lastMatch then (impl.reverse.erase e).reverse else impl.erase e) (e.2 :: acc)
  go dry impl []

/-- run a history following the implementation where the properties leave a choice: registrations are placed under the
ids the implementation handed out (`implRes`: its answers per operation; C17 asks for an id that is not in use, not for a
particular one), and within one operation the link's answers are matched to the transmissions by packet (`implLog`).
`Except.error i`: at operation `i` the implementation handed out an id that is registered -/
def runProtoStepsIds (lastMatch : Bool) (addr rxq txq ops : String) (implRes implLog : List String) :
    Option (Except Nat (List String × List String × List Nat)) := do
  let a ← parseHexNat addr
  let rx ← parseRxq rxq
  let tx ← parseTxq txq
  let opl := if ops = "-" then [] else ops.splitOn ";"
  let endOf (j : Nat) : Nat := (((implRes.getD j "").splitOn "#").getD 1 "0").toNat?.getD 0
  let implSeg (i : Nat) : List String :=
    let lo := if i = 0 then 0 else endOf (i - 1)
    (implLog.drop lo).take (endOf i - lo)
  let rec go (s : Proto) (ops : List String) (i : Nat) (acc : List String) (ns : List Nat) :
      Option (Except Nat (Proto × List String × List Nat)) :=
    match ops with
    | [] => some (.ok (s, acc.reverse, ns.reverse))
    | o :: t =>
      let step : Option (Except Nat (Proto × String)) :=
        match o.splitOn "/", implIdOf (implRes.getD i "") with
        | ["add", c, tok, sends], some id => do
          let tk ← tok.toNat?
          let ss ← (if sends = "-" then [] else sends.splitOn "+").mapM parsePacket
          match s.addAt ⟨tk, c == "c", ss⟩ id with
          | some s' => pure (.ok (s', "id" ++ toString id))
          | none => pure (.error i)
        | _, _ =>
          -- dry run with a link that accepts everything, to learn which packets the model transmits in this operation
          let dryTx : List String :=
            match runOp { s with txQueue := [] } o with
            | some (s', _) => (s'.log.drop s.log.length).filterMap fun | .tx p _ => some (showPacket p) | _ => none
            | none => []
          -- in an exchange only the part before the wait mark is matched; what the implementation transmits after it
          -- (callbacks run for packets the exchange read and did not return — C18 is silent about them) uses up link
          -- answers, which are taken from the model's queue as well
          let isX := o.startsWith "x"
          let segI := implSeg i
          let preWait := if isX then segI.takeWhile (· != "w") else segI
          let extraTx := if isX then (txEntriesOf (segI.dropWhile (· != "w"))).length else 0
          let s1 : Proto :=
            match followAnswers lastMatch dryTx (txEntriesOf preWait) with
            | some answers =>
              if answers.length ≤ s.txQueue.length || answers.any (! ·) then
                { s with txQueue := (answers.map fun ok => if ok then none else some 0) ++ s.txQueue.drop answers.length }
              else s
            | none => s
          (runOp s1 o).map fun (s', r) => .ok ({ s' with txQueue := s'.txQueue.drop extraTx }, r)
      match step with
      | none => none
      | some (.error e) => some (.error e)
      | some (.ok (s', r)) =>
        go s' t (i + 1) ((r ++ "@" ++ toString s'.rxQueue.length ++ "#" ++ toString s'.log.length) :: acc) (s.handlers.length :: ns)
  match ← go (Proto.init (UInt16.ofNat a) rx tx) opl 0 [] [] with
  | .error e => pure (.error e)
  | .ok (s, rs, ns) => pure (.ok (rs, s.log.map showLogEntry, ns))

/-- run a history; per operation `<result>@<rx items left>#<log length>`, the whole log, and the number of registered
handlers before each operation -/
def runProtoStepsN (addr rxq txq ops : String) : Option (List String × List String × List Nat) := do
  let a ← parseHexNat addr
  let rx ← parseRxq rxq
  let tx ← parseTxq txq
  let opl := if ops = "-" then [] else ops.splitOn ";"
  let rec go (s : Proto) (ops : List String) (acc : List String) (ns : List Nat) : Option (Proto × List String × List Nat) :=
    match ops with
    | [] => some (s, acc.reverse, ns.reverse)
    | o :: t => match runOp s o with
      | some (s', r) => go s' t ((r ++ "@" ++ toString s'.rxQueue.length ++ "#" ++ toString s'.log.length) :: acc) (s.handlers.length :: ns)
      | none => none
  let (s, rs, ns) ← go (Proto.init (UInt16.ofNat a) rx tx) opl [] []
  pure (rs, s.log.map showLogEntry, ns)

/-- run a history; per operation `<result>@<rx items left>#<log length>`, and the whole log -/
def runProtoSteps (addr rxq txq ops : String) : Option (List String × List String) := do
  let a ← parseHexNat addr
  let rx ← parseRxq rxq
  let tx ← parseTxq txq
  let opl := if ops = "-" then [] else ops.splitOn ";"
  let rec go (s : Proto) (ops : List String) (acc : List String) : Option (Proto × List String) :=
    match ops with
    | [] => some (s, acc.reverse)
    | o :: t => match runOp s o with
      | some (s', r) => go s' t ((r ++ "@" ++ toString s'.rxQueue.length ++ "#" ++ toString s'.log.length) :: acc)
      | none => none
  let (s, rs) ← go (Proto.init (UInt16.ofNat a) rx tx) opl []
  pure (rs, s.log.map showLogEntry)

end Ross.Codec
