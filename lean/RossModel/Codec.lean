import RossModel.Link
/-!
# Text forms of the line protocol (parsing of inputs, printing of results)
-/
namespace Ross.Codec

def hexDigit (n : Nat) : Char := if n < 10 then Char.ofNat (48 + n) else Char.ofNat (87 + n)

def hexByte (b : UInt8) : String := String.ofList [hexDigit (b.toNat / 16), hexDigit (b.toNat % 16)]

def hexBytes (bs : List UInt8) : String :=
  if bs.isEmpty then "-" else String.join (bs.map hexByte)

def hexNat (width : Nat) (n : Nat) : String :=
  String.ofList ((List.range width).reverse.map fun i => hexDigit (n / 16 ^ i % 16))

def unhexDigit (c : Char) : Option Nat :=
  if '0' ≤ c ∧ c ≤ '9' then some (c.toNat - 48)
  else if 'a' ≤ c ∧ c ≤ 'f' then some (c.toNat - 87)
  else none

def parseHexNat (s : String) : Option Nat :=
  if s.isEmpty then none else
  s.toList.foldl (fun acc c => match acc, unhexDigit c with
    | some a, some d => some (a * 16 + d)
    | _, _ => none) (some 0)

def parseBytesAux : List Char → List UInt8 → Option (List UInt8)
  | [], acc => some acc.reverse
  | [_], _ => none
  | a :: b :: t, acc =>
    match unhexDigit a, unhexDigit b with
    | some x, some y => parseBytesAux t (UInt8.ofNat (x * 16 + y) :: acc)
    | _, _ => none

def parseBytes (s : String) : Option (List UInt8) :=
  if s = "-" then some [] else parseBytesAux s.toList []

/-- SplitMix64, the payload generator shared with the harness: `g<seed>x<len>` -/
def splitmix (s : UInt64) : UInt64 × UInt64 :=
  let s := s + 0x9E3779B97F4A7C15
  let z := s
  let z := (z ^^^ (z >>> 30)) * 0xBF58476D1CE4E5B9
  let z := (z ^^^ (z >>> 27)) * 0x94D049BB133111EB
  (s, z ^^^ (z >>> 31))

def genBytes (seed : Nat) (len : Nat) : List UInt8 :=
  let rec go (n : Nat) (s : UInt64) (acc : List UInt8) : List UInt8 :=
    match n with
    | 0 => acc.reverse
    | n + 1 => let (s', z) := splitmix s; go n s' (UInt8.ofNat (z.toNat % 256) :: acc)
  go len (UInt64.ofNat seed) []

def parsePayloadPart (s : String) : Option (List UInt8) :=
  if s.startsWith "g" then
    match (s.drop 1).toString.splitOn "x" with
    | [a, b] => match a.toNat?, b.toNat? with
      | some seed, some len => some (genBytes seed len)
      | _, _ => none
    | _ => none
  else parseBytes s

/-- hex bytes, `g<seed>x<len>`, or several such parts joined by `+` -/
def parsePayload (s : String) : Option (List UInt8) :=
  ((s.splitOn "+").mapM parsePayloadPart).map List.flatten

/-- FNV-1a 64 over a string, for digests of long outputs -/
def fnv (s : String) : UInt64 :=
  s.toUTF8.foldl (fun h b => (h ^^^ b.toUInt64) * 0x100000001b3) 0xcbf29ce484222325

def digest (items : List String) : String :=
  "#" ++ hexNat 16 (fnv (String.intercalate "," items)).toNat ++ "/" ++ toString items.length

def bit01 (b : Bool) : Char := if b then '1' else '0'

def showFrame (f : Frame) : String :=
  String.ofList [bit01 f.notError, bit01 f.start, bit01 f.multi] ++ ":" ++ (if f.idLast then "L" else "C") ++
    hexNat 4 f.fid ++ ":" ++ hexNat 4 f.addr.toNat ++ ":" ++ toString f.dataLen ++ ":" ++ hexBytes f.data

def parseFrame (s : String) : Option Frame :=
  match s.splitOn ":" with
  | [fl, id, ad, ln, da] =>
    match fl.toList, id.toList with
    | [a, b, c], k :: idh =>
      match parseHexNat (String.ofList idh), parseHexNat ad, ln.toNat?, parseBytes da with
      | some fid, some addr, some len, some data =>
        some { notError := a == '1', start := b == '1', multi := c == '1', idLast := k == 'L', fid := fid,
               addr := UInt16.ofNat addr, dataLen := len, data := data }
      | _, _, _, _ => none
    | _, _ => none
  | _ => none

def showPacket (p : Packet) : String :=
  (if p.isError then "E:" else "D:") ++ hexNat 4 p.addr.toNat ++ ":" ++ hexBytes p.data

def parsePacket (s : String) : Option Packet :=
  match s.splitOn ":" with
  | [t, ad, da] =>
    match parseHexNat ad, parsePayload da with
    | some a, some d => some { isError := t == "E", addr := UInt16.ofNat a, data := d }
    | _, _ => none
  | _ => none

def showCan (c : CanFrame) : String :=
  (if c.ext then "X:" else "S:") ++ hexNat 8 c.id ++ ":" ++ (if c.rtr then "R:" else "D:") ++ toString c.dlc ++ ":" ++
    hexBytes c.data

def parseCan (s : String) : Option CanFrame :=
  match s.splitOn ":" with
  | [x, id, r, dlc, da] =>
    match parseHexNat id, dlc.toNat?, parseBytes da with
    | some i, some n, some d => some { ext := x == "X", id := i, rtr := r == "R", dlc := n, data := d }
    | _, _, _ => none
  | _ => none

def showFErr : FErr → String
  | .frameIsStandard => "FrameIsStandard" | .frameIsRemote => "FrameIsRemote" | .frameIdMissing => "FrameIdMissing"
  | .wrongSize => "WrongSize" | .cobsError => "CobsError"

def showBErr : BErr → String
  | .outOfOrder => "OutOfOrder" | .singleFramePacket => "SingleFramePacket" | .tooManyFrames => "TooManyFrames"
  | .wrongFrameType => "WrongFrameType" | .deviceAddressMismatch => "DeviceAddressMismatch"
  | .missingFrames => "MissingFrames"

def parseBErr : String → Option BErr
  | "OutOfOrder" => some .outOfOrder | "SingleFramePacket" => some .singleFramePacket
  | "TooManyFrames" => some .tooManyFrames | "WrongFrameType" => some .wrongFrameType
  | "DeviceAddressMismatch" => some .deviceAddressMismatch | "MissingFrames" => some .missingFrames
  | _ => none

def showRes {ε α} (se : ε → String) (sa : α → String) : Res ε α → String
  | .ok a => "ok(" ++ sa a ++ ")"
  | .err e => "err(" ++ se e ++ ")"
  | .panic => "panic"

/-- reasons are validated, not compared: print only the class -/
def showResClass {ε α} (sa : α → String) : Res ε α → String
  | .ok a => "ok(" ++ sa a ++ ")"
  | .err _ => "err"
  | .panic => "panic"

def showOut : Out → String
  | .nothing => "nothing"
  | .blocked => "blocked"
  | .emit (.packet p) => "ok(" ++ showPacket p ++ ")"
  | .emit .panic => "panic"
  | .emit _ => "err"

def parseByteItems (s : String) : Option (List ByteItem) :=
  -- hex bytes with markers: `.` would-block, `!` error, `~` interrupted, `$` eof
  let rec go : List Char → List ByteItem → Option (List ByteItem)
    | [], acc => some acc.reverse
    | '.' :: t, acc => go t (.wouldBlock :: acc)
    | '!' :: t, acc => go t (.error :: acc)
    | '~' :: t, acc => go t (.interrupted :: acc)
    | '$' :: t, acc => go t (.eof :: acc)
    | a :: b :: t, acc =>
      (match unhexDigit a, unhexDigit b with
        | some x, some y => go t (.byte (UInt8.ofNat (x * 16 + y)) :: acc)
        | _, _ => none)
    | _, _ => none
  if s = "-" then some [] else go s.toList []

end Ross.Codec
