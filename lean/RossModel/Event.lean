import RossModel.Packet
/-!
# Model of `src/event/*.rs`: the sixteen event kinds and their `ConvertPacket` impls
-/
namespace Ross

def BROADCAST : UInt16 := 0xffff

/-- `ConvertPacketError` (`Event(EventError::WrongEventType)` flattened) -/
inductive CErr where
  | wrongSize | unknownEnumVariant | wrongType | wrongEventType
  deriving Repr, DecidableEq

inductive Kind where
  | bootloaderHello | programmerHello | startFirmwareUpgrade | ack | data | configuratorHello
  | bcmChange | buttonPressed | buttonReleased | systemTick | startConfigUpgrade | setDeviceAddress
  | message | bcmAnimate | relaySet | gatewayDiscover
  deriving Repr, DecidableEq

def Kind.all : List Kind :=
  [.bootloaderHello, .programmerHello, .startFirmwareUpgrade, .ack, .data, .configuratorHello,
   .bcmChange, .buttonPressed, .buttonReleased, .systemTick, .startConfigUpgrade, .setDeviceAddress,
   .message, .bcmAnimate, .relaySet, .gatewayDiscover]

/-- `src/event/event_code.rs` -/
def Kind.code : Kind → UInt16
  | .bootloaderHello => 0x0000
  | .programmerHello => 0x0001
  | .startFirmwareUpgrade => 0x0002
  | .ack => 0x0003
  | .data => 0x0004
  | .configuratorHello => 0x0005
  | .bcmChange => 0x0006
  | .buttonPressed => 0x0007
  | .buttonReleased => 0x0008
  | .systemTick => 0x0009
  | .startConfigUpgrade => 0x000a
  | .setDeviceAddress => 0x000b
  | .message => 0x000c
  | .bcmAnimate => 0x000d
  | .relaySet => 0x000e
  | .gatewayDiscover => 0x000f

inductive BcmValue where
  | binary (v : Bool) | single (v : UInt8) | rgb (r g b : UInt8) | rgbB (r g b br : UInt8)
  | rgbw (r g b w : UInt8) | rgbwB (r g b w br : UInt8)
  deriving Repr, DecidableEq

inductive RelayValue where
  | single (v : Bool) | firstChannelOn | secondChannelOn | noChannelOn
  deriving Repr, DecidableEq

inductive MessageValue where
  | u8 (v : UInt8) | u16 (v : UInt16) | u32 (v : UInt32) | bool (v : Bool)
  deriving Repr, DecidableEq

inductive Event where
  | bootloaderHello (programmer bootloader : UInt16)
  | programmerHello (programmer : UInt16)
  | startFirmwareUpgrade (receiver programmer : UInt16) (size : UInt32)
  | ack (receiver transmitter : UInt16)
  | data (receiver transmitter dataLen : UInt16) (data : List UInt8)
  | configuratorHello
  | bcmChange (bcm transmitter : UInt16) (index : UInt8) (value : BcmValue)
  | buttonPressed (receiver button : UInt16) (index : UInt8)
  | buttonReleased (receiver button : UInt16) (index : UInt8)
  | systemTick (receiver : UInt16)
  | startConfigUpgrade (receiver programmer : UInt16) (size : UInt32)
  | setDeviceAddress (receiver programmer newAddress : UInt16)
  | message (receiver transmitter code : UInt16) (value : MessageValue)
  | bcmAnimate (bcm transmitter : UInt16) (index : UInt8) (duration : UInt32) (target : BcmValue)
  | relaySet (relay transmitter : UInt16) (index : UInt8) (value : RelayValue)
  | gatewayDiscover (device gateway : UInt16)
  deriving Repr, DecidableEq

def Event.kind : Event → Kind
  | .bootloaderHello .. => .bootloaderHello | .programmerHello .. => .programmerHello
  | .startFirmwareUpgrade .. => .startFirmwareUpgrade | .ack .. => .ack | .data .. => .data
  | .configuratorHello => .configuratorHello | .bcmChange .. => .bcmChange
  | .buttonPressed .. => .buttonPressed | .buttonReleased .. => .buttonReleased
  | .systemTick .. => .systemTick | .startConfigUpgrade .. => .startConfigUpgrade
  | .setDeviceAddress .. => .setDeviceAddress | .message .. => .message | .bcmAnimate .. => .bcmAnimate
  | .relaySet .. => .relaySet | .gatewayDiscover .. => .gatewayDiscover

/-- the address the encoded packet carries -/
def Event.receiver : Event → UInt16
  | .bootloaderHello p _ => p | .programmerHello _ => BROADCAST | .startFirmwareUpgrade r _ _ => r
  | .ack r _ => r | .data r _ _ _ => r | .configuratorHello => BROADCAST | .bcmChange a _ _ _ => a
  | .buttonPressed r _ _ => r | .buttonReleased r _ _ => r | .systemTick r => r
  | .startConfigUpgrade r _ _ => r | .setDeviceAddress r _ _ => r | .message r _ _ _ => r
  | .bcmAnimate a _ _ _ _ => a | .relaySet a _ _ _ => a | .gatewayDiscover d _ => d

/-- only data events carry a redundancy the encoder does not check -/
def Event.WF : Event → Prop
  | .data _ _ n d => n.toNat = d.length
  | _ => True

instance (e : Event) : Decidable e.WF := by cases e <;> simp only [Event.WF] <;> infer_instance

/-! ## sub-codecs -/

def BcmValue.ser : BcmValue → List UInt8
  | .binary v => [0x00, if v then 0x01 else 0x00]
  | .single v => [0x01, v]
  | .rgb r g b => [0x02, r, g, b]
  | .rgbB r g b br => [0x03, r, g, b, br]
  | .rgbw r g b w => [0x04, r, g, b, w]
  | .rgbwB r g b w br => [0x05, r, g, b, w, br]

/-- `BcmValue::deserialize` -/
def BcmValue.de (d : List UInt8) : Res CErr BcmValue :=
  if d.length < 2 then .err .wrongSize else do
  let tag ← rd d 0
  if tag = 0x00 then
    if d.length ≠ 2 then .err .wrongSize else do
    let v ← rd d 1
    pure (.binary (v != 0x00))
  else if tag = 0x01 then
    if d.length ≠ 2 then .err .wrongSize else do
    pure (.single (← rd d 1))
  else if tag = 0x02 then
    if d.length ≠ 4 then .err .wrongSize else do
    pure (.rgb (← rd d 1) (← rd d 2) (← rd d 3))
  else if tag = 0x03 then
    if d.length ≠ 5 then .err .wrongSize else do
    pure (.rgbB (← rd d 1) (← rd d 2) (← rd d 3) (← rd d 4))
  else if tag = 0x04 then
    if d.length ≠ 5 then .err .wrongSize else do
    pure (.rgbw (← rd d 1) (← rd d 2) (← rd d 3) (← rd d 4))
  else if tag = 0x05 then
    if d.length ≠ 6 then .err .wrongSize else do
    pure (.rgbwB (← rd d 1) (← rd d 2) (← rd d 3) (← rd d 4) (← rd d 5))
  else .err .unknownEnumVariant

def RelayValue.ser : RelayValue → List UInt8
  | .single v => [if v then 0x00 else 0x01]
  | .firstChannelOn => [0x02]
  | .secondChannelOn => [0x03]
  | .noChannelOn => [0x04]

/-- `RelayValue::deserialize` -/
def RelayValue.de (d : List UInt8) : Res CErr RelayValue :=
  if d.length ≠ 1 then .err .wrongSize else do
  let t ← rd d 0
  if t = 0x00 then pure (.single true)
  else if t = 0x01 then pure (.single false)
  else if t = 0x02 then pure .firstChannelOn
  else if t = 0x03 then pure .secondChannelOn
  else if t = 0x04 then pure .noChannelOn
  else .err .unknownEnumVariant

/-- padding bytes the compiler leaves uninitialised in the `repr(C)` image of `MessageValue` -/
structure Pad where
  p1 : UInt8
  p2 : UInt8
  p3 : UInt8
  deriving Repr, DecidableEq

/-- the 8-byte in-memory image of `#[repr(C)] enum MessageValue` on a little-endian host:
4-byte tag, payload at offset 4, the rest padding -/
def MessageValue.image (pad : Pad) : MessageValue → List UInt8
  | .u8 v => [0, 0, 0, 0, v, pad.p1, pad.p2, pad.p3]
  | .u16 v => [1, 0, 0, 0, lo8 v, hi8 v, pad.p1, pad.p2]
  | .u32 v => [2, 0, 0, 0, b0 v, b1 v, b2 v, b3 v]
  | .bool v => [3, 0, 0, 0, if v then 1 else 0, pad.p1, pad.p2, pad.p3]

/-- reading the image back (`transmute_copy`) after the tag/bool validation of repair D4;
`d` is `data[6..14]` -/
def MessageValue.ofImage (d : List UInt8) : Res CErr MessageValue := do
  let t0 ← rd d 0
  let t1 ← rd d 1
  let t2 ← rd d 2
  let t3 ← rd d 3
  let v0 ← rd d 4
  let tag := le32 t0 t1 t2 t3
  if tag.toNat > 3 ∨ (tag.toNat = 3 ∧ v0.toNat > 1) then .err .unknownEnumVariant else do
  let v1 ← rd d 5
  let v2 ← rd d 6
  let v3 ← rd d 7
  if tag.toNat = 0 then pure (.u8 v0)
  else if tag.toNat = 1 then pure (.u16 (be16 v1 v0))
  else if tag.toNat = 2 then pure (.u32 (le32 v0 v1 v2 v3))
  else pure (.bool (v0 != 0))

/-! ## encoders (`to_packet`) -/

def encode (pad : Pad) : Event → Packet
  | .bootloaderHello p b => ⟨false, p, u16b Kind.bootloaderHello.code ++ u16b b⟩
  | .programmerHello p => ⟨false, BROADCAST, u16b Kind.programmerHello.code ++ u16b p⟩
  | .startFirmwareUpgrade r p s => ⟨false, r, u16b Kind.startFirmwareUpgrade.code ++ u16b p ++ u32b s⟩
  | .ack r t => ⟨false, r, u16b Kind.ack.code ++ u16b t⟩
  | .data r t n d => ⟨false, r, u16b Kind.data.code ++ u16b t ++ u16b n ++ d⟩
  | .configuratorHello => ⟨false, BROADCAST, u16b Kind.configuratorHello.code⟩
  | .bcmChange a t i v => ⟨false, a, u16b Kind.bcmChange.code ++ u16b t ++ [i] ++ v.ser⟩
  | .buttonPressed r b i => ⟨false, r, u16b Kind.buttonPressed.code ++ u16b b ++ [i]⟩
  | .buttonReleased r b i => ⟨false, r, u16b Kind.buttonReleased.code ++ u16b b ++ [i]⟩
  | .systemTick r => ⟨false, r, u16b Kind.systemTick.code⟩
  | .startConfigUpgrade r p s => ⟨false, r, u16b Kind.startConfigUpgrade.code ++ u16b p ++ u32b s⟩
  | .setDeviceAddress r p n => ⟨false, r, u16b Kind.setDeviceAddress.code ++ u16b p ++ u16b n⟩
  | .message r t c v => ⟨false, r, u16b Kind.message.code ++ u16b t ++ u16b c ++ v.image pad⟩
  | .bcmAnimate a t i d v => ⟨false, a, u16b Kind.bcmAnimate.code ++ u16b t ++ [i] ++ u32b d ++ v.ser⟩
  | .relaySet a t i v => ⟨false, a, u16b Kind.relaySet.code ++ u16b t ++ [i] ++ v.ser⟩
  | .gatewayDiscover d g => ⟨false, d, u16b Kind.gatewayDiscover.code ++ u16b g⟩

/-! ## decoders (`try_from_packet`) -/

def rd16 (d : List UInt8) (i : Nat) : Res CErr UInt16 := do
  let h ← rd d i
  let l ← rd d (i + 1)
  pure (be16 h l)

def rd32 (d : List UInt8) (i : Nat) : Res CErr UInt32 := do
  let a ← rd d i
  let b ← rd d (i + 1)
  let c ← rd d (i + 2)
  let e ← rd d (i + 3)
  pure (be32 a b c e)

/-- the common head of every `try_from_packet`: size check, error flag, event code — in that order -/
def preamble (k : Kind) (p : Packet) (sizeOk : Bool) : Res CErr Unit :=
  if !sizeOk then .err .wrongSize
  else if p.isError then .err .wrongType
  else do
    let c ← rd16 p.data 0
    if c != k.code then .err .wrongEventType else pure ()

/-- the size check each `try_from_packet` starts with -/
def sizeOk (k : Kind) (n : Nat) : Bool :=
  match k with
  | .bootloaderHello | .programmerHello | .ack | .gatewayDiscover => n == 4
  | .startFirmwareUpgrade | .startConfigUpgrade => n == 8
  | .data => decide (6 ≤ n)                      -- the length check added by repair D3
  | .configuratorHello | .systemTick => n == 2
  | .bcmChange => decide (7 ≤ n)
  | .buttonPressed | .buttonReleased => n == 5
  | .setDeviceAddress | .relaySet => n == 6
  | .message => n == 14
  | .bcmAnimate => decide (11 ≤ n)

/-- what each `try_from_packet` does after size, error flag and event code were accepted -/
def decodeFields (k : Kind) (p : Packet) : Res CErr Event :=
  let d := p.data
  match k with
  | .bootloaderHello => do pure (.bootloaderHello p.addr (← rd16 d 2))
  | .programmerHello => do pure (.programmerHello (← rd16 d 2))
  | .startFirmwareUpgrade => do pure (.startFirmwareUpgrade p.addr (← rd16 d 2) (← rd32 d 4))
  | .ack => do pure (.ack p.addr (← rd16 d 2))
  | .data => do
    let t ← rd16 d 2
    let n ← rd16 d 4
    if d.length ≠ n.toNat + 6 then .err .wrongSize else
    pure (.data p.addr t n (d.drop 6))
  | .configuratorHello => pure .configuratorHello
  | .bcmChange => do
    let t ← rd16 d 2
    let i ← rd d 4
    let v ← BcmValue.de (d.drop 5)
    pure (.bcmChange p.addr t i v)
  | .buttonPressed => do pure (.buttonPressed p.addr (← rd16 d 2) (← rd d 4))
  | .buttonReleased => do pure (.buttonReleased p.addr (← rd16 d 2) (← rd d 4))
  | .systemTick => pure (.systemTick p.addr)
  | .startConfigUpgrade => do pure (.startConfigUpgrade p.addr (← rd16 d 2) (← rd32 d 4))
  | .setDeviceAddress => do pure (.setDeviceAddress p.addr (← rd16 d 2) (← rd16 d 4))
  | .message => do
    let t ← rd16 d 2
    let c ← rd16 d 4
    let v ← MessageValue.ofImage (d.drop 6)
    pure (.message p.addr t c v)
  | .bcmAnimate => do
    let t ← rd16 d 2
    let i ← rd d 4
    let dur ← rd32 d 5
    let v ← BcmValue.de (d.drop 9)
    pure (.bcmAnimate p.addr t i dur v)
  | .relaySet => do
    let t ← rd16 d 2
    let i ← rd d 4
    let v ← RelayValue.de (d.drop 5)
    pure (.relaySet p.addr t i v)
  | .gatewayDiscover => do pure (.gatewayDiscover p.addr (← rd16 d 2))

/-- `ConvertPacket::try_from_packet` for kind `k` -/
def decode (k : Kind) (p : Packet) : Res CErr Event := do
  preamble k p (sizeOk k p.data.length)
  decodeFields k p

end Ross
