import RossModel.Link
/-!
# Poll traces with the receiver state and the unread part of the device script after every call

`bytePollsSt` / `canPollsSt` are `bytePolls` / `canPolls` (one entry per `try_get_packet` call made by the
driver loop) carrying, beside the call's result, the number of script items still unread when the call
returned and the receiver state it left. The projections to the results are proved equal to the plain
`*Polls`, so everything proved about those speaks about these traces; the extra components are what the
correspondence check compares with the real receiver (items left on the device after each call: "consumes
nothing beyond", C06/C13) and what the memory oracle of C19 needs (frames announced by the packet in flight).
-/
namespace Ross

def bytePollsSt (step : LinkSt → ByteItem → LinkSt × Option Out) : LinkSt → List ByteItem → List (Out × Nat × LinkSt)
  | st, [] => match st.ph with
    | .idle => [(.nothing, 0, st)]
    | _ => [(.blocked, 0, st)]
  | st, it :: s =>
    match step st it with
    | (st', some o) =>
      if o = .nothing ∧ s = [] then [(.nothing, 0, st')] else (o, s.length, st') :: bytePollsSt step st' s
    | (st', none) => bytePollsSt step st' s

def canPollsSt : RxSt → List CanItem → List (Out × Nat × RxSt)
  | st, [] => [(.nothing, 0, st)]
  | st, .frame c :: s =>
    (match rxFrame st (fromCan c) with
      | (st', some e) => (.emit e, s.length, st') :: canPollsSt st' s
      | (st', none) => canPollsSt st' s)
  | st, .wouldBlock :: s => if s = [] then [(.nothing, 0, st)] else (.nothing, s.length, st) :: canPollsSt st s
  | st, .overrun :: s => if s = [] then [(.nothing, 0, st)] else (.nothing, s.length, st) :: canPollsSt st s

/-- `serialEnd` on traces with states: on a serial port an exhausted script inside a link frame is a `read_exact`
time-out — the call returns a read error, the partial frame is dropped (the builder is kept), the next call finds
nothing -/
def serialEndSt : List (Out × Nat × LinkSt) → List (Out × Nat × LinkSt)
  | [] => []
  | [(.blocked, n, st)] => [(.emit .readErr, n, ⟨.idle, st.rx⟩), (.nothing, n, ⟨.idle, st.rx⟩)]
  | x :: t => x :: serialEndSt t

/-- the poll trace of the serial-port receiver -/
def serialPollsSt (st : LinkSt) (s : List ByteItem) : List (Out × Nat × LinkSt) :=
  serialEndSt (bytePollsSt serialStep st s)

theorem serialEndSt_outs (l : List (Out × Nat × LinkSt)) : (serialEndSt l).map (·.1) = serialEnd (l.map (·.1)) := by
  induction l with
  | nil => rfl
  | cons x t ih =>
    obtain ⟨o, n, st⟩ := x
    cases t with
    | nil => cases o <;> simp [serialEndSt, serialEnd]
    | cons y t' =>
      have : serialEndSt ((o, n, st) :: y :: t') = (o, n, st) :: serialEndSt (y :: t') := by
        cases o <;> simp [serialEndSt]
      rw [this, List.map_cons, ih]
      cases o <;> simp [serialEnd]

theorem bytePollsSt_outs (step : LinkSt → ByteItem → LinkSt × Option Out) (st : LinkSt) (s : List ByteItem) :
    (bytePollsSt step st s).map (·.1) = bytePolls step st s := by
  induction s generalizing st with
  | nil => simp only [bytePollsSt, bytePolls]; cases st.ph <;> rfl
  | cons it s ih =>
    simp only [bytePollsSt, bytePolls]
    cases hstep : step st it with
    | mk st' o =>
      cases o with
      | none => exact ih st'
      | some o =>
        simp only
        split
        · rfl
        · simp [ih st']

theorem canPollsSt_outs (st : RxSt) (s : List CanItem) : (canPollsSt st s).map (·.1) = canPolls st s := by
  induction s generalizing st with
  | nil => rfl
  | cons it s ih =>
    cases it with
    | frame c =>
      simp only [canPollsSt, canPolls]
      cases hrx : rxFrame st (fromCan c) with
      | mk st' o => cases o <;> simp [ih st']
    | wouldBlock => simp only [canPollsSt, canPolls]; split <;> simp [ih st]
    | overrun => simp only [canPollsSt, canPolls]; split <;> simp [ih st]

theorem serialPollsSt_outs (st : LinkSt) (s : List ByteItem) : (serialPollsSt st s).map (·.1) = serialPolls st s := by
  rw [serialPollsSt, serialEndSt_outs, bytePollsSt_outs]; rfl

end Ross
