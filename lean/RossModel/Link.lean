import RossModel.Packet
/-!
# Model of `src/interface/{can,usart,serial}.rs` over scripted devices

A device is a finite script of answers; when the script is exhausted the device says
"no data yet" (receive) or accepts everything (send) forever.

Receivers are item-level transition systems: the phase is the program counter of the nested
read loops of `try_get_packet`. `*Polls` lists the result of every `try_get_packet` call made by
the driver loop "call until a call returns nothing with the script empty".
-/
namespace Ross

/-- what one `try_get_packet` call can return besides "nothing" (`NoPacketReceived`) -/
inductive Emit where
  | packet (p : Packet)
  | builderErr (e : BErr)
  | frameErr (e : FErr)
  | readErr
  | panic
  deriving Repr, DecidableEq

/-- result of one call -/
inductive Out where
  | nothing
  | emit (e : Emit)
  | blocked            -- the real code would spin forever in `block!` / never return
  deriving Repr, DecidableEq

abbrev RxSt := Option Builder

/-- the frame-level body shared by the three `try_get_packet` loops (with repair D6 all three
drop the builder when `add_frame` fails) -/
def rxStep (st : RxSt) (f : Frame) : RxSt × Option Emit :=
  let r := match st with
    | some b => b.addFrame f
    | none => Builder.new f
  match r with
  | .err e => (none, some (.builderErr e))
  | .panic => (st, some .panic)
  | .ok b' =>
    match b'.framesLeft with
    | .panic => (some b', some .panic)
    | .err e => (some b', some (.builderErr e))
    | .ok 0 =>
      (match b'.build with
        | .ok p => (none, some (.packet p))
        | .err e => (some b', some (.builderErr e))
        | .panic => (some b', some .panic))
    | .ok (_ + 1) => (some b', none)

/-- a decoded (or undecodable) link frame arrives -/
def rxFrame (st : RxSt) (r : Res FErr Frame) : RxSt × Option Emit :=
  match r with
  | .ok f => rxStep st f
  | .err e => (st, some (.frameErr e))
  | .panic => (st, some .panic)

/-- the emissions of a receiver as a function of the decoded link frames alone -/
def run : RxSt → List (Res FErr Frame) → List Emit × RxSt
  | st, [] => ([], st)
  | st, r :: rs =>
    match rxFrame st r with
    | (st', some e) => let (es, st'') := run st' rs; (e :: es, st'')
    | (st', none) => run st' rs

/-! ## CAN -/

inductive CanItem where
  | frame (c : CanFrame) | wouldBlock | overrun
  deriving Repr, DecidableEq

/-- one `Can::try_get_packet` call, written as the source's loop -/
def canPoll : RxSt → List CanItem → Out × RxSt × List CanItem
  | st, [] => (.nothing, st, [])
  | st, .wouldBlock :: s => (.nothing, st, s)           -- `Err(_) => break`
  | st, .overrun :: s => (.nothing, st, s)
  | st, .frame c :: s =>
    match rxFrame st (fromCan c) with
    | (st', some e) => (.emit e, st', s)
    | (st', none) => canPoll st' s

def canPolls : RxSt → List CanItem → List Out
  | _, [] => [.nothing]
  | st, .frame c :: s =>
    (match rxFrame st (fromCan c) with
      | (st', some e) => .emit e :: canPolls st' s
      | (st', none) => canPolls st' s)
  | st, _ :: s => if s = [] then [.nothing] else .nothing :: canPolls st s

/-! ## USART (`embedded_hal::serial`, `nb`) and serial port (`std::io`) -/

inductive ByteItem where
  | byte (b : UInt8)
  | wouldBlock        -- USART: `nb::Error::WouldBlock`; serial port: read timed out
  | error             -- USART: `nb::Error::Other`; serial port: any other I/O error
  | interrupted       -- serial port only: `ErrorKind::Interrupted` (retried by `read_exact`)
  | eof               -- serial port only: `read` returned `Ok(0)`
  deriving Repr, DecidableEq

inductive Phase where
  | idle
  | gotDelim
  | body (len : Nat) (acc : List UInt8)
  deriving Repr, DecidableEq

structure LinkSt where
  ph : Phase
  rx : RxSt
  deriving Repr, DecidableEq

def LinkSt.init : LinkSt := ⟨.idle, none⟩

/-- a complete body has been read: decode it and run the frame-level step -/
def finishFrame (rx : RxSt) (bytes : List UInt8) : LinkSt × Option Out :=
  match rxFrame rx (fromUsart bytes) with
  | (rx', some e) => (⟨.idle, rx'⟩, some (.emit e))
  | (rx', none) => (⟨.idle, rx'⟩, none)

/-- after the length byte -/
def startBody (rx : RxSt) (l : UInt8) : LinkSt × Option Out :=
  if l = 0 then finishFrame rx []            -- repair D5: an empty body is complete at once
  else (⟨.body l.toNat [], rx⟩, none)

def pushBody (rx : RxSt) (len : Nat) (acc : List UInt8) (b : UInt8) : LinkSt × Option Out :=
  if (acc ++ [b]).length = len then finishFrame rx (acc ++ [b])
  else (⟨.body len (acc ++ [b]), rx⟩, none)

/-- `Usart::try_get_packet`, one device answer at a time -/
def usartStep (st : LinkSt) (it : ByteItem) : LinkSt × Option Out :=
  match st.ph, it with
  | .idle, .byte b => if b = 0 then (⟨.gotDelim, st.rx⟩, none) else (st, none)
  | .idle, _ => (st, some .nothing)                       -- outer `read()`: `Err(_) => break`
  | .gotDelim, .byte l => startBody st.rx l
  | .gotDelim, .wouldBlock => (st, none)                  -- `block!` spins
  | .gotDelim, _ => (⟨.idle, st.rx⟩, some (.emit .readErr))
  | .body len acc, .byte b => pushBody st.rx len acc b
  | .body _ _, .wouldBlock => (st, none)
  | .body _ _, _ => (⟨.idle, st.rx⟩, some (.emit .readErr))

/-- `Serial::try_get_packet` (`read_exact` retries `Interrupted`, fails on everything else,
and a failure before the delimiter is reported as "nothing") -/
def serialStep (st : LinkSt) (it : ByteItem) : LinkSt × Option Out :=
  match st.ph, it with
  | _, .interrupted => (st, none)
  | .idle, .byte b => if b = 0 then (⟨.gotDelim, st.rx⟩, none) else (st, none)
  | .idle, _ => (st, some .nothing)
  | .gotDelim, .byte l => startBody st.rx l
  | .gotDelim, _ => (⟨.idle, st.rx⟩, some (.emit .readErr))
  | .body len acc, .byte b => pushBody st.rx len acc b
  | .body _ _, _ => (⟨.idle, st.rx⟩, some (.emit .readErr))

/-- an item that ends a call with "nothing" when it is the last of the script is the final call itself -/
def ByteItem.isByte : ByteItem → Bool
  | .byte _ => true
  | _ => false

def bytePolls (step : LinkSt → ByteItem → LinkSt × Option Out) : LinkSt → List ByteItem → List Out
  | st, [] => match st.ph with
    | .idle => [.nothing]
    | _ => [.blocked]
  | st, it :: s =>
    match step st it with
    | (st', some o) => if o = .nothing ∧ s = [] then [.nothing] else o :: bytePolls step st' s
    | (st', none) => bytePolls step st' s

def usartPolls := bytePolls usartStep

/-- the serial-port receiver over a script, with script exhaustion read like the USART's (spin) -/
def serialPollsRaw := bytePolls serialStep

/-- On a serial port an exhausted script inside a link frame is not a spin: `read_exact` times out, the call
returns a read error (the partial frame is lost) and the next call finds nothing. `.blocked` can only be the
last entry of a raw trace. -/
def serialEnd : List Out → List Out
  | [] => []
  | [.blocked] => [.emit .readErr, .nothing]
  | o :: t => o :: serialEnd t

/-- results of every `Serial::try_get_packet` call over a device script -/
def serialPolls (st : LinkSt) (s : List ByteItem) : List Out := serialEnd (serialPollsRaw st s)

/-! ## senders -/

/-- all results are values, or the whole computation panicked -/
def allOk {ε α : Type} : List (Res ε α) → Option (List α)
  | [] => some []
  | .ok a :: rs => (allOk rs).map (a :: ·)
  | _ :: _ => none

/-- one link frame on a USART / serial-port wire: zero delimiter, length byte, COBS body -/
def linkFrame (body : List UInt8) : List UInt8 := 0x00 :: UInt8.ofNat body.length :: body

def wireOf (bodies : List (List UInt8)) : List UInt8 := bodies.flatMap linkFrame

/-- `packet.to_frames()` followed by `to_usart_frame()` on each frame -/
def usartFrames (p : Packet) : Option (List (List UInt8)) :=
  match p.toFrames with
  | .ok fs => allOk (fs.map toUsart)
  | _ => none

/-- `packet.to_frames()` followed by `to_bxcan_frame()` on each frame -/
def canFramesOf (p : Packet) : Option (List CanFrame) :=
  match p.toFrames with
  | .ok fs => allOk (fs.map toCan)
  | _ => none

/-- the bytes one packet puts on a USART / serial-port link -/
def wireBytes (p : Packet) : Res Unit (List UInt8) :=
  match usartFrames p with
  | some us => .ok (wireOf us)
  | none => .panic

inductive WResp where
  | accept | wouldBlock | error
  deriving Repr, DecidableEq

/-- `let _ = block!(self.serial.write(b))`: retried while the device would block; an error is ignored
(the byte is lost) -/
def usartWrite (b : UInt8) : List WResp → List UInt8 × List WResp
  | [] => ([b], [])
  | .accept :: rs => ([b], rs)
  | .error :: rs => ([], rs)
  | .wouldBlock :: rs => usartWrite b rs

def usartWriteAll : List UInt8 → List WResp → List UInt8
  | [], _ => []
  | b :: bs, rs => let (w, rs') := usartWrite b rs; w ++ usartWriteAll bs rs'

/-- `Usart::try_send_packet`: bytes accepted by the device; the call always returns `Ok(())` -/
def usartSend (p : Packet) (rs : List WResp) : Res Unit (List UInt8) :=
  match wireBytes p with
  | .ok w => .ok (usartWriteAll w rs)
  | _ => .panic

inductive TxResp where
  | sent | displaced | wouldBlock
  deriving Repr, DecidableEq

inductive SendErr where
  | mailboxFull | writeError
  deriving Repr, DecidableEq

/-- `block!(self.can.transmit(frame))` for each frame; stops with `MailboxFull` when the
controller reports a displaced frame -/
def canTransmitAll : List CanFrame → List TxResp → List CanFrame × Res SendErr Unit
  | [], _ => ([], .ok ())
  | c :: cs, [] => let (l, r) := canTransmitAll cs []; (c :: l, r)
  | c :: cs, .sent :: rs => let (l, r) := canTransmitAll cs rs; (c :: l, r)
  | c :: _, .displaced :: _ => ([c], .err .mailboxFull)
  | c :: cs, .wouldBlock :: rs => canTransmitAll (c :: cs) rs
termination_by cs rs => (cs.length, rs.length)

def canSend (p : Packet) (rs : List TxResp) : List CanFrame × Res SendErr Unit :=
  match canFramesOf p with
  | some cs => canTransmitAll cs rs
  | none => ([], .panic)

inductive IoResp where
  | wrote (n : Nat)      -- `Ok(n)`, clipped to the buffer; `wrote 0` is `Ok(0)`
  | interrupted
  | ioError
  deriving Repr, DecidableEq

/-- `Write::write_all` (repair D7): device log, success, unread responses.
Every loop iteration consumes one response, so the recursion is structural in the responses. -/
def writeAll : List IoResp → List UInt8 → List UInt8 × Bool × List IoResp
  | [], buf => (buf, true, [])
  | r :: rs, buf =>
    if buf = [] then ([], true, r :: rs)
    else match r with
      | .interrupted => writeAll rs buf
      | .ioError => ([], false, rs)
      | .wrote n =>
        if n = 0 then ([], false, rs)                  -- `ErrorKind::WriteZero`
        else
          let k := min n buf.length
          let (w, ok, rs') := writeAll rs (buf.drop k)
          (buf.take k ++ w, ok, rs')

inductive FlushResp where
  | ok | ioError
  deriving Repr, DecidableEq

/-- `Serial::try_send_packet`: per frame three `write_all`s (delimiter, length, frame), then `flush` -/
def serialSendFrames : List (List UInt8) → List IoResp → List UInt8 × Bool × List IoResp
  | [], rs => ([], true, rs)
  | u :: us, rs =>
    let (w1, ok1, rs1) := writeAll rs [0x00]
    if !ok1 then (w1, false, rs1) else
    let (w2, ok2, rs2) := writeAll rs1 [UInt8.ofNat u.length]
    if !ok2 then (w1 ++ w2, false, rs2) else
    let (w3, ok3, rs3) := writeAll rs2 u
    if !ok3 then (w1 ++ w2 ++ w3, false, rs3) else
    let (w, ok, rs') := serialSendFrames us rs3
    (w1 ++ w2 ++ w3 ++ w, ok, rs')

def serialSend (p : Packet) (rs : List IoResp) (fl : FlushResp) : List UInt8 × Res SendErr Unit :=
  match usartFrames p with
  | some us =>
    let (w, ok, _) := serialSendFrames us rs
    if !ok then (w, .err .writeError)
    else match fl with
      | .ok => (w, .ok ())
      | .ioError => (w, .err .writeError)
  | none => ([], .panic)

end Ross
