import RossModel.Link
/-!
# Several `try_send_packet` calls on one interface instance

The single-send functions of `Link.lean` with the unread part of the device's response script threaded through,
so that a sequence of sends on the same instance (where a failed send must not influence the next) can be
compared with the real senders. Projections to the single-send functions are proved in `Lemmas/SendMany.lean`.
-/
namespace Ross

def usartWriteAllR : List UInt8 → List WResp → List UInt8 × List WResp
  | [], rs => ([], rs)
  | b :: bs, rs =>
    let (w, rs') := usartWrite b rs
    let (w2, rs'') := usartWriteAllR bs rs'
    (w ++ w2, rs'')

def canTransmitAllR : List CanFrame → List TxResp → List CanFrame × Res SendErr Unit × List TxResp
  | [], rs => ([], .ok (), rs)
  | c :: cs, [] => let (l, r, rs') := canTransmitAllR cs []; (c :: l, r, rs')
  | c :: cs, .sent :: rs => let (l, r, rs') := canTransmitAllR cs rs; (c :: l, r, rs')
  | c :: _, .displaced :: rs => ([c], .err .mailboxFull, rs)
  | c :: cs, .wouldBlock :: rs => canTransmitAllR (c :: cs) rs
termination_by cs rs => (cs.length, rs.length)

/-- sends on a USART: the bytes the device accepted over all sends; every send returns `Ok` -/
def usartSendMany : List (List (List UInt8)) → List WResp → List UInt8
  | [], _ => []
  | us :: rest, rs =>
    let (w, rs') := usartWriteAllR (wireOf us) rs
    w ++ usartSendMany rest rs'

/-- sends on CAN: frames handed to the controller over all sends, and the result of each send -/
def canSendMany : List (List CanFrame) → List TxResp → List CanFrame × List (Res SendErr Unit)
  | [], _ => ([], [])
  | cs :: rest, rs =>
    let (l, r, rs') := canTransmitAllR cs rs
    let (l2, r2) := canSendMany rest rs'
    (l ++ l2, r :: r2)

/-- sends on a serial port: bytes on the device, number of flushes, result of each send; `fls` are the answers of
the flush calls in order (exhausted = ok) -/
def serialSendMany : List (List (List UInt8)) → List IoResp → List FlushResp → List UInt8 × Nat × List (Res SendErr Unit)
  | [], _, _ => ([], 0, [])
  | us :: rest, rs, fls =>
    let (w, ok, rs') := serialSendFrames us rs
    if !ok then
      let (w2, n2, r2) := serialSendMany rest rs' fls
      (w ++ w2, n2, .err .writeError :: r2)
    else
      let fl := fls.headD .ok
      let (w2, n2, r2) := serialSendMany rest rs' fls.tail
      (w ++ w2, n2 + 1, (match fl with | .ok => .ok () | .ioError => .err .writeError) :: r2)

end Ross
