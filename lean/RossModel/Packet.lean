import RossModel.Frame
/-!
# Model of `src/packet.rs`
-/
namespace Ross

structure Packet where
  isError : Bool
  addr : UInt16
  data : List UInt8
  deriving Repr, DecidableEq

/-- `Packet::to_frames`. The index arithmetic is the source's; the inner copy loop
`data[j + 1] = self.data[i * 7 + j]` for `j < data_len - 1` is `drop (i*7) |>.take (data_len-1)`
guarded by the same bound check Rust performs. `frame_count as u16 - 1` is a cast followed by a
checked subtraction. -/
def Packet.toFrames (p : Packet) : Res Unit (List Frame) :=
  let n := p.data.length
  if n ≤ 8 then
    .ok [{ notError := !p.isError, start := true, multi := false, idLast := true, fid := 0,
           addr := p.addr, dataLen := n % 256, data := pad8 p.data }]
  else
    let fc := (n - 1) / 7 + 1
    if fc % 65536 = 0 then .panic else        -- `frame_count as u16 - 1` underflows
    .ok <| (List.range fc).map fun i =>
      let dl := if i = fc - 1 then (if n % 7 = 0 then 8 else n % 7 + 1) else 8
      { notError := !p.isError, start := i == 0, multi := true, idLast := i == 0,
        fid := if i = 0 then fc % 65536 - 1 else i % 65536,
        addr := p.addr, dataLen := dl,
        data := pad8 (UInt8.ofNat (if i = 0 then fc - 1 else i) :: (p.data.drop (i * 7)).take (dl - 1)) }

inductive BErr where
  | outOfOrder | singleFramePacket | tooManyFrames | wrongFrameType | deviceAddressMismatch | missingFrames
  deriving Repr, DecidableEq

/-- `PacketBuilder` -/
structure Builder where
  isError : Bool
  expected : Nat
  addr : UInt16
  frames : List Frame
  deriving Repr, DecidableEq

/-- `PacketBuilder::new` (`last_frame_id + 1` is a checked `u16` addition) -/
def Builder.new (f : Frame) : Res BErr Builder :=
  if !f.start then .err .outOfOrder
  else if !f.idLast then .err .outOfOrder
  else if 65536 ≤ f.fid + 1 then .panic
  else .ok { isError := !f.notError, expected := f.fid + 1, addr := f.addr, frames := [f] }

/-- `PacketBuilder::add_frame`: the guard chain in source order -/
def Builder.addFrame (b : Builder) (f : Frame) : Res BErr Builder :=
  if (!f.notError) != b.isError then .err .wrongFrameType
  else if f.addr != b.addr then .err .deviceAddressMismatch
  else if f.start then .err .outOfOrder
  else if !f.multi then .err .singleFramePacket
  else if f.idLast then .err .outOfOrder
  else if f.fid != b.frames.length % 65536 then .err .outOfOrder
  else if f.fid ≥ b.expected then .err .tooManyFrames
  else .ok { b with frames := b.frames ++ [f] }

/-- `frame_count()`: `self.frames.len() as u16` -/
def Builder.frameCount (b : Builder) : Nat := b.frames.length % 65536

/-- `frames_left()`: checked `u16` subtraction -/
def Builder.framesLeft (b : Builder) : Res BErr Nat :=
  if b.expected < b.frameCount then .panic else .ok (b.expected - b.frameCount)

/-- bytes one stored frame contributes in `build` (`frame.data[i]` is a checked index) -/
def Frame.payload (f : Frame) : Option (List UInt8) :=
  if f.dataLen ≤ f.data.length then some ((f.data.take f.dataLen).drop (if f.multi then 1 else 0)) else none

def payloads : List Frame → Option (List UInt8)
  | [] => some []
  | f :: fs =>
    match f.payload, payloads fs with
    | some a, some b => some (a ++ b)
    | _, _ => none

/-- `PacketBuilder::build` -/
def Builder.build (b : Builder) : Res BErr Packet :=
  if b.frames.length != b.expected then .err .missingFrames
  else match payloads b.frames with
    | some d => .ok { isError := b.isError, addr := b.addr, data := d }
    | none => .panic

/-- feed frames one after the other, stopping at the first failure -/
def Builder.addAll (b : Builder) : List Frame → Res BErr Builder
  | [] => .ok b
  | f :: fs =>
    match b.addFrame f with
    | .ok b' => b'.addAll fs
    | .err e => .err e
    | .panic => .panic

/-- `new` on the first frame, `add_frame` on the others, then `build` -/
def reassemble : List Frame → Res BErr Packet
  | [] => .err .missingFrames
  | f :: fs =>
    match Builder.new f with
    | .ok b0 =>
      (match b0.addAll fs with
        | .ok b => b.build
        | .err e => .err e
        | .panic => .panic)
    | .err e => .err e
    | .panic => .panic

end Ross
