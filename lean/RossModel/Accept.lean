import RossModel.Event
import RossModel.Packet
/-!
# Executable acceptance predicates (evaluated by the driver on the implementation's own answers)
-/
namespace Ross

/-- Bool form of `Applies` (C07): the reason the builder gave for rejecting `f` truly applies -/
def appliesB (r : BErr) (b : Builder) (f : Frame) : Bool :=
  match r with
  | .wrongFrameType => (!f.notError) != b.isError
  | .deviceAddressMismatch => f.addr != b.addr
  | .outOfOrder => f.start || f.idLast || f.fid != b.frames.length % 65536
  | .singleFramePacket => !f.multi
  | .tooManyFrames => decide (b.expected ≤ f.fid)
  | .missingFrames => false

/-- reason for rejecting a frame as the first of a packet -/
def newAppliesB (r : BErr) (f : Frame) : Bool :=
  match r with
  | .outOfOrder => !f.start || !f.idLast
  | _ => false

def minLen : Kind → Nat
  | .bootloaderHello | .programmerHello | .ack | .gatewayDiscover => 4
  | .startFirmwareUpgrade | .startConfigUpgrade => 8
  | .data => 6
  | .configuratorHello | .systemTick => 2
  | .bcmChange => 7
  | .buttonPressed | .buttonReleased => 5
  | .setDeviceAddress | .relaySet => 6
  | .message => 14
  | .bcmAnimate => 11

/-- the longest encoding of any value of the kind (a longer packet is no encoding of the kind, whatever its bytes) -/
def maxLen : Kind → Nat
  | .bcmChange => 11
  | .bcmAnimate => 15
  | .data => 65541
  | k => minLen k

def bcmLen (tag : UInt8) : Option Nat :=
  if tag = 0 ∨ tag = 1 then some 2 else if tag = 2 then some 4 else if tag = 3 ∨ tag = 4 then some 5
  else if tag = 5 then some 6 else none

def requiredLen (k : Kind) (d : List UInt8) : Option Nat :=
  match k with
  | .data => match d[4]?, d[5]? with
    | some h, some l => some ((be16 h l).toNat + 6)
    | _, _ => none
  | .bcmChange => match d[5]? with
    | some t => (bcmLen t).map (· + 5)
    | none => none
  | .bcmAnimate => match d[9]? with
    | some t => (bcmLen t).map (· + 9)
    | none => none
  | k => some (minLen k)

def unknownTagB (k : Kind) (d : List UInt8) : Bool :=
  match k with
  | .bcmChange => match d[5]? with | some t => (bcmLen t).isNone | none => false
  | .bcmAnimate => match d[9]? with | some t => (bcmLen t).isNone | none => false
  | .relaySet => match d[5]? with | some t => decide (4 < t.toNat) | none => false
  | .message => match d[6]?, d[7]?, d[8]?, d[9]?, d[10]? with
    | some t0, some t1, some t2, some t3, some v =>
      let tag := (le32 t0 t1 t2 t3).toNat
      decide (tag > 3) || (tag == 3 && decide (v.toNat > 1))
    | _, _, _, _, _ => false
  | _ => false

def codeOf (d : List UInt8) : Option UInt16 :=
  match d with
  | h :: l :: _ => some (be16 h l)
  | _ => none

/-- Bool form of `CApplies` (C05) -/
def cappliesB (r : CErr) (k : Kind) (p : Packet) : Bool :=
  match r with
  | .wrongSize => (decide (p.data.length < minLen k) ||
      (match requiredLen k p.data with | some n => n != p.data.length | none => false)) || decide (maxLen k < p.data.length)
  | .wrongType => p.isError
  | .wrongEventType => match codeOf p.data with | some c => c != k.code | none => false
  | .unknownEnumVariant => unknownTagB k p.data

end Ross
