import RossModel.Lemmas.Transparent
/-!
# C14: senders put byte-exact frames on the link, in order, even under back-pressure
-/
namespace Ross

theorem allOk_map_ok {ε α : Type} (l : List α) : allOk (l.map (Res.ok : α → Res ε α)) = some l := by
  induction l with
  | nil => rfl
  | cons a l ih => simp [allOk, ih]

theorem usartFrames_eq (p : Packet) (hn : p.data.length ≤ 28672) : usartFrames p = some (usartBodies p) := by
  have hmap : (specFrames p).map toUsart = (usartBodies p).map .ok := by
    simp only [usartBodies, List.map_map]
    apply List.map_congr_left
    intro f hf
    rw [toUsart_layout f (specFrames_wf p hn f hf).1, ← usartBody_eq]; rfl
  simp only [usartFrames, toFrames_eq_spec p hn, hmap, allOk_map_ok]

theorem canFramesOf_eq (p : Packet) (hn : p.data.length ≤ 28672) : canFramesOf p = some (canWire p) := by
  have hmap : (specFrames p).map toCan = (canWire p).map .ok := by
    simp only [canWire, List.map_map]
    apply List.map_congr_left
    intro f hf
    exact toCan_layout f (specFrames_wf p hn f hf).1
  simp only [canFramesOf, toFrames_eq_spec p hn, hmap, allOk_map_ok]

/-- the sender's wire image is the concatenation of the link frames of the fragmentation -/
theorem wireBytes_eq (p : Packet) (hn : p.data.length ≤ 28672) : wireBytes p = .ok (wireOf (usartBodies p)) := by
  simp only [wireBytes, usartFrames_eq p hn]

theorem usartWrite_noerr (b : UInt8) (rs : List WResp) (h : ∀ r ∈ rs, r ≠ .error) :
    (usartWrite b rs).1 = [b] ∧ ∀ r ∈ (usartWrite b rs).2, r ≠ .error := by
  induction rs with
  | nil => simp [usartWrite]
  | cons r rs ih =>
    cases r with
    | accept => simp only [usartWrite]; exact ⟨trivial, fun r hr => h r (by simp [hr])⟩
    | error => exact absurd rfl (h .error (by simp))
    | wouldBlock => simp only [usartWrite]; exact ih (fun r hr => h r (by simp [hr]))

theorem usartWriteAll_noerr (bs : List UInt8) (rs : List WResp) (h : ∀ r ∈ rs, r ≠ .error) :
    usartWriteAll bs rs = bs := by
  induction bs generalizing rs with
  | nil => simp [usartWriteAll]
  | cons b bs ih =>
    obtain ⟨h1, h2⟩ := usartWrite_noerr b rs h
    simp only [usartWriteAll]
    rw [h1, ih _ h2]
    simp

/-- C14 (USART): however often the device would block before accepting a byte, exactly the wire image
is handed to the device, in order, each byte once -/
theorem usartSend_exact (p : Packet) (hn : p.data.length ≤ 28672) (rs : List WResp) (h : ∀ r ∈ rs, r ≠ .error) :
    usartSend p rs = .ok (wireOf (usartBodies p)) := by
  simp only [usartSend, wireBytes_eq p hn, usartWriteAll_noerr _ rs h]

/-! ## CAN -/

/-- frames handed to the controller and the result, stated directly:
everything up to and including the first displaced report -/
def canExpected : List CanFrame → List TxResp → List CanFrame × Res SendErr Unit
  | [], _ => ([], .ok ())
  | cs, [] => (cs, .ok ())
  | c :: cs, r :: rs =>
    match r with
    | .wouldBlock => canExpected (c :: cs) rs
    | .sent => let (l, res) := canExpected cs rs; (c :: l, res)
    | .displaced => ([c], .err .mailboxFull)
termination_by cs rs => cs.length + rs.length

theorem canTransmitAll_nil_resp (cs : List CanFrame) : canTransmitAll cs [] = (cs, .ok ()) := by
  induction cs with
  | nil => simp [canTransmitAll]
  | cons c cs ih => simp [canTransmitAll, ih]

/-- the log is always a prefix of the frames, in order, each once -/
theorem canTransmitAll_prefix (cs : List CanFrame) (rs : List TxResp) :
    (canTransmitAll cs rs).1 <+: cs ∧
    ((canTransmitAll cs rs).2 = .ok () → (canTransmitAll cs rs).1 = cs) ∧
    ((canTransmitAll cs rs).2 = .ok () ∨ (canTransmitAll cs rs).2 = .err .mailboxFull) := by
  induction rs generalizing cs with
  | nil => rw [canTransmitAll_nil_resp]; simp
  | cons r rs ih =>
    cases cs with
    | nil => simp [canTransmitAll]
    | cons c cs =>
      cases r with
      | wouldBlock => simp only [canTransmitAll]; exact ih (c :: cs)
      | displaced => simp [canTransmitAll]
      | sent =>
        simp only [canTransmitAll]
        obtain ⟨h1, h2, h3⟩ := ih cs
        refine ⟨?_, ?_, h3⟩
        · exact List.prefix_cons_inj c |>.mpr h1
        · intro h; rw [h2 h]

/-- C14 (CAN): with no displaced report, every frame of the packet is transmitted once, in order,
however often the controller would block; a displaced report is returned as an error -/
theorem canSend_exact (p : Packet) (hn : p.data.length ≤ 28672) (rs : List TxResp) :
    (canSend p rs).1 <+: canWire p ∧
    ((canSend p rs).2 = .ok () → (canSend p rs).1 = canWire p) ∧
    ((∀ r ∈ rs, r ≠ .displaced) → (canSend p rs).2 = .ok ()) ∧
    ((canSend p rs).2 = .ok () ∨ (canSend p rs).2 = .err .mailboxFull) := by
  have hsend : canSend p rs = canTransmitAll (canWire p) rs := by
    simp only [canSend, canFramesOf_eq p hn]
  rw [hsend]
  obtain ⟨h1, h2, h3⟩ := canTransmitAll_prefix (canWire p) rs
  refine ⟨h1, h2, ?_, h3⟩
  intro hnd
  generalize canWire p = cs
  clear hsend h1 h2 h3
  induction rs generalizing cs with
  | nil => rw [canTransmitAll_nil_resp]
  | cons r rs ih =>
    cases cs with
    | nil => simp [canTransmitAll]
    | cons c cs =>
      cases r with
      | wouldBlock => simp only [canTransmitAll]; exact ih (fun r hr => hnd r (by simp [hr])) _
      | displaced => exact absurd rfl (hnd .displaced (by simp))
      | sent => simp only [canTransmitAll]; exact ih (fun r hr => hnd r (by simp [hr])) cs


/-! ## serial port -/

/-- a response that makes `write_all` fail -/
def IoResp.isFault : IoResp → Bool
  | .ioError => true
  | .wrote n => n == 0
  | .interrupted => false

/-- `write_all`: what reaches the device is always a prefix of the buffer; on success it is the whole
buffer; without a failing response it succeeds, whatever the sizes of the short writes -/
theorem writeAll_spec (rs : List IoResp) (buf : List UInt8) :
    (writeAll rs buf).1 <+: buf ∧
    ((writeAll rs buf).2.1 = true → (writeAll rs buf).1 = buf) ∧
    ((∀ r ∈ rs, r.isFault = false) →
      (writeAll rs buf).2.1 = true ∧ ∀ r ∈ (writeAll rs buf).2.2, r.isFault = false) := by
  induction rs generalizing buf with
  | nil => simp [writeAll]
  | cons r rs ih =>
    simp only [writeAll]
    by_cases hb : buf = []
    · subst hb; simp
    · simp only [hb, if_false]
      cases r with
      | interrupted =>
        obtain ⟨h1, h2, h3⟩ := ih buf
        exact ⟨h1, h2, fun hf => h3 (fun r hr => hf r (by simp [hr]))⟩
      | ioError =>
        refine ⟨by simp, by simp, ?_⟩
        intro hf; have := hf .ioError (by simp); simp [IoResp.isFault] at this
      | wrote n =>
        by_cases hn : n = 0
        · subst hn
          refine ⟨by simp, by simp, ?_⟩
          intro hf; have := hf (.wrote 0) (by simp); simp [IoResp.isFault] at this
        · simp only [hn, if_false]
          obtain ⟨h1, h2, h3⟩ := ih (buf.drop (min n buf.length))
          refine ⟨?_, ?_, ?_⟩
          · obtain ⟨t, ht⟩ := h1
            refine ⟨t, ?_⟩
            rw [List.append_assoc, ht, List.take_append_drop]
          · intro hok
            rw [h2 hok, List.take_append_drop]
          · intro hf
            exact h3 (fun r hr => hf r (by simp [hr]))

theorem serialSendFrames_spec (us : List (List UInt8)) (rs : List IoResp) :
    (serialSendFrames us rs).1 <+: wireOf us ∧
    ((serialSendFrames us rs).2.1 = true → (serialSendFrames us rs).1 = wireOf us) ∧
    ((∀ r ∈ rs, r.isFault = false) → (serialSendFrames us rs).2.1 = true) := by
  induction us generalizing rs with
  | nil => simp [serialSendFrames, wireOf]
  | cons u us ih =>
    obtain ⟨a1, a2, a3⟩ := writeAll_spec rs [0x00]
    obtain ⟨b1, b2, b3⟩ := writeAll_spec (writeAll rs [0x00]).2.2 [UInt8.ofNat u.length]
    obtain ⟨c1, c2, c3⟩ := writeAll_spec (writeAll (writeAll rs [0x00]).2.2 [UInt8.ofNat u.length]).2.2 u
    obtain ⟨d1, d2, d3⟩ := ih (writeAll (writeAll (writeAll rs [0x00]).2.2 [UInt8.ofNat u.length]).2.2 u).2.2
    have hw : wireOf (u :: us) = [0x00] ++ [UInt8.ofNat u.length] ++ u ++ wireOf us := by
      simp [wireOf, linkFrame]
    simp only [serialSendFrames]
    rw [hw]
    cases h1 : (writeAll rs [0x00]).2.1 with
    | false =>
      simp only [h1, Bool.not_false, if_true]
      refine ⟨?_, by simp, fun hf => by have := (a3 hf).1; simp [h1] at this⟩
      rw [List.append_assoc, List.append_assoc]
      exact a1.trans (List.prefix_append _ _)
    | true =>
      simp only [h1, Bool.not_true, Bool.false_eq_true, if_false]
      have e1 := a2 h1
      cases h2 : (writeAll (writeAll rs [0x00]).2.2 [UInt8.ofNat u.length]).2.1 with
      | false =>
        simp only [h2, Bool.not_false, if_true]
        refine ⟨?_, by simp, fun hf => by have := (b3 (a3 hf).2).1; simp [h2] at this⟩
        rw [e1, List.append_assoc, List.append_assoc]
        refine (List.prefix_append_right_inj _).mpr ?_
        exact b1.trans (List.prefix_append _ _)
      | true =>
        simp only [h2, Bool.not_true, Bool.false_eq_true, if_false]
        have e2 := b2 h2
        cases h3 : (writeAll (writeAll (writeAll rs [0x00]).2.2 [UInt8.ofNat u.length]).2.2 u).2.1 with
        | false =>
          simp only [h3, Bool.not_false, if_true]
          refine ⟨?_, by simp, fun hf => by have := (c3 (b3 (a3 hf).2).2).1; simp [h3] at this⟩
          rw [e1, e2, List.append_assoc ([0x00] ++ [UInt8.ofNat u.length])]
          refine (List.prefix_append_right_inj _).mpr ?_
          exact c1.trans (List.prefix_append _ _)
        | true =>
          simp only [h3, Bool.not_true, Bool.false_eq_true, if_false]
          have e3 := c2 h3
          rw [e1, e2, e3]
          refine ⟨?_, ?_, ?_⟩
          · exact (List.prefix_append_right_inj _).mpr d1
          · intro hok; rw [d2 hok]
          · intro hf; exact d3 (c3 (b3 (a3 hf).2).2).2

/-- C14 (serial port): short writes of any positive size and interrupted writes do not lose or reorder a
byte; a failing write or flush is returned as an error, with only a prefix of the wire image written -/
theorem serialSend_exact (p : Packet) (hn : p.data.length ≤ 28672) (rs : List IoResp) (fl : FlushResp) :
    (serialSend p rs fl).1 <+: wireOf (usartBodies p) ∧
    ((serialSend p rs fl).2 = .ok () → (serialSend p rs fl).1 = wireOf (usartBodies p) ∧ fl = .ok) ∧
    ((∀ r ∈ rs, r.isFault = false) → fl = .ok → (serialSend p rs fl).2 = .ok ()) ∧
    (fl = .ioError → (serialSend p rs fl).2 = .err .writeError) ∧
    ((serialSend p rs fl).2 = .ok () ∨ (serialSend p rs fl).2 = .err .writeError) := by
  obtain ⟨h1, h2, h3⟩ := serialSendFrames_spec (usartBodies p) rs
  simp only [serialSend, usartFrames_eq p hn]
  cases hok : (serialSendFrames (usartBodies p) rs).2.1 with
  | false =>
    simp only [hok, Bool.not_false, if_true]
    exact ⟨h1, by simp, fun hf => by have := h3 hf; simp [hok] at this, by simp, by simp⟩
  | true =>
    simp only [hok, Bool.not_true, Bool.false_eq_true, if_false]
    cases fl with
    | ok => exact ⟨h1, fun _ => ⟨h2 hok, rfl⟩, fun _ _ => rfl, by simp, by simp⟩
    | ioError => exact ⟨h1, by simp, by simp, fun _ => rfl, by simp⟩

#print axioms serialSend_exact
#print axioms usartSend_exact
#print axioms canSend_exact
end Ross
