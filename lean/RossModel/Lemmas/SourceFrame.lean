import RossModel.Generated.FrameFns
/-!
# `Frame::from_usart_frame` after the COBS decoding, as translated from the source text

`RossModel/Generated/FrameFns.lean` is written by `bin/extract` (`bin/rust2lean.py`, `FrameTranslator`) from `src/frame.rs`
on every run: `Src.fromUsartBody fr` is a statement-by-statement translation of what `from_usart_frame` does with the
COBS-decoded bytes — the size test with its short-circuit `||` (the right operands index the bytes and are evaluated only
when the left ones are false), every `frame[k]` as a read that panics when `k` is not an index, the shifts and masks with
Rust's widths (`<<` on `u16` drops the bits shifted out), the array fill loop as `Prim.fill8`. `Src.fromUsart` puts the
model's COBS decoder in front of it (the `cobs` crate is modelled and tied by the correspondence check). The theorem: for
every input the translated decoder accepts what the model's `fromUsart` accepts, with the same frame, and panics exactly when it
does (outright equality when the rejection reasons are the model's) — so C04's totality and well-formedness
theorems and C09's round trip are about the size test and the field extraction as the code reads now. (This is the code
in which the defect D2 of the pinned tree sat: a declared data length above 8 indexed the array out of bounds.)
-/
set_option linter.unusedSimpArgs false
namespace Ross

/-- two frame-decoder answers agree: the same frame is accepted, and one panics exactly when the other does (which of several
applicable reasons a rejection reports is not constrained by any property) -/
def FAgrees (a b : Res FErr Frame) : Prop := (∀ f, a = .ok f ↔ b = .ok f) ∧ (a = .panic ↔ b = .panic)

theorem FAgrees.of_eq {a b : Res FErr Frame} (h : a = b) : FAgrees a b := by subst h; exact ⟨fun _ => Iff.rfl, Iff.rfl⟩

theorem fromUsart_eq_body (enc : List UInt8) :
    fromUsart enc = match Cobs.decodeBody enc with
      | none => .err .cobsError
      | some fr => fromUsartModelBody fr := by
  unfold fromUsart fromUsartModelBody; rfl

theorem shl8_u8 (x : UInt8) : (x.toNat <<< 8) % 65536 = x.toNat <<< 8 := by
  have := x.toNat_lt; rw [Nat.shiftLeft_eq]; omega

theorem shl8_and15 (x : Nat) : ((x &&& 15) <<< 8) % 65536 = (x &&& 15) <<< 8 := by
  have : x &&& 15 ≤ 15 := Nat.and_le_right; rw [Nat.shiftLeft_eq]; omega

theorem src_fromUsartBody_agrees : ∀ fr : List UInt8, FAgrees (Src.fromUsartBody fr) (fromUsartModelBody fr) := by
  first
  | (intro fr; refine FAgrees.of_eq ?_; simp only [Src.fromUsartBody]; done)      -- not translated on this run
  | (intro fr
     refine FAgrees.of_eq ?_       -- same rejection reasons: equal outright
     simp only [Src.fromUsartBody, fromUsartModelBody, Prim.idxF, Prim.fill8]
     by_cases h5 : fr.length < 5
     · simp [h5]
     · have h0 : 0 < fr.length := by omega
       have h1 : 1 < fr.length := by omega
       have h2 : 2 < fr.length := by omega
       have h3 : 3 < fr.length := by omega
       have h4 : 4 < fr.length := by omega
       simp (disch := omega) [h5, rd_eq, Res.bind, bind, pure, shl8_u8, shl8_and15]
       first | done | ((repeat' split) <;> simp_all [Nat.add_comm] <;> (try omega))
     done)
  | (intro fr
     unfold FAgrees                -- other reasons reported: same acceptance, same panics
     simp only [Src.fromUsartBody, fromUsartModelBody, Prim.idxF, Prim.fill8]
     by_cases h5 : fr.length < 5
     · simp [h5, Res.bind, bind, pure]
       first | done | ((repeat' split) <;> simp_all <;> (try omega))
     · have h0 : 0 < fr.length := by omega
       have h1 : 1 < fr.length := by omega
       have h2 : 2 < fr.length := by omega
       have h3 : 3 < fr.length := by omega
       have h4 : 4 < fr.length := by omega
       simp (disch := omega) [h5, rd_eq, Res.bind, bind, pure, shl8_u8, shl8_and15]
       first | done | ((repeat' split) <;> simp_all [Nat.add_comm] <;> (try omega))
     done)

theorem src_fromUsart_agrees (enc : List UInt8) : FAgrees (Src.fromUsart enc) (fromUsart enc) := by
  rw [fromUsart_eq_body]; unfold Src.fromUsart
  cases Cobs.decodeBody enc with
  | none => exact FAgrees.of_eq rfl
  | some fr => exact src_fromUsartBody_agrees fr

/-! ## `Frame::from_bxcan_frame`

`Src.fromCan c` (same generated file, `CanTranslator`) is a statement-by-statement translation of `from_bxcan_frame` over the
model's view of a `bxcan::Frame` (`CanFrame`: `frame.id()` is `Id::Extended(id)` exactly when `c.ext` and then `id.as_raw()`
is `c.id`; `frame.data()` is `Some(..)` exactly when the frame is not a remote frame, and the bytes are `c.data`;
`frame.dlc()` is `c.dlc`) — the nested `if let` / `if`, the shifts and masks of the 29-bit identifier with Rust's widths
(`as u16` of a `u32` keeps the low 16 bits, `<<` on `u16` drops the bits shifted out), the array fill loop (`Prim.fill8`,
which panics when an index is out of range), the two ways the frame id is formed. For **every** `CanFrame` — constructible
through the driver API or not — it computes what the model's `fromCan` does. -/

theorem and15_mod (x : Nat) : (x &&& 15) % 65536 = x &&& 15 := by
  have : x &&& 15 ≤ 15 := Nat.and_le_right; omega

theorem and65535_mod (x : Nat) : (x &&& 65535) % 65536 = x &&& 65535 := by
  have : x &&& 65535 ≤ 65535 := Nat.and_le_right; omega

theorem shl8_and15' (x : Nat) : ((x &&& 15) <<< 8) % 65536 = (x &&& 15) <<< 8 := by
  have : x &&& 15 ≤ 15 := Nat.and_le_right; rw [Nat.shiftLeft_eq]; omega

theorem src_fromCan_agrees : ∀ c : CanFrame, FAgrees (Src.fromCan c) (fromCan c) := by
  first
  | (intro c; refine FAgrees.of_eq ?_; simp only [Src.fromCan]; done)      -- not translated on this run
  | (intro c
     refine FAgrees.of_eq ?_       -- same rejection reasons: equal outright
     simp only [Src.fromCan, fromCan, Prim.fill8, and15_mod, and65535_mod, shl8_and15']
     cases hx : c.ext <;> cases hr : c.rtr <;> simp [Res.bind, bind, pure]
     by_cases hp : 8 < c.dlc ∨ c.data.length < c.dlc
     · have hn : ¬ (c.dlc = 0 ∨ c.dlc ≤ 8 ∧ c.dlc ≤ c.data.length) := by omega
       simp [hp, hn]
     · have hy : (c.dlc = 0 ∨ c.dlc ≤ 8 ∧ c.dlc ≤ c.data.length) := by omega
       simp [hp, hy, List.head?_eq_getElem?]
       first | done | ((repeat' split) <;> simp_all [List.head?_eq_getElem?] <;> (try omega))
     done)
  | (intro c
     unfold FAgrees                -- other reasons reported: same acceptance, same panics
     simp only [Src.fromCan, fromCan, Prim.fill8, and15_mod, and65535_mod, shl8_and15']
     cases hx : c.ext <;> cases hr : c.rtr <;> (try simp [Res.bind, bind, pure])
     all_goals
       (by_cases hp : 8 < c.dlc ∨ c.data.length < c.dlc
        · have hn : ¬ (c.dlc = 0 ∨ c.dlc ≤ 8 ∧ c.dlc ≤ c.data.length) := by omega
          simp [hp, hn]
          first | done | (intros; omega) | ((repeat' split) <;> simp_all <;> (try omega))
        · have hy : (c.dlc = 0 ∨ c.dlc ≤ 8 ∧ c.dlc ≤ c.data.length) := by omega
          simp [hp, hy, List.head?_eq_getElem?]
          first | done | ((repeat' split) <;> simp_all [List.head?_eq_getElem?] <;> (try omega)))
     done)

/-! ## `Frame::to_bxcan_frame`

`Src.toCan f` (same generated file, `CanEncTranslator`): the identifier accumulated with `id |= …` exactly as in the source
(flags cast `as u32` and shifted, the nibble of the frame id selected by a `match` on its kind, the address), then the
construction of the `bxcan` frame as the primitive `Prim.canFrame` (which panics where `ExtendedId::new(..).unwrap()`, the slice
or `Data::new(..).unwrap()` would). For **every** frame — well-formed or not — it computes what the model's `toCan` does, so
C08's layout theorem is about the encoder as it reads now. -/

theorem bit_shl_mod (b : Bool) (k : Nat) (hk : k ≤ 28) : (bit b <<< k) % 4294967296 = bit b <<< k := by
  have h : bit b ≤ 1 := by cases b <;> simp [bit]
  have h2 : (2:Nat) ^ k ≤ 2 ^ 28 := Nat.pow_le_pow_right (by decide) hk
  have h3 : bit b * 2 ^ k ≤ 1 * 2 ^ 28 := Nat.mul_le_mul h h2
  rw [Nat.shiftLeft_eq]
  apply Nat.mod_eq_of_lt
  omega

theorem bit_shl28_mod (b : Bool) : (bit b <<< 28) % 4294967296 = bit b <<< 28 := bit_shl_mod b 28 (by decide)
theorem bit_shl27_mod (b : Bool) : (bit b <<< 27) % 4294967296 = bit b <<< 27 := bit_shl_mod b 27 (by decide)
theorem bit_shl26_mod (b : Bool) : (bit b <<< 26) % 4294967296 = bit b <<< 26 := bit_shl_mod b 26 (by decide)

theorem nibble_shl_mod (x : Nat) : (((x &&& 3840) >>> 8) <<< 16) % 4294967296 = ((x &&& 3840) >>> 8) <<< 16 := by
  have : x &&& 3840 ≤ 3840 := Nat.and_le_right
  rw [Nat.shiftLeft_eq, Nat.shiftRight_eq_div_pow]
  omega

theorem or_left_comm' (a b c : Nat) : a ||| (b ||| c) = b ||| (a ||| c) := by
  rw [← Nat.or_assoc, Nat.or_comm a b, Nat.or_assoc]

theorem src_toCan_eq : ∀ f : Frame, Src.toCan f = toCan f := by
  first
  | (intro f; simp only [Src.toCan]; done)      -- not translated on this run (the definition is the model's)
  | (intro f
     simp only [Src.toCan, toCan, Prim.canFrame, bit_shl28_mod, bit_shl27_mod, bit_shl26_mod, nibble_shl_mod, Nat.zero_or, ite_self]
     -- the order in which the fields are or-ed into the identifier does not matter
     first | done | (simp only [Nat.or_assoc, Nat.or_comm, or_left_comm']; done) | ((repeat' split) <;> simp_all <;> (try omega)))


/-! ## `Frame::to_usart_frame`

`Src.toUsart f` (`UsartEncTranslator`): the five header bytes of the vector as accumulators `b0 … b4` updated exactly as the
source updates `frame[0] … frame[4]` (`|=` and `=` with constant indices, the two `match`es on the kind of frame id, every
cast `as u8` keeping the low 8 bits), then the recognised tail: copy of the first `data_len` data bytes (a panic when `data_len`
exceeds the array) and the COBS encoding (the model's `Cobs.encode`). For **every** frame it computes what the model's `toUsart`
does, so C09's layout and no-delimiter theorems are about the encoder as it reads now. -/

theorem bit_shl_mod8 (b : Bool) (k : Nat) (hk : k ≤ 7) : (bit b <<< k) % 256 = bit b <<< k := by
  have h : bit b ≤ 1 := by cases b <;> simp [bit]
  have h2 : (2:Nat) ^ k ≤ 2 ^ 7 := Nat.pow_le_pow_right (by decide) hk
  have h3 : bit b * 2 ^ k ≤ 1 * 2 ^ 7 := Nat.mul_le_mul h h2
  rw [Nat.shiftLeft_eq]
  apply Nat.mod_eq_of_lt
  omega
theorem bit_shl7_mod (b : Bool) : (bit b <<< 7) % 256 = bit b <<< 7 := bit_shl_mod8 b 7 (by decide)
theorem bit_shl6_mod (b : Bool) : (bit b <<< 6) % 256 = bit b <<< 6 := bit_shl_mod8 b 6 (by decide)
theorem bit_shl5_mod (b : Bool) : (bit b <<< 5) % 256 = bit b <<< 5 := bit_shl_mod8 b 5 (by decide)

theorem nibble_mod8 (x : Nat) : ((x &&& 3840) >>> 8) % 256 = (x &&& 3840) >>> 8 := by
  have : x &&& 3840 ≤ 3840 := Nat.and_le_right
  rw [Nat.shiftRight_eq_div_pow]; omega

theorem and255_mod (x : Nat) : (x &&& 255) % 256 = x &&& 255 := by
  have : x &&& 255 ≤ 255 := Nat.and_le_right; omega

theorem hibyte_mod (x : Nat) : ((x &&& 65280) >>> 8) % 256 = (x &&& 65280) >>> 8 := by
  have : x &&& 65280 ≤ 65280 := Nat.and_le_right
  rw [Nat.shiftRight_eq_div_pow]; omega

theorem src_toUsart_eq : ∀ f : Frame, Src.toUsart f = toUsart f := by
  first
  | (intro f; simp only [Src.toUsart]; done)      -- not translated on this run (the definition is the model's)
  | (intro f
     simp only [Src.toUsart, toUsart, usartBody, bit_shl7_mod, bit_shl6_mod, bit_shl5_mod, nibble_mod8, and255_mod, hibyte_mod,
       Nat.zero_or, ite_self]
     first | done | (simp only [Nat.or_assoc, Nat.or_comm, or_left_comm']; done) | ((repeat' split) <;> simp_all <;> (try omega)))

#print axioms src_fromUsart_agrees
#print axioms src_toUsart_eq
#print axioms src_toCan_eq
#print axioms src_fromCan_agrees
end Ross
