import RossModel.Packet
/-!
# C07: reassembly accepts only the exact next frame of the same packet
-/
namespace Ross

/-- the frame a builder is waiting for -/
def Builder.Accepts (b : Builder) (f : Frame) : Prop :=
  (!f.notError) = b.isError ∧ f.addr = b.addr ∧ f.start = false ∧ f.multi = true ∧ f.idLast = false ∧
  f.fid = b.frames.length % 65536 ∧ f.fid < b.expected

/-- when a rejection reason truly applies (written independently of the guard order) -/
def Applies (r : BErr) (b : Builder) (f : Frame) : Prop :=
  match r with
  | .wrongFrameType => (!f.notError) ≠ b.isError
  | .deviceAddressMismatch => f.addr ≠ b.addr
  | .outOfOrder => f.start = true ∨ f.idLast = true ∨ f.fid ≠ b.frames.length % 65536
  | .singleFramePacket => f.multi = false
  | .tooManyFrames => b.expected ≤ f.fid
  | .missingFrames => False

/-- C07: a frame is accepted exactly when it is the non-start, multi-frame continuation of the same
error type and device with the next id, below the announced count; then it is appended, nothing else changes -/
theorem addFrame_ok_iff (b : Builder) (f : Frame) (b' : Builder) :
    b.addFrame f = .ok b' ↔ b.Accepts f ∧ b' = { b with frames := b.frames ++ [f] } := by
  rcases f with ⟨ne, st, mf, il, fid, addr, dl, data⟩
  rcases b with ⟨ie, ex, ba, fr⟩
  simp only [Builder.addFrame, Builder.Accepts]
  by_cases c2 : addr = ba
  case neg => cases ne <;> cases ie <;> simp [c2]
  by_cases c6 : fid = fr.length % 65536
  case neg => cases ne <;> cases ie <;> cases st <;> cases mf <;> cases il <;> simp [c2, c6]
  by_cases c7 : fid < ex
  case neg =>
    have h : ex ≤ fid := by omega
    have h' : ex ≤ fr.length % 65536 := by omega
    have h'' : ¬ fr.length % 65536 < ex := by omega
    cases ne <;> cases ie <;> cases st <;> cases mf <;> cases il <;> simp [c2, c6, c7, h, h', h'']
  have h : ¬ ex ≤ fid := by omega
  have h' : ¬ ex ≤ fr.length % 65536 := by omega
  have h'' : fr.length % 65536 < ex := by omega
  cases ne <;> cases ie <;> cases st <;> cases mf <;> cases il <;> simp [c2, c6, c7, h, h', h'', eq_comm]

/-- C07: every rejection carries a reason that truly applies (the builder is a value: a rejected
frame leaves it as it was) -/
theorem addFrame_err_applies (b : Builder) (f : Frame) (r : BErr) (h : b.addFrame f = .err r) : Applies r b f := by
  unfold Builder.addFrame at h
  split at h; · cases h; simp_all [Applies]
  split at h; · cases h; simp_all [Applies]
  split at h; · cases h; simp_all [Applies]
  split at h; · cases h; simp_all [Applies]
  split at h; · cases h; simp_all [Applies]
  split at h; · cases h; simp_all [Applies]
  split at h; · cases h; simp_all [Applies]
  simp at h

theorem addFrame_no_panic (b : Builder) (f : Frame) : b.addFrame f ≠ .panic := by
  unfold Builder.addFrame
  repeat' split
  all_goals simp

/-- accepted and announced frame counts of a builder reachable from a 12-bit start frame -/
def Builder.Inv (b : Builder) : Prop := 1 ≤ b.frames.length ∧ b.frames.length ≤ b.expected ∧ b.expected ≤ 4096

theorem new_spec (f : Frame) (hid : f.fid < 4096) :
    (f.start = true ∧ f.idLast = true →
      Builder.new f = .ok { isError := !f.notError, expected := f.fid + 1, addr := f.addr, frames := [f] }) ∧
    (¬ (f.start = true ∧ f.idLast = true) → Builder.new f = .err .outOfOrder) := by
  unfold Builder.new
  constructor
  · rintro ⟨h1, h2⟩; simp [h1, h2]; omega
  · intro h
    by_cases h1 : f.start = true
    · have h2 : f.idLast = false := by simp_all
      simp [h1, h2]
    · simp [h1]

theorem new_inv (f : Frame) (b : Builder) (hid : f.fid < 4096) (h : Builder.new f = .ok b) : b.Inv := by
  by_cases hc : f.start = true ∧ f.idLast = true
  · rw [(new_spec f hid).1 hc] at h; cases h; exact ⟨by simp, by simp, by simp; omega⟩
  · rw [(new_spec f hid).2 hc] at h; cases h

theorem addFrame_inv (b b' : Builder) (f : Frame) (hb : b.Inv) (h : b.addFrame f = .ok b') : b'.Inv := by
  obtain ⟨⟨_, _, _, _, _, h6, h7⟩, rfl⟩ := (addFrame_ok_iff b f b').mp h
  obtain ⟨i1, i2, i3⟩ := hb
  refine ⟨by simp, ?_, i3⟩
  simp only [List.length_append, List.length_cons, List.length_nil]
  have : b.frames.length % 65536 = b.frames.length := by omega
  omega

/-- C07: accepted + remaining = announced, without underflow -/
theorem framesLeft_spec (b : Builder) (hb : b.Inv) :
    b.framesLeft = .ok (b.expected - b.frames.length) ∧ b.frameCount = b.frames.length ∧
    b.frames.length + (b.expected - b.frames.length) = b.expected := by
  obtain ⟨i1, i2, i3⟩ := hb
  have : b.frames.length % 65536 = b.frames.length := by omega
  simp only [Builder.framesLeft, Builder.frameCount, this]
  exact ⟨by rw [if_neg (by omega)], trivial, by omega⟩

/-- C07: the packet can be completed exactly when the announced number of frames was accepted;
otherwise missing frames are reported (and `build` is a pure function: asking again gives the same) -/
theorem build_spec (b : Builder) (hw : ∀ f ∈ b.frames, f.dataLen ≤ f.data.length) :
    (b.frames.length ≠ b.expected → b.build = .err .missingFrames) ∧
    (b.frames.length = b.expected → ∃ d, payloads b.frames = some d ∧
        b.build = .ok { isError := b.isError, addr := b.addr, data := d }) := by
  have hp : ∃ d, payloads b.frames = some d := by
    revert hw
    generalize b.frames = fr
    intro hw
    induction fr with
    | nil => exact ⟨[], rfl⟩
    | cons f fs ih =>
      have hf := hw f (by simp)
      obtain ⟨d, hd⟩ := ih (fun g hg => hw g (by simp [hg]))
      exact ⟨(f.data.take f.dataLen).drop (if f.multi then 1 else 0) ++ d, by simp [payloads, Frame.payload, hf, hd]⟩
  constructor
  · intro h; simp [Builder.build, h]
  · intro h
    obtain ⟨d, hd⟩ := hp
    exact ⟨d, hd, by simp [Builder.build, h, hd]⟩

/-- C07 over histories: whatever frames are offered after a 12-bit start frame, the invariant holds
at every step (rejected frames leave the builder unchanged) -/
def Builder.offer (b : Builder) (f : Frame) : Builder :=
  match b.addFrame f with
  | .ok b' => b'
  | _ => b

theorem offer_inv (b : Builder) (hb : b.Inv) (fs : List Frame) : (fs.foldl Builder.offer b).Inv := by
  induction fs generalizing b with
  | nil => exact hb
  | cons f fs ih =>
    simp only [List.foldl_cons]
    apply ih
    unfold Builder.offer
    cases h : b.addFrame f with
    | ok b' => exact addFrame_inv b b' f hb h
    | err e => exact hb
    | panic => exact hb

#print axioms addFrame_ok_iff
#print axioms addFrame_err_applies
#print axioms offer_inv
#print axioms build_spec
end Ross
