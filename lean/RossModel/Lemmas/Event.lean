import RossModel.Event
namespace Ross

theorem bcm_de_ser (v : BcmValue) : BcmValue.de v.ser = .ok v := by
  cases v <;> simp [BcmValue.de, BcmValue.ser, rd]
  rename_i b; cases b <;> simp

theorem relay_de_ser (v : RelayValue) : RelayValue.de v.ser = .ok v := by
  cases v <;> simp [RelayValue.de, RelayValue.ser, rd]
  rename_i b; cases b <;> simp

theorem le32_toNat (a b c d : UInt8) :
    (le32 a b c d).toNat = ((d.toNat * 256 + c.toNat) * 256 + b.toNat) * 256 + a.toNat := by
  simp [le32, be32_toNat]

@[simp] theorem le32_bytes (x : UInt32) : le32 (b0 x) (b1 x) (b2 x) (b3 x) = x := by simp [le32]

theorem msg_ofImage_image (pad : Pad) (v : MessageValue) : MessageValue.ofImage (v.image pad) = .ok v := by
  cases v with
  | u8 x => simp [MessageValue.ofImage, MessageValue.image, le32_toNat]
  | u16 x => simp [MessageValue.ofImage, MessageValue.image, le32_toNat]
  | u32 x => simp [MessageValue.ofImage, MessageValue.image, le32_toNat]
  | bool x => cases x <;> simp [MessageValue.ofImage, MessageValue.image, le32_toNat]

theorem decode_encode (pad : Pad) (e : Event) (h : e.WF) : decode e.kind (encode pad e) = .ok e := by
  cases e with
  | data r t n d =>
    simp only [Event.WF] at h
    simp [decode, decodeFields, sizeOk, encode, Event.kind, preamble, u16b, rd16, h]
  | bcmChange a t i v =>
    have := bcm_de_ser v
    cases v <;> simp_all [decode, decodeFields, sizeOk, encode, Event.kind, preamble, u16b, rd16, BcmValue.ser]
  | bcmAnimate a t i d v =>
    have := bcm_de_ser v
    cases v <;> simp_all [decode, decodeFields, sizeOk, encode, Event.kind, preamble, u16b, u32b, rd16, rd32, BcmValue.ser]
  | relaySet a t i v =>
    have := relay_de_ser v
    cases v <;> simp_all [decode, decodeFields, sizeOk, encode, Event.kind, preamble, u16b, rd16, RelayValue.ser]
  | message r t c v =>
    have := msg_ofImage_image pad v
    cases v <;> simp_all [decode, decodeFields, sizeOk, encode, Event.kind, preamble, u16b, rd16, MessageValue.image]
  | _ => simp [decode, decodeFields, sizeOk, encode, Event.kind, preamble, u16b, u32b, rd16, rd32]

/-- the event code a packet carries (first two payload bytes, big-endian), if it has one -/
def Packet.code? (p : Packet) : Option UInt16 :=
  match p.data with
  | h :: l :: _ => some (be16 h l)
  | _ => none

theorem rd16_zero (d : List UInt8) (h : 2 ≤ d.length) :
    ∃ c, rd16 d 0 = .ok c ∧ (⟨false, 0, d⟩ : Packet).code? = some c := by
  match d, h with
  | a :: b :: t, _ => exact ⟨be16 a b, by simp [rd16], by simp [Packet.code?]⟩

/-- what the common head decides -/
theorem preamble_spec (k : Kind) (p : Packet) (ok : Bool) (h2 : ok = true → 2 ≤ p.data.length) :
    (preamble k p ok = .ok () ∧ ok = true ∧ p.isError = false ∧ p.code? = some k.code) ∨
    (preamble k p ok = .err .wrongSize ∧ ok = false) ∨
    (preamble k p ok = .err .wrongType ∧ ok = true ∧ p.isError = true) ∨
    (preamble k p ok = .err .wrongEventType ∧ ok = true ∧ p.isError = false ∧ ∃ c, p.code? = some c ∧ c ≠ k.code) := by
  cases ok with
  | false => simp [preamble]
  | true =>
    have h2' := h2 rfl
    cases he : p.isError with
    | true => simp [preamble, he]
    | false =>
      obtain ⟨c, hc, hcode⟩ := rd16_zero p.data h2'
      have hcode' : p.code? = some c := by simpa [Packet.code?] using hcode
      by_cases hk : c = k.code
      · subst hk; simp [preamble, he, hc, hcode']
      · simp [preamble, he, hc, hcode', hk]

theorem bcm_de_no_panic (d : List UInt8) : BcmValue.de d ≠ .panic := by
  unfold BcmValue.de
  by_cases h2 : d.length < 2
  · simp [h2]
  · simp only [h2, if_false]
    rw [rd_eq (by omega)]
    simp only [Res.ok_bind]
    repeat' split
    all_goals first
      | (intro h; cases h; done)
      | (simp (disch := omega) [rd_eq])

theorem relay_de_no_panic (d : List UInt8) : RelayValue.de d ≠ .panic := by
  unfold RelayValue.de
  by_cases h : d.length ≠ 1
  · simp [h]
  · simp only [h, if_false]
    rw [rd_eq (by omega)]
    simp only [Res.ok_bind]
    repeat' split
    all_goals simp

theorem msg_ofImage_no_panic (d : List UInt8) (h : d.length = 8) : MessageValue.ofImage d ≠ .panic := by
  unfold MessageValue.ofImage
  simp (disch := omega) only [rd_eq, Res.ok_bind, Res.pure_eq]
  repeat' split
  all_goals simp

theorem sizeOk_two (k : Kind) (n : Nat) (h : sizeOk k n = true) : 2 ≤ n := by
  cases k <;> simp [sizeOk] at h <;> omega

theorem decodeFields_no_panic (k : Kind) (p : Packet) (h : sizeOk k p.data.length = true) :
    decodeFields k p ≠ .panic := by
  cases k <;> simp [sizeOk] at h <;> unfold decodeFields <;> simp only [rd16, rd32]
  all_goals simp (disch := omega) only [rd_eq, Res.ok_bind, Res.pure_eq]
  all_goals try (simp; done)
  · split <;> simp
  · have := bcm_de_no_panic (p.data.drop 5)
    cases hv : BcmValue.de (List.drop 5 p.data) <;> simp_all
  · have := msg_ofImage_no_panic (p.data.drop 6) (by simp; omega)
    cases hv : MessageValue.ofImage (List.drop 6 p.data) <;> simp_all
  · have := bcm_de_no_panic (p.data.drop 9)
    cases hv : BcmValue.de (List.drop 9 p.data) <;> simp_all
  · have := relay_de_no_panic (p.data.drop 5)
    cases hv : RelayValue.de (List.drop 5 p.data) <;> simp_all

/-- C05 (totality): no decoder panics on any packet -/
theorem decode_no_panic (k : Kind) (p : Packet) : decode k p ≠ .panic := by
  unfold decode
  rcases preamble_spec k p (sizeOk k p.data.length) (sizeOk_two k _) with
    ⟨hp, hok, _, _⟩ | ⟨hp, _⟩ | ⟨hp, _⟩ | ⟨hp, _⟩
  · simp only [hp, Res.ok_bind]; exact decodeFields_no_panic k p hok
  · simp [hp]
  · simp [hp]
  · simp [hp]

/-- C05 (accept only exact encodings) / C12: an accepted packet is a non-error packet carrying this kind's code -/
theorem decode_ok_head (k : Kind) (p : Packet) (e : Event) (h : decode k p = .ok e) :
    p.isError = false ∧ p.code? = some k.code ∧ sizeOk k p.data.length = true := by
  unfold decode at h
  rcases preamble_spec k p (sizeOk k p.data.length) (sizeOk_two k _) with
    ⟨hp, hok, he, hc⟩ | ⟨hp, _⟩ | ⟨hp, _⟩ | ⟨hp, _⟩
  · exact ⟨he, hc, hok⟩
  all_goals simp [hp] at h

theorem code_injective (k₁ k₂ : Kind) (h : k₁.code = k₂.code) : k₁ = k₂ := by
  cases k₁ <;> cases k₂ <;> first | rfl | (simp [Kind.code] at h)

/-- C12: at most one kind decodes a packet -/
theorem decode_unique (k₁ k₂ : Kind) (p : Packet) (e₁ e₂ : Event)
    (h₁ : decode k₁ p = .ok e₁) (h₂ : decode k₂ p = .ok e₂) : k₁ = k₂ := by
  have a := (decode_ok_head k₁ p e₁ h₁).2.1
  have b := (decode_ok_head k₂ p e₂ h₂).2.1
  rw [a] at b
  exact code_injective _ _ (Option.some.inj b)


/-- an accepted value is of the kind asked for, and consistent (data events: declared = actual length) -/
theorem decodeFields_kind_wf (k : Kind) (p : Packet) (e : Event) (hs : sizeOk k p.data.length = true)
    (h : decodeFields k p = .ok e) : e.kind = k ∧ e.WF := by
  cases k <;> simp [sizeOk] at hs <;> unfold decodeFields at h <;> simp only [rd16, rd32] at h
  all_goals simp (disch := omega) only [rd_eq, Res.ok_bind, Res.pure_eq] at h
  all_goals try (cases h; exact ⟨rfl, trivial⟩)
  · -- data
    split at h
    · cases h
    · rename_i hl
      cases h
      refine ⟨rfl, ?_⟩
      simp only [Event.WF, List.length_drop]
      simp only [ne_eq, Decidable.not_not] at hl
      omega
  · cases hv : BcmValue.de (List.drop 5 p.data) <;> simp [hv] at h
    subst h; exact ⟨rfl, trivial⟩
  · cases hv : MessageValue.ofImage (List.drop 6 p.data) <;> simp [hv] at h
    subst h; exact ⟨rfl, trivial⟩
  · cases hv : BcmValue.de (List.drop 9 p.data) <;> simp [hv] at h
    subst h; exact ⟨rfl, trivial⟩
  · cases hv : RelayValue.de (List.drop 5 p.data) <;> simp [hv] at h
    subst h; exact ⟨rfl, trivial⟩

theorem decode_ok_kind_wf (k : Kind) (p : Packet) (e : Event) (h : decode k p = .ok e) : e.kind = k ∧ e.WF := by
  have hs := (decode_ok_head k p e h).2.2
  unfold decode at h
  rcases preamble_spec k p (sizeOk k p.data.length) (sizeOk_two k _) with
    ⟨hp, _, _, _⟩ | ⟨hp, _⟩ | ⟨hp, _⟩ | ⟨hp, _⟩
  · simp only [hp, Res.ok_bind] at h; exact decodeFields_kind_wf k p e hs h
  all_goals simp [hp] at h

/-- C05: every accepted value re-encodes to a packet that decodes to the same value -/
theorem decode_reencode (pad : Pad) (k : Kind) (p : Packet) (e : Event) (h : decode k p = .ok e) :
    decode k (encode pad e) = .ok e := by
  obtain ⟨hk, hwf⟩ := decode_ok_kind_wf k p e h
  rw [← hk]; exact decode_encode pad e hwf

/-- C12: the encoding of an event of one kind is rejected by every other kind's decoder -/
theorem cross_reject (pad : Pad) (e : Event) (k : Kind) (hk : k ≠ e.kind) (hwf : e.WF) :
    ∃ r, decode k (encode pad e) = .err r := by
  cases hd : decode k (encode pad e) with
  | err r => exact ⟨r, rfl⟩
  | panic => exact absurd hd (decode_no_panic k _)
  | ok e' => exact absurd (decode_unique k e.kind _ e' e hd (decode_encode pad e hwf)) hk

#print axioms decode_reencode
#print axioms cross_reject
#print axioms decode_encode
#print axioms decode_no_panic
#print axioms decode_unique
end Ross
