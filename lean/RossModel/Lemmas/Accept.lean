import RossModel.Lemmas.Builder
import RossModel.Lemmas.Applies
/-!
# The executable acceptance predicates of the driver are the `Prop`s of the theorems

The driver (`Main.lean`) validates the rejection *reasons* the implementation reports with the Boolean functions
`appliesB` (C07) and `cappliesB` (C05) instead of comparing them with the model's reasons. These lemmas show that
the Boolean functions decide exactly the predicates `Applies` / `CApplies` that `addFrame_err_applies` and
`decode_err_applies` prove of the model, and that `Frame.WF` is evaluated as stated (it is decidable as written).
-/
namespace Ross

theorem appliesB_iff (r : BErr) (b : Builder) (f : Frame) : appliesB r b f = true ↔ Applies r b f := by
  cases r <;> simp [appliesB, Applies, bne_iff_ne, or_assoc]

theorem codeOf_eq (p : Packet) : codeOf p.data = p.code? := by
  unfold codeOf Packet.code?
  split <;> simp_all

theorem unknownTagB_iff (k : Kind) (d : List UInt8) : unknownTagB k d = true ↔ unknownTag k d := by
  cases k <;> simp only [unknownTagB, unknownTag] <;> try simp
  · cases h : d[5]? <;> simp
  · cases h0 : d[6]? <;> cases h1 : d[7]? <;> cases h2 : d[8]? <;> cases h3 : d[9]? <;> cases h4 : d[10]? <;> simp
  · cases h : d[9]? <;> simp
  · cases h : d[5]? <;> simp

theorem cappliesB_iff (r : CErr) (k : Kind) (p : Packet) : cappliesB r k p = true ↔ CApplies r k p := by
  cases r with
  | wrongSize =>
    simp only [cappliesB, CApplies, Bool.or_eq_true, decide_eq_true_eq]
    cases h : requiredLen k p.data <;> simp [bne_iff_ne]
  | wrongType => simp [cappliesB, CApplies]
  | wrongEventType =>
    simp only [cappliesB, CApplies, codeOf_eq]
    cases h : p.code? <;> simp [bne_iff_ne]
  | unknownEnumVariant => simpa [cappliesB, CApplies] using unknownTagB_iff k p.data

end Ross
