import RossModel.Cobs
/-!
# COBS: the encoder output has no zero byte, is one byte longer than the input, and the crate's
decoder state machine inverts it (inputs shorter than 254 bytes)
-/
namespace Ross.Cobs

theorem ofNat_ne_zero {k : Nat} (h0 : 0 < k) (hk : k < 256) : UInt8.ofNat k ≠ 0 := by
  intro h; have := congrArg UInt8.toNat h; simp at this; omega

theorem ofNat_ne_ff {k : Nat} (hk : k < 255) : UInt8.ofNat k ≠ 0xFF := by
  intro h; have := congrArg UInt8.toNat h; simp at this; omega

theorem ofNat_succ_sub_one {k : Nat} : UInt8.ofNat (k + 1) - 1 = UInt8.ofNat k := by
  apply UInt8.toNat_inj.mp; simp

theorem push_append (cap : Nat) (st out a b) :
    push cap st out (a ++ b) = match push cap st out a with
      | .more st' out' => push cap st' out' b
      | r => r := by
  induction a generalizing st out with
  | nil => simp [push]
  | cons d ds ih =>
    simp only [List.cons_append, push]
    cases h : feed cap st out d <;> simp [ih]

/-- consuming a zero-free run of exactly `n` bytes from `grab n` -/
theorem push_run (cap : Nat) (r : List UInt8) (hr : ∀ x ∈ r, x ≠ 0) (hl : r.length < 256)
    (out : List UInt8) (hcap : out.length + r.length ≤ cap) :
    push cap (.grab (UInt8.ofNat r.length)) out r = .more (.grab 0) (out ++ r) := by
  induction r generalizing out with
  | nil => simp [push]
  | cons x xs ih =>
    have hx : x ≠ 0 := hr x (by simp)
    have hxs : ∀ y ∈ xs, y ≠ 0 := fun y hy => hr y (by simp [hy])
    simp only [List.length_cons] at hl hcap
    have hne : UInt8.ofNat (xs.length + 1) ≠ 0 := ofNat_ne_zero (by omega) (by omega)
    simp only [push, feed, List.length_cons, if_neg hne, if_neg hx, add, if_pos (show out.length < cap by omega),
      ofNat_succ_sub_one]
    rw [ih hxs (by omega) (out ++ [x]) (by simp; omega)]
    simp

/-- decoder positioned at a code byte: at the very start, or after a completed block -/
inductive AtCode where
  | first | next

def AtCode.st : AtCode → St
  | .first => .idle
  | .next => .grab 0

def AtCode.pre : AtCode → List UInt8 → List UInt8
  | .first, out => out
  | .next, out => out ++ [0]

@[simp] theorem AtCode.pre_first (o : List UInt8) : AtCode.first.pre o = o := rfl
@[simp] theorem AtCode.pre_next (o : List UInt8) : AtCode.next.pre o = o ++ [0] := rfl

/-- push the bytes, then the sentinel; an early completion is a failure -/
def finish (cap : Nat) (st : St) (out : List UInt8) (bytes : List UInt8) : Fed :=
  match push cap st out bytes with
  | .more st' out' => feed cap st' out' 0
  | _ => .err

theorem feed_code (cap : Nat) (p : AtCode) (out : List UInt8) (k : Nat) (hk : k < 254)
    (hcap : (p.pre out).length ≤ cap) :
    feed cap p.st out (UInt8.ofNat (k + 1)) = .more (.grab (UInt8.ofNat k)) (p.pre out) := by
  have h0 : UInt8.ofNat (k + 1) ≠ 0 := ofNat_ne_zero (by omega) (by omega)
  have hff : UInt8.ofNat (k + 1) ≠ 0xFF := ofNat_ne_ff (by omega)
  cases p with
  | first => simp only [AtCode.st, AtCode.pre, feed, if_neg h0, if_neg hff, ofNat_succ_sub_one]
  | next =>
    simp only [AtCode.pre, List.length_append, List.length_cons, List.length_nil] at hcap
    simp only [AtCode.st, AtCode.pre, feed, if_neg h0, if_neg hff, ofNat_succ_sub_one, if_true, add,
      if_pos (show out.length < cap by omega)]

theorem finish_encAux (cap : Nat) (xs run : List UInt8) (p : AtCode) (out : List UInt8)
    (hrun : ∀ x ∈ run, x ≠ 0) (hlen : run.length + xs.length < 254)
    (hcap : (p.pre out).length + run.length + xs.length ≤ cap) :
    finish cap p.st out (encAux run xs) = .done (p.pre out ++ run ++ xs) := by
  induction xs generalizing run p out with
  | nil =>
    simp only [List.length_nil, Nat.add_zero] at hlen hcap
    simp only [encAux, finish, push]
    rw [feed_code cap p out run.length hlen (by omega)]
    simp only []
    rw [push_run cap run hrun (by omega) _ (by omega)]
    simp [feed]
  | cons x xs ih =>
    simp only [List.length_cons] at hlen hcap
    unfold encAux
    split
    · rename_i hx
      subst hx
      simp only [finish, push, List.cons_append]
      rw [feed_code cap p out run.length (by omega) (by omega)]
      simp only [push_append]
      rw [push_run cap run hrun (by omega) _ (by omega)]
      have := ih [] .next (p.pre out ++ run) (by simp) (by simp; omega)
        (by simp only [AtCode.pre_next, List.length_append, List.length_cons, List.length_nil]; omega)
      simp only [finish, AtCode.st] at this
      rw [this]
      simp
    · rename_i hx
      have := ih (run ++ [x]) p out (by
        intro y hy
        rcases List.mem_append.mp hy with h | h
        · exact hrun y h
        · simp at h; subst h; exact hx) (by simp; omega) (by simp; omega)
      rw [this]; simp

theorem encAux_length (xs run : List UInt8) : (encAux run xs).length = run.length + xs.length + 1 := by
  induction xs generalizing run with
  | nil => simp [encAux]
  | cons x xs ih =>
    unfold encAux; split
    · simp [ih] <;> omega
    · simp [ih] <;> omega

theorem encode_length (xs : List UInt8) (hne : xs ≠ []) : (encode xs).length = xs.length + 1 := by
  simp [encode, hne, encAux_length]

theorem encAux_ne_zero (xs run : List UInt8) (hrun : ∀ x ∈ run, x ≠ 0) (hlen : run.length + xs.length < 254) :
    ∀ b ∈ encAux run xs, b ≠ 0 := by
  induction xs generalizing run with
  | nil =>
    intro b hb
    simp only [List.length_nil, Nat.add_zero] at hlen
    simp only [encAux, List.mem_cons] at hb
    rcases hb with h | h
    · subst h; exact ofNat_ne_zero (by omega) (by omega)
    · exact hrun b h
  | cons x xs ih =>
    simp only [List.length_cons] at hlen
    intro b hb
    simp only [encAux] at hb
    split at hb
    · simp only [List.mem_cons, List.mem_append] at hb
      rcases hb with (h | h) | h
      · subst h; exact ofNat_ne_zero (by omega) (by omega)
      · exact hrun b h
      · exact ih [] (by simp) (by simp; omega) b h
    · rename_i hx
      exact ih (run ++ [x]) (by
        intro y hy
        rcases List.mem_append.mp hy with h | h
        · exact hrun y h
        · simp at h; subst h; exact hx) (by simp; omega) b hb

/-- C09: the encoded frame contains no delimiter byte -/
theorem encode_no_zero (xs : List UInt8) (hlen : xs.length < 254) : ∀ b ∈ encode xs, b ≠ 0 := by
  unfold encode; split
  · simp
  · exact encAux_ne_zero xs [] (by simp) (by simpa using hlen)

/-- C09: the crate's decoder inverts the encoder -/
theorem decodeBody_encode (xs : List UInt8) (hne : xs ≠ []) (hlen : xs.length < 254) :
    decodeBody (encode xs) = some xs := by
  have hl := encode_length xs hne
  have := finish_encAux (encode xs).length xs [] .first [] (by simp) (by simpa using hlen)
    (by simp [hl])
  simp only [finish, AtCode.st, AtCode.pre] at this
  simp only [encode, hne, if_false] at this hl ⊢
  simp only [decodeBody]
  cases h : push (encAux [] xs).length .idle [] (encAux [] xs) with
  | more st out => simp [h] at this; simp [this]
  | done out => simp [h] at this
  | err => simp [h] at this

#print axioms decodeBody_encode
#print axioms encode_no_zero
end Ross.Cobs
