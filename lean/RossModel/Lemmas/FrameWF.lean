import RossModel.Lemmas.Usart
import RossModel.Lemmas.Can
/-!
# C04: the frame decoders never panic, and every frame they accept is well-formed
-/
namespace Ross

theorem pad8_take_self (l : List UInt8) (n : Nat) (h : l.length = n) : pad8 ((pad8 l).take n) = pad8 l := by
  subst h; simp [pad8]

/-- header unpacking of a decoded body `c0 c1 c2 c3 c4 ++ rest` -/
def unpack (c0 c1 c2 c3 c4 : UInt8) (rest : List UInt8) : Frame :=
  { notError := ((c0.toNat >>> 7) &&& 0x01) != 0
    start := ((c0.toNat >>> 6) &&& 0x01) != 0
    multi := ((c0.toNat >>> 5) &&& 0x01) != 0
    idLast := ((c0.toNat >>> 6) &&& 0x01) != 0
    fid := ((c0.toNat &&& 0x0f) <<< 8) ||| c1.toNat
    addr := UInt16.ofNat ((c2.toNat <<< 8) ||| c3.toNat)
    dataLen := c4.toNat
    data := pad8 rest }

/-- what `fromUsart` does once the COBS layer produced `fr` -/
theorem fromUsart_cases (enc : List UInt8) :
    fromUsart enc = .err .cobsError ∨ fromUsart enc = .err .wrongSize ∨
    ∃ fr c0 c1 c2 c3 c4 rest, Cobs.decodeBody enc = some fr ∧ fr = c0 :: c1 :: c2 :: c3 :: c4 :: rest ∧
      rest.length = c4.toNat ∧ c4.toNat ≤ 8 ∧ fromUsart enc = .ok (unpack c0 c1 c2 c3 c4 rest) := by
  unfold fromUsart
  cases hd : Cobs.decodeBody enc with
  | none => left; rfl
  | some fr =>
    simp only []
    by_cases h5 : fr.length < 5
    · right; left; rw [if_pos h5]
    · have h5' : 5 ≤ fr.length := by omega
      match fr, h5' with
      | c0 :: c1 :: c2 :: c3 :: c4 :: rest, _ =>
        rw [if_neg (by simp)]
        simp only [rd_cons_succ, rd_cons_zero, Res.ok_bind, Res.pure_eq, List.length_cons]
        by_cases hs : rest.length + 1 + 1 + 1 + 1 + 1 ≠ c4.toNat + 5 ∨ 8 < c4.toNat
        · right; left; rw [if_pos hs]
        · right; right
          have h1 : rest.length = c4.toNat := by omega
          have h2 : c4.toNat ≤ 8 := by omega
          refine ⟨_, c0, c1, c2, c3, c4, rest, rfl, rfl, h1, h2, ?_⟩
          rw [if_neg hs, if_neg (by omega)]
          simp only [unpack, List.drop_succ_cons, List.drop_zero]
          rw [← h1, List.take_length]

/-- C04: decoding any byte string as a USART frame never panics -/
theorem fromUsart_no_panic (enc : List UInt8) : fromUsart enc ≠ .panic := by
  rcases fromUsart_cases enc with h | h | ⟨_, _, _, _, _, _, _, _, _, _, _, h⟩ <;> simp [h]

/-- C04: every frame the USART decoder returns is well-formed -/
theorem fromUsart_wf (enc : List UInt8) (f : Frame) (h : fromUsart enc = .ok f) : f.WF := by
  rcases fromUsart_cases enc with h' | h' | ⟨fr, c0, c1, c2, c3, c4, rest, _, _, hl, h8, h'⟩
  · simp [h'] at h
  · simp [h'] at h
  · rw [h'] at h
    cases h
    refine ⟨h8, by simp [unpack, pad8]; omega, ?_, ?_⟩
    · simp only [unpack]
      have := c1.toNat_lt
      rw [and_f, shl8_or _ _ (by omega)]; omega
    · simp only [unpack]
      exact (pad8_take_self rest c4.toNat hl).symm

/-- C04: every frame the CAN decoder returns is well-formed -/
theorem fromCan_wf (c : CanFrame) (hc : c.Constructible) (f : Frame) (h : fromCan c = .ok f) : f.WF := by
  obtain ⟨_, h8, hd⟩ := hc
  unfold fromCan at h
  split at h; · simp at h
  split at h; · simp at h
  rename_i hr
  simp only [Bool.not_eq_true] at hr
  simp only [hr] at hd
  have hd' : c.data.length = c.dlc := by simpa using hd
  rw [if_neg (by omega)] at h
  have htl : (c.data.take c.dlc).length = c.dlc := by simp; omega
  split at h
  · split at h; · simp at h
    cases h
    refine ⟨h8, by simp [pad8]; omega, ?_, ?_⟩
    · simp only []
      have := (List.headD (pad8 (List.take c.dlc c.data)) 0).toNat_lt
      rw [and_f, shl8_or _ _ (by omega)]; omega
    · simp only []; exact (pad8_take_self _ _ htl).symm
  · cases h
    exact ⟨h8, by simp [pad8]; omega, by simp, (pad8_take_self _ _ htl).symm⟩

#print axioms fromUsart_no_panic
#print axioms fromUsart_wf
#print axioms fromCan_wf
end Ross
