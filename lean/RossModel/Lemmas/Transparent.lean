import RossModel.Spec.Frames
import RossModel.Lemmas.ByteLink
import RossModel.Lemmas.Usart
import RossModel.Lemmas.Can
/-!
# C13: each link is transparent to packet sequences under every polling schedule
-/
namespace Ross

theorem pad8_take (l : List UInt8) : (pad8 l).take l.length = l := by simp [pad8]

theorem mkMulti_wf (p : Packet) (k i : Nat) (c : List UInt8) (hc : c.length ≤ 7) (hi : i < k) (hk : k ≤ 4096) :
    (mkMulti p k i c).WF ∧ (mkMulti p k i c).idLast = (mkMulti p k i c).start := by
  refine ⟨⟨by simp [mkMulti]; omega, by simp [mkMulti, pad8]; omega, by simp only [mkMulti]; split <;> omega, ?_⟩, rfl⟩
  simp only [mkMulti]
  have := pad8_take (UInt8.ofNat (if i = 0 then k - 1 else i) :: c)
  simp only [List.length_cons] at this
  rw [this]

theorem framesFrom_wf (p : Packet) (k j : Nat) (cs : List (List UInt8)) (hcs : ∀ c ∈ cs, c.length ≤ 7)
    (hk : j + cs.length ≤ k) (hk' : k ≤ 4096) :
    ∀ f ∈ framesFrom p k j cs, f.WF ∧ f.idLast = f.start := by
  induction cs generalizing j with
  | nil => simp [framesFrom]
  | cons c cs ih =>
    simp only [List.length_cons] at hk
    intro f hf
    simp only [framesFrom, List.mem_cons] at hf
    rcases hf with h | h
    · subst h; exact mkMulti_wf p k j c (hcs c (by simp)) (by omega) hk'
    · exact ih (j + 1) (fun c' hc' => hcs c' (by simp [hc'])) (by omega) f h

/-- every frame of a fragmentation (packets up to 4096 frames) is well-formed and kind-consistent -/
theorem specFrames_wf (p : Packet) (hn : p.data.length ≤ 28672) :
    ∀ f ∈ specFrames p, f.WF ∧ f.idLast = f.start := by
  unfold specFrames
  split
  · rename_i h8
    intro f hf
    simp only [List.mem_singleton] at hf
    subst hf
    exact ⟨⟨h8, pad8_length _ h8, by simp, by simp only []; rw [pad8_take]⟩, rfl⟩
  · have hl := chunks7_length p.data
    have : (chunks7 p.data).mapIdx (fun i c => mkMulti p (chunks7 p.data).length i c)
        = framesFrom p (chunks7 p.data).length 0 (chunks7 p.data) := by
      rw [← mapIdx_eq_framesFrom]; rfl
    show ∀ f ∈ (chunks7 p.data).mapIdx (fun i c => mkMulti p (chunks7 p.data).length i c), _
    rw [this]
    exact framesFrom_wf p _ 0 _ (chunks7_len_le p.data) (by omega) (by omega)

theorem normKind_of_consistent (f : Frame) (h : f.idLast = f.start) : normKind f = f := by
  cases f; simp_all [normKind]



theorem usartBodies_decode (p : Packet) (hn : p.data.length ≤ 28672) :
    (usartBodies p).map fromUsart = (specFrames p).map .ok := by
  simp only [usartBodies, List.map_map]
  apply List.map_congr_left
  intro f hf
  obtain ⟨hwf, hk⟩ := specFrames_wf p hn f hf
  simp only [Function.comp]
  rw [fromUsart_toUsart f hwf, normKind_of_consistent f hk]

theorem usartBodies_len (p : Packet) (hn : p.data.length ≤ 28672) : ∀ b ∈ usartBodies p, b.length ≤ 255 := by
  intro b hb
  simp only [usartBodies, List.mem_map] at hb
  obtain ⟨f, hf, rfl⟩ := hb
  obtain ⟨u, hu, _, _, h14⟩ := toUsart_transparent f (specFrames_wf p hn f hf).1
  rw [toUsart_layout f (specFrames_wf p hn f hf).1, ← usartBody_eq] at hu
  cases hu; omega

/-- C13 (USART): any sequence of packets, under **every** placement of "no data yet" between any two
bytes, is received as exactly that sequence, with no error -/
theorem usart_transparent (ps : List Packet) (hn : ∀ p ∈ ps, p.data.length ≤ 28672) (s : List ByteItem)
    (hs : s.filter notWouldBlock = (wireOf (ps.flatMap usartBodies)).map .byte) :
    emitsOf (usartPolls LinkSt.init s) = ps.map fun p => .emit (.packet p) := by
  rw [usartPolls_erase, hs, LinkSt.init]
  have hlen : ∀ b ∈ ps.flatMap usartBodies, b.length ≤ 255 := by
    intro b hb
    simp only [List.mem_flatMap] at hb
    obtain ⟨p, hp, hb⟩ := hb
    exact usartBodies_len p (hn p hp) b hb
  rw [usartPolls_wire none _ hlen]
  have hdec : (ps.flatMap usartBodies).map fromUsart = (ps.flatMap specFrames).map .ok := by
    clear hs hlen
    induction ps with
    | nil => simp
    | cons p ps ih =>
      simp only [List.flatMap_cons, List.map_append]
      rw [usartBodies_decode p (hn p (by simp)), ih (fun q hq => hn q (by simp [hq]))]
  rw [hdec, run_packets ps hn]
  simp [emitsOf, Function.comp_def]


/-! ## CAN -/

theorem mkMulti_canCanonical (p : Packet) (k i : Nat) (c : List UInt8) (hc : c.length ≤ 7) (hi : i < k)
    (hk : k ≤ 4096) : (mkMulti p k i c).CanCanonical := by
  refine ⟨(mkMulti_wf p k i c hc hi hk).1, ?_⟩
  simp only [mkMulti, if_true]
  refine ⟨by omega, by simp, ?_⟩
  simp only [pad8, List.cons_append, List.headD_cons]
  split <;> simp <;> omega

theorem framesFrom_canCanonical (p : Packet) (k j : Nat) (cs : List (List UInt8)) (hcs : ∀ c ∈ cs, c.length ≤ 7)
    (hk : j + cs.length ≤ k) (hk' : k ≤ 4096) : ∀ f ∈ framesFrom p k j cs, f.CanCanonical := by
  induction cs generalizing j with
  | nil => simp [framesFrom]
  | cons c cs ih =>
    simp only [List.length_cons] at hk
    intro f hf
    simp only [framesFrom, List.mem_cons] at hf
    rcases hf with h | h
    · subst h; exact mkMulti_canCanonical p k j c (hcs c (by simp)) (by omega) hk'
    · exact ih (j + 1) (fun c' hc' => hcs c' (by simp [hc'])) (by omega) f h

/-- C08: every frame that fragmentation produces survives the CAN codec unchanged -/
theorem specFrames_canCanonical (p : Packet) (hn : p.data.length ≤ 28672) : ∀ f ∈ specFrames p, f.CanCanonical := by
  unfold specFrames
  split
  · rename_i h8
    intro f hf
    simp only [List.mem_singleton] at hf
    subst hf
    exact ⟨⟨h8, pad8_length _ h8, by simp, by simp only []; rw [pad8_take]⟩, by simp⟩
  · have hl := chunks7_length p.data
    have : (chunks7 p.data).mapIdx (fun i c => mkMulti p (chunks7 p.data).length i c)
        = framesFrom p (chunks7 p.data).length 0 (chunks7 p.data) := by
      rw [← mapIdx_eq_framesFrom]; rfl
    show ∀ f ∈ (chunks7 p.data).mapIdx (fun i c => mkMulti p (chunks7 p.data).length i c), _
    rw [this]
    exact framesFrom_canCanonical p _ 0 _ (chunks7_len_le p.data) (by omega) (by omega)



theorem canWire_decode (p : Packet) (hn : p.data.length ≤ 28672) :
    (canWire p).map fromCan = (specFrames p).map .ok := by
  simp only [canWire, List.map_map]
  apply List.map_congr_left
  intro f hf
  exact fromCan_layoutId f (specFrames_canCanonical p hn f hf)

def isCanFrame : CanItem → Bool
  | .frame _ => true
  | _ => false

theorem canFrames_filter (s : List CanItem) (cs : List CanFrame) (h : s.filter isCanFrame = cs.map .frame) :
    canFrames s = cs.map fromCan := by
  induction s generalizing cs with
  | nil => cases cs <;> simp_all [canFrames]
  | cons it s ih =>
    cases it with
    | frame c =>
      simp only [List.filter, isCanFrame] at h
      cases cs with
      | nil => simp at h
      | cons c' cs' =>
        simp only [List.map_cons, List.cons.injEq, CanItem.frame.injEq] at h
        obtain ⟨rfl, h⟩ := h
        simp [canFrames, ih cs' h]
    | wouldBlock => simp only [List.filter, isCanFrame] at h; simp [canFrames, ih cs h]
    | overrun => simp only [List.filter, isCanFrame] at h; simp [canFrames, ih cs h]

/-- C13 (CAN): any sequence of packets, with "no frame yet" answers anywhere between the frames, is
received as exactly that sequence -/
theorem can_transparent (ps : List Packet) (hn : ∀ p ∈ ps, p.data.length ≤ 28672) (s : List CanItem)
    (hs : s.filter isCanFrame = (ps.flatMap canWire).map .frame) :
    emitsOf (canPolls none s) = ps.map fun p => .emit (.packet p) := by
  rw [canPolls_eq_run, canFrames_filter s _ hs]
  have hdec : (ps.flatMap canWire).map fromCan = (ps.flatMap specFrames).map .ok := by
    clear hs
    induction ps with
    | nil => simp
    | cons p ps ih =>
      simp only [List.flatMap_cons, List.map_append]
      rw [canWire_decode p (hn p (by simp)), ih (fun q hq => hn q (by simp [hq]))]
  rw [hdec, run_packets ps hn]
  simp [Function.comp_def]


/-! ## serial port -/

/-- C13 (serial port): any sequence of packets, with read time-outs anywhere between link frames, is
received as exactly that sequence, with no error -/
theorem serial_transparent_raw (ps : List Packet) (hn : ∀ p ∈ ps, p.data.length ≤ 28672) (segs : List Seg)
    (hnoise : ∀ sg ∈ segs, ∀ bs, sg = .noise bs → ∀ b ∈ bs, b ≠ 0)
    (hs : Seg.bodies segs = ps.flatMap usartBodies) :
    emitsOf (serialPollsRaw LinkSt.init (segs.flatMap Seg.items)) = ps.map fun p => .emit (.packet p) := by
  have hlen : ∀ b ∈ Seg.bodies segs, b.length ≤ 255 := by
    intro b hb
    rw [hs] at hb
    simp only [List.mem_flatMap] at hb
    obtain ⟨p, hp, hb⟩ := hb
    exact usartBodies_len p (hn p hp) b hb
  have hok : ∀ sg ∈ segs, sg.Ok := by
    intro sg hsg
    cases sg with
    | gap => trivial
    | noise bs => exact hnoise _ hsg bs rfl
    | frame b =>
      apply hlen
      clear hs hlen hnoise
      induction segs with
      | nil => cases hsg
      | cons x t ih =>
        rcases List.mem_cons.mp hsg with rfl | h
        · simp [Seg.bodies]
        · cases x <;> simp [Seg.bodies, ih h]
  rw [LinkSt.init, serialPollsRaw_segs none segs hok, hs]
  have hdec : (ps.flatMap usartBodies).map fromUsart = (ps.flatMap specFrames).map .ok := by
    clear hs hlen
    induction ps with
    | nil => simp
    | cons p ps ih =>
      simp only [List.flatMap_cons, List.map_append]
      rw [usartBodies_decode p (hn p (by simp)), ih (fun q hq => hn q (by simp [hq]))]
  rw [hdec, run_packets ps hn]
  simp [Function.comp_def]

def notInterrupted : ByteItem → Bool
  | .interrupted => false
  | _ => true

/-- `read_exact` retries interrupted reads: wherever they occur, they do not change what is delivered
(only, possibly, how many polls report "nothing") -/
theorem serialPollsRaw_interrupted (st : LinkSt) (s : List ByteItem) :
    emitsOf (serialPollsRaw st s) = emitsOf (serialPollsRaw st (s.filter notInterrupted)) := by
  unfold serialPollsRaw
  induction s generalizing st with
  | nil => simp
  | cons it s ih =>
    by_cases hi : it = .interrupted
    · subst hi
      simp only [List.filter, notInterrupted]
      rw [bytePolls_none serialStep st st _ _ (by rcases st with ⟨ph, rx⟩; cases ph <;> rfl)]
      exact ih st
    · have hf : notInterrupted it = true := by cases it <;> simp_all [notInterrupted]
      simp only [List.filter, hf, bytePolls]
      cases h : serialStep st it with
      | mk st' oo =>
        cases oo with
        | none => exact ih st'
        | some o =>
          simp only []
          by_cases ho : o = .nothing
          · subst ho
            have hidle : st'.ph = .idle := by
              rcases st with ⟨ph, rx⟩
              cases ph <;> cases it <;> simp only [serialStep] at h
              all_goals first
                | (simp at h; rw [← h]; done)
                | (split at h <;> simp at h; done)
                | (exact absurd h (startBody_ne_nothing _ _ _))
                | (exact absurd h (pushBody_ne_nothing _ _ _ _ _))
                | (simp at h; done)
                | (exact absurd rfl hi)
            have hend : emitsOf (bytePolls serialStep st' []) = [] := by simp [bytePolls, hidle]
            by_cases hs : s = []
            · subst hs; simp
            · by_cases hs2 : List.filter notInterrupted s = []
              · have := ih st'
                rw [hs2, hend] at this
                simp [hs, hs2, this]
              · simp only [hs, hs2, and_false, if_false, emitsOf_cons_nothing, ih st']
          · simp only [ho, false_and, if_false]
            exact emitsOf_cons_congr _ _ _ (ih st')

#print axioms serial_transparent_raw
#print axioms serialPollsRaw_interrupted
#print axioms usart_transparent
#print axioms can_transparent
end Ross
