import RossModel.Spec.Frames
import RossModel.Frame
import RossModel.Lemmas.Bits
import RossModel.Lemmas.Cobs
/-!
# USART codec: layout, round trip, no delimiter byte, totality
-/
namespace Ross

theorem bit_lt' (b : Bool) : bit b < 2 := by cases b <;> simp [bit]



theorem or4 (a b c d : Nat) (ha : a < 2) (hb : b < 2) (hc : c < 2) (hd : d < 16) :
    (a * 2^7 ||| b * 2^6 ||| c * 2^5 ||| d) = a * 128 + b * 64 + c * 32 + d := by
  have s1 : (a * 2^7 ||| b * 2^6) = a * 2^7 + b * 2^6 := or_eq_add_of_dvd (k := 7) (by omega) (by omega)
  have s2 : (a * 2^7 + b * 2^6 ||| c * 2^5) = a * 2^7 + b * 2^6 + c * 2^5 :=
    or_eq_add_of_dvd (k := 6) (by omega) (by omega)
  rw [s1, s2, or_eq_add_of_dvd (k := 5) (by omega) (by omega)]

theorem hdr0_expr (f : Frame) :
    ((bit f.notError <<< 7) ||| (bit f.start <<< 6) ||| (bit f.multi <<< 5) ||| ((f.fid &&& 0x0f00) >>> 8)) = hdr0 f := by
  have h1 := bit_lt' f.notError; have h2 := bit_lt' f.start; have h3 := bit_lt' f.multi
  simp only [and_f00, Nat.shiftLeft_eq, Nat.shiftRight_eq_div_pow, hdr0]
  have hd : f.fid / 256 % 16 * 256 / 2 ^ 8 = f.fid / 256 % 16 := by omega
  rw [hd]
  exact or4 _ _ _ _ h1 h2 h3 (by omega)

theorem hdr0_lt (f : Frame) : hdr0 f < 256 := by
  have h1 := bit_lt' f.notError; have h2 := bit_lt' f.start; have h3 := bit_lt' f.multi
  unfold hdr0; omega



theorem and_ff00 (x : Nat) (hx : x < 65536) : (x &&& 0xff00) >>> 8 = x / 256 := by
  have h : (0xff00 : Nat) = 255 <<< 8 := by decide
  have : x &&& 255 <<< 8 = ((x >>> 8) &&& 255) <<< 8 := by
    apply Nat.eq_of_testBit_eq; intro i
    simp only [Nat.testBit_and, Nat.testBit_shiftLeft, Nat.testBit_shiftRight]
    by_cases hi : 8 ≤ i
    · have : 8 + (i - 8) = i := by omega
      simp [hi, this]
    · simp [hi]
  rw [h, this, and_ff, Nat.shiftLeft_eq, Nat.shiftRight_eq_div_pow, Nat.shiftRight_eq_div_pow]
  omega

theorem usartBody_eq (f : Frame) : usartBody f = header f ++ f.data.take f.dataLen := by
  have ha := f.addr.toNat_lt
  simp only [usartBody, header, hdr0_expr, and_ff, and_ff00 _ (by omega : f.addr.toNat < 65536)]

theorem usartBody_length (f : Frame) (h : f.WF) : (usartBody f).length = f.dataLen + 5 := by
  obtain ⟨h8, hl, _, _⟩ := h
  rw [usartBody_eq]; simp [header]; omega

/-- C09: `to_usart_frame` emits the COBS encoding of header ++ data, it never panics on a well-formed frame -/
theorem toUsart_layout (f : Frame) (h : f.WF) :
    toUsart f = .ok (Cobs.encode (header f ++ f.data.take f.dataLen)) := by
  obtain ⟨h8, hl, _, _⟩ := h
  unfold toUsart
  rw [if_neg (by omega), usartBody_eq]

/-- C09: no delimiter byte, at most 14 bytes -/
theorem toUsart_transparent (f : Frame) (h : f.WF) :
    ∃ u, toUsart f = .ok u ∧ (∀ b ∈ u, b ≠ 0) ∧ u.length = f.dataLen + 6 ∧ u.length ≤ 14 := by
  have hlen := usartBody_length f h
  have hne : usartBody f ≠ [] := by intro h0; rw [h0] at hlen; simp at hlen
  refine ⟨Cobs.encode (usartBody f), ?_, ?_, ?_, ?_⟩
  · rw [toUsart_layout f h, usartBody_eq]
  · exact Cobs.encode_no_zero _ (by have := h.1; omega)
  · rw [Cobs.encode_length _ hne, hlen]
  · rw [Cobs.encode_length _ hne, hlen]; have := h.1; omega



theorem hdr0_fields (f : Frame) :
    (((hdr0 f >>> 7) &&& 0x01) != 0) = f.notError ∧ (((hdr0 f >>> 6) &&& 0x01) != 0) = f.start ∧
    (((hdr0 f >>> 5) &&& 0x01) != 0) = f.multi ∧ (hdr0 f &&& 0x0f) = f.fid / 256 % 16 := by
  simp only [and_1, and_f, Nat.shiftRight_eq_div_pow, hdr0]
  cases f.notError <;> cases f.start <;> cases f.multi <;> simp [bit] <;> omega

/-- C09: decoding inverts encoding on every well-formed frame -/
theorem fromUsart_toUsart (f : Frame) (h : f.WF) :
    fromUsart (Cobs.encode (usartBody f)) = .ok (normKind f) := by
  have hlen := usartBody_length f h
  obtain ⟨h8, hl, hid, hpad⟩ := h
  have hne : usartBody f ≠ [] := by intro h0; rw [h0] at hlen; simp at hlen
  have ha := f.addr.toNat_lt
  unfold fromUsart
  rw [Cobs.decodeBody_encode _ hne (by omega)]
  simp only []
  rw [if_neg (by omega)]
  rw [usartBody_eq] at hlen ⊢
  have h0lt := hdr0_lt f
  obtain ⟨e1, e2, e3, e4⟩ := hdr0_fields f
  simp only [header, List.cons_append, List.nil_append, rd_cons_succ, rd_cons_zero, Res.ok_bind]
  have hb4 : (UInt8.ofNat f.dataLen).toNat = f.dataLen := by simp; omega
  have hb0 : (UInt8.ofNat (hdr0 f)).toNat = hdr0 f := by simp; omega
  have hb1 : (UInt8.ofNat (f.fid % 256)).toNat = f.fid % 256 := by simp
  have hb2 : (UInt8.ofNat (f.addr.toNat / 256)).toNat = f.addr.toNat / 256 := by simp; omega
  have hb3 : (UInt8.ofNat (f.addr.toNat % 256)).toNat = f.addr.toNat % 256 := by simp
  simp only [hb4, hb0, hb1, hb2, hb3, e1, e2, e3, e4]
  have hl5 : (f.data.take f.dataLen).length = f.dataLen := by simp; omega
  rw [if_neg (by simp [header] at hlen ⊢; omega), if_neg (by simp; omega)]
  simp only [Res.pure_eq, List.drop_succ_cons, List.drop_zero, normKind]
  have hfid : ((f.fid / 256 % 16) <<< 8) ||| f.fid % 256 = f.fid := by
    rw [shl8_or _ _ (by omega)]; omega
  have haddr : UInt16.ofNat ((f.addr.toNat / 256) <<< 8 ||| f.addr.toNat % 256) = f.addr := by
    rw [shl8_or _ _ (by omega)]
    have : f.addr.toNat / 256 * 256 + f.addr.toNat % 256 = f.addr.toNat := by omega
    rw [this]; exact UInt16.ofNat_toNat
  have hdata : pad8 (List.take f.dataLen (List.take f.dataLen f.data)) = f.data := by
    rw [List.take_take]; simp; exact hpad.symm
  rw [hfid, haddr, hdata]

#print axioms fromUsart_toUsart
#print axioms toUsart_transparent
end Ross
