import RossModel.Basic
/-!
# Bit-field lemmas: shifts and masks as div/mod, disjoint OR as addition (kernel only, no `bv_decide`)
-/
namespace Ross

theorem or_eq_add_of_dvd {k a b : Nat} (ha : 2^k ∣ a) (hb : b < 2^k) : a ||| b = a + b := by
  obtain ⟨c, rfl⟩ := ha
  rw [Nat.mul_comm, ← Nat.shiftLeft_eq]
  exact (Nat.shiftLeft_add_eq_or_of_lt hb c).symm
theorem and_1 (x : Nat) : x &&& 1 = x % 2 := Nat.and_two_pow_sub_one_eq_mod x 1
theorem and_f (x : Nat) : x &&& 15 = x % 16 := Nat.and_two_pow_sub_one_eq_mod x 4
theorem and_ff (x : Nat) : x &&& 255 = x % 256 := Nat.and_two_pow_sub_one_eq_mod x 8
theorem and_ffff (x : Nat) : x &&& 65535 = x % 65536 := Nat.and_two_pow_sub_one_eq_mod x 16
theorem and_f00 (x : Nat) : x &&& 3840 = (x / 256 % 16) * 256 := by
  have h : (3840 : Nat) = 15 <<< 8 := by decide
  have : x &&& 15 <<< 8 = ((x >>> 8) &&& 15) <<< 8 := by
    apply Nat.eq_of_testBit_eq; intro i
    simp only [Nat.testBit_and, Nat.testBit_shiftLeft, Nat.testBit_shiftRight]
    by_cases hi : 8 ≤ i
    · have : 8 + (i - 8) = i := by omega
      simp [hi, this]
    · simp [hi]
  rw [h, this, and_f, Nat.shiftLeft_eq, Nat.shiftRight_eq_div_pow]


theorem shl8_or (n b : Nat) (hb : b < 256) : (n <<< 8) ||| b = n * 256 + b := by
  rw [Nat.shiftLeft_eq]; exact or_eq_add_of_dvd (k := 8) (by omega) (by omega)

end Ross
