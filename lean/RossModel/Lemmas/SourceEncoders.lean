import RossModel.Generated.Encoders
import RossModel.Lemmas.SourceDecoders
/-!
# Fifteen event encoders as read from the source text, and the round trip through the translated decoders

`RossModel/Generated/Encoders.lean` is written by `bin/extract` from `src/event/*.rs` on every run: `Src.encode_<kind>`
takes the fields of the Rust struct in declaration order and returns what `to_packet` writes, in source order (the
function is only emitted when every `data.…` call of `to_packet`, every field of the struct, the device address and the
error flag are accounted for; the message encoder — a `transmute_copy` — is outside this subset). For every field
value it is the model's `encode` of the corresponding event (`src_encode_*`); with `src_decodeK_agrees` this gives C03
about both translated sides: decoding what the translated encoder wrote yields the event that was encoded.
-/
set_option linter.unusedSimpArgs false
namespace Ross

macro "enc_eq" f:ident : tactic =>
  `(tactic| first | rfl | (simp only [$f:ident, encode, Kind.code]; first | done | rfl | simp))

theorem src_encode_bootloaderHello (pad : Pad) (a b : UInt16) : Src.encode_bootloaderHello a b = encode pad (.bootloaderHello a b) := by enc_eq Src.encode_bootloaderHello
theorem src_encode_programmerHello (pad : Pad) (a : UInt16) : Src.encode_programmerHello a = encode pad (.programmerHello a) := by enc_eq Src.encode_programmerHello
theorem src_encode_startFirmwareUpgrade (pad : Pad) (a b : UInt16) (n : UInt32) : Src.encode_startFirmwareUpgrade a b n = encode pad (.startFirmwareUpgrade a b n) := by enc_eq Src.encode_startFirmwareUpgrade
theorem src_encode_ack (pad : Pad) (a b : UInt16) : Src.encode_ack a b = encode pad (.ack a b) := by enc_eq Src.encode_ack
theorem src_encode_data (pad : Pad) (a b n : UInt16) (d : List UInt8) : Src.encode_data a b n d = encode pad (.data a b n d) := by enc_eq Src.encode_data
theorem src_encode_configuratorHello (pad : Pad) : Src.encode_configuratorHello = encode pad .configuratorHello := by enc_eq Src.encode_configuratorHello
theorem src_encode_bcmChange (pad : Pad) (a b : UInt16) (i : UInt8) (v : BcmValue) : Src.encode_bcmChange a b i v = encode pad (.bcmChange a b i v) := by enc_eq Src.encode_bcmChange
theorem src_encode_buttonPressed (pad : Pad) (a b : UInt16) (i : UInt8) : Src.encode_buttonPressed a b i = encode pad (.buttonPressed a b i) := by enc_eq Src.encode_buttonPressed
theorem src_encode_buttonReleased (pad : Pad) (a b : UInt16) (i : UInt8) : Src.encode_buttonReleased a b i = encode pad (.buttonReleased a b i) := by enc_eq Src.encode_buttonReleased
theorem src_encode_systemTick (pad : Pad) (a : UInt16) : Src.encode_systemTick a = encode pad (.systemTick a) := by enc_eq Src.encode_systemTick
theorem src_encode_startConfigUpgrade (pad : Pad) (a b : UInt16) (n : UInt32) : Src.encode_startConfigUpgrade a b n = encode pad (.startConfigUpgrade a b n) := by enc_eq Src.encode_startConfigUpgrade
theorem src_encode_setDeviceAddress (pad : Pad) (a b c : UInt16) : Src.encode_setDeviceAddress a b c = encode pad (.setDeviceAddress a b c) := by enc_eq Src.encode_setDeviceAddress
theorem src_encode_bcmAnimate (pad : Pad) (a b : UInt16) (i : UInt8) (d : UInt32) (v : BcmValue) : Src.encode_bcmAnimate a b i d v = encode pad (.bcmAnimate a b i d v) := by enc_eq Src.encode_bcmAnimate
theorem src_encode_relaySet (pad : Pad) (a b : UInt16) (i : UInt8) (v : RelayValue) : Src.encode_relaySet a b i v = encode pad (.relaySet a b i v) := by enc_eq Src.encode_relaySet
theorem src_encode_gatewayDiscover (pad : Pad) (a b : UInt16) : Src.encode_gatewayDiscover a b = encode pad (.gatewayDiscover a b) := by enc_eq Src.encode_gatewayDiscover

/-- the encoder read from the sources, for every event (the message event's is the model's) -/
def Src.encodeE (pad : Pad) : Event → Packet
  | .bootloaderHello a b => Src.encode_bootloaderHello a b
  | .programmerHello a => Src.encode_programmerHello a
  | .startFirmwareUpgrade a b n => Src.encode_startFirmwareUpgrade a b n
  | .ack a b => Src.encode_ack a b
  | .data a b n d => Src.encode_data a b n d
  | .configuratorHello => Src.encode_configuratorHello
  | .bcmChange a b i v => Src.encode_bcmChange a b i v
  | .buttonPressed a b i => Src.encode_buttonPressed a b i
  | .buttonReleased a b i => Src.encode_buttonReleased a b i
  | .systemTick a => Src.encode_systemTick a
  | .startConfigUpgrade a b n => Src.encode_startConfigUpgrade a b n
  | .setDeviceAddress a b c => Src.encode_setDeviceAddress a b c
  | .message a b c v => encode pad (.message a b c v)
  | .bcmAnimate a b i d v => Src.encode_bcmAnimate a b i d v
  | .relaySet a b i v => Src.encode_relaySet a b i v
  | .gatewayDiscover a b => Src.encode_gatewayDiscover a b

theorem src_encodeE_eq (pad : Pad) (e : Event) : Src.encodeE pad e = encode pad e := by
  cases e <;> simp only [Src.encodeE]
  · exact src_encode_bootloaderHello pad _ _
  · exact src_encode_programmerHello pad _
  · exact src_encode_startFirmwareUpgrade pad _ _ _
  · exact src_encode_ack pad _ _
  · exact src_encode_data pad _ _ _ _
  · exact src_encode_configuratorHello pad
  · exact src_encode_bcmChange pad _ _ _ _
  · exact src_encode_buttonPressed pad _ _ _
  · exact src_encode_buttonReleased pad _ _ _
  · exact src_encode_systemTick pad _
  · exact src_encode_startConfigUpgrade pad _ _ _
  · exact src_encode_setDeviceAddress pad _ _ _
  · exact src_encode_bcmAnimate pad _ _ _ _ _
  · exact src_encode_relaySet pad _ _ _ _
  · exact src_encode_gatewayDiscover pad _ _

/-- C03 about both sides as they read now: decoding, with the translated decoder of its kind, what the encoder read from the
sources wrote for a well-formed event yields that event -/
theorem src_roundtrip (pad : Pad) (e : Event) (h : e.WF) : Src.decodeK e.kind (Src.encodeE pad e) = .ok e := by
  rw [src_encodeE_eq]
  exact ((src_decodeK_agrees e.kind (encode pad e)).1 e).2 (decode_encode pad e h)

#print axioms src_encodeE_eq
#print axioms src_roundtrip
end Ross
