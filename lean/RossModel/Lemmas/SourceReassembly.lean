import RossModel.Generated.Reassembly
import RossModel.Lemmas.Builder
/-!
# C07 about the reassembly functions as translated from the source text

`RossModel/Generated/Reassembly.lean` is written by `bin/extract` (`bin/rust2lean.py`) from `src/packet.rs` on every run:
`Src.addFrame`, `Src.new`, `Src.framesLeft` are statement-by-statement translations of `PacketBuilder::add_frame`, `new`
and `frames_left` (a function the translator does not understand falls back to the hand-written model's definition and
is listed in `Src.notTranslated`). The theorems here state C07's specification about **those** functions, for all
builders and frames. The proofs unfold whatever the translation contains and close the goal from the specification's
definitions by `grind`; they do not depend on the order in which the source tests its guards — a harmless reordering
still proves, a guard that is missing or weakened, or that answers with a reason that does not apply, does not.
-/
set_option linter.unusedSimpArgs false
namespace Ross

/-- a frame is accepted by the translated `add_frame` exactly when it is the continuation the builder waits for; then
it is appended and nothing else changes -/
theorem src_addFrame_ok_iff (b : Builder) (f : Frame) (b' : Builder) :
    Src.addFrame b f = .ok b' ↔ b.Accepts f ∧ b' = { b with frames := b.frames ++ [f] } := by
  simp only [Src.addFrame, Builder.addFrame, Builder.Accepts]
  first | done | grind

/-- every rejection of the translated `add_frame` carries a reason that truly applies -/
theorem src_addFrame_err_applies (b : Builder) (f : Frame) (r : BErr) (h : Src.addFrame b f = .err r) : Applies r b f := by
  simp only [Src.addFrame, Builder.addFrame] at h
  unfold Applies
  first | done | grind

theorem src_addFrame_no_panic (b : Builder) (f : Frame) : Src.addFrame b f ≠ .panic := by
  simp only [Src.addFrame, Builder.addFrame]
  first | done | grind

/-- the translated `add_frame` and the hand-written model accept the same frames with the same resulting builder, and
reject the same frames (the reason may differ where several apply) -/
theorem src_addFrame_agrees (b : Builder) (f : Frame) :
    (∀ b', Src.addFrame b f = .ok b' ↔ b.addFrame f = .ok b') ∧
    ((∃ r, Src.addFrame b f = .err r) ↔ (∃ r, b.addFrame f = .err r)) := by
  refine ⟨fun b' => by rw [src_addFrame_ok_iff, addFrame_ok_iff], ?_⟩
  have h1 := src_addFrame_no_panic b f
  have h2 := addFrame_no_panic b f
  have h3 := fun b' => (src_addFrame_ok_iff b f b').trans (addFrame_ok_iff b f b').symm
  constructor
  · rintro ⟨r, hr⟩
    rcases hm : b.addFrame f with b' | r' | _
    · rw [(h3 b').mpr hm] at hr; cases hr
    · exact ⟨r', rfl⟩
    · exact absurd hm h2
  · rintro ⟨r, hr⟩
    rcases hm : Src.addFrame b f with b' | r' | _
    · rw [(h3 b').mp hm] at hr; cases hr
    · exact ⟨r', rfl⟩
    · exact absurd hm h1

/-- the translated `new`: a start frame that announces its frame count opens a builder with that frame; every other
frame is out of order -/
theorem src_new_spec (f : Frame) (hid : f.fid < 4096) :
    (f.start = true ∧ f.idLast = true →
      Src.new f = .ok { isError := !f.notError, expected := f.fid + 1, addr := f.addr, frames := [f] }) ∧
    (¬ (f.start = true ∧ f.idLast = true) → Src.new f = .err .outOfOrder) := by
  simp only [Src.new, Builder.new]
  first | done | grind

/-- the translated `frames_left`: accepted + remaining = announced, without underflow -/
theorem src_framesLeft_spec (b : Builder) (hb : b.Inv) :
    Src.framesLeft b = .ok (b.expected - b.frames.length) := by
  obtain ⟨i1, i2, i3⟩ := hb
  have : b.frames.length % 65536 = b.frames.length := by omega
  simp only [Src.framesLeft, Builder.framesLeft, Builder.frameCount]
  first | done | grind

#print axioms src_addFrame_ok_iff
#print axioms src_addFrame_err_applies
#print axioms src_addFrame_agrees
#print axioms src_new_spec
#print axioms src_framesLeft_spec
/-! ## `PacketBuilder::build`

`Src.build` is the translation of `build`: its guard as the source writes it, the loop over the stored frames as `Prim.forEach`,
the inner copy loop `for i in start_index..frame.data_len { data.push(frame.data[i as usize]); }` as `Prim.pushRange` (which
panics when an index of the range is not an index of the 8-byte array). For every builder whose frames carry 8-byte arrays —
the Rust type's invariant — it computes what the model's `Builder.build` does. -/

theorem pushRange_payload (f : Frame) (hf : f.data.length = 8) (acc : List UInt8) :
    Prim.pushRange acc f.data (if f.multi then 1 else 0) f.dataLen
      = match f.payload with | some d => .ok (acc ++ d) | none => .panic := by
  unfold Prim.pushRange Frame.payload
  by_cases h8 : f.dataLen ≤ 8
  · have : ¬ ((if f.multi then 1 else 0) < f.dataLen ∧ f.data.length < f.dataLen) := by omega
    simp [hf, h8, this]
  · have : ((if f.multi = true then 1 else 0) < f.dataLen ∧ f.data.length < f.dataLen) := by
      constructor
      · split <;> omega
      · omega
    simp [hf, h8, this]

theorem forEach_payloads (fs : List Frame) (h : ∀ f ∈ fs, f.data.length = 8) (acc : List UInt8) :
    Prim.forEach fs acc (fun data frame => Prim.pushRange data frame.data (if frame.multi then 1 else 0) frame.dataLen)
      = match payloads fs with | some d => .ok (acc ++ d) | none => .panic := by
  induction fs generalizing acc with
  | nil => simp [Prim.forEach, payloads]
  | cons f fs ih =>
    have hf := h f (by simp)
    have ih' := fun a => ih (fun g hg => h g (by simp [hg])) a
    simp only [Prim.forEach]
    rw [pushRange_payload f hf acc]
    cases hp : f.payload with
    | none => simp [payloads, hp]
    | some a =>
      simp only []
      rw [ih' (acc ++ a)]
      cases hq : payloads fs with
      | none => simp [payloads, hp, hq]
      | some b => simp [payloads, hp, hq, List.append_assoc]

theorem src_build_eq (b : Builder) (h : ∀ f ∈ b.frames, f.data.length = 8) : Src.build b = b.build := by
  first
  | (simp only [Src.build]; done)      -- not translated on this run (the definition is the model's)
  | (unfold Src.build Builder.build
     simp only [forEach_payloads b.frames h []]
     by_cases hl : b.frames.length = b.expected
     · have hl' := hl.symm
       simp [hl]
       cases payloads b.frames <;> simp [Res.bind]
     · have hl' : ¬ b.expected = b.frames.length := fun e => hl e.symm
       simp [hl, hl'])

#print axioms src_build_eq

end Ross
