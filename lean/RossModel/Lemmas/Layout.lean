import RossModel.Spec.Layout
import RossModel.Lemmas.Event
/-!
# C11: the encoders emit exactly the published layouts; the decoders agree with the reference decoder
-/
namespace Ross
open Spec

theorem code_published (k : Kind) : k.code = publishedCode k := by cases k <;> rfl

theorem hi8_code (k : Kind) : hi8 (publishedCode k) = 0 := by cases k <;> decide
theorem lo8_code (k : Kind) : lo8 (publishedCode k) = (publishedCode k).toUInt8 := by cases k <;> decide

/-- C11 (encode side): for every event and every padding, the encoder's packet is the published one -/
theorem encode_eq_layout (pad : Pad) (e : Event) : encode pad e = specEncode pad e := by
  cases e with
  | bcmChange a t i v => cases v <;> simp [encode, specEncode, fields, bcmFields, Field.bytes, u16b, Event.receiver, Event.kind, code_published, BcmValue.ser, flag] <;> (try split) <;> rfl
  | bcmAnimate a t i d v => cases v <;> simp [encode, specEncode, fields, bcmFields, Field.bytes, u16b, u32b, Event.receiver, Event.kind, code_published, BcmValue.ser, flag] <;> (try split) <;> rfl
  | relaySet a t i v =>
    cases v with
    | single b => cases b <;> simp [encode, specEncode, fields, relayFields, Field.bytes, u16b, Event.receiver, Event.kind, code_published, RelayValue.ser]
    | _ => simp [encode, specEncode, fields, relayFields, Field.bytes, u16b, Event.receiver, Event.kind, code_published, RelayValue.ser]
  | message r t c v => cases v <;> simp [encode, specEncode, fields, msgFields, Field.bytes, u16b, Event.receiver, Event.kind, code_published, MessageValue.image, flag]
  | _ => simp [encode, specEncode, fields, Field.bytes, u16b, u32b, Event.receiver, Event.kind, code_published]


theorem refBcm_de (v : List UInt8) (b : BcmValue) (h : refBcm v = some b) : BcmValue.de v = .ok b := by
  unfold refBcm at h
  split at h
  all_goals (try (simp at h))
  all_goals (try (subst h; simp [BcmValue.de]; done))
  · rename_i x
    unfold refBool at h
    split at h
    · simp at h; subst h; rename_i hx; subst hx; simp [BcmValue.de]
    · split at h
      · simp at h; subst h; rename_i hx; subst hx; simp [BcmValue.de]
      · simp at h

theorem refRelay_de (v : List UInt8) (b : RelayValue) (h : refRelay v = some b) : RelayValue.de v = .ok b := by
  unfold refRelay at h
  split at h
  all_goals (try (simp at h))
  all_goals (subst h; simp [RelayValue.de])

theorem refMsg_ofImage (v : List UInt8) (b : MessageValue) (h : refMsg v = some b) : MessageValue.ofImage v = .ok b := by
  unfold refMsg at h
  split at h
  all_goals (try (simp at h))
  · subst h; simp [MessageValue.ofImage, le32_toNat]
  · subst h; simp [MessageValue.ofImage, le32_toNat]
  · subst h; simp [MessageValue.ofImage, le32_toNat]; rfl
  · rename_i x _ _ _
    unfold refBool at h
    split at h
    · simp at h; subst h; rename_i hx; subst hx; simp [MessageValue.ofImage, le32_toNat]
    · split at h
      · simp at h; subst h; rename_i hx; subst hx; simp [MessageValue.ofImage, le32_toNat]
      · simp at h

/-- C11 (decode side): on every packet the reference decoder accepts, the decoder extracts the same
field values -/
theorem refDecode_agrees (k : Kind) (p : Packet) (e : Event) (h : refDecode k p = some e) : decode k p = .ok e := by
  rcases p with ⟨ie, addr, data⟩
  unfold refDecode at h
  simp only at h
  split at h; · simp at h
  rename_i herr
  have herr' : ie = false := by simpa using herr
  subst herr'
  split at h
  all_goals (try (simp at h; done))
  all_goals (try (simp at h; subst h; simp [decode, decodeFields, preamble, sizeOk, rd16, rd32, Kind.code, be16]; done))
  · -- data
    split at h
    · rename_i hl; simp at h; subst h
      have hc : be16 0 4 = (4 : UInt16) := by decide
      simp [decode, decodeFields, preamble, sizeOk, rd16, Kind.code, hc, hl]
    · simp at h
  · -- bcmChange
    rename_i a b i v
    cases hv : refBcm v with
    | none => simp [hv] at h
    | some bv =>
      simp [hv] at h; subst h
      have := refBcm_de v bv hv
      have hl : 2 ≤ v.length := by
        unfold refBcm at hv; split at hv <;> simp_all
      have hc : be16 0 6 = (6 : UInt16) := by decide
      have hl' : ¬ v.length < 2 := by omega
      simp [decode, decodeFields, preamble, sizeOk, rd16, Kind.code, hc, this, hl']
  · -- message
    rename_i a b c d v
    cases hv : refMsg v with
    | none => simp [hv] at h
    | some mv =>
      simp [hv] at h; subst h
      have := refMsg_ofImage v mv hv
      have hl : v.length = 8 := by
        unfold refMsg at hv; split at hv <;> simp_all
      simp [decode, decodeFields, preamble, sizeOk, rd16, Kind.code, be16, this, hl]
  · -- bcmAnimate
    rename_i a b i d3 d2 d1 d0 v
    cases hv : refBcm v with
    | none => simp [hv] at h
    | some bv =>
      simp [hv] at h; subst h
      have := refBcm_de v bv hv
      have hl : 2 ≤ v.length := by
        unfold refBcm at hv; split at hv <;> simp_all
      have hc : be16 0 13 = (13 : UInt16) := by decide
      have hl' : ¬ v.length < 2 := by omega
      simp [decode, decodeFields, preamble, sizeOk, rd16, rd32, Kind.code, hc, this, hl']
  · -- relaySet
    rename_i a b i v
    cases hv : refRelay v with
    | none => simp [hv] at h
    | some rv =>
      simp [hv] at h; subst h
      have := refRelay_de v rv hv
      have hl : v.length = 1 := by
        unfold refRelay at hv; split at hv <;> simp_all
      simp [decode, decodeFields, preamble, sizeOk, rd16, Kind.code, be16, this, hl]


/-- unfolding `u16b` on anything but an event code -/
theorem u16b_eq (x : UInt16) : u16b x = [hi8 x, lo8 x] := rfl

/-! the two code bytes of each kind, as literals -/
@[simp] theorem hi8_code_bootloaderHello : hi8 Kind.bootloaderHello.code = 0 := by decide
@[simp] theorem lo8_code_bootloaderHello : lo8 Kind.bootloaderHello.code = 0 := by decide
@[simp] theorem hi8_code_programmerHello : hi8 Kind.programmerHello.code = 0 := by decide
@[simp] theorem lo8_code_programmerHello : lo8 Kind.programmerHello.code = 1 := by decide
@[simp] theorem hi8_code_startFirmwareUpgrade : hi8 Kind.startFirmwareUpgrade.code = 0 := by decide
@[simp] theorem lo8_code_startFirmwareUpgrade : lo8 Kind.startFirmwareUpgrade.code = 2 := by decide
@[simp] theorem hi8_code_ack : hi8 Kind.ack.code = 0 := by decide
@[simp] theorem lo8_code_ack : lo8 Kind.ack.code = 3 := by decide
@[simp] theorem hi8_code_data : hi8 Kind.data.code = 0 := by decide
@[simp] theorem lo8_code_data : lo8 Kind.data.code = 4 := by decide
@[simp] theorem hi8_code_configuratorHello : hi8 Kind.configuratorHello.code = 0 := by decide
@[simp] theorem lo8_code_configuratorHello : lo8 Kind.configuratorHello.code = 5 := by decide
@[simp] theorem hi8_code_bcmChange : hi8 Kind.bcmChange.code = 0 := by decide
@[simp] theorem lo8_code_bcmChange : lo8 Kind.bcmChange.code = 6 := by decide
@[simp] theorem hi8_code_buttonPressed : hi8 Kind.buttonPressed.code = 0 := by decide
@[simp] theorem lo8_code_buttonPressed : lo8 Kind.buttonPressed.code = 7 := by decide
@[simp] theorem hi8_code_buttonReleased : hi8 Kind.buttonReleased.code = 0 := by decide
@[simp] theorem lo8_code_buttonReleased : lo8 Kind.buttonReleased.code = 8 := by decide
@[simp] theorem hi8_code_systemTick : hi8 Kind.systemTick.code = 0 := by decide
@[simp] theorem lo8_code_systemTick : lo8 Kind.systemTick.code = 9 := by decide
@[simp] theorem hi8_code_startConfigUpgrade : hi8 Kind.startConfigUpgrade.code = 0 := by decide
@[simp] theorem lo8_code_startConfigUpgrade : lo8 Kind.startConfigUpgrade.code = 10 := by decide
@[simp] theorem hi8_code_setDeviceAddress : hi8 Kind.setDeviceAddress.code = 0 := by decide
@[simp] theorem lo8_code_setDeviceAddress : lo8 Kind.setDeviceAddress.code = 11 := by decide
@[simp] theorem hi8_code_message : hi8 Kind.message.code = 0 := by decide
@[simp] theorem lo8_code_message : lo8 Kind.message.code = 12 := by decide
@[simp] theorem hi8_code_bcmAnimate : hi8 Kind.bcmAnimate.code = 0 := by decide
@[simp] theorem lo8_code_bcmAnimate : lo8 Kind.bcmAnimate.code = 13 := by decide
@[simp] theorem hi8_code_relaySet : hi8 Kind.relaySet.code = 0 := by decide
@[simp] theorem lo8_code_relaySet : lo8 Kind.relaySet.code = 14 := by decide
@[simp] theorem hi8_code_gatewayDiscover : hi8 Kind.gatewayDiscover.code = 0 := by decide
@[simp] theorem lo8_code_gatewayDiscover : lo8 Kind.gatewayDiscover.code = 15 := by decide

/-- C11: the reference decoder accepts every published encoding (so agreement with it is not vacuous) -/
theorem refDecode_encode (pad : Pad) (e : Event) (h : e.WF) : refDecode e.kind (encode pad e) = some e := by
  cases e with
  | data r t n d =>
    simp only [Event.WF] at h
    simp [refDecode, encode, Event.kind, u16b_eq, h]
  | bcmChange a t i v =>
    cases v with
    | binary b => cases b <;> simp [refDecode, encode, Event.kind, u16b_eq, BcmValue.ser, refBcm, refBool]
    | _ => simp [refDecode, encode, Event.kind, u16b_eq, BcmValue.ser, refBcm]
  | bcmAnimate a t i d v =>
    cases v with
    | binary b => cases b <;> simp [refDecode, encode, Event.kind, u16b_eq, u32b, BcmValue.ser, refBcm, refBool]
    | _ => simp [refDecode, encode, Event.kind, u16b_eq, u32b, BcmValue.ser, refBcm]
  | relaySet a t i v =>
    cases v with
    | single b => cases b <;> simp [refDecode, encode, Event.kind, u16b_eq, RelayValue.ser, refRelay]
    | _ => simp [refDecode, encode, Event.kind, u16b_eq, RelayValue.ser, refRelay]
  | message r t c v =>
    cases v with
    | bool b => cases b <;> simp [refDecode, encode, Event.kind, u16b_eq, MessageValue.image, refMsg, refBool]
    | _ => simp [refDecode, encode, Event.kind, u16b_eq, MessageValue.image, refMsg]
  | _ => simp [refDecode, encode, Event.kind, u16b_eq, u32b]

#print axioms encode_eq_layout
#print axioms refDecode_agrees
#print axioms refDecode_encode
end Ross
