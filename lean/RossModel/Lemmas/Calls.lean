import RossModel.Trace
/-!
# No look-ahead: what a receiver returns never depends on device items it has not consumed

`byteCalls step st s` lists the `try_get_packet` calls that *return while the script `s` is being consumed* — result,
number of items of `s` still unread at that moment, state left — and the state in which the end of `s` is reached.
The append law `byteCalls_append` says that the calls made while consuming `s` are the same whatever follows `s`
(only the unread counts grow by the length of what follows) and that consumption then resumes from the state reached:
the receiver never consumes input beyond the frames it has been given (C06), and when a call returns a packet all
items behind the one that completed it — in particular every byte of the following packets — are still queued on the
device (C13). `bytePollsSt_eq_calls` relates this to the per-call trace used everywhere else.
-/
namespace Ross

def byteCalls (step : LinkSt → ByteItem → LinkSt × Option Out) : LinkSt → List ByteItem → List (Out × Nat × LinkSt) × LinkSt
  | st, [] => ([], st)
  | st, it :: s =>
    match step st it with
    | (st', some o) => let r := byteCalls step st' s; ((o, s.length, st') :: r.1, r.2)
    | (st', none) => byteCalls step st' s

/-- add `k` to the unread counts -/
def shiftLeft (k : Nat) (l : List (Out × Nat × LinkSt)) : List (Out × Nat × LinkSt) :=
  l.map fun x => (x.1, x.2.1 + k, x.2.2)

theorem byteCalls_append (step : LinkSt → ByteItem → LinkSt × Option Out) (st : LinkSt) (s t : List ByteItem) :
    byteCalls step st (s ++ t) =
      (shiftLeft t.length (byteCalls step st s).1 ++ (byteCalls step (byteCalls step st s).2 t).1,
       (byteCalls step (byteCalls step st s).2 t).2) := by
  induction s generalizing st with
  | nil => simp [byteCalls, shiftLeft]
  | cons it s ih =>
    simp only [List.cons_append, byteCalls]
    cases hst : step st it with
    | mk st' o =>
      cases o with
      | none => exact ih st'
      | some o => simp [ih st', shiftLeft, Nat.add_comm]

/-- C13 "leaves the following ones queued" / C06 "consumes nothing beyond": every call that returns while `s` is being
consumed leaves at least everything after `s` unread, and its result and state do not depend on what follows `s` -/
theorem byteCalls_prefix (step : LinkSt → ByteItem → LinkSt × Option Out) (st : LinkSt) (s t : List ByteItem) :
    ∃ rest, (byteCalls step st (s ++ t)).1 = shiftLeft t.length (byteCalls step st s).1 ++ rest ∧
      ∀ x ∈ shiftLeft t.length (byteCalls step st s).1, t.length ≤ x.2.1 := by
  refine ⟨(byteCalls step (byteCalls step st s).2 t).1, by rw [byteCalls_append], ?_⟩
  intro x hx
  simp only [shiftLeft, List.mem_map] at hx
  obtain ⟨y, _, rfl⟩ := hx
  exact Nat.le_add_left _ _

/-- the entry the driver loop adds when the script is exhausted -/
def endEntry (st : LinkSt) : Out × Nat × LinkSt :=
  match st.ph with
  | .idle => (.nothing, 0, st)
  | _ => (.blocked, 0, st)

/-- the per-call trace is the list of returning calls plus the final call on the exhausted script — which is the last
returning call itself when that one already returned "nothing" with nothing left -/
theorem bytePollsSt_eq_calls (step : LinkSt → ByteItem → LinkSt × Option Out) (st : LinkSt) (s : List ByteItem) :
    bytePollsSt step st s =
      (match (byteCalls step st s).1.getLast? with
        | some (.nothing, 0, _) => (byteCalls step st s).1
        | _ => (byteCalls step st s).1 ++ [endEntry (byteCalls step st s).2]) := by
  induction s generalizing st with
  | nil => simp only [bytePollsSt, byteCalls, List.getLast?_nil, List.nil_append, endEntry]; cases st.ph <;> rfl
  | cons it s ih =>
    simp only [bytePollsSt, byteCalls]
    cases hst : step st it with
    | mk st' o =>
      cases o with
      | none => exact ih st'
      | some o =>
        simp only
        by_cases hc : o = .nothing ∧ s = []
        · obtain ⟨rfl, rfl⟩ := hc
          simp [byteCalls]
        · rw [if_neg hc, ih st']
          cases hl : (byteCalls step st' s).1 with
          | nil =>
            -- no further returning call: `s` is consumed silently, so `s ≠ []` or `o ≠ nothing`
            simp only [List.getLast?_nil, List.nil_append, List.getLast?_singleton]
            have hlen : s.length = 0 → s = [] := List.eq_nil_of_length_eq_zero
            cases o with
            | nothing =>
              have hs : s ≠ [] := fun h => hc ⟨rfl, h⟩
              have : s.length ≠ 0 := fun h => hs (hlen h)
              cases hn : s.length with
              | zero => exact absurd hn this
              | succ n => simp
            | emit e => simp
            | blocked => simp
          | cons y l =>
            have : ((o, s.length, st') :: y :: l).getLast? = (y :: l).getLast? := by simp [List.getLast?_cons_cons]
            rw [this]
            cases hg : (y :: l).getLast? with
            | none => simp
            | some z =>
              obtain ⟨zo, zn, zs⟩ := z
              cases zo <;> cases zn <;> simp

/-! ## CAN -/

def canCalls : RxSt → List CanItem → List (Out × Nat × RxSt) × RxSt
  | st, [] => ([], st)
  | st, .frame c :: s =>
    (match rxFrame st (fromCan c) with
      | (st', some e) => let r := canCalls st' s; ((.emit e, s.length, st') :: r.1, r.2)
      | (st', none) => canCalls st' s)
  | st, .wouldBlock :: s => let r := canCalls st s; ((.nothing, s.length, st) :: r.1, r.2)
  | st, .overrun :: s => let r := canCalls st s; ((.nothing, s.length, st) :: r.1, r.2)

def shiftLeftCan (k : Nat) (l : List (Out × Nat × RxSt)) : List (Out × Nat × RxSt) :=
  l.map fun x => (x.1, x.2.1 + k, x.2.2)

/-- no look-ahead on CAN: the calls returning while the frames `s` are consumed do not depend on what follows -/
theorem canCalls_append (st : RxSt) (s t : List CanItem) :
    canCalls st (s ++ t) =
      (shiftLeftCan t.length (canCalls st s).1 ++ (canCalls (canCalls st s).2 t).1, (canCalls (canCalls st s).2 t).2) := by
  induction s generalizing st with
  | nil => simp [canCalls, shiftLeftCan]
  | cons it s ih =>
    cases it with
    | frame c =>
      simp only [List.cons_append, canCalls]
      cases hrx : rxFrame st (fromCan c) with
      | mk st' o =>
        cases o with
        | none => exact ih st'
        | some e => simp [ih st', shiftLeftCan, Nat.add_comm]
    | wouldBlock => simp [canCalls, ih st, shiftLeftCan, Nat.add_comm]
    | overrun => simp [canCalls, ih st, shiftLeftCan, Nat.add_comm]

end Ross
