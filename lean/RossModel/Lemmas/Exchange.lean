import RossModel.Lemmas.Protocol
/-!
# C18: exchange returns the first (or all) matching replies in arrival order
-/
namespace Ross

/-- a received packet is a reply for an exchange of kind `k` -/
def matchesReply (addr : UInt16) (k : Kind) (capture : Bool) (r : Packet) : Option Event :=
  if capture || r.addr == addr || r.addr == BROADCAST then
    match decode k r with
    | .ok e => some e
    | _ => none
  else none

/-- queue elements the loop skips -/
def Skipped (addr : UInt16) (k : Kind) (capture : Bool) (x : Except IfErr Packet) : Prop :=
  ∃ r, x = .ok r ∧ matchesReply addr k capture r = none

theorem exchangeLoop_step_skip (s : Proto) (k : Kind) (capture : Bool) (r : Packet) (q : List (Except IfErr Packet))
    (h : matchesReply s.addr k capture r = none) :
    s.exchangeLoop k capture (.ok r :: q) = s.exchangeLoop k capture q := by
  unfold matchesReply at h
  simp only [Proto.exchangeLoop]
  split
  · rename_i hc
    simp only [hc, if_true] at h
    cases hd : decode k r with
    | ok e => simp [hd] at h
    | err e => rfl
    | panic => rfl
  · rfl

/-- C18 (single reply): the first packet, in arrival order, that passes the address filter and decodes
as the requested kind is returned and nothing after it is consumed -/
theorem exchangeLoop_first (s : Proto) (k : Kind) (capture : Bool) (pre : List (Except IfErr Packet))
    (r : Packet) (e : Event) (post : List (Except IfErr Packet))
    (hpre : ∀ x ∈ pre, Skipped s.addr k capture x) (hr : matchesReply s.addr k capture r = some e) :
    s.exchangeLoop k capture (pre ++ .ok r :: post) = ({ s with rxQueue := post }, .ok e) := by
  induction pre with
  | nil =>
    unfold matchesReply at hr
    simp only [List.nil_append, Proto.exchangeLoop]
    split
    · rename_i hc
      simp only [hc, if_true] at hr
      cases hd : decode k r with
      | ok e' => simp [hd] at hr; subst hr; rfl
      | err e' => simp [hd] at hr
      | panic => simp [hd] at hr
    · rename_i hc; simp [hc] at hr
  | cons x pre ih =>
    obtain ⟨r', rfl, hs⟩ := hpre x (by simp)
    simp only [List.cons_append]
    rw [exchangeLoop_step_skip s k capture r' _ hs]
    exact ih (fun y hy => hpre y (by simp [hy]))

/-- C18: if the link runs dry (or the queue ends) before a match, a timeout is reported -/
theorem exchangeLoop_timeout (s : Proto) (k : Kind) (capture : Bool) (pre : List (Except IfErr Packet))
    (hpre : ∀ x ∈ pre, Skipped s.addr k capture x) :
    s.exchangeLoop k capture pre = ({ s with rxQueue := [] }, .error .packetTimeout) ∧
    ∀ post, s.exchangeLoop k capture (pre ++ .error .noPacket :: post)
      = ({ s with rxQueue := post }, .error .packetTimeout) := by
  induction pre with
  | nil => simp [Proto.exchangeLoop]
  | cons x pre ih =>
    obtain ⟨r', rfl, hs⟩ := hpre x (by simp)
    obtain ⟨h1, h2⟩ := ih (fun y hy => hpre y (by simp [hy]))
    simp only [List.cons_append]
    exact ⟨by rw [exchangeLoop_step_skip s k capture r' _ hs]; exact h1,
      fun post => by rw [exchangeLoop_step_skip s k capture r' _ hs]; exact h2 post⟩

/-- C18: a link error before any match is propagated -/
theorem exchangeLoop_error (s : Proto) (k : Kind) (capture : Bool) (pre : List (Except IfErr Packet))
    (t : Nat) (post : List (Except IfErr Packet)) (hpre : ∀ x ∈ pre, Skipped s.addr k capture x) :
    s.exchangeLoop k capture (pre ++ .error (.other t) :: post) = ({ s with rxQueue := post }, .error (.interface t)) := by
  induction pre with
  | nil => simp [Proto.exchangeLoop]
  | cons x pre ih =>
    obtain ⟨r', rfl, hs⟩ := hpre x (by simp)
    simp only [List.cons_append]
    rw [exchangeLoop_step_skip s k capture r' _ hs]
    exact ih (fun y hy => hpre y (by simp [hy]))

/-- packets up to the first "nothing" / end of the queue -/
def drained : List (Except IfErr Packet) → List Packet
  | .ok r :: q => r :: drained q
  | _ => []

/-- C18 (all replies): every matching packet up to the point where the link runs dry, in arrival order -/
theorem exchangeAllLoop_spec (s : Proto) (k : Kind) (capture : Bool) (acc : List Event)
    (q : List (Except IfErr Packet)) (hq : ∀ x ∈ q, ∀ t, x ≠ .error (.other t)) :
    (s.exchangeAllLoop k capture acc q).2 = .ok (acc ++ (drained q).filterMap (matchesReply s.addr k capture)) := by
  induction q generalizing acc with
  | nil => simp [Proto.exchangeAllLoop, drained]
  | cons x q ih =>
    have hq' : ∀ y ∈ q, ∀ t, y ≠ .error (.other t) := fun y hy => hq y (by simp [hy])
    rcases x with e | r
    · cases e with
      | noPacket => simp [Proto.exchangeAllLoop, drained]
      | other t => exact absurd rfl (hq _ (by simp) t)
    · simp only [Proto.exchangeAllLoop, drained, List.filterMap_cons, matchesReply]
      split
      · cases hd : decode k r with
        | ok e => simp only []; rw [ih _ hq']; simp
        | err e => simp only []; rw [ih _ hq']
        | panic => simp only []; rw [ih _ hq']
      · rw [ih _ hq']

/-- C18: the request is routed exactly like an ordinary send, and the wait callback runs once, after it -/
theorem exchange_prefix (s : Proto) (p : Packet) (k : Kind) (capture : Bool) :
    ((s.sendPacket p).2 = .ok () →
      ∃ s', s' = { (s.sendPacket p).1 with log := (s.sendPacket p).1.log ++ [LogEntry.wait] } ∧
        s.exchange p k capture = s'.exchangeLoop k capture s'.rxQueue) ∧
    (∀ e, (s.sendPacket p).2 = .error e → s.exchange p k capture = ((s.sendPacket p).1, .error e)) := by
  unfold Proto.exchange
  rcases h : s.sendPacket p with ⟨s1, r⟩
  cases r with
  | ok u => cases u; simp
  | error e => simp

#print axioms exchangeLoop_first
#print axioms exchangeLoop_timeout
#print axioms exchangeAllLoop_spec
end Ross

namespace Ross

/-- what is left on the link after the multi-reply loop: everything behind the first "nothing" (or link error) -/
def afterDrain : List (Except IfErr Packet) → List (Except IfErr Packet)
  | .ok _ :: q => afterDrain q
  | _ :: q => q
  | [] => []

/-- C18 (all replies) "drains the link": exactly the packets up to and including the first "nothing" (or link error)
are consumed, whatever they were; handlers and configuration are untouched -/
theorem exchangeAllLoop_queue (s : Proto) (k : Kind) (capture : Bool) (acc : List Event)
    (q : List (Except IfErr Packet)) :
    (s.exchangeAllLoop k capture acc q).1 = { s with rxQueue := afterDrain q } := by
  induction q generalizing acc with
  | nil => simp [Proto.exchangeAllLoop, afterDrain]
  | cons x q ih =>
    rcases x with e | r
    · cases e <;> simp [Proto.exchangeAllLoop, afterDrain]
    · simp only [Proto.exchangeAllLoop, afterDrain]
      split
      · cases hd : decode k r <;> simp only [] <;> exact ih _
      · exact ih _

/-- C18 (all replies): a link error behind any number of packets is propagated -/
theorem exchangeAllLoop_error (s : Proto) (k : Kind) (capture : Bool) (acc : List Event) (pre : List Packet)
    (t : Nat) (post : List (Except IfErr Packet)) :
    (s.exchangeAllLoop k capture acc (pre.map .ok ++ .error (.other t) :: post)).2 = .error (.interface t) := by
  induction pre generalizing acc with
  | nil => simp [Proto.exchangeAllLoop]
  | cons r pre ih =>
    simp only [List.map_cons, List.cons_append, Proto.exchangeAllLoop]
    split
    · cases hd : decode k r <;> simp only [] <;> exact ih _
    · exact ih _

end Ross
