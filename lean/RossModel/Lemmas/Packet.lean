import RossModel.Spec.Frames
import RossModel.Packet
/-!
# Fragmentation equals the chunk specification (C10); in-order reassembly returns the packet (C02)
-/
namespace Ross





theorem chunks7_eq (l : List UInt8) :
    chunks7 l = (List.range ((l.length + 6) / 7)).map fun i => (l.drop (i * 7)).take 7 := by
  induction h : l.length using Nat.strongRecOn generalizing l with
  | _ n ih =>
    unfold chunks7
    split
    · subst_vars; simp
    · rename_i hne
      have hpos : 0 < l.length := by
        cases l with
        | nil => exact absurd rfl hne
        | cons => simp
      have hlen : (l.drop 7).length < n := by simp; omega
      rw [ih _ hlen (l.drop 7) rfl]
      have : (n + 6) / 7 = ((l.drop 7).length + 6) / 7 + 1 := by simp; omega
      rw [this, List.range_succ_eq_map]
      simp [List.drop_drop, Nat.add_mul, Nat.add_comm, Function.comp_def]


theorem mapIdx_map_range {α β : Type} (k : Nat) (g : Nat → α) (f : Nat → α → β) :
    ((List.range k).map g).mapIdx f = (List.range k).map (fun i => f i (g i)) := by
  apply List.ext_getElem
  · simp
  · intro i h1 h2
    simp

theorem take_eq_take_of_ge {α : Type} (l : List α) (a b : Nat) (ha : l.length ≤ a) (hb : l.length ≤ b) :
    l.take a = l.take b := by
  rw [List.take_of_length_le ha, List.take_of_length_le hb]

theorem toFrames_eq_spec (p : Packet) (hn : p.data.length ≤ 28672) : p.toFrames = .ok (specFrames p) := by
  unfold Packet.toFrames specFrames
  by_cases h8 : p.data.length ≤ 8
  · have : p.data.length % 256 = p.data.length := by omega
    simp [h8, this]
  · simp only [h8, if_false]
    rw [if_neg (by omega)]
    congr 1
    rw [chunks7_eq, mapIdx_map_range]
    have hk : (p.data.length + 6) / 7 = (p.data.length - 1) / 7 + 1 := by omega
    simp only [List.length_map, List.length_range]
    rw [hk]
    apply List.map_congr_left
    intro i hi
    simp only [List.mem_range] at hi
    have hlen : ((p.data.drop (i * 7)).take 7).length = min 7 (p.data.length - i * 7) := by simp
    by_cases hlast : i = (p.data.length - 1) / 7 + 1 - 1
    · -- last frame
      have hdl : (if p.data.length % 7 = 0 then 8 else p.data.length % 7 + 1) = min 7 (p.data.length - i * 7) + 1 := by
        split <;> omega
      simp only [hlast, if_true] at *
      rw [hlen, hdl]
      congr 1
      · split <;> omega
      · congr 2
        apply take_eq_take_of_ge <;> simp <;> omega
    · have hfull : min 7 (p.data.length - i * 7) = 7 := by omega
      simp only [hlast, if_false, hlen, hfull]
      congr 1
      split <;> omega


-- facts about spec frames
def mkMulti (p : Packet) (k i : Nat) (c : List UInt8) : Frame :=
  let id := if i = 0 then k - 1 else i
  { notError := !p.isError, start := i == 0, multi := true, idLast := i == 0, fid := id,
    addr := p.addr, dataLen := c.length + 1, data := pad8 (UInt8.ofNat id :: c) }

theorem payload_mkMulti (p : Packet) (k i : Nat) (c : List UInt8) (hc : c.length ≤ 7) :
    (mkMulti p k i c).payload = some c := by
  simp [mkMulti, Frame.payload, pad8]

def framesFrom (p : Packet) (k : Nat) : Nat → List (List UInt8) → List Frame
  | _, [] => []
  | j, c :: cs => mkMulti p k j c :: framesFrom p k (j + 1) cs

theorem mapIdx_eq_framesFrom (p : Packet) (k : Nat) (cs : List (List UInt8)) (j : Nat) :
    cs.mapIdx (fun i c => mkMulti p k (i + j) c) = framesFrom p k j cs := by
  induction cs generalizing j with
  | nil => simp [framesFrom]
  | cons c cs ih =>
    simp only [List.mapIdx_cons, framesFrom, Nat.zero_add]
    congr 1
    have := ih (j + 1)
    simp only [← this]
    congr 1; funext i c; congr 1; omega

theorem addAll_framesFrom (p : Packet) (k : Nat) (cs : List (List UInt8)) (j : Nat) (b : Builder)
    (hj : 1 ≤ j) (hlen : b.frames.length = j) (hk : j + cs.length ≤ k) (hk' : k ≤ 65535)
    (hexp : b.expected = k) (herr : b.isError = p.isError) (haddr : b.addr = p.addr) :
    b.addAll (framesFrom p k j cs) = .ok { b with frames := b.frames ++ framesFrom p k j cs } := by
  induction cs generalizing j b with
  | nil => simp [framesFrom, Builder.addAll]
  | cons c cs ih =>
    simp only [List.length_cons] at hk
    have hj0 : j ≠ 0 := by omega
    have hstep : b.addFrame (mkMulti p k j c) = .ok { b with frames := b.frames ++ [mkMulti p k j c] } := by
      subst hlen hexp
      have h1 : b.frames.length = b.frames.length % 65536 := by omega
      have h2 : ¬ b.expected ≤ b.frames.length := by omega
      simp [Builder.addFrame, mkMulti, herr, haddr, hj0, ← h1, h2]
    simp only [framesFrom, Builder.addAll, hstep]
    rw [ih (j + 1) { b with frames := b.frames ++ [mkMulti p k j c] } (by omega) (by simp [hlen]) (by omega) hexp herr haddr]
    simp

theorem framesFrom_length (p : Packet) (k j : Nat) (cs : List (List UInt8)) :
    (framesFrom p k j cs).length = cs.length := by
  induction cs generalizing j with
  | nil => simp [framesFrom]
  | cons c cs ih => simp [framesFrom, ih]

theorem payloads_framesFrom (p : Packet) (k j : Nat) (cs : List (List UInt8)) (hcs : ∀ c ∈ cs, c.length ≤ 7) :
    payloads (framesFrom p k j cs) = some cs.flatten := by
  induction cs generalizing j with
  | nil => simp [framesFrom, payloads]
  | cons c cs ih =>
    simp only [framesFrom, payloads]
    rw [payload_mkMulti p k j c (hcs c (by simp)), ih (j+1) (fun c' h => hcs c' (by simp [h]))]
    simp

theorem flatten_chunks7 (l : List UInt8) : (chunks7 l).flatten = l := by
  induction h : l.length using Nat.strongRecOn generalizing l with
  | _ n ih =>
    unfold chunks7
    split
    · subst_vars; simp
    · rename_i hne
      have hpos : 0 < l.length := by
        cases l with
        | nil => exact absurd rfl hne
        | cons => simp
      simp only [List.flatten_cons]
      rw [ih _ (by simp; omega) (l.drop 7) rfl, List.take_append_drop]

theorem chunks7_len_le (l : List UInt8) : ∀ c ∈ chunks7 l, c.length ≤ 7 := by
  rw [chunks7_eq]; intro c hc; simp at hc; obtain ⟨i, _, rfl⟩ := hc; simp; omega

theorem chunks7_length (l : List UInt8) : (chunks7 l).length = (l.length + 6) / 7 := by
  rw [chunks7_eq]; simp

theorem reassemble_multi (p : Packet) (h8 : 8 < p.data.length) (hn : p.data.length ≤ 28672) :
    reassemble (specFrames p) = .ok p := by
  have hcs : chunks7 p.data ≠ [] := by
    intro h; have := chunks7_length p.data; rw [h] at this; simp at this; omega
  obtain ⟨c0, cs, hcc⟩ := List.exists_cons_of_ne_nil hcs
  have hklen := chunks7_length p.data
  have hk : cs.length + 1 ≤ 4096 := by
    have : (chunks7 p.data).length = cs.length + 1 := by rw [hcc]; simp
    omega
  have hfr : specFrames p = framesFrom p (chunks7 p.data).length 0 (chunks7 p.data) := by
    unfold specFrames
    simp only [show ¬ p.data.length ≤ 8 by omega, if_false]
    rw [← mapIdx_eq_framesFrom]; rfl
  rw [hfr, hcc]
  simp only [framesFrom, Nat.zero_add, List.length_cons, reassemble]
  have hnew : Builder.new (mkMulti p (cs.length + 1) 0 c0) =
      .ok ⟨p.isError, cs.length + 1, p.addr, [mkMulti p (cs.length + 1) 0 c0]⟩ := by
    simp [Builder.new, mkMulti]; omega
  rw [hnew]
  simp only []
  rw [addAll_framesFrom p (cs.length + 1) cs 1 _ (by omega) (by simp) (by omega) (by omega) rfl rfl rfl]
  simp only []
  have hl := framesFrom_length p (cs.length + 1) 1 cs
  have hpay : payloads (mkMulti p (cs.length + 1) 0 c0 :: framesFrom p (cs.length + 1) 1 cs) = some p.data := by
    have := payloads_framesFrom p (cs.length + 1) 0 (c0 :: cs) (by rw [← hcc]; exact chunks7_len_le p.data)
    simp only [framesFrom, Nat.zero_add] at this
    rw [this, ← hcc, flatten_chunks7]
  simp [Builder.build, hl, hpay]


end Ross
