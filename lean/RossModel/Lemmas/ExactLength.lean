import RossModel.Lemmas.Event
import RossModel.Spec.Layout
/-!
# C05: a packet is accepted only with exactly the length the kind's layout requires

`layoutLen e` is the payload length the published layout gives the event `e` (2 code bytes + fields). Every accepted
packet has exactly that length — for the variable-length kinds the one implied by the declared data length resp. the
brightness variant.
-/
namespace Ross

def BcmValue.serLen : BcmValue → Nat
  | .binary _ | .single _ => 2
  | .rgb _ _ _ => 4
  | .rgbB _ _ _ _ | .rgbw _ _ _ _ => 5
  | .rgbwB _ _ _ _ _ => 6

/-- payload length of the published layout of an event -/
def layoutLen : Event → Nat
  | .bootloaderHello _ _ | .programmerHello _ | .ack _ _ | .gatewayDiscover _ _ => 4
  | .startFirmwareUpgrade _ _ _ | .startConfigUpgrade _ _ _ => 8
  | .data _ _ _ d => 6 + d.length
  | .configuratorHello | .systemTick _ => 2
  | .bcmChange _ _ _ v => 5 + v.serLen
  | .buttonPressed _ _ _ | .buttonReleased _ _ _ => 5
  | .setDeviceAddress _ _ _ | .relaySet _ _ _ _ => 6
  | .message _ _ _ _ => 14
  | .bcmAnimate _ _ _ _ v => 9 + v.serLen

theorem specEncode_length (pad : Pad) (e : Event) : (Spec.specEncode pad e).data.length = layoutLen e := by
  cases e <;> simp [Spec.specEncode, Spec.fields, Spec.Field.bytes, layoutLen]
  case data => omega
  case bcmChange _ _ _ v => cases v <;> simp [Spec.bcmFields, Spec.Field.bytes, BcmValue.serLen]
  case bcmAnimate _ _ _ _ v => cases v <;> simp [Spec.bcmFields, Spec.Field.bytes, BcmValue.serLen]
  case relaySet _ _ _ v => cases v <;> (try rename_i b; cases b) <;> simp [Spec.relayFields, Spec.Field.bytes]
  case message _ _ _ v => cases v <;> simp [Spec.msgFields, Spec.Field.bytes]

theorem bcm_de_len (d : List UInt8) (v : BcmValue) (h : BcmValue.de d = .ok v) : d.length = v.serLen := by
  unfold BcmValue.de at h
  split at h
  · cases h
  · rename_i h2
    simp (disch := omega) only [rd_eq, Res.ok_bind] at h
    repeat' split at h
    all_goals first
      | (cases h; done)
      | (simp (disch := omega) only [rd_eq, Res.ok_bind, Res.pure_eq] at h; cases h
         simp only [BcmValue.serLen]; omega)
      | (cases h; simp only [BcmValue.serLen]; omega)

theorem decodeFields_len (k : Kind) (p : Packet) (e : Event) (hs : sizeOk k p.data.length = true)
    (h : decodeFields k p = .ok e) : p.data.length = layoutLen e := by
  cases k <;> simp [sizeOk] at hs <;> unfold decodeFields at h <;> simp only [rd16, rd32] at h
  all_goals simp (disch := omega) only [rd_eq, Res.ok_bind, Res.pure_eq] at h
  all_goals try (cases h; simp [layoutLen, hs])
  · -- data
    split at h
    · cases h
    · rename_i hl
      cases h
      simp only [layoutLen, List.length_drop]
      omega
  · cases hv : BcmValue.de (List.drop 5 p.data) with
    | ok v =>
      simp [hv] at h; subst h
      have := bcm_de_len _ v hv
      simp only [List.length_drop] at this
      simp only [layoutLen]; omega
    | err r => simp [hv] at h
    | panic => simp [hv] at h
  · cases hv : MessageValue.ofImage (List.drop 6 p.data) <;> simp [hv] at h
    subst h; simp [layoutLen, hs]
  · cases hv : BcmValue.de (List.drop 9 p.data) with
    | ok v =>
      simp [hv] at h; subst h
      have := bcm_de_len _ v hv
      simp only [List.length_drop] at this
      simp only [layoutLen]; omega
    | err r => simp [hv] at h
    | panic => simp [hv] at h
  · cases hv : RelayValue.de (List.drop 5 p.data) <;> simp [hv] at h
    subst h; simp [layoutLen, hs]

/-- C05: a packet is accepted only if it has exactly the length the layout of the decoded value requires -/
theorem decode_ok_length (k : Kind) (p : Packet) (e : Event) (h : decode k p = .ok e) :
    p.data.length = layoutLen e := by
  have hs := (decode_ok_head k p e h).2.2
  unfold decode at h
  rcases preamble_spec k p (sizeOk k p.data.length) (sizeOk_two k _) with
    ⟨hp, _, _, _⟩ | ⟨hp, _⟩ | ⟨hp, _⟩ | ⟨hp, _⟩
  · simp only [hp, Res.ok_bind] at h; exact decodeFields_len k p e hs h
  all_goals simp [hp] at h

end Ross
