import RossModel.Lemmas.Memory
import RossModel.Trace
/-!
# C19 over whole device histories

`Lemmas/Memory.lean` bounds what one frame-level step keeps. Here the bound is lifted to every item a device can
answer (bytes, would-blocks, errors, interrupts, end of file; any constructible CAN frame), hence — by induction
over the script — to the state a receiver is left in after **every** `try_get_packet` call of **every** history:

* the body buffer is shorter than the length byte announced (itself at most 255),
* the pending builder holds at most the announced number of frames (at most 4096),
* after a call that delivered a packet or reported a reassembly error nothing is held at all
  (`⟨idle, none⟩`, the state of a freshly created receiver),
* no call panics.
-/
namespace Ross

/-- what a byte-level receiver may hold between two device answers -/
def LinkInv (st : LinkSt) : Prop := PhaseInv st.ph ∧ RxInv st.rx

/-- the properties of one step that the trace theorem lifts -/
def StepOk (st' : LinkSt) (o : Option Out) : Prop :=
  LinkInv st' ∧
  (∀ p, o = some (.emit (.packet p)) → st' = LinkSt.init) ∧
  (∀ e, o = some (.emit (.builderErr e)) → st' = LinkSt.init) ∧
  o ≠ some (.emit .panic)

theorem finishFrame_ok (rx : RxSt) (bs : List UInt8) (h : RxInv rx) :
    StepOk (finishFrame rx bs).1 (finishFrame rx bs).2 := by
  have hinv := rxFrame_inv rx (fromUsart bs) (fun f hf => fromUsart_wf bs f hf) (fromUsart_no_panic bs) h
  unfold finishFrame
  cases hrx : rxFrame rx (fromUsart bs) with
  | mk rx' o =>
    rw [hrx] at hinv
    have h1 : RxInv rx' := hinv.1
    have h2 : ∀ p, o = some (.packet p) → rx' = none := hinv.2.1
    have h3 : ∀ e, o = some (.builderErr e) → rx' = none := hinv.2.2.1
    have h4 : o ≠ some .panic := hinv.2.2.2
    cases o with
    | none => exact ⟨⟨trivial, h1⟩, by simp, by simp, by simp⟩
    | some e =>
      refine ⟨⟨trivial, h1⟩, ?_, ?_, ?_⟩
      · intro p hp
        have : e = .packet p := by simpa using hp
        simp [LinkSt.init, h2 p (by rw [this])]
      · intro r hr
        have : e = .builderErr r := by simpa using hr
        simp [LinkSt.init, h3 r (by rw [this])]
      · intro hc
        have : e = .panic := by simpa using hc
        exact h4 (by rw [this])

theorem startBody_ok (rx : RxSt) (l : UInt8) (h : RxInv rx) : StepOk (startBody rx l).1 (startBody rx l).2 := by
  unfold startBody; split
  · exact finishFrame_ok rx [] h
  · rename_i hl
    have : l.toNat ≠ 0 := fun hc => hl (UInt8.toNat_inj.mp (by simpa using hc))
    have := l.toNat_lt
    refine ⟨⟨?_, h⟩, by simp, by simp, by simp⟩
    simp [PhaseInv]; omega

theorem pushBody_ok (rx : RxSt) (len : Nat) (acc : List UInt8) (b : UInt8) (h : RxInv rx)
    (hp : acc.length < len ∧ len ≤ 255) : StepOk (pushBody rx len acc b).1 (pushBody rx len acc b).2 := by
  unfold pushBody; split
  · exact finishFrame_ok rx _ h
  · rename_i hne
    simp only [List.length_append, List.length_cons, List.length_nil] at hne
    refine ⟨⟨?_, h⟩, by simp, by simp, by simp⟩
    simp [PhaseInv]; omega

theorem stay_ok (st : LinkSt) (o : Option Out) (h : LinkInv st)
    (ho : o = none ∨ o = some .nothing) : StepOk st o := by
  rcases ho with rfl | rfl <;> exact ⟨h, by simp, by simp, by simp⟩

theorem readErr_ok (rx : RxSt) (h : RxInv rx) : StepOk ⟨.idle, rx⟩ (some (.emit .readErr)) :=
  ⟨⟨trivial, h⟩, by simp, by simp, by simp⟩

/-- every answer of a USART device keeps the receiver's holdings bounded -/
theorem usartStep_ok (st : LinkSt) (it : ByteItem) (h : LinkInv st) :
    StepOk (usartStep st it).1 (usartStep st it).2 := by
  rcases st with ⟨ph, rx⟩
  obtain ⟨hp, hr⟩ := h
  cases ph with
  | idle =>
    cases it with
    | byte b =>
      simp only [usartStep]; split
      · exact ⟨⟨trivial, hr⟩, by simp, by simp, by simp⟩
      · exact stay_ok _ _ ⟨trivial, hr⟩ (.inl rfl)
    | _ => exact stay_ok _ _ ⟨trivial, hr⟩ (.inr rfl)
  | gotDelim =>
    cases it with
    | byte l => exact startBody_ok rx l hr
    | wouldBlock => exact stay_ok _ _ ⟨trivial, hr⟩ (.inl rfl)
    | _ => exact readErr_ok rx hr
  | body len acc =>
    cases it with
    | byte b => exact pushBody_ok rx len acc b hr hp
    | wouldBlock => exact stay_ok _ _ ⟨hp, hr⟩ (.inl rfl)
    | _ => exact readErr_ok rx hr

/-- every answer of a serial port keeps the receiver's holdings bounded -/
theorem serialStep_ok (st : LinkSt) (it : ByteItem) (h : LinkInv st) :
    StepOk (serialStep st it).1 (serialStep st it).2 := by
  rcases st with ⟨ph, rx⟩
  obtain ⟨hp, hr⟩ := h
  cases ph with
  | idle =>
    cases it with
    | byte b =>
      simp only [serialStep]; split
      · exact ⟨⟨trivial, hr⟩, by simp, by simp, by simp⟩
      · exact stay_ok _ _ ⟨trivial, hr⟩ (.inl rfl)
    | interrupted => exact stay_ok _ _ ⟨trivial, hr⟩ (.inl rfl)
    | _ => exact stay_ok _ _ ⟨trivial, hr⟩ (.inr rfl)
  | gotDelim =>
    cases it with
    | byte l => exact startBody_ok rx l hr
    | interrupted => exact stay_ok _ _ ⟨trivial, hr⟩ (.inl rfl)
    | _ => exact readErr_ok rx hr
  | body len acc =>
    cases it with
    | byte b => exact pushBody_ok rx len acc b hr hp
    | interrupted => exact stay_ok _ _ ⟨hp, hr⟩ (.inl rfl)
    | _ => exact readErr_ok rx hr

/-- what is claimed of every `try_get_packet` call of a history -/
def CallOk (x : Out × Nat × LinkSt) : Prop :=
  LinkInv x.2.2 ∧
  (∀ p, x.1 = .emit (.packet p) → x.2.2 = LinkSt.init) ∧
  (∀ e, x.1 = .emit (.builderErr e) → x.2.2 = LinkSt.init) ∧
  x.1 ≠ .emit .panic

/-- C19 (byte links), for every device history: after every call the receiver's holdings are bounded and at
packet boundaries it holds what a fresh receiver holds -/
theorem bytePollsSt_ok (step : LinkSt → ByteItem → LinkSt × Option Out)
    (hstep : ∀ st it, LinkInv st → StepOk (step st it).1 (step st it).2)
    (st : LinkSt) (s : List ByteItem) (h : LinkInv st) : ∀ x ∈ bytePollsSt step st s, CallOk x := by
  induction s generalizing st with
  | nil =>
    intro x hx
    simp only [bytePollsSt] at hx
    cases hph : st.ph <;> simp only [hph, List.mem_singleton] at hx <;> subst hx <;>
      exact ⟨h, by simp, by simp, by simp⟩
  | cons it s ih =>
    intro x hx
    have hs0 := hstep st it h
    simp only [bytePollsSt] at hx
    cases hst : step st it with
    | mk st' o =>
      rw [hst] at hs0 hx
      have hs : StepOk st' o := hs0
      cases o with
      | none => exact ih st' hs.1 x hx
      | some o =>
        simp only at hx
        split at hx
        · simp only [List.mem_singleton] at hx; subst hx
          exact ⟨hs.1, by simp, by simp, by simp⟩
        · simp only [List.mem_cons] at hx
          rcases hx with rfl | hx
          · obtain ⟨h1, h2, h3, h4⟩ := hs
            exact ⟨h1, fun p hp => h2 p (by have : o = _ := hp; rw [this]),
              fun e he => h3 e (by have : o = _ := he; rw [this]), fun hc => h4 (by have : o = _ := hc; rw [this])⟩
          · exact ih st' hs.1 x hx

theorem usartPollsSt_ok (s : List ByteItem) : ∀ x ∈ bytePollsSt usartStep LinkSt.init s, CallOk x :=
  bytePollsSt_ok usartStep usartStep_ok LinkSt.init s ⟨trivial, trivial⟩

theorem serialPollsRawSt_ok (s : List ByteItem) : ∀ x ∈ bytePollsSt serialStep LinkSt.init s, CallOk x :=
  bytePollsSt_ok serialStep serialStep_ok LinkSt.init s ⟨trivial, trivial⟩

theorem serialEndSt_ok (l : List (Out × Nat × LinkSt)) (h : ∀ x ∈ l, CallOk x) : ∀ x ∈ serialEndSt l, CallOk x := by
  induction l with
  | nil => intro x hx; simp [serialEndSt] at hx
  | cons y t ih =>
    obtain ⟨o, n, st⟩ := y
    have hy : CallOk (o, n, st) := h _ (by simp)
    have ht : ∀ x ∈ t, CallOk x := fun x hx => h x (by simp [hx])
    have hidle : ∀ o', o' = Out.emit .readErr ∨ o' = Out.nothing → CallOk (o', n, (⟨.idle, st.rx⟩ : LinkSt)) := by
      intro o' ho'
      refine ⟨⟨trivial, hy.1.2⟩, ?_, ?_, ?_⟩ <;> rcases ho' with rfl | rfl <;> simp
    cases t with
    | nil =>
      intro x hx
      cases o with
      | blocked =>
        simp only [serialEndSt, List.mem_cons, List.not_mem_nil, or_false] at hx
        rcases hx with rfl | rfl
        · exact hidle _ (.inl rfl)
        · exact hidle _ (.inr rfl)
      | nothing => simp only [serialEndSt, List.mem_singleton] at hx; subst hx; exact hy
      | emit e => simp only [serialEndSt, List.mem_singleton] at hx; subst hx; exact hy
    | cons z t' =>
      have hcons : serialEndSt ((o, n, st) :: z :: t') = (o, n, st) :: serialEndSt (z :: t') := by
        cases o <;> simp [serialEndSt]
      intro x hx
      rw [hcons, List.mem_cons] at hx
      rcases hx with rfl | hx
      · exact hy
      · exact ih ht x hx

/-- C19 for the serial port, for every device history (bytes, time-outs, interrupts, end of file, I/O errors, and
a script that ends inside a link frame) -/
theorem serialPollsSt_ok (s : List ByteItem) : ∀ x ∈ serialPollsSt LinkSt.init s, CallOk x :=
  serialEndSt_ok _ (serialPollsRawSt_ok s)

/-- the numbers behind `LinkInv`: body buffer below the announced length (at most 255), frames held at most the
frames announced (at most 4096) -/
theorem LinkInv.bounds (st : LinkSt) (h : LinkInv st) :
    (∀ len acc, st.ph = .body len acc → acc.length < len ∧ len ≤ 255) ∧
    held st.rx ≤ announced st.rx ∧ announced st.rx ≤ 4096 := by
  refine ⟨?_, held_le st.rx h.2⟩
  intro len acc hph
  have := h.1; rw [hph] at this; exact this

/-- what is claimed of every call of a CAN history -/
def CanCallOk (x : Out × Nat × RxSt) : Prop :=
  RxInv x.2.2 ∧
  (∀ p, x.1 = .emit (.packet p) → x.2.2 = none) ∧
  (∀ e, x.1 = .emit (.builderErr e) → x.2.2 = none) ∧
  x.1 ≠ .emit .panic

def canItemOk : CanItem → Prop
  | .frame c => c.Constructible
  | _ => True

/-- C19 (CAN), for every history of driver-constructible frames, would-blocks and overruns -/
theorem canPollsSt_ok (st : RxSt) (s : List CanItem) (hs : ∀ it ∈ s, canItemOk it) (h : RxInv st) :
    ∀ x ∈ canPollsSt st s, CanCallOk x := by
  induction s generalizing st with
  | nil => intro x hx; simp only [canPollsSt, List.mem_singleton] at hx; subst hx; exact ⟨h, by simp, by simp, by simp⟩
  | cons it s ih =>
    have hs' : ∀ it ∈ s, canItemOk it := fun i hi => hs i (by simp [hi])
    intro x hx
    cases it with
    | frame c =>
      have hc : c.Constructible := hs (.frame c) (by simp)
      have hinv := rxFrame_inv st (fromCan c) (fun f hf => fromCan_wf c hc f hf) (fromCan_no_panic c hc) h
      simp only [canPollsSt] at hx
      cases hrx : rxFrame st (fromCan c) with
      | mk st' o =>
        rw [hrx] at hinv hx
        have h1 : RxInv st' := hinv.1
        have h2 : ∀ p, o = some (.packet p) → st' = none := hinv.2.1
        have h3 : ∀ e, o = some (.builderErr e) → st' = none := hinv.2.2.1
        have h4 : o ≠ some .panic := hinv.2.2.2
        cases o with
        | none => exact ih st' hs' h1 x hx
        | some e =>
          simp only [List.mem_cons] at hx
          rcases hx with rfl | hx
          · exact ⟨h1, fun p hp => h2 p (by simpa using hp), fun r hr => h3 r (by simpa using hr),
              fun hc => h4 (by simpa using hc)⟩
          · exact ih st' hs' h1 x hx
    | wouldBlock =>
      simp only [canPollsSt] at hx
      split at hx
      · simp only [List.mem_singleton] at hx; subst hx; exact ⟨h, by simp, by simp, by simp⟩
      · simp only [List.mem_cons] at hx
        rcases hx with rfl | hx
        · exact ⟨h, by simp, by simp, by simp⟩
        · exact ih st hs' h x hx
    | overrun =>
      simp only [canPollsSt] at hx
      split at hx
      · simp only [List.mem_singleton] at hx; subst hx; exact ⟨h, by simp, by simp, by simp⟩
      · simp only [List.mem_cons] at hx
        rcases hx with rfl | hx
        · exact ⟨h, by simp, by simp, by simp⟩
        · exact ih st hs' h x hx

end Ross
