import RossModel.Generated.Source
import RossModel.Event
import RossModel.Packet
/-!
# The model computes with the constants that stand in the Rust sources

`RossModel/Generated/Source.lean` is written by `bin/extract` from `/repo`'s source text on every run. The Boolean
checks below evaluate the **model's own definitions** (`Kind.code`, `sizeOk`, `BcmValue.ser/de`, `RelayValue.ser/de`,
`toCan`, `fromCan`, `toUsart`, `fromUsart`, `Packet.toFrames`) against formulas built from the extracted constants,
on probe sets that distinguish every single-constant change; `Props/C*.lean` state `check = true` as theorems
(proved by `decide`, i.e. by kernel evaluation). An item the translator did not find is absent from its table (or
`none`) and constrains nothing.
-/
namespace Ross.SrcTie
open Ross

def kindOfName : String → Option Kind
  | "bootloaderHello" => some .bootloaderHello | "programmerHello" => some .programmerHello
  | "startFirmwareUpgrade" => some .startFirmwareUpgrade | "ack" => some .ack | "data" => some .data
  | "configuratorHello" => some .configuratorHello | "bcmChange" => some .bcmChange
  | "buttonPressed" => some .buttonPressed | "buttonReleased" => some .buttonReleased
  | "systemTick" => some .systemTick | "startConfigUpgrade" => some .startConfigUpgrade
  | "setDeviceAddress" => some .setDeviceAddress | "message" => some .message | "bcmAnimate" => some .bcmAnimate
  | "relaySet" => some .relaySet | "gatewayDiscover" => some .gatewayDiscover | _ => none

/-- every extracted event code is the model's `Kind.code` of that kind -/
def codesOk : Bool :=
  Src.eventCodes.all fun (n, c) => match kindOfName n with
    | some k => k.code.toNat == c
    | none => false

/-- every decoder compares with, and every encoder writes, the constant of its own kind (as the model does) -/
def constUseOk : Bool :=
  Src.decoderConst.all (fun (k, c) => k == c) && Src.encoderConst.all (fun (k, c) => k == c)

/-- the size guard at the head of every decoder is the model's `sizeOk` (probed on lengths 0..39) -/
def sizeGuardsOk : Bool :=
  Src.sizeGuards.all fun (n, exact, sz) => match kindOfName n with
    | some k => (List.range 40).all fun m => sizeOk k m == (if exact then m == sz else decide (sz ≤ m))
    | none => false

def bcmSample : String → Option BcmValue
  | "Binary" => some (.binary true) | "Single" => some (.single 9) | "Rgb" => some (.rgb 1 2 3)
  | "RgbB" => some (.rgbB 1 2 3 4) | "Rgbw" => some (.rgbw 1 2 3 4) | "RgbwB" => some (.rgbwB 1 2 3 4 5) | _ => none

def bcmName : BcmValue → String
  | .binary _ => "Binary" | .single _ => "Single" | .rgb _ _ _ => "Rgb" | .rgbB _ _ _ _ => "RgbB"
  | .rgbw _ _ _ _ => "Rgbw" | .rgbwB _ _ _ _ _ => "RgbwB"

/-- brightness tags: `serialize` writes the extracted tag first; `deserialize` maps the extracted tag with the
extracted length to that variant and rejects the neighbouring lengths -/
def bcmTagsOk : Bool :=
  (Src.bcmSerTags.all fun (n, t) => match bcmSample n with
    | some v => v.ser.head? == some (UInt8.ofNat t)
    | none => false) &&
  (Src.bcmDeTags.all fun (n, t, len) =>
    let body (l : Nat) := UInt8.ofNat t :: List.replicate (l - 1) 1
    (match BcmValue.de (body len) with | .ok v => bcmName v == n | _ => false) &&
    (match BcmValue.de (body (len + 1)) with | .err .wrongSize => true | _ => false) &&
    (match BcmValue.de (body (len - 1)) with | .err .wrongSize => true | _ => false))

def relayOfName : String → Option RelayValue
  | "on" => some (.single true) | "off" => some (.single false) | "first" => some .firstChannelOn
  | "second" => some .secondChannelOn | "none" => some .noChannelOn | _ => none

def relayTagsOk : Bool :=
  (Src.relaySerTags.all fun (n, t) => match relayOfName n with
    | some v => v.ser == [UInt8.ofNat t]
    | none => false) &&
  (Src.relayDeTags.all fun (n, t) => match relayOfName n, RelayValue.de [UInt8.ofNat t] with
    | some v, .ok w => v == w
    | _, _ => false)

def broadcastOk : Bool := Src.broadcastAddress.all (· == BROADCAST.toNat)

/-! ## frame codecs: probe sets -/

/-- identifiers that distinguish every shift/mask change within 29 bits -/
def probeIds : List Nat :=
  [0, 2^29 - 1] ++ (List.range 29).map (2 ^ ·) ++ (List.range 29).map (fun k => 2^29 - 1 - 2^k)

def zeroFrame : Frame :=
  { notError := false, start := false, multi := false, idLast := false, fid := 0, addr := 0, dataLen := 0,
    data := List.replicate 8 0 }

def canId : Res FErr CanFrame → Option Nat
  | .ok c => some c.id
  | _ => none

def withL (o : Option (List Nat)) (f : List Nat → Bool) : Bool := o.all f

/-- `to_bxcan_frame`: each flag lands on the extracted bit, both id arms use the extracted mask and shifts, the address
the extracted mask -/
def toCanOk : Bool :=
  withL Src.toCanNotError (fun l => match l with
    | [s] => canId (toCan { zeroFrame with notError := true }) == some (1 <<< s) | _ => false) &&
  withL Src.toCanStart (fun l => match l with
    | [s] => canId (toCan { zeroFrame with start := true }) == some (1 <<< s) | _ => false) &&
  withL Src.toCanMulti (fun l => match l with
    | [s] => canId (toCan { zeroFrame with multi := true }) == some (1 <<< s) | _ => false) &&
  withL Src.toCanIdLast (fun l => match l with
    | [m, a, b] => [0xfff, 0x800, 0x400, 0x200, 0x100, 0x0ff].all fun fid =>
        canId (toCan { zeroFrame with idLast := true, fid := fid }) == some (((fid &&& m) >>> a) <<< b) | _ => false) &&
  withL Src.toCanIdCurrent (fun l => match l with
    | [m, a, b] => [0xfff, 0x800, 0x400, 0x200, 0x100, 0x0ff].all fun fid =>
        canId (toCan { zeroFrame with idLast := false, fid := fid }) == some (((fid &&& m) >>> a) <<< b) | _ => false) &&
  withL Src.toCanAddrMask (fun l => match l with
    | [m] => [0xffff, 0x8000, 0x0001, 0x5555].all fun ad =>
        canId (toCan { zeroFrame with addr := UInt16.ofNat ad }) == some (ad &&& m) | _ => false)

/-- a multi-frame data frame with one zero data byte (so that every identifier decodes) -/
def canProbe (id : Nat) : Res FErr Frame := fromCan { ext := true, id := id, rtr := false, dlc := 1, data := [0] }

/-- `from_bxcan_frame`: every field is the extracted shift-and-mask of the identifier, on all probe identifiers -/
def fromCanOk : Bool :=
  withL Src.fromCanNotError (fun l => match l with
    | [s, m] => probeIds.all fun id => (match canProbe id with | .ok f => f.notError == (((id >>> s) &&& m) != 0) | _ => false)
    | _ => false) &&
  withL Src.fromCanMulti (fun l => match l with
    | [s, m] => probeIds.all fun id =>
        (match fromCan { ext := true, id := id, rtr := false, dlc := 1, data := [0] } with
          | .ok f => f.multi == (((id >>> s) &&& m) != 0) | _ => false)
    | _ => false) &&
  withL Src.fromCanStart (fun l => match l with
    | [s, m] => probeIds.all fun id => (match canProbe id with
        | .ok f => !f.multi || f.start == (((id >>> s) &&& m) != 0) | _ => false)
    | _ => false) &&
  withL Src.fromCanNibble (fun l => match l with
    | [s, m] => probeIds.all fun id => (match canProbe id with
        | .ok f => !f.multi || f.fid == (((id >>> s) &&& m) <<< 8) | _ => false)
    | _ => false) &&
  withL Src.fromCanAddr (fun l => match l with
    | [s, m] => probeIds.all fun id => (match canProbe id with | .ok f => f.addr.toNat == ((id >>> s) &&& m) | _ => false)
    | _ => false)

def usartBytes : Res FErr (List UInt8) → Option (List UInt8)
  | .ok u => Cobs.decodeBody u
  | _ => none

/-- `to_usart_frame`: header bits, id split and address split use the extracted constants -/
def toUsartOk : Bool :=
  let hdr (f : Frame) : Option (List Nat) := (usartBytes (toUsart f)).map fun b => (b.take 4).map UInt8.toNat
  withL Src.toUsartNotError (fun l => match l with
    | [s] => hdr { zeroFrame with notError := true } == some [1 <<< s, 0, 0, 0] | _ => false) &&
  withL Src.toUsartStart (fun l => match l with
    | [s] => hdr { zeroFrame with start := true } == some [1 <<< s, 0, 0, 0] | _ => false) &&
  withL Src.toUsartMulti (fun l => match l with
    | [s] => hdr { zeroFrame with multi := true } == some [1 <<< s, 0, 0, 0] | _ => false) &&
  ([true, false].all fun last =>
    withL (if last then Src.toUsartHiLast else Src.toUsartHiCurrent) (fun h => match h with
      | [m, a] => withL (if last then Src.toUsartLoLast else Src.toUsartLoCurrent) (fun lo => match lo with
        | [ml] => [0xfff, 0x800, 0x400, 0x200, 0x100, 0x0ff, 0x080, 0x001].all fun fid =>
            hdr { zeroFrame with idLast := last, fid := fid } == some [(fid &&& m) >>> a, fid &&& ml, 0, 0]
        | _ => false)
      | _ => false)) &&
  withL Src.toUsartAddr (fun l => match l with
    | [mh, a, ml] => [0xffff, 0x8000, 0x0100, 0x0080, 0x0001].all fun ad =>
        hdr { zeroFrame with addr := UInt16.ofNat ad } == some [0, 0, (ad &&& mh) >>> a, ad &&& ml]
    | _ => false)

/-- `from_usart_frame`: header byte 0 is taken apart with the extracted shifts and masks (all 8 single-bit and 8
all-but-one-bit header bytes), and the size check uses the extracted numbers -/
def fromUsartOk : Bool :=
  let bytes : List Nat := [0, 0xff] ++ (List.range 8).map (2 ^ ·) ++ (List.range 8).map (fun k => 0xff - 2^k)
  let dec (b0 : Nat) : Res FErr Frame := fromUsart (Cobs.encode [UInt8.ofNat b0, 0x34, 1, 2, 0])
  withL Src.fromUsartNotError (fun l => match l with
    | [s, m] => bytes.all fun b => (match dec b with | .ok f => f.notError == (((b >>> s) &&& m) != 0) | _ => false)
    | _ => false) &&
  withL Src.fromUsartStart (fun l => match l with
    | [s, m] => bytes.all fun b => (match dec b with | .ok f => f.start == (((b >>> s) &&& m) != 0) | _ => false)
    | _ => false) &&
  withL Src.fromUsartMulti (fun l => match l with
    | [s, m] => bytes.all fun b => (match dec b with | .ok f => f.multi == (((b >>> s) &&& m) != 0) | _ => false)
    | _ => false) &&
  withL Src.fromUsartIdLast (fun l => match l with
    | [m, s] => bytes.all fun b => (match dec b with
        | .ok f => !f.start || f.fid == (((b &&& m) <<< s) ||| 0x34) | _ => false)
    | _ => false) &&
  withL Src.fromUsartIdCurrent (fun l => match l with
    | [m, s] => bytes.all fun b => (match dec b with
        | .ok f => f.start || f.fid == (((b &&& m) <<< s) ||| 0x34) | _ => false)
    | _ => false) &&
  withL Src.fromUsartSize (fun l => match l with
    | [a, b, c] => [3, 4, 5, 6, 12, 13, 14].all fun len => [0, 1, 7, 8, 9].all fun d =>
        let body : List UInt8 := ([0x80, 1, 1, 1, UInt8.ofNat d] ++ List.replicate 20 5).take len
        (fromUsart (Cobs.encode body)).isOk == (!(decide (len < a)) && len == d + b && !(decide (d > c)))
    | _ => false)

/-- `to_frames` written with the extracted constants -/
def srcFragment (single a1 a2 a3 l1 l2 l3 l4 o1 o2 : Nat) (p : Packet) : List Frame :=
  let n := p.data.length
  if n ≤ single then
    [{ notError := !p.isError, start := true, multi := false, idLast := true, fid := 0, addr := p.addr,
       dataLen := n, data := pad8 p.data }]
  else
    let count := (n - a1) / a2 + a3
    (List.range count).map fun i =>
      let dl := if i = count - 1 then (if n % l1 = 0 then l2 else n % l3 + l4) else 8
      let idv := if i = 0 then count - 1 else i
      { notError := !p.isError, start := i == 0, multi := true, idLast := i == 0, fid := idv, addr := p.addr,
        dataLen := dl,
        data := pad8 (UInt8.ofNat idv :: (List.range (dl - 1)).map fun j => p.data.getD (i * o2 + j + o1 - 1) 0) }

/-- the model's `toFrames` is `to_frames` with the extracted constants, on every payload length 0..=30 -/
def fragOk : Bool :=
  match Src.fragSingleMax, Src.fragCount, Src.fragLastLen, Src.fragOffset with
  | some [s], some [a1, a2, a3], some [l1, l2, l3, l4], some [o1, o2] =>
    (List.range 31).all fun n =>
      let p : Packet := ⟨false, 0x0102, (List.range n).map fun i => UInt8.ofNat (i + 1)⟩
      (match p.toFrames with | .ok fs => fs == srcFragment s a1 a2 a3 l1 l2 l3 l4 o1 o2 p | _ => false)
  | _, _, _, _ => true

/-! ## field layouts of the sixteen event codecs

`Src.encoderWrites` / `Src.encoderAddr` / `Src.decoderReads` / `Src.decoderAddr` say, in terms of the Rust struct field
names, what every `to_packet` writes in which order and width and what every `try_from_packet` reads from which offset.
The checks evaluate the model's `encode` / `decode` on one probe event per kind (every field has byte values of its
own, so that any two fields, offsets or widths are told apart). -/

def probePad : Pad := ⟨0xe1, 0xe2, 0xe3⟩

def probeEvent : Kind → Event
  | .bootloaderHello => .bootloaderHello 0xa1a2 0x1112
  | .programmerHello => .programmerHello 0x1112
  | .startFirmwareUpgrade => .startFirmwareUpgrade 0xa1a2 0x1112 0x21222324
  | .ack => .ack 0xa1a2 0x1112
  | .data => .data 0xa1a2 0x1112 3 [0x31, 0x32, 0x33]
  | .configuratorHello => .configuratorHello
  | .bcmChange => .bcmChange 0xa1a2 0x1112 0x41 (.rgbwB 0x51 0x52 0x53 0x54 0x55)
  | .buttonPressed => .buttonPressed 0xa1a2 0x1112 0x41
  | .buttonReleased => .buttonReleased 0xa1a2 0x1112 0x41
  | .systemTick => .systemTick 0xa1a2
  | .startConfigUpgrade => .startConfigUpgrade 0xa1a2 0x1112 0x21222324
  | .setDeviceAddress => .setDeviceAddress 0xa1a2 0x1112 0x6162
  | .message => .message 0xa1a2 0x1112 0x6162 (.u32 0x71727374)
  | .bcmAnimate => .bcmAnimate 0xa1a2 0x1112 0x41 0x21222324 (.rgbwB 0x51 0x52 0x53 0x54 0x55)
  | .relaySet => .relaySet 0xa1a2 0x1112 0x41 .secondChannelOn
  | .gatewayDiscover => .gatewayDiscover 0xa1a2 0x1112

/-- the wire bytes of the Rust struct field `name` of an event (fields that travel in the packet's data) -/
def fieldBytes (pad : Pad) : Event → String → Option (List UInt8)
  | .bootloaderHello _ b, "bootloader_address" => some (u16b b)
  | .programmerHello p, "programmer_address" => some (u16b p)
  | .startFirmwareUpgrade _ p _, "programmer_address" => some (u16b p)
  | .startFirmwareUpgrade _ _ s, "firmware_size" => some (u32b s)
  | .ack _ t, "transmitter_address" => some (u16b t)
  | .data _ t _ _, "transmitter_address" => some (u16b t)
  | .data _ _ n _, "data_len" => some (u16b n)
  | .data _ _ _ d, "data" => some d
  | .bcmChange _ t _ _, "transmitter_address" => some (u16b t)
  | .bcmChange _ _ i _, "index" => some [i]
  | .bcmChange _ _ _ v, "value" => some v.ser
  | .buttonPressed _ b _, "button_address" => some (u16b b)
  | .buttonPressed _ _ i, "index" => some [i]
  | .buttonReleased _ b _, "button_address" => some (u16b b)
  | .buttonReleased _ _ i, "index" => some [i]
  | .startConfigUpgrade _ p _, "programmer_address" => some (u16b p)
  | .startConfigUpgrade _ _ s, "config_size" => some (u32b s)
  | .setDeviceAddress _ p _, "programmer_address" => some (u16b p)
  | .setDeviceAddress _ _ n, "new_address" => some (u16b n)
  | .message _ t _ _, "transmitter_address" => some (u16b t)
  | .message _ _ c _, "code" => some (u16b c)
  | .message _ _ _ v, "value" => some (v.image pad)
  | .bcmAnimate _ t _ _ _, "transmitter_address" => some (u16b t)
  | .bcmAnimate _ _ i _ _, "index" => some [i]
  | .bcmAnimate _ _ _ d _, "duration" => some (u32b d)
  | .bcmAnimate _ _ _ _ v, "target_value" => some v.ser
  | .relaySet _ t _ _, "transmitter_address" => some (u16b t)
  | .relaySet _ _ i _, "index" => some [i]
  | .relaySet _ _ _ v, "value" => some v.ser
  | .gatewayDiscover _ g, "gateway_address" => some (u16b g)
  | _, _ => none

/-- the Rust struct field `name` of an event that travels as the packet's device address -/
def addrField : Event → String → Option UInt16
  | .bootloaderHello p _, "programmer_address" => some p
  | .startFirmwareUpgrade r _ _, "receiver_address" => some r
  | .ack r _, "receiver_address" => some r
  | .data r _ _ _, "receiver_address" => some r
  | .bcmChange a _ _ _, "bcm_address" => some a
  | .buttonPressed r _ _, "receiver_address" => some r
  | .buttonReleased r _ _, "receiver_address" => some r
  | .systemTick r, "receiver_address" => some r
  | .startConfigUpgrade r _ _, "receiver_address" => some r
  | .setDeviceAddress r _ _, "receiver_address" => some r
  | .message r _ _ _, "receiver_address" => some r
  | .bcmAnimate a _ _ _ _, "bcm_address" => some a
  | .relaySet a _ _ _, "relay_address" => some a
  | .gatewayDiscover d _, "device_address" => some d
  | _, _ => none

/-- the model's `encode` writes what every `to_packet` writes: the event code, then the fields in source order with
their source widths (a sub-codec or the data bytes last), and the source's device address -/
def encoderLayoutOk : Bool :=
  (Src.encoderWrites.all fun (n, writes) => match kindOfName n with
    | none => false
    | some k =>
      let e := probeEvent k
      let parts := writes.map fun (f, w) =>
        (if f == "EVENT_CODE" then some (u16b k.code) else fieldBytes probePad e f).filter fun bs => w == 0 || bs.length == w
      parts.all Option.isSome && (encode probePad e).data == (parts.map fun o => o.getD []).flatten) &&
  (Src.encoderAddr.all fun (n, f) => match kindOfName n with
    | none => false
    | some k =>
      let e := probeEvent k
      if f == "BROADCAST" then (encode probePad e).addr == BROADCAST else addrField e f == some (encode probePad e).addr)

/-- the model's `decode` reads what every `try_from_packet` reads: every field from the source's offset and width (a
sub-codec or the data bytes: from the offset to the end), and the source's field from the device address -/
def decoderLayoutOk : Bool :=
  (Src.decoderReads.all fun (n, reads) => match kindOfName n with
    | none => false
    | some k =>
      let p := encode probePad (probeEvent k)
      match decode k p with
      | .ok e => reads.all fun (f, off, w) =>
          fieldBytes probePad e f == some (if w == 0 then p.data.drop off else (p.data.drop off).take w)
      | _ => false) &&
  (Src.decoderAddr.all fun (n, f) => match kindOfName n with
    | none => false
    | some k =>
      let p := encode probePad (probeEvent k)
      match decode k p with
      | .ok e => addrField e f == some p.addr
      | _ => false)

end Ross.SrcTie
