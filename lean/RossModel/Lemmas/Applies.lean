import RossModel.Lemmas.Event
import RossModel.Accept
/-!
# C05: the rejection reason a decoder reports is one that truly applies
-/
namespace Ross







/-- the variant tag of the kinds that have one is outside the table -/
def unknownTag (k : Kind) (d : List UInt8) : Prop :=
  match k with
  | .bcmChange => ∃ t, d[5]? = some t ∧ bcmLen t = none
  | .bcmAnimate => ∃ t, d[9]? = some t ∧ bcmLen t = none
  | .relaySet => ∃ t, d[5]? = some t ∧ 4 < t.toNat
  | .message => ∃ t0 t1 t2 t3 v, d[6]? = some t0 ∧ d[7]? = some t1 ∧ d[8]? = some t2 ∧ d[9]? = some t3 ∧
      d[10]? = some v ∧ ((le32 t0 t1 t2 t3).toNat > 3 ∨ ((le32 t0 t1 t2 t3).toNat = 3 ∧ v.toNat > 1))
  | _ => False

/-- when a rejection reason truly applies to packet `p` read as kind `k` -/
def CApplies (r : CErr) (k : Kind) (p : Packet) : Prop :=
  match r with
  | .wrongSize => (p.data.length < minLen k ∨ ∃ n, requiredLen k p.data = some n ∧ n ≠ p.data.length) ∨
      maxLen k < p.data.length    -- longer than every encoding of the kind
  | .wrongType => p.isError = true
  | .wrongEventType => ∃ c, p.code? = some c ∧ c ≠ k.code
  | .unknownEnumVariant => unknownTag k p.data

theorem sizeOk_false (k : Kind) (n : Nat) (h : sizeOk k n = false) :
    n < minLen k ∨ ((∀ d, requiredLen k d = some (minLen k)) ∧ n ≠ minLen k) := by
  cases k <;> simp [sizeOk] at h <;> simp [minLen, requiredLen] <;> omega

theorem bcm_de_err (d : List UInt8) (r : CErr) (h : BcmValue.de d = .err r) :
    (r = .wrongSize ∧ (d.length < 2 ∨ ∃ t n, d[0]? = some t ∧ bcmLen t = some n ∧ n ≠ d.length)) ∨
    (r = .unknownEnumVariant ∧ ∃ t, d[0]? = some t ∧ bcmLen t = none) := by
  unfold BcmValue.de at h
  by_cases h2 : d.length < 2
  · simp [h2] at h; left; exact ⟨h.symm, Or.inl h2⟩
  · simp only [h2, if_false] at h
    rw [rd_eq (by omega)] at h
    simp only [Res.ok_bind] at h
    have h0 : d[0]? = some d[0] := by simp
    by_cases t0 : d[0] = 0
    · simp only [t0, if_true] at h
      by_cases hl : d.length ≠ 2
      · simp [hl] at h; left; exact ⟨h.symm, Or.inr ⟨0, 2, by rw [h0, t0], by simp [bcmLen], by omega⟩⟩
      · simp only [hl, if_false] at h; simp (disch := omega) [rd_eq] at h
    by_cases t1 : d[0] = 1
    · simp only [t0, t1, if_true, if_false] at h
      by_cases hl : d.length ≠ 2
      · simp [hl] at h; left; exact ⟨h.symm, Or.inr ⟨1, 2, by rw [h0, t1], by simp [bcmLen], by omega⟩⟩
      · simp only [hl, if_false] at h; simp (disch := omega) [rd_eq] at h
    by_cases t2 : d[0] = 2
    · simp only [t0, t1, t2, if_true, if_false] at h
      by_cases hl : d.length ≠ 4
      · simp [hl] at h; left; exact ⟨h.symm, Or.inr ⟨2, 4, by rw [h0, t2], by simp [bcmLen], by omega⟩⟩
      · simp only [hl, if_false] at h; simp (disch := omega) [rd_eq] at h
    by_cases t3 : d[0] = 3
    · simp only [t0, t1, t2, t3, if_true, if_false] at h
      by_cases hl : d.length ≠ 5
      · simp [hl] at h; left; exact ⟨h.symm, Or.inr ⟨3, 5, by rw [h0, t3], by simp [bcmLen], by omega⟩⟩
      · simp only [hl, if_false] at h; simp (disch := omega) [rd_eq] at h
    by_cases t4 : d[0] = 4
    · simp only [t0, t1, t2, t3, t4, if_true, if_false] at h
      by_cases hl : d.length ≠ 5
      · simp [hl] at h; left; exact ⟨h.symm, Or.inr ⟨4, 5, by rw [h0, t4], by simp [bcmLen], by omega⟩⟩
      · simp only [hl, if_false] at h; simp (disch := omega) [rd_eq] at h
    by_cases t5 : d[0] = 5
    · simp only [t0, t1, t2, t3, t4, t5, if_true, if_false] at h
      by_cases hl : d.length ≠ 6
      · simp [hl] at h; left; exact ⟨h.symm, Or.inr ⟨5, 6, by rw [h0, t5], by simp [bcmLen], by omega⟩⟩
      · simp only [hl, if_false] at h; simp (disch := omega) [rd_eq] at h
    · simp only [t0, t1, t2, t3, t4, t5, if_false] at h
      right
      exact ⟨(Res.err.inj h).symm, d[0], h0, by simp [bcmLen, t0, t1, t2, t3, t4, t5]⟩


theorem relay_de_err (d : List UInt8) (r : CErr) (hl : d.length = 1) (h : RelayValue.de d = .err r) :
    r = .unknownEnumVariant ∧ ∃ t, d[0]? = some t ∧ 4 < t.toNat := by
  unfold RelayValue.de at h
  simp only [hl, ne_eq, not_true_eq_false, if_false] at h
  rw [rd_eq (by omega)] at h
  simp only [Res.ok_bind] at h
  have h0 : d[0]? = some d[0] := by simp
  repeat' split at h
  all_goals (try (simp at h; done))
  refine ⟨(Res.err.inj h).symm, d[0], h0, ?_⟩
  rename_i c0 c1 c2 c3 c4
  have e0 : d[0].toNat ≠ 0 := fun hc => c0 (UInt8.toNat_inj.mp (by simpa using hc))
  have e1 : d[0].toNat ≠ 1 := fun hc => c1 (UInt8.toNat_inj.mp (by simpa using hc))
  have e2 : d[0].toNat ≠ 2 := fun hc => c2 (UInt8.toNat_inj.mp (by simpa using hc))
  have e3 : d[0].toNat ≠ 3 := fun hc => c3 (UInt8.toNat_inj.mp (by simpa using hc))
  have e4 : d[0].toNat ≠ 4 := fun hc => c4 (UInt8.toNat_inj.mp (by simpa using hc))
  omega

theorem msg_ofImage_err (d : List UInt8) (r : CErr) (hl : d.length = 8) (h : MessageValue.ofImage d = .err r) :
    r = .unknownEnumVariant ∧ ((le32 d[0] d[1] d[2] d[3]).toNat > 3 ∨
      ((le32 d[0] d[1] d[2] d[3]).toNat = 3 ∧ d[4].toNat > 1)) := by
  unfold MessageValue.ofImage at h
  simp (disch := omega) only [rd_eq, Res.ok_bind, Res.pure_eq] at h
  split at h
  · rename_i hc; exact ⟨(Res.err.inj h).symm, hc⟩
  · repeat' split at h
    all_goals simp at h

/-- C05: whatever reason a decoder reports, it is one that truly applies to the packet -/
theorem decode_err_applies (k : Kind) (p : Packet) (r : CErr) (h : decode k p = .err r) : CApplies r k p := by
  unfold decode at h
  rcases preamble_spec k p (sizeOk k p.data.length) (sizeOk_two k _) with
    ⟨hp, hok, he, hc⟩ | ⟨hp, hok⟩ | ⟨hp, _, he⟩ | ⟨hp, _, _, hc⟩
  · -- the head was accepted: the error comes from the fields
    simp only [hp, Res.ok_bind] at h
    cases k <;> simp [sizeOk] at hok <;> unfold decodeFields at h <;> simp only [rd16, rd32] at h
    all_goals simp (disch := omega) only [rd_eq, Res.ok_bind, Res.pure_eq] at h
    all_goals try (simp at h; done)
    · -- data
      split at h
      · rename_i hl
        cases h
        left; right
        refine ⟨(be16 p.data[4] p.data[4 + 1]).toNat + 6, ?_, by omega⟩
        have h4 : p.data[4]? = some p.data[4] := List.getElem?_eq_getElem (by omega)
        have h5 : p.data[5]? = some p.data[4 + 1] := List.getElem?_eq_getElem (by omega)
        simp only [requiredLen, h4, h5]
      · simp at h
    · -- bcmChange
      cases hv : BcmValue.de (List.drop 5 p.data) with
      | ok v => simp [hv] at h
      | panic => simp [hv] at h
      | err e =>
        simp [hv] at h; subst h
        have hidx : (List.drop 5 p.data)[0]? = p.data[5]? := by simp
        rcases bcm_de_err _ e hv with ⟨rfl, hs⟩ | ⟨rfl, t, ht, hn⟩
        · rcases hs with hs | ⟨t, n, ht, hn, hne⟩
          · simp at hs; omega
          · left; right
            rw [hidx] at ht
            exact ⟨n + 5, by simp [requiredLen, ht, hn], by simp at hne; omega⟩
        · rw [hidx] at ht
          exact ⟨t, ht, hn⟩
    · -- message
      cases hv : MessageValue.ofImage (List.drop 6 p.data) with
      | ok v => simp [hv] at h
      | panic => simp [hv] at h
      | err e =>
        simp [hv] at h; subst h
        obtain ⟨rfl, hc⟩ := msg_ofImage_err _ e (by simp; omega) hv
        simp only [List.getElem_drop] at hc
        refine ⟨p.data[6], p.data[7], p.data[8], p.data[9], p.data[10], ?_, ?_, ?_, ?_, ?_, hc⟩ <;> simp <;> omega
    · -- bcmAnimate
      cases hv : BcmValue.de (List.drop 9 p.data) with
      | ok v => simp [hv] at h
      | panic => simp [hv] at h
      | err e =>
        simp [hv] at h; subst h
        have hidx : (List.drop 9 p.data)[0]? = p.data[9]? := by simp
        rcases bcm_de_err _ e hv with ⟨rfl, hs⟩ | ⟨rfl, t, ht, hn⟩
        · rcases hs with hs | ⟨t, n, ht, hn, hne⟩
          · simp at hs; omega
          · left; right
            rw [hidx] at ht
            exact ⟨n + 9, by simp [requiredLen, ht, hn], by simp at hne; omega⟩
        · rw [hidx] at ht
          exact ⟨t, ht, hn⟩
    · -- relaySet
      cases hv : RelayValue.de (List.drop 5 p.data) with
      | ok v => simp [hv] at h
      | panic => simp [hv] at h
      | err e =>
        simp [hv] at h; subst h
        obtain ⟨rfl, t, ht, hgt⟩ := relay_de_err _ e (by simp; omega) hv
        have hidx : (List.drop 5 p.data)[0]? = p.data[5]? := by simp
        rw [hidx] at ht
        exact ⟨t, ht, hgt⟩
  · simp [hp] at h; subst h
    rcases sizeOk_false k _ hok with h1 | ⟨h1, h2⟩
    · exact Or.inl (Or.inl h1)
    · exact Or.inl (Or.inr ⟨minLen k, h1 _, fun hc => h2 hc.symm⟩)
  · simp [hp] at h; subst h; exact he
  · simp [hp] at h; subst h; exact hc

#print axioms decode_err_applies
#print axioms bcm_de_err
end Ross
