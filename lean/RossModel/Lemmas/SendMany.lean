import RossModel.Lemmas.Send
import RossModel.LinkMany
/-!
# C14 for several sends on one interface instance

Whatever the device answered during earlier sends (short writes, errors, displaced frames), every later send puts
a prefix of *its own* wire image on the device — the whole image whenever it returns `Ok` — and nothing else:
no bytes of an earlier, failed send leak into a later one.
-/
namespace Ross

/-- `ws` are the pieces the device received, one per send: each a prefix of that send's wire image, the whole image
when the send returned `Ok` -/
def SendPieces {α : Type} (wire : β → List α) : List (List α) → List β → List (Res SendErr Unit) → Prop
  | [], [], [] => True
  | w :: ws, u :: us, r :: rs => w <+: wire u ∧ (r = .ok () → w = wire u) ∧ SendPieces wire ws us rs
  | _, _, _ => False

theorem serialSendMany_spec (uss : List (List (List UInt8))) (rs : List IoResp) (fls : List FlushResp) :
    ∃ ws, (serialSendMany uss rs fls).1 = ws.flatten ∧ SendPieces wireOf ws uss (serialSendMany uss rs fls).2.2 := by
  induction uss generalizing rs fls with
  | nil => exact ⟨[], by simp [serialSendMany], by simp [serialSendMany, SendPieces]⟩
  | cons us rest ih =>
    obtain ⟨p1, p2, _⟩ := serialSendFrames_spec us rs
    simp only [serialSendMany]
    cases hf : serialSendFrames us rs with
    | mk w r =>
      obtain ⟨ok, rs'⟩ := r
      rw [hf] at p1 p2
      cases ok with
      | false =>
        obtain ⟨ws, h1, h2⟩ := ih rs' fls
        refine ⟨w :: ws, by simp [h1], ?_⟩
        simp only [Bool.not_false, if_true, SendPieces]
        exact ⟨p1, by simp, h2⟩
      | true =>
        obtain ⟨ws, h1, h2⟩ := ih rs' fls.tail
        refine ⟨w :: ws, by simp [h1], ?_⟩
        simp only [Bool.not_true, Bool.false_eq_true, if_false, SendPieces]
        exact ⟨p1, fun _ => p2 rfl, h2⟩

/-- with a healthy port (no zero-length write, no I/O error, every flush succeeds) every send succeeds, the port is
flushed once per send and the device receives exactly the concatenated wire images -/
theorem serialSendMany_exact (uss : List (List (List UInt8))) (rs : List IoResp) (fls : List FlushResp)
    (hr : ∀ r ∈ rs, r.isFault = false) (hf : ∀ f ∈ fls, f = .ok) :
    serialSendMany uss rs fls = (uss.flatMap wireOf, uss.length, uss.map fun _ => .ok ()) := by
  induction uss generalizing rs fls with
  | nil => simp [serialSendMany]
  | cons us rest ih =>
    -- the unread responses stay fault free
    have key : ∀ (us : List (List UInt8)) (rs : List IoResp), (∀ r ∈ rs, r.isFault = false) →
        (serialSendFrames us rs).1 = wireOf us ∧ (serialSendFrames us rs).2.1 = true ∧
        ∀ r ∈ (serialSendFrames us rs).2.2, r.isFault = false := by
      intro us
      induction us with
      | nil => intro rs h; simp only [serialSendFrames, wireOf, List.flatMap_nil, true_and]; exact h
      | cons u us ihu =>
        intro rs h
        obtain ⟨_, a2, a3⟩ := writeAll_spec rs [0x00]
        obtain ⟨a4, a5⟩ := a3 h
        obtain ⟨_, b2, b3⟩ := writeAll_spec (writeAll rs [0x00]).2.2 [UInt8.ofNat u.length]
        obtain ⟨b4, b5⟩ := b3 a5
        obtain ⟨_, c2, c3⟩ := writeAll_spec (writeAll (writeAll rs [0x00]).2.2 [UInt8.ofNat u.length]).2.2 u
        obtain ⟨c4, c5⟩ := c3 b5
        obtain ⟨d1, d2, d3⟩ := ihu _ c5
        simp only [serialSendFrames, a4, b4, c4, Bool.not_true, Bool.false_eq_true, if_false]
        refine ⟨?_, d2, d3⟩
        rw [a2 a4, b2 b4, c2 c4, d1]
        simp [wireOf, linkFrame]
    obtain ⟨k1, k2, k3⟩ := key us rs hr
    simp only [serialSendMany]
    cases hsf : serialSendFrames us rs with
    | mk w r =>
      obtain ⟨ok, rs'⟩ := r
      rw [hsf] at k1 k2 k3
      simp only at k1 k2 k3
      subst k2
      have hfl : fls.headD .ok = .ok := by
        cases fls with
        | nil => rfl
        | cons f t => exact hf f (by simp)
      have := ih rs' fls.tail k3 (fun f hf' => hf f (List.mem_of_mem_tail hf'))
      simp only [Bool.not_true, Bool.false_eq_true, if_false, this, hfl, k1]
      simp

theorem usartWriteAllR_noerr (bs : List UInt8) (rs : List WResp) (h : ∀ r ∈ rs, r ≠ .error) :
    (usartWriteAllR bs rs).1 = bs ∧ ∀ r ∈ (usartWriteAllR bs rs).2, r ≠ .error := by
  induction bs generalizing rs with
  | nil => simp only [usartWriteAllR, true_and]; exact h
  | cons b bs ih =>
    obtain ⟨h1, h2⟩ := usartWrite_noerr b rs h
    simp only [usartWriteAllR]
    cases hw : usartWrite b rs with
    | mk w rs' =>
      rw [hw] at h1 h2
      obtain ⟨i1, i2⟩ := ih rs' h2
      cases hr : usartWriteAllR bs rs' with
      | mk w2 rs'' =>
        rw [hr] at i1 i2
        simp only at h1 i1 i2 ⊢
        subst h1 i1
        exact ⟨by simp, i2⟩

/-- USART: however often the device would block, several sends put exactly the concatenated wire images on it -/
theorem usartSendMany_exact (uss : List (List (List UInt8))) (rs : List WResp) (h : ∀ r ∈ rs, r ≠ .error) :
    usartSendMany uss rs = uss.flatMap wireOf := by
  induction uss generalizing rs with
  | nil => simp [usartSendMany]
  | cons us rest ih =>
    obtain ⟨h1, h2⟩ := usartWriteAllR_noerr (wireOf us) rs h
    simp only [usartSendMany]
    cases hw : usartWriteAllR (wireOf us) rs with
    | mk w rs' =>
      rw [hw] at h1 h2
      simp only at h1 h2 ⊢
      rw [ih rs' h2, h1]; simp

theorem canTransmitAllR_eq (cs : List CanFrame) (rs : List TxResp) :
    ((canTransmitAllR cs rs).1, (canTransmitAllR cs rs).2.1) = canTransmitAll cs rs := by
  induction rs generalizing cs with
  | nil =>
    induction cs with
    | nil => simp [canTransmitAllR, canTransmitAll]
    | cons c cs ih =>
      have := canTransmitAll_nil_resp cs
      simp only [canTransmitAllR, canTransmitAll]
      rw [this] at ih ⊢
      simp only [Prod.mk.injEq] at ih
      simp [ih.1, ih.2]
  | cons r rs ih =>
    cases cs with
    | nil => simp [canTransmitAllR, canTransmitAll]
    | cons c cs =>
      cases r with
      | sent =>
        have := ih cs
        simp only [canTransmitAllR, canTransmitAll]
        rw [← this]
      | displaced => simp [canTransmitAllR, canTransmitAll]
      | wouldBlock =>
        simp only [canTransmitAllR, canTransmitAll]
        exact ih (c :: cs)

/-- CAN: every send hands a prefix of its own frames to the controller, all of them when it returns `Ok` -/
theorem canSendMany_spec (css : List (List CanFrame)) (rs : List TxResp) :
    ∃ ws, (canSendMany css rs).1 = ws.flatten ∧ SendPieces id ws css (canSendMany css rs).2 := by
  induction css generalizing rs with
  | nil => exact ⟨[], by simp [canSendMany], by simp [canSendMany, SendPieces]⟩
  | cons cs rest ih =>
    have he := canTransmitAllR_eq cs rs
    obtain ⟨p1, p2, _⟩ := canTransmitAll_prefix cs rs
    rw [← he] at p1 p2
    simp only [canSendMany]
    cases hc : canTransmitAllR cs rs with
    | mk l x =>
      obtain ⟨r, rs'⟩ := x
      rw [hc] at p1 p2
      obtain ⟨ws, h1, h2⟩ := ih rs'
      refine ⟨l :: ws, by simp [h1], ?_⟩
      simp only [SendPieces, id]
      exact ⟨p1, p2, h2⟩

end Ross

namespace Ross

theorem canTransmitAllR_noDisplaced (cs : List CanFrame) (rs : List TxResp) (h : ∀ r ∈ rs, r ≠ .displaced) :
    (canTransmitAllR cs rs).1 = cs ∧ (canTransmitAllR cs rs).2.1 = .ok () ∧
    ∀ r ∈ (canTransmitAllR cs rs).2.2, r ≠ .displaced := by
  induction rs generalizing cs with
  | nil =>
    induction cs with
    | nil => simp [canTransmitAllR]
    | cons c cs ih => simp only [canTransmitAllR]; obtain ⟨i1, i2, i3⟩ := ih; exact ⟨by rw [i1], i2, i3⟩
  | cons r rs ih =>
    have hrs : ∀ x ∈ rs, x ≠ .displaced := fun x hx => h x (by simp [hx])
    cases cs with
    | nil => simp only [canTransmitAllR]; exact ⟨trivial, trivial, h⟩
    | cons c cs =>
      cases r with
      | sent => simp only [canTransmitAllR]; obtain ⟨i1, i2, i3⟩ := ih cs hrs; exact ⟨by rw [i1], i2, i3⟩
      | displaced => exact absurd rfl (h .displaced (by simp))
      | wouldBlock => simp only [canTransmitAllR]; exact ih (c :: cs) hrs

/-- CAN: when the controller never reports a displaced frame, every send succeeds and exactly the concatenated frames
are handed over, however often the mailboxes were busy -/
theorem canSendMany_exact (css : List (List CanFrame)) (rs : List TxResp) (h : ∀ r ∈ rs, r ≠ .displaced) :
    canSendMany css rs = (css.flatten, css.map fun _ => .ok ()) := by
  induction css generalizing rs with
  | nil => simp [canSendMany]
  | cons cs rest ih =>
    obtain ⟨h1, h2, h3⟩ := canTransmitAllR_noDisplaced cs rs h
    simp only [canSendMany]
    cases hc : canTransmitAllR cs rs with
    | mk l x =>
      obtain ⟨r, rs'⟩ := x
      rw [hc] at h1 h2 h3
      simp only at h1 h2 h3
      rw [ih rs' h3, h1, h2]
      simp

end Ross
