import RossModel.Generated.Decoders
import RossModel.Lemmas.Applies
import RossModel.Lemmas.Event
/-!
# Fifteen event decoders as translated from the source text

`RossModel/Generated/Decoders.lean` is written by `bin/extract` (`bin/rust2lean.py`, `DecTranslator`) from
`src/event/*.rs` on every run: `Src.decode_<kind>` is a statement-by-statement translation of that kind's
`try_from_packet` — the guard chain in source order, every slice / index / `try_into().unwrap()` as a primitive of
`Spec/SrcPrims.lean` that **panics exactly when the Rust expression does**, the sub-codec calls
`BcmValue::deserialize(&packet.data[n..])?` / `RelayValue::deserialize(..)?` as the model's `BcmValue.de` / `RelayValue.de`.
The data decoder's copy loop `let mut v = vec![0; n]; for i in 0..n { v[i] = packet.data[i + 6]; }` is the primitive
`Prim.copyFrom`, which panics when some `i + 6` is not an index. (The message decoder — a `transmute_copy` — is outside the
translated subset.)

For every packet each translated decoder accepts exactly what the model's `decode` accepts, with the same value, and
never panics (`src_decode_*`). When the source keeps the model's guard order the two are equal outright; a decoder whose
guards are reordered still satisfies the statement (the reported reason may then differ where several apply — which
reason is reported is validated by the correspondence check against `CApplies`).
-/
set_option linter.unusedSimpArgs false
namespace Ross

/-- `a` is a decoder answer for kind `k` on `p` that accepts exactly what the model accepts and does not panic -/
def DecAgrees (k : Kind) (a : Res CErr Event) (p : Packet) : Prop :=
  (∀ e, a = .ok e ↔ decode k p = .ok e) ∧ a ≠ .panic

theorem DecAgrees.of_eq {k : Kind} {a : Res CErr Event} {p : Packet} (h : a = decode k p) : DecAgrees k a p := by
  subst h; exact ⟨fun _ => Iff.rfl, decode_no_panic k p⟩

/-- a copy loop over exactly the rest of the data copies the rest -/
theorem take_drop_all (d : List UInt8) (k n : Nat) (h : d.length = n + k) : (d.drop k).take n = d.drop k := by
  apply List.take_of_length_le; simp; omega

macro "dec_unfold" f:ident : tactic =>
  `(tactic| simp only [$f:ident, decode, preamble, decodeFields, Prim.be16At, Prim.be32At, Prim.idx, Prim.tailFrom, Prim.copyFrom, rd16, rd32])

macro "dec_cases" k:term:max p:ident : tactic =>
  `(tactic| (by_cases h : sizeOk $k ($p).data.length = true
             · have h' := h
               simp only [sizeOk, beq_iff_eq, decide_eq_true_eq] at h'
               simp (disch := omega) [h, h', rd_eq, Res.bind, bind, pure, Kind.code, if_pos, if_neg]
               first | done | ((repeat' split) <;> simp_all <;> (first | omega | (apply take_drop_all; omega) | skip))
             · have h' := h
               simp only [sizeOk, beq_iff_eq, decide_eq_true_eq] at h'
               simp (disch := omega) [h, h', Res.bind, bind, pure, Kind.code, if_pos, if_neg]
               first | done | ((repeat' split) <;> simp_all <;> (first | omega | (apply take_drop_all; omega) | skip))))

/-- the same with the error flag decided first and the in-bounds facts re-applied after every split (guards in any order,
several length tests) -/
macro "dec_cases_flag" k:term:max p:ident : tactic =>
  `(tactic| (cases hE : ($p).isError <;> by_cases h : sizeOk $k ($p).data.length = true <;>
             (have h' := h
              simp only [sizeOk, beq_iff_eq, decide_eq_true_eq] at h'
              simp (disch := omega) [h, h', hE, rd_eq, Res.bind, bind, pure, Kind.code, if_pos, if_neg]
              first | done | ((repeat' split) <;> (try simp (disch := omega) [rd_eq, Res.bind] at *) <;> (try simp_all [bcm_de_no_panic, relay_de_no_panic]) <;>
                (try simp (disch := omega) [take_drop_all]) <;> (first | omega | (apply take_drop_all; omega) | skip)))))

macro "dec_agree" f:ident k:term : tactic =>
  `(tactic| first
    | (intro p; exact DecAgrees.of_eq rfl)                       -- not translated on this run
    | (intro p; refine DecAgrees.of_eq ?_; dec_unfold $f; dec_cases $k p)   -- same guard order: equal outright
    | (intro p; unfold DecAgrees; dec_unfold $f; dec_cases $k p)   -- any guard order: same acceptance, no panic
    | (intro p; unfold DecAgrees; dec_unfold $f; dec_cases_flag $k p))   -- … also with several length tests, the flag tested late

theorem src_decode_bootloaderHello : ∀ p, DecAgrees .bootloaderHello (Src.decode_bootloaderHello p) p := by dec_agree Src.decode_bootloaderHello Kind.bootloaderHello
theorem src_decode_programmerHello : ∀ p, DecAgrees .programmerHello (Src.decode_programmerHello p) p := by dec_agree Src.decode_programmerHello Kind.programmerHello
theorem src_decode_startFirmwareUpgrade : ∀ p, DecAgrees .startFirmwareUpgrade (Src.decode_startFirmwareUpgrade p) p := by dec_agree Src.decode_startFirmwareUpgrade Kind.startFirmwareUpgrade
theorem src_decode_ack : ∀ p, DecAgrees .ack (Src.decode_ack p) p := by dec_agree Src.decode_ack Kind.ack
theorem src_decode_data : ∀ p, DecAgrees .data (Src.decode_data p) p := by dec_agree Src.decode_data Kind.data
theorem src_decode_configuratorHello : ∀ p, DecAgrees .configuratorHello (Src.decode_configuratorHello p) p := by dec_agree Src.decode_configuratorHello Kind.configuratorHello
theorem src_decode_bcmChange : ∀ p, DecAgrees .bcmChange (Src.decode_bcmChange p) p := by dec_agree Src.decode_bcmChange Kind.bcmChange
theorem src_decode_buttonPressed : ∀ p, DecAgrees .buttonPressed (Src.decode_buttonPressed p) p := by dec_agree Src.decode_buttonPressed Kind.buttonPressed
theorem src_decode_buttonReleased : ∀ p, DecAgrees .buttonReleased (Src.decode_buttonReleased p) p := by dec_agree Src.decode_buttonReleased Kind.buttonReleased
theorem src_decode_systemTick : ∀ p, DecAgrees .systemTick (Src.decode_systemTick p) p := by dec_agree Src.decode_systemTick Kind.systemTick
theorem src_decode_startConfigUpgrade : ∀ p, DecAgrees .startConfigUpgrade (Src.decode_startConfigUpgrade p) p := by dec_agree Src.decode_startConfigUpgrade Kind.startConfigUpgrade
theorem src_decode_setDeviceAddress : ∀ p, DecAgrees .setDeviceAddress (Src.decode_setDeviceAddress p) p := by dec_agree Src.decode_setDeviceAddress Kind.setDeviceAddress
theorem src_decode_bcmAnimate : ∀ p, DecAgrees .bcmAnimate (Src.decode_bcmAnimate p) p := by dec_agree Src.decode_bcmAnimate Kind.bcmAnimate
theorem src_decode_relaySet : ∀ p, DecAgrees .relaySet (Src.decode_relaySet p) p := by dec_agree Src.decode_relaySet Kind.relaySet
theorem src_decode_gatewayDiscover : ∀ p, DecAgrees .gatewayDiscover (Src.decode_gatewayDiscover p) p := by dec_agree Src.decode_gatewayDiscover Kind.gatewayDiscover

/-- all sixteen kinds at once (`Src.decodeK` is the translated decoder where there is one, the model's otherwise) -/
theorem src_decodeK_agrees (k : Kind) (p : Packet) : DecAgrees k (Src.decodeK k p) p := by
  cases k
  case data => exact src_decode_data p
  case message => exact DecAgrees.of_eq rfl
  case bootloaderHello => exact src_decode_bootloaderHello p
  case programmerHello => exact src_decode_programmerHello p
  case startFirmwareUpgrade => exact src_decode_startFirmwareUpgrade p
  case ack => exact src_decode_ack p
  case configuratorHello => exact src_decode_configuratorHello p
  case bcmChange => exact src_decode_bcmChange p
  case buttonPressed => exact src_decode_buttonPressed p
  case buttonReleased => exact src_decode_buttonReleased p
  case systemTick => exact src_decode_systemTick p
  case startConfigUpgrade => exact src_decode_startConfigUpgrade p
  case setDeviceAddress => exact src_decode_setDeviceAddress p
  case bcmAnimate => exact src_decode_bcmAnimate p
  case relaySet => exact src_decode_relaySet p
  case gatewayDiscover => exact src_decode_gatewayDiscover p

#print axioms src_decodeK_agrees
end Ross
