import RossModel.Lemmas.EndToEnd
import RossModel.Lemmas.SerialEnd
import RossModel.Lemmas.SendMany
import RossModel.Lemmas.History
/-!
# C01 with both nodes in the model

`end_to_end_*` take the wire as given ("the bytes of the events C16 routes to the link"). Here the sending node is in
the model too: a `Proto` whose `send_packet` is called for every event in turn, on top of the USART sender whose device
applies back-pressure. Composition of C16 (`sendPacket_spec`: what goes to the link), C14 (`usartSendMany_exact`: the
bytes the device accepts under any would-block schedule), C13/C15 (`end_to_end_usart`).
-/
namespace Ross

/-- `send_packet` for every packet in turn -/
def Proto.sendAll (s : Proto) (ps : List Packet) : Proto := ps.foldl (fun st p => (st.sendPacket p).1) s

theorem send_addr (s : Proto) (p : Packet) : (s.sendPacket p).1.addr = s.addr := by
  unfold Proto.sendPacket
  split
  · split
    · exact (dispatch_spec s p true).1.addr
    · exact ((ifaceSend_spec (s.dispatch p true) p).1.addr).trans (dispatch_spec s p true).1.addr
  · exact (ifaceSend_spec s p).1.addr

/-- what a node whose handlers transmit nothing themselves puts on its link when it sends the events `es`: exactly the
encodings of the events not addressed to itself (all of them when its own address is the broadcast address), in order -/
theorem sendAll_tx (pad : Pad) (s : Proto) (hq : ∀ h ∈ s.handlers, h.2.sends = []) (es : List Event) :
    txOf (s.sendAll (es.map (encode pad))).log = txOf s.log ++ (es.filter (routed s.addr)).map (encode pad) := by
  induction es generalizing s with
  | nil => simp [Proto.sendAll]
  | cons e es ih =>
    have hh := send_handlers s (encode pad e)
    have ha := send_addr s (encode pad e)
    have hsends : (s.handlers.map Prod.snd).flatMap (fun h => wireSends s.addr h.sends) = [] := by
      simp only [List.flatMap_eq_nil_iff, List.mem_map]
      rintro h ⟨x, hx, rfl⟩; rw [hq x hx]; rfl
    have haddr : (encode pad e).addr = e.receiver := by cases e <;> rfl
    obtain ⟨c1, c2, c3⟩ := sendPacket_spec s (encode pad e)
    have step : txOf (s.sendPacket (encode pad e)).1.log =
        txOf s.log ++ (if routed s.addr e then [encode pad e] else []) := by
      by_cases h1 : (encode pad e).addr = s.addr
      · by_cases h2 : s.addr = BROADCAST
        · rw [(c2 h1 h2).2, hsends]
          have : routed s.addr e = true := by simp [routed, h2]
          simp [this]
        · rw [(c1 h1 h2).2.2, hsends]
          have : routed s.addr e = false := by
            simp only [routed, Bool.or_eq_false_iff, bne_eq_false_iff_eq, beq_eq_false_iff_ne, ne_eq]
            exact ⟨by rw [← haddr]; exact h1, h2⟩
          simp [this]
      · rw [(c3 h1).2]
        have : routed s.addr e = true := by
          simp only [routed, Bool.or_eq_true, bne_iff_ne, ne_eq]
          left; rw [← haddr]; exact h1
        simp [this]
    have := ih (s.sendPacket (encode pad e)).1 (by rw [hh]; exact hq)
    simp only [Proto.sendAll, List.map_cons, List.foldl_cons] at this ⊢
    rw [this, step, ha]
    by_cases hr : routed s.addr e <;> simp [List.filter_cons, hr]

theorem flatMap_wireOf (uss : List (List (List UInt8))) : uss.flatMap wireOf = wireOf uss.flatten := by
  induction uss with
  | nil => rfl
  | cons u t ih => simp only [List.flatMap_cons, List.flatten_cons, ih, wireOf, List.flatMap_append]

/-- **C01, both nodes in the model (USART):** node `a` calls `send_packet` for every event of `es` on a USART whose
device may answer would-block any number of times before any byte (`rs`); node `b` polls a device that delivers exactly
the bytes node `a`'s device accepted, with "no data yet" anywhere (`s`). Then the handlers of `b` are called, in order,
exactly once per event that was not addressed to `a` itself — all handlers when the event is for `b` or for everybody,
the capture-all handlers otherwise — each with a packet that decodes to the event sent. -/
theorem two_nodes_usart (pad : Pad) (es : List Event) (hwf : ∀ e ∈ es, e.WF ∧ (encode pad e).data.length ≤ 28672)
    (nodeA : Proto) (hA : ∀ h ∈ nodeA.handlers, h.2.sends = []) (hlog : nodeA.log = [])
    (rs : List WResp) (hrs : ∀ r ∈ rs, r ≠ .error)
    (b : UInt16) (handlers : List (Nat × Handler)) (s : List ByteItem)
    (hs : s.filter notWouldBlock =
      (usartSendMany ((txOf (nodeA.sendAll (es.map (encode pad))).log).map usartBodies) rs).map .byte) :
    let rx : Proto := ⟨b, handlers, (usartPolls LinkSt.init s).map toRx, [], []⟩
    callsOf rx.tickAll.log =
      (es.filter (routed nodeA.addr)).flatMap (fun e =>
        (recipients handlers (e.receiver == b || e.receiver == BROADCAST)).map fun h => (h.token, encode pad e)) ∧
    ∀ e ∈ es, decode e.kind (encode pad e) = .ok e := by
  have htx := sendAll_tx pad nodeA hA es
  rw [hlog] at htx
  simp only [txOf, List.filterMap_nil, List.nil_append] at htx
  have htx' : txOf (nodeA.sendAll (es.map (encode pad))).log = (es.filter (routed nodeA.addr)).map (encode pad) := htx
  rw [htx', usartSendMany_exact _ rs hrs, flatMap_wireOf] at hs
  have hs' : s.filter notWouldBlock =
      (wireOf (((es.filter (routed nodeA.addr)).map (encode pad)).flatMap usartBodies)).map .byte := by
    rw [hs]; simp [List.flatMap, List.map_map]
  exact end_to_end_usart pad es hwf nodeA.addr b handlers s hs'

end Ross

namespace Ross

/-- **C01, both nodes in the model (CAN):** node `a` sends every event with `send_packet` over a CAN controller whose
mailboxes may be busy any number of times but never report a displaced frame (`rs`); node `b` polls a controller that
delivers exactly the frames node `a`'s controller accepted, with "no frame yet" anywhere (`s`). -/
theorem two_nodes_can (pad : Pad) (es : List Event) (hwf : ∀ e ∈ es, e.WF ∧ (encode pad e).data.length ≤ 28672)
    (nodeA : Proto) (hA : ∀ h ∈ nodeA.handlers, h.2.sends = []) (hlog : nodeA.log = [])
    (rs : List TxResp) (hrs : ∀ r ∈ rs, r ≠ .displaced)
    (b : UInt16) (handlers : List (Nat × Handler)) (s : List CanItem)
    (hs : s.filter isCanFrame =
      (canSendMany ((txOf (nodeA.sendAll (es.map (encode pad))).log).map canWire) rs).1.map .frame) :
    let rx : Proto := ⟨b, handlers, (canPolls none s).map toRx, [], []⟩
    callsOf rx.tickAll.log =
      (es.filter (routed nodeA.addr)).flatMap (fun e =>
        (recipients handlers (e.receiver == b || e.receiver == BROADCAST)).map fun h => (h.token, encode pad e)) ∧
    ∀ e ∈ es, decode e.kind (encode pad e) = .ok e := by
  have htx := sendAll_tx pad nodeA hA es
  rw [hlog] at htx
  simp only [txOf, List.filterMap_nil, List.nil_append] at htx
  have htx' : txOf (nodeA.sendAll (es.map (encode pad))).log = (es.filter (routed nodeA.addr)).map (encode pad) := htx
  rw [htx', canSendMany_exact _ rs hrs] at hs
  have hs' : s.filter isCanFrame = (((es.filter (routed nodeA.addr)).map (encode pad)).flatMap canWire).map .frame := by
    rw [hs]; simp [List.flatMap, List.map_map]
  exact end_to_end_can pad es hwf nodeA.addr b handlers s hs'

end Ross

namespace Ross

theorem wireOf_cons (a : List UInt8) (t : List (List UInt8)) :
    wireOf (a :: t) = 0x00 :: UInt8.ofNat a.length :: (a ++ wireOf t) := by
  simp [wireOf, linkFrame]

/-- the wire image determines the link frames: bodies of at most 255 bytes can be read back from the byte stream -/
theorem wireOf_inj (as bs : List (List UInt8)) (ha : ∀ a ∈ as, a.length ≤ 255) (hb : ∀ b ∈ bs, b.length ≤ 255)
    (h : wireOf as = wireOf bs) : as = bs := by
  induction as generalizing bs with
  | nil =>
    cases bs with
    | nil => rfl
    | cons b bt => rw [wireOf_cons] at h; simp [wireOf] at h
  | cons a at' ih =>
    cases bs with
    | nil => rw [wireOf_cons] at h; simp [wireOf] at h
    | cons b bt =>
      rw [wireOf_cons, wireOf_cons] at h
      simp only [List.cons.injEq, true_and] at h
      obtain ⟨hl, hrest⟩ := h
      have hla := ha a (by simp)
      have hlb := hb b (by simp)
      have hlen : a.length = b.length := by
        have := congrArg UInt8.toNat hl
        simp only [UInt8.toNat_ofNat'] at this
        omega
      obtain ⟨h1, h2⟩ := List.append_inj hrest hlen
      rw [h1, ih bt (fun x hx => ha x (by simp [hx])) (fun x hx => hb x (by simp [hx])) h2]

/-- the data bytes of a device script -/
def bytesOf : List ByteItem → List UInt8
  | [] => []
  | .byte b :: t => b :: bytesOf t
  | _ :: t => bytesOf t

theorem bytesOf_append (a b : List ByteItem) : bytesOf (a ++ b) = bytesOf a ++ bytesOf b := by
  induction a with
  | nil => rfl
  | cons x t ih => cases x <;> simp [bytesOf, ih]

theorem bytesOf_map_byte (l : List UInt8) : bytesOf (l.map .byte) = l := by
  induction l with
  | nil => rfl
  | cons x t ih => simp [bytesOf, ih]

def Seg.isNoise : Seg → Bool
  | .noise _ => true
  | _ => false

/-- a script made of time-outs and whole link frames carries exactly the wire image of its frames -/
theorem bytesOf_segs (segs : List Seg) (hn : ∀ sg ∈ segs, sg.isNoise = false) :
    bytesOf (segs.flatMap Seg.items) = wireOf (Seg.bodies segs) := by
  induction segs with
  | nil => rfl
  | cons sg t ih =>
    have ht := ih (fun x hx => hn x (by simp [hx]))
    cases sg with
    | gap => simp [Seg.items, Seg.bodies, bytesOf, ht]
    | noise bs => exact absurd (hn (.noise bs) (by simp)) (by simp [Seg.isNoise])
    | frame body =>
      simp only [List.flatMap_cons, Seg.items, Seg.bodies, bytesOf_append, bytesOf_map_byte, ht]
      simp [wireOf]

/-- **C01, both nodes in the model (serial port):** node `a` sends every event over a serial port that may accept any
positive number of bytes per write and interrupt any write, and whose flushes succeed; node `b` reads a port that
delivers exactly the bytes `a`'s port accepted, timing out any number of times between link frames. -/
theorem two_nodes_serial (pad : Pad) (es : List Event) (hwf : ∀ e ∈ es, e.WF ∧ (encode pad e).data.length ≤ 28672)
    (nodeA : Proto) (hA : ∀ h ∈ nodeA.handlers, h.2.sends = []) (hlog : nodeA.log = [])
    (rs : List IoResp) (fls : List FlushResp) (hrs : ∀ r ∈ rs, r.isFault = false) (hfl : ∀ f ∈ fls, f = .ok)
    (b : UInt16) (handlers : List (Nat × Handler)) (segs : List Seg)
    (hn : ∀ sg ∈ segs, sg.isNoise = false) (hok : ∀ sg ∈ segs, sg.Ok)
    (hs : bytesOf (segs.flatMap Seg.items) =
      (serialSendMany ((txOf (nodeA.sendAll (es.map (encode pad))).log).map usartBodies) rs fls).1) :
    let rx : Proto := ⟨b, handlers, (serialPolls LinkSt.init (segs.flatMap Seg.items)).map toRx, [], []⟩
    callsOf rx.tickAll.log =
      (es.filter (routed nodeA.addr)).flatMap (fun e =>
        (recipients handlers (e.receiver == b || e.receiver == BROADCAST)).map fun h => (h.token, encode pad e)) ∧
    ∀ e ∈ es, decode e.kind (encode pad e) = .ok e := by
  have htx := sendAll_tx pad nodeA hA es
  rw [hlog] at htx
  simp only [txOf, List.filterMap_nil, List.nil_append] at htx
  have htx' : txOf (nodeA.sendAll (es.map (encode pad))).log = (es.filter (routed nodeA.addr)).map (encode pad) := htx
  rw [htx', serialSendMany_exact _ rs fls hrs hfl, bytesOf_segs segs hn, flatMap_wireOf] at hs
  simp only at hs
  have hps : ∀ p ∈ (es.filter (routed nodeA.addr)).map (encode pad), p.data.length ≤ 28672 := by
    intro p hp
    obtain ⟨e, he, rfl⟩ := List.mem_map.mp hp
    exact (hwf e (List.mem_filter.mp he).1).2
  have hbod : Seg.bodies segs = ((es.filter (routed nodeA.addr)).map (encode pad)).flatMap usartBodies := by
    have hl1 : ∀ x ∈ Seg.bodies segs, x.length ≤ 255 := by
      intro x hx
      clear hs
      induction segs with
      | nil => simp [Seg.bodies] at hx
      | cons sg t ih =>
        cases sg with
        | frame body =>
          simp only [Seg.bodies, List.mem_cons] at hx
          rcases hx with rfl | hx
          · exact hok (.frame x) (by simp)
          · exact ih (fun y hy => hn y (by simp [hy])) (fun y hy => hok y (by simp [hy])) hx
        | gap => exact ih (fun y hy => hn y (by simp [hy])) (fun y hy => hok y (by simp [hy])) (by simpa [Seg.bodies] using hx)
        | noise bs => exact ih (fun y hy => hn y (by simp [hy])) (fun y hy => hok y (by simp [hy])) (by simpa [Seg.bodies] using hx)
    have hl2 : ∀ x ∈ (((es.filter (routed nodeA.addr)).map (encode pad)).map usartBodies).flatten, x.length ≤ 255 := by
      intro x hx
      simp only [List.mem_flatten, List.mem_map] at hx
      obtain ⟨l, ⟨p, hp, rfl⟩, hx⟩ := hx
      have := usartBodies_len p (hps p (List.mem_map.mpr hp)) x hx
      omega
    have := wireOf_inj _ _ hl1 hl2 hs
    rw [this]; simp [List.flatMap]
  have hnoise : ∀ sg ∈ segs, ∀ bs, sg = .noise bs → ∀ b ∈ bs, b ≠ 0 := by
    intro sg hsg bs hbs
    subst hbs
    exact absurd (hn _ hsg) (by simp [Seg.isNoise])
  exact end_to_end_serial pad es hwf nodeA.addr b handlers segs hnoise hbod

end Ross
