import RossModel.Link
import RossModel.Lemmas.Packet
/-!
# Receivers: emissions depend only on the frames, not on the polling schedule; resynchronisation
-/
namespace Ross

theorem run_append (st : RxSt) (a b : List (Res FErr Frame)) :
    run st (a ++ b) = let (ea, sa) := run st a; let (eb, sb) := run sa b; (ea ++ eb, sb) := by
  induction a generalizing st with
  | nil => simp [run]
  | cons f fs ih =>
    simp only [List.cons_append, run]
    rcases h : rxFrame st f with ⟨st', _ | e⟩ <;> simp [ih]

/-! ## CAN -/

def emitsOf : List Out → List Out := List.filter (· ≠ .nothing)

@[simp] theorem emitsOf_nil : emitsOf [] = [] := rfl
@[simp] theorem emitsOf_cons_nothing (l : List Out) : emitsOf (.nothing :: l) = emitsOf l := by simp [emitsOf]
theorem emitsOf_cons_ne (o : Out) (l : List Out) (h : o ≠ .nothing) : emitsOf (o :: l) = o :: emitsOf l := by
  simp [emitsOf, h]
@[simp] theorem emitsOf_cons_emit (e : Emit) (l : List Out) : emitsOf (.emit e :: l) = .emit e :: emitsOf l :=
  emitsOf_cons_ne _ _ (by simp)
theorem emitsOf_cons_congr (o : Out) (l l' : List Out) (h : emitsOf l = emitsOf l') :
    emitsOf (o :: l) = emitsOf (o :: l') := by
  by_cases ho : o = .nothing
  · subst ho; simpa using h
  · rw [emitsOf_cons_ne o l ho, emitsOf_cons_ne o l' ho, h]

def canFrames : List CanItem → List (Res FErr Frame)
  | [] => []
  | .frame c :: s => fromCan c :: canFrames s
  | _ :: s => canFrames s

theorem canPolls_frame_some {st st' : RxSt} {c : CanFrame} {e : Emit} (s : List CanItem)
    (h : rxFrame st (fromCan c) = (st', some e)) : canPolls st (.frame c :: s) = .emit e :: canPolls st' s := by
  simp [canPolls, h]
theorem canPolls_frame_none {st st' : RxSt} {c : CanFrame} (s : List CanItem)
    (h : rxFrame st (fromCan c) = (st', none)) : canPolls st (.frame c :: s) = canPolls st' s := by
  simp [canPolls, h]
theorem canPoll_frame_some {st st' : RxSt} {c : CanFrame} {e : Emit} (s : List CanItem)
    (h : rxFrame st (fromCan c) = (st', some e)) : canPoll st (.frame c :: s) = (.emit e, st', s) := by
  simp [canPoll, h]
theorem canPoll_frame_none {st st' : RxSt} {c : CanFrame} (s : List CanItem)
    (h : rxFrame st (fromCan c) = (st', none)) : canPoll st (.frame c :: s) = canPoll st' s := by
  simp [canPoll, h]

/-- `canPolls` is: call `try_get_packet` until a call returns nothing with the script empty -/
theorem canPolls_unfold (st : RxSt) (s : List CanItem) :
    canPolls st s = match canPoll st s with
      | (r, st', s') => if r = .nothing ∧ s' = [] then [.nothing] else r :: canPolls st' s' := by
  induction s generalizing st with
  | nil => simp [canPolls, canPoll]
  | cons it s ih =>
    cases it with
    | wouldBlock => simp only [canPolls, canPoll]; by_cases hs : s = [] <;> simp [hs]
    | overrun => simp only [canPolls, canPoll]; by_cases hs : s = [] <;> simp [hs]
    | frame c =>
      cases hrx : rxFrame st (fromCan c) with
      | mk st' oe =>
        cases oe with
        | none => rw [canPoll_frame_none s hrx, canPolls_frame_none s hrx]; exact ih st'
        | some e => rw [canPoll_frame_some s hrx, canPolls_frame_some s hrx]; simp

/-- C13 (CAN), schedule independence: what the polls deliver is `run` over the frames, wherever the
would-blocks are -/
theorem canPolls_eq_run (st : RxSt) (s : List CanItem) :
    emitsOf (canPolls st s) = (run st (canFrames s)).1.map .emit := by
  induction s generalizing st with
  | nil => simp [canPolls, run, canFrames]
  | cons it s ih =>
    cases it with
    | wouldBlock =>
      simp only [canPolls, canFrames]
      by_cases hs : s = []
      · subst hs; simp [canFrames, run]
      · simp [hs, ih]
    | overrun =>
      simp only [canPolls, canFrames]
      by_cases hs : s = []
      · subst hs; simp [canFrames, run]
      · simp [hs, ih]
    | frame c =>
      cases hrx : rxFrame st (fromCan c) with
      | mk st' oe =>
        cases oe with
        | none => rw [canPolls_frame_none s hrx]; simp [canFrames, run, hrx, ih]
        | some e => rw [canPolls_frame_some s hrx]; simp [canFrames, run, hrx, ih]

/-! ## resynchronisation (C06) -/

theorem addFrame_start_err (b : Builder) (f : Frame) (hs : f.start = true) : ∃ e, b.addFrame f = .err e := by
  unfold Builder.addFrame
  split; · exact ⟨_, rfl⟩
  split; · exact ⟨_, rfl⟩
  simp [hs]

theorem new_nonstart_err (f : Frame) (hs : f.start = false) : Builder.new f = .err .outOfOrder := by
  simp [Builder.new, hs]

/-- a pending packet never swallows the start frame of another one: it is dropped, with an error -/
theorem rxStep_start_some (b : Builder) (f : Frame) (hs : f.start = true) :
    ∃ e, rxStep (some b) f = (none, some (.builderErr e)) := by
  obtain ⟨e, he⟩ := addFrame_start_err b f hs
  exact ⟨e, by simp [rxStep, he]⟩

/-- without a pending packet, continuation frames are rejected one by one -/
theorem run_nonstart_none (fs : List Frame) (h : ∀ f ∈ fs, f.start = false) :
    run none (fs.map .ok) = (fs.map fun _ => .builderErr .outOfOrder, none) := by
  induction fs with
  | nil => simp [run]
  | cons f fs ih =>
    have hf := new_nonstart_err f (h f (by simp))
    simp [run, rxFrame, rxStep, hf, ih (fun g hg => h g (by simp [hg]))]

#print axioms canPolls_eq_run
#print axioms canPolls_unfold
end Ross
