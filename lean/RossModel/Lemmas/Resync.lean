import RossModel.Lemmas.Transparent
import RossModel.Lemmas.Memory
/-!
# C06 at link level: hostile traffic followed by two well-formed packets
-/
namespace Ross

/-- what `run_resync` allows the probe phase to emit -/
def ProbeOutcome (a b : Packet) (outs : List Emit) : Prop :=
  outs = [.packet a, .packet b] ∨ ∃ errs : List BErr, errs ≠ [] ∧ outs = errs.map .builderErr ++ [.packet b]

theorem emitsOf_map_emit (l : List Emit) : emitsOf (l.map .emit) = l.map .emit := by
  induction l with
  | nil => rfl
  | cons e l ih => simp [ih]

theorem run_junk_then_probes (junk : List (Res FErr Frame)) (a b : Packet)
    (ha : a.data.length ≤ 28672) (hb : b.data.length ≤ 28672) :
    ∃ outsJ outs, run none (junk ++ (specFrames a ++ specFrames b).map .ok) = (outsJ ++ outs, none) ∧
      outsJ = (run none junk).1 ∧ ProbeOutcome a b outs := by
  rw [run_append]
  obtain ⟨outs, h1, h2⟩ := run_resync (run none junk).2 a b ha hb
  refine ⟨(run none junk).1, outs, ?_, rfl, h2⟩
  rcases hj : run none junk with ⟨ea, sa⟩
  rw [hj] at h1
  simp only [h1]

/-- C06 (USART): after **any** sequence of whole link frames with arbitrary bodies (and any placement of
would-blocks), two well-formed packets arriving back to back: the receiver never blocks, never panics,
reads nothing beyond the script; the second packet is delivered intact, the first is delivered intact or
dropped with errors, and nothing else is delivered in the probe phase -/
theorem usart_resync (junk : List (List UInt8)) (hj : ∀ x ∈ junk, x.length ≤ 255) (a b : Packet)
    (ha : a.data.length ≤ 28672) (hb : b.data.length ≤ 28672) (s : List ByteItem)
    (hs : s.filter notWouldBlock = (wireOf (junk ++ usartBodies a ++ usartBodies b)).map .byte) :
    ∃ outsJ outs, emitsOf (usartPolls LinkSt.init s) = (outsJ ++ outs).map .emit ∧
      Emit.panic ∉ outsJ ∧ ProbeOutcome a b outs := by
  rw [usartPolls_erase, hs, LinkSt.init]
  have hlen : ∀ x ∈ junk ++ usartBodies a ++ usartBodies b, x.length ≤ 255 := by
    intro x hx
    simp only [List.mem_append] at hx
    rcases hx with (hx | hx) | hx
    · exact hj x hx
    · exact usartBodies_len a ha x hx
    · exact usartBodies_len b hb x hx
  rw [usartPolls_wire none _ hlen]
  simp only [List.map_append, usartBodies_decode a ha, usartBodies_decode b hb]
  obtain ⟨outsJ, outs, h1, h2, h3⟩ := run_junk_then_probes (junk.map fromUsart) a b ha hb
  rw [List.append_assoc, ← List.map_append, h1]
  refine ⟨outsJ, outs, ?_, ?_, h3⟩
  · simp only []
    rw [show emitsOf (List.map Out.emit (outsJ ++ outs) ++ [Out.nothing]) = emitsOf (List.map Out.emit (outsJ ++ outs)) by
      simp [emitsOf, List.filter_append]]
    rw [emitsOf_map_emit, List.map_append]
  · rw [h2]
    exact (run_inv none (junk.map fromUsart) (by
      intro r hr
      obtain ⟨x, _, rfl⟩ := List.mem_map.mp hr
      exact ⟨fun f hf => fromUsart_wf x f hf, fromUsart_no_panic x⟩) trivial).2

/-- C06 (CAN): the same after any sequence of driver-constructible CAN frames -/
theorem can_resync (junk : List CanFrame) (hj : ∀ c ∈ junk, c.Constructible) (a b : Packet)
    (ha : a.data.length ≤ 28672) (hb : b.data.length ≤ 28672) (s : List CanItem)
    (hs : s.filter isCanFrame = (junk ++ canWire a ++ canWire b).map .frame) :
    ∃ outsJ outs, emitsOf (canPolls none s) = (outsJ ++ outs).map .emit ∧
      Emit.panic ∉ outsJ ∧ ProbeOutcome a b outs := by
  rw [canPolls_eq_run, canFrames_filter s _ hs]
  simp only [List.map_append, canWire_decode a ha, canWire_decode b hb]
  obtain ⟨outsJ, outs, h1, h2, h3⟩ := run_junk_then_probes (junk.map fromCan) a b ha hb
  rw [List.append_assoc, ← List.map_append, h1]
  refine ⟨outsJ, outs, by simp, ?_, h3⟩
  rw [h2]
  exact (run_inv none (junk.map fromCan) (by
    intro r hr
    obtain ⟨x, hx, rfl⟩ := List.mem_map.mp hr
    exact ⟨fun f hf => fromCan_wf x (hj x hx) f hf, fromCan_no_panic x (hj x hx)⟩) trivial).2


/-- C06 (USART and serial port, segment form): hostile traffic = arbitrary whole link frames with
"no data yet" answers and non-zero noise anywhere between link frames (also between the frames of the
two probe packets) -/
theorem byte_resync (step : LinkSt → ByteItem → LinkSt × Option Out)
    (hstep : ∀ st b, step st (.byte b) = usartStep st (.byte b))
    (hgap : ∀ rx, step ⟨.idle, rx⟩ .wouldBlock = (⟨.idle, rx⟩, some .nothing))
    (segs : List Seg) (hok : ∀ sg ∈ segs, sg.Ok) (junk : List (List UInt8)) (a b : Packet)
    (ha : a.data.length ≤ 28672) (hb : b.data.length ≤ 28672)
    (hs : Seg.bodies segs = junk ++ usartBodies a ++ usartBodies b) :
    ∃ outsJ outs, emitsOf (bytePolls step LinkSt.init (segs.flatMap Seg.items)) = (outsJ ++ outs).map .emit ∧
      Emit.panic ∉ outsJ ∧ ProbeOutcome a b outs := by
  rw [LinkSt.init, bytePolls_segs step hstep hgap none segs hok, hs]
  simp only [List.map_append, usartBodies_decode a ha, usartBodies_decode b hb]
  obtain ⟨outsJ, outs, h1, h2, h3⟩ := run_junk_then_probes (junk.map fromUsart) a b ha hb
  rw [List.append_assoc, ← List.map_append, h1]
  refine ⟨outsJ, outs, by simp, ?_, h3⟩
  rw [h2]
  exact (run_inv none (junk.map fromUsart) (by
    intro r hr
    obtain ⟨x, _, rfl⟩ := List.mem_map.mp hr
    exact ⟨fun f hf => fromUsart_wf x f hf, fromUsart_no_panic x⟩) trivial).2

theorem serial_resync_raw (segs : List Seg) (hok : ∀ sg ∈ segs, sg.Ok) (junk : List (List UInt8)) (a b : Packet)
    (ha : a.data.length ≤ 28672) (hb : b.data.length ≤ 28672)
    (hs : Seg.bodies segs = junk ++ usartBodies a ++ usartBodies b) :
    ∃ outsJ outs, emitsOf (serialPollsRaw LinkSt.init (segs.flatMap Seg.items)) = (outsJ ++ outs).map .emit ∧
      Emit.panic ∉ outsJ ∧ ProbeOutcome a b outs :=
  byte_resync serialStep serialStep_byte (fun _ => rfl) segs hok junk a b ha hb hs

#print axioms serial_resync_raw
#print axioms usart_resync
#print axioms can_resync
end Ross
