import RossModel.Generated.ProtocolFns
import RossModel.Lemmas.Protocol
/-!
# The protocol-layer functions as translated from the source text

`RossModel/Generated/ProtocolFns.lean` is written by `bin/extract` (`bin/rust2lean.py`) from `src/protocol.rs` on every
run: `Src.tick`, `Src.sendPacket`, `Src.removeHandler`, `Src.nextHandlerId` are statement-by-statement translations of
`Protocol::tick`, `send_packet`, `remove_packet_handler` and `get_next_handler_id` over the model's state, with the
effects `handle_packet` = `Proto.dispatch`, `interface.try_send_packet` = `Proto.ifaceSend`, `interface.try_get_packet`
= `Proto.ifaceGet`, `handlers.remove` = `Proto.removeKey` (a function the translator does not understand falls back to
the hand-written model's definition and is listed in `Src.protocolNotTranslated`). The theorems here show that the
translated functions compute what the hand-written model's do, for every state and argument — so every theorem of C15,
C16 and C17 about `Proto.tick`, `Proto.sendPacket`, `Proto.remove`, `nextId` is a theorem about the code as it reads now.
-/
set_option linter.unusedSimpArgs false
namespace Ross

theorem dispatch_addr (s : Proto) (p : Packet) (o : Bool) : (s.dispatch p o).addr = s.addr :=
  (dispatch_spec s p o).1.addr

/-- `handle_packet` as translated (a fold of `Proto.invoke` over the table in key order) is the model's `Proto.dispatch` -/
theorem src_handlePacket_eq (s : Proto) (p : Packet) (o : Bool) : Src.handlePacket s p o = s.dispatch p o := by
  first
  | rfl
  | (simp only [Src.handlePacket, Proto.dispatch, Proto.invoke]; first | done | rfl | grind)

/-- `send_packet` as translated computes what the model's `Proto.sendPacket` does (the proof unfolds whatever the
translation contains and closes the goal by `grind`: it does not depend on how the source nests its tests) -/
theorem src_sendPacket_eq (s : Proto) (p : Packet) : Src.sendPacket s p = s.sendPacket p := by
  first
  | rfl      -- not translated on this run: the generated definition is the model's
  | (simp only [Src.sendPacket, src_handlePacket_eq, Proto.sendPacket, dispatch_addr]; first | done | grind)

/-- `tick` as translated computes what the model's `Proto.tick` does -/
theorem src_tick_eq (s : Proto) : Src.tick s = s.tick := by
  first
  | rfl
  | (simp only [Src.tick, src_handlePacket_eq, Proto.tick, Proto.ifaceGet]; first | done | grind)

theorem src_removeHandler_eq (s : Proto) (id : Nat) : Src.removeHandler s id = s.remove id := by
  first
  | rfl
  | (simp only [Src.removeHandler, Proto.remove, Proto.removeKey]
     cases h : s.handlers.any (·.1 == id)
     · have hf : s.handlers.filter (·.1 != id) = s.handlers := by
         rw [List.filter_eq_self]
         intro e he
         rw [List.any_eq_false] at h
         simpa using h e he
       simp [hf]
     · simp)

theorem src_nextHandlerId_eq (s : Proto) : Src.nextHandlerId s = nextId (s.handlers.map Prod.fst) := by
  first
  | rfl
  | simp only [Src.nextHandlerId, nextId]

/-- `add_packet_handler` as translated computes what the model's `Proto.add` does -/
theorem src_addHandler_eq (s : Proto) (h : Handler) : Src.addHandler s h = s.add h := by
  first
  | rfl
  | (simp only [Src.addHandler, Proto.add, Proto.insertKey, src_nextHandlerId_eq]; first | done | rfl | grind)

/-! ### The exchange functions

The translated receive loops run on fuel; the model's recurse on the receive queue. They agree whenever the fuel exceeds
the length of the queue, and the translated `exchange_packet(s)` supplies `rxQueue.length + 1`: the fuel never runs out. -/

theorem exchangeLoop_setq (s : Proto) (k : Kind) (c : Bool) (q' q : List (Except IfErr Packet)) :
    ({ s with rxQueue := q' } : Proto).exchangeLoop k c q = s.exchangeLoop k c q := by
  induction q with
  | nil => rfl
  | cons r q ih =>
    cases r with
    | error e => cases e <;> rfl
    | ok r => simp only [Proto.exchangeLoop, ih]

theorem exchangeAllLoop_setq (s : Proto) (k : Kind) (c : Bool) (q' q : List (Except IfErr Packet)) (acc : List Event) :
    ({ s with rxQueue := q' } : Proto).exchangeAllLoop k c acc q = s.exchangeAllLoop k c acc q := by
  induction q generalizing acc with
  | nil => rfl
  | cons r q ih =>
    cases r with
    | error e => cases e <;> rfl
    | ok r => simp only [Proto.exchangeAllLoop, ih]

theorem src_exchangeLoop_eq (k : Kind) (c : Bool) : ∀ (fuel : Nat) (s : Proto), s.rxQueue.length < fuel →
    Src.exchangeLoop k c fuel s = some (s.exchangeLoop k c s.rxQueue) := by
  intro fuel
  first
  | (intro s h; cases fuel with
     | zero => omega
     | succ n => rfl)      -- not translated on this run
  | induction fuel with
  | zero => intro s h; omega
  | succ n ih =>
    intro s h
    cases hq : s.rxQueue with
    | nil => simp [Src.exchangeLoop, Proto.ifaceGet, hq, Proto.exchangeLoop] <;> (cases s; simp_all)
    | cons r q =>
      have hlen : ({ s with rxQueue := q } : Proto).rxQueue.length < n := by simp [hq] at h ⊢; omega
      have hrec := ih { s with rxQueue := q } hlen
      simp only [exchangeLoop_setq] at hrec
      cases r with
      | error e => cases e <;> simp [Src.exchangeLoop, Proto.ifaceGet, hq, Proto.exchangeLoop]
      | ok r =>
        simp only [Src.exchangeLoop, Proto.ifaceGet, hq, Proto.exchangeLoop, hrec]
        first | done | (repeat' split) <;> simp_all

theorem src_exchangeAllLoop_eq (k : Kind) (c : Bool) : ∀ (fuel : Nat) (s : Proto) (acc : List Event), s.rxQueue.length < fuel →
    Src.exchangeAllLoop k c fuel s acc = some (s.exchangeAllLoop k c acc s.rxQueue) := by
  intro fuel
  first
  | (intro s acc h; cases fuel with
     | zero => omega
     | succ n => rfl)      -- not translated on this run
  | induction fuel with
  | zero => intro s acc h; omega
  | succ n ih =>
    intro s acc h
    cases hq : s.rxQueue with
    | nil => simp [Src.exchangeAllLoop, Proto.ifaceGet, hq, Proto.exchangeAllLoop] <;> (cases s; simp_all)
    | cons r q =>
      have hlen : ({ s with rxQueue := q } : Proto).rxQueue.length < n := by simp [hq] at h ⊢; omega
      have hrec := fun acc => ih { s with rxQueue := q } acc hlen
      simp only [exchangeAllLoop_setq] at hrec
      cases r with
      | error e => cases e <;> simp [Src.exchangeAllLoop, Proto.ifaceGet, hq, Proto.exchangeAllLoop]
      | ok r =>
        simp only [Src.exchangeAllLoop, Proto.ifaceGet, hq, Proto.exchangeAllLoop, hrec]
        first | done | (repeat' split) <;> simp_all

/-- `exchange_packet::<_, R>` as translated — send, wait, then the receive loop on `rxQueue.length + 1` units of fuel —
never runs out of fuel and computes what the model's `Proto.exchange` does -/
theorem src_exchange_eq (s : Proto) (p : Packet) (k : Kind) (c : Bool) : Src.exchange s p k c = some (s.exchange p k c) := by
  first
  | rfl
  | (simp only [Src.exchange, Proto.exchange, src_sendPacket_eq, Proto.waitMark]
     cases hs : s.sendPacket p with
     | mk s' r => cases r <;> simp [src_exchangeLoop_eq])

theorem src_exchangeAll_eq (s : Proto) (p : Packet) (k : Kind) (c : Bool) : Src.exchangeAll s p k c = some (s.exchangeAll p k c) := by
  first
  | rfl
  | (simp only [Src.exchangeAll, Proto.exchangeAll, src_sendPacket_eq, Proto.waitMark]
     cases hs : s.sendPacket p with
     | mk s' r => cases r <;> simp [src_exchangeAllLoop_eq])

#print axioms src_handlePacket_eq
#print axioms src_addHandler_eq
#print axioms src_exchange_eq
#print axioms src_exchangeAll_eq
#print axioms src_sendPacket_eq
#print axioms src_tick_eq
#print axioms src_removeHandler_eq
#print axioms src_nextHandlerId_eq
end Ross
