import RossModel.Generated.ProtocolFns
import RossModel.Lemmas.Protocol
/-!
# The protocol-layer functions as translated from the source text

`RossModel/Generated/ProtocolFns.lean` is written by `bin/extract` (`bin/rust2lean.py`) from `src/protocol.rs` on every
run: `Src.tick`, `Src.sendPacket`, `Src.removeHandler`, `Src.nextHandlerId` are statement-by-statement translations of
`Protocol::tick`, `send_packet`, `remove_packet_handler` and `get_next_handler_id` over the model's state, with the
effects `handle_packet` = `Proto.dispatch`, `interface.try_send_packet` = `Proto.ifaceSend`, `interface.try_get_packet`
= `Proto.ifaceGet`, `handlers.remove` = `Proto.removeKey` (a function the translator does not understand falls back to
the hand-written model's definition and is listed in `Src.protocolNotTranslated`). The theorems here show that the
translated functions compute what the hand-written model's do, for every state and argument — so every theorem of C15,
C16 and C17 about `Proto.tick`, `Proto.sendPacket`, `Proto.remove`, `nextId` is a theorem about the code as it reads now.
-/
set_option linter.unusedSimpArgs false
namespace Ross

theorem dispatch_addr (s : Proto) (p : Packet) (o : Bool) : (s.dispatch p o).addr = s.addr :=
  (dispatch_spec s p o).1.addr

/-- `send_packet` as translated computes what the model's `Proto.sendPacket` does (the proof unfolds whatever the
translation contains and closes the goal by `grind`: it does not depend on how the source nests its tests) -/
theorem src_sendPacket_eq (s : Proto) (p : Packet) : Src.sendPacket s p = s.sendPacket p := by
  first
  | rfl      -- not translated on this run: the generated definition is the model's
  | (simp only [Src.sendPacket, Proto.sendPacket, dispatch_addr]; first | done | grind)

/-- `tick` as translated computes what the model's `Proto.tick` does -/
theorem src_tick_eq (s : Proto) : Src.tick s = s.tick := by
  first
  | rfl
  | (simp only [Src.tick, Proto.tick, Proto.ifaceGet]; first | done | grind)

theorem src_removeHandler_eq (s : Proto) (id : Nat) : Src.removeHandler s id = s.remove id := by
  first
  | rfl
  | (simp only [Src.removeHandler, Proto.remove, Proto.removeKey]
     cases h : s.handlers.any (·.1 == id)
     · have hf : s.handlers.filter (·.1 != id) = s.handlers := by
         rw [List.filter_eq_self]
         intro e he
         rw [List.any_eq_false] at h
         simpa using h e he
       simp [hf]
     · simp)

theorem src_nextHandlerId_eq (s : Proto) : Src.nextHandlerId s = nextId (s.handlers.map Prod.fst) := by
  first
  | rfl
  | simp only [Src.nextHandlerId, nextId]

#print axioms src_sendPacket_eq
#print axioms src_tick_eq
#print axioms src_removeHandler_eq
#print axioms src_nextHandlerId_eq
end Ross
