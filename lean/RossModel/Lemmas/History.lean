import RossModel.Lemmas.Protocol
/-!
# C15–C17 over arbitrary operation histories
-/
namespace Ross

inductive Op where
  | add (h : Handler)
  | remove (id : Nat)
  | tick
  | send (p : Packet)

def Proto.step (s : Proto) : Op → Proto
  | .add h => (s.add h).1
  | .remove id => (s.remove id).1
  | .tick => (s.tick).1
  | .send p => (s.sendPacket p).1

def Proto.reach (s : Proto) (ops : List Op) : Proto := ops.foldl Proto.step s

def tokens (s : Proto) : List Nat := s.handlers.map fun x => x.2.token

theorem tick_handlers (s : Proto) : (s.tick).1.handlers = s.handlers := by
  have := tick_spec s
  rcases h : s.rxQueue with _ | ⟨r, q⟩
  · rw [h] at this; simp only at this; rw [this]
  · rw [h] at this
    rcases r with e | p
    · cases e <;> (simp only at this; rw [this])
    · simp only at this; exact this.2.2.1

theorem send_handlers (s : Proto) (p : Packet) : (s.sendPacket p).1.handlers = s.handlers := by
  unfold Proto.sendPacket
  split
  · split
    · exact (dispatch_spec s p true).1.handlers
    · exact ((ifaceSend_spec (s.dispatch p true) p).1.handlers).trans (dispatch_spec s p true).1.handlers
  · exact (ifaceSend_spec s p).1.handlers

/-- C17 over histories: whatever is registered, removed, received or sent, the ids of the registered
handlers stay pairwise distinct (strictly ascending) -/
theorem reach_sorted (s : Proto) (hs : s.Sorted) (ops : List Op) : (s.reach ops).Sorted := by
  induction ops generalizing s with
  | nil => exact hs
  | cons op ops ih =>
    simp only [Proto.reach, List.foldl_cons]
    apply ih
    cases op with
    | add h => exact (add_spec s hs h).2.1
    | remove id =>
      by_cases hin : id ∈ s.handlers.map Prod.fst
      · exact ((remove_spec s hs id).1 hin).2.1
      · simp only [Proto.step]; rw [(remove_spec s hs id).2 hin]; exact hs
    | tick => simp only [Proto.step, Proto.Sorted, tick_handlers]; exact hs
    | send p => simp only [Proto.step, Proto.Sorted, send_handlers]; exact hs

/-- handler calls a single operation adds to the log -/
theorem step_calls (s : Proto) (op : Op) :
    ∃ new, callsOf (s.step op).log = callsOf s.log ++ new ∧ ∀ c ∈ new, c.1 ∈ tokens s := by
  have hrec : ∀ owned, ∀ c ∈ (recipients s.handlers owned).map (fun h => (h.token, (c.2 : Packet))), True := by
    intros; trivial
  have hsub : ∀ (owned : Bool) (p : Packet), ∀ c ∈ (recipients s.handlers owned).map (fun h => (h.token, p)),
      c.1 ∈ tokens s := by
    intro owned p c hc
    obtain ⟨h, hh, rfl⟩ := List.mem_map.mp hc
    simp only [recipients, List.mem_filter, List.mem_map] at hh
    obtain ⟨⟨x, hx, rfl⟩, _⟩ := hh
    exact List.mem_map.mpr ⟨x, hx, rfl⟩
  cases op with
  | add h => exact ⟨[], by simp [Proto.step, Proto.add], by simp⟩
  | remove id =>
    refine ⟨[], ?_, by simp⟩
    simp only [Proto.step, Proto.remove]; split <;> simp
  | tick =>
    have := tick_spec s
    rcases h : s.rxQueue with _ | ⟨r, q⟩
    · rw [h] at this; simp only at this; exact ⟨[], by simp [Proto.step, this], by simp⟩
    · rw [h] at this
      rcases r with e | p
      · cases e <;> (simp only at this; exact ⟨[], by simp [Proto.step, this], by simp⟩)
      · simp only at this
        exact ⟨_, this.2.2.2, hsub _ p⟩
  | send p =>
    have hall : recipients s.handlers true = s.handlers.map Prod.snd := by simp [recipients]
    obtain ⟨h1, h2, h3⟩ := sendPacket_spec s p
    by_cases ha : p.addr = s.addr
    · by_cases hb : s.addr = BROADCAST
      · refine ⟨_, (h2 ha hb).1, ?_⟩
        intro c hc
        obtain ⟨x, hx, rfl⟩ := List.mem_map.mp hc
        exact List.mem_map.mpr ⟨x, hx, rfl⟩
      · refine ⟨_, (h1 ha hb).2.1, ?_⟩
        intro c hc
        obtain ⟨x, hx, rfl⟩ := List.mem_map.mp hc
        exact List.mem_map.mpr ⟨x, hx, rfl⟩
    · exact ⟨[], by simpa [Proto.step] using (h3 ha).1, by simp⟩

theorem step_tokens (s : Proto) (hs : s.Sorted) (op : Op) (t : Nat) (ht : t ∉ tokens s)
    (hop : ∀ h, op = .add h → h.token ≠ t) : t ∉ tokens (s.step op) := by
  cases op with
  | add h =>
    intro hc
    obtain ⟨x, hx, hxt⟩ := List.mem_map.mp hc
    rcases ((add_spec s hs h).2.2 x).mp hx with rfl | hx'
    · exact hop h rfl hxt
    · exact ht (List.mem_map.mpr ⟨x, hx', hxt⟩)
  | remove id =>
    intro hc
    obtain ⟨x, hx, hxt⟩ := List.mem_map.mp hc
    simp only [Proto.step, Proto.remove] at hx
    split at hx
    · exact ht (List.mem_map.mpr ⟨x, (List.mem_filter.mp hx).1, hxt⟩)
    · exact ht (List.mem_map.mpr ⟨x, hx, hxt⟩)
  | tick => simpa [tokens, Proto.step, tick_handlers] using ht
  | send p => simpa [tokens, Proto.step, send_handlers] using ht

/-- C17 over histories: a handler that is not registered (never was, or was removed) is never invoked,
whatever happens afterwards, as long as it is not registered again — even if its id is handed out again -/
theorem removed_never_called (s : Proto) (hs : s.Sorted) (t : Nat) (ht : t ∉ tokens s) (ops : List Op)
    (hops : ∀ op ∈ ops, ∀ h, op = .add h → h.token ≠ t) :
    ∃ new, callsOf (s.reach ops).log = callsOf s.log ++ new ∧ ∀ c ∈ new, c.1 ≠ t := by
  induction ops generalizing s with
  | nil => exact ⟨[], by simp [Proto.reach], by simp⟩
  | cons op ops ih =>
    obtain ⟨n1, h1, h1'⟩ := step_calls s op
    have hs' : (s.step op).Sorted := reach_sorted s hs [op]
    have ht' := step_tokens s hs op t ht (hops op (by simp))
    obtain ⟨n2, h2, h2'⟩ := ih (s.step op) hs' ht' (fun o ho => hops o (by simp [ho]))
    refine ⟨n1 ++ n2, ?_, ?_⟩
    · simp only [Proto.reach, List.foldl_cons] at h2 ⊢
      rw [h2, h1, List.append_assoc]
    · intro c hc
      rcases List.mem_append.mp hc with hc | hc
      · intro heq; exact ht (heq ▸ h1' c hc)
      · exact h2' c hc

/-! ### the same for re-entrant invocations (a callback's loop-back send) -/

theorem loopCalls_tokens (a : UInt16) (hs : List (Nat × Handler)) (qs : List Packet) :
    ∀ c ∈ loopCalls a hs qs, c.1 ∈ hs.map fun x => x.2.token := by
  intro c hc
  simp only [loopCalls, List.mem_flatMap, List.mem_map] at hc
  obtain ⟨q, _, x, hx, rfl⟩ := hc
  exact List.mem_map.mpr ⟨x, hx, rfl⟩

theorem dispatch_ncalls (s : Proto) (p : Packet) (owned : Bool) :
    ∃ new, ncallsOf (s.dispatch p owned).log = ncallsOf s.log ++ new ∧ ∀ c ∈ new, c.1 ∈ tokens s := by
  refine ⟨_, (dispatch_spec s p owned).2.2.1, ?_⟩
  intro c hc
  obtain ⟨h, _, hc'⟩ := List.mem_flatMap.mp hc
  exact loopCalls_tokens s.addr s.handlers h.sends c hc'

/-- re-entrant handler invocations a single operation adds to the log -/
theorem step_ncalls (s : Proto) (op : Op) :
    ∃ new, ncallsOf (s.step op).log = ncallsOf s.log ++ new ∧ ∀ c ∈ new, c.1 ∈ tokens s := by
  cases op with
  | add h => exact ⟨[], by simp [Proto.step, Proto.add], by simp⟩
  | remove id =>
    refine ⟨[], ?_, by simp⟩
    simp only [Proto.step, Proto.remove]; split <;> simp
  | tick =>
    simp only [Proto.step, Proto.tick]
    rcases h : s.rxQueue with _ | ⟨r, q⟩
    · exact ⟨[], by simp, by simp⟩
    · rcases r with e | p
      · cases e <;> exact ⟨[], by simp, by simp⟩
      · exact dispatch_ncalls { s with rxQueue := q } p _
  | send p =>
    simp only [Proto.step, Proto.sendPacket]
    split
    · split
      · exact dispatch_ncalls s p true
      · obtain ⟨new, h1, h2⟩ := dispatch_ncalls s p true
        exact ⟨new, (ifaceSend_ncalls _ p).trans h1, h2⟩
    · exact ⟨[], by simpa using ifaceSend_ncalls s p, by simp⟩

/-- C17 over histories: a handler that is not registered is not invoked re-entrantly either (by the loop-back send of
another handler's callback), whatever happens afterwards, as long as it is not registered again -/
theorem removed_never_called_nested (s : Proto) (hs : s.Sorted) (t : Nat) (ht : t ∉ tokens s) (ops : List Op)
    (hops : ∀ op ∈ ops, ∀ h, op = .add h → h.token ≠ t) :
    ∃ new, ncallsOf (s.reach ops).log = ncallsOf s.log ++ new ∧ ∀ c ∈ new, c.1 ≠ t := by
  induction ops generalizing s with
  | nil => exact ⟨[], by simp [Proto.reach], by simp⟩
  | cons op ops ih =>
    obtain ⟨n1, h1, h1'⟩ := step_ncalls s op
    have hs' : (s.step op).Sorted := reach_sorted s hs [op]
    have ht' := step_tokens s hs op t ht (hops op (by simp))
    obtain ⟨n2, h2, h2'⟩ := ih (s.step op) hs' ht' (fun o ho => hops o (by simp [ho]))
    refine ⟨n1 ++ n2, ?_, ?_⟩
    · simp only [Proto.reach, List.foldl_cons] at h2 ⊢
      rw [h2, h1, List.append_assoc]
    · intro c hc
      rcases List.mem_append.mp hc with hc | hc
      · intro heq; exact ht (heq ▸ h1' c hc)
      · exact h2' c hc

#print axioms reach_sorted
#print axioms removed_never_called
#print axioms removed_never_called_nested
end Ross
