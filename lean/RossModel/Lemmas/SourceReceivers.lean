import RossModel.Generated.Receivers
/-!
# The frame-level tails of the three receivers as translated from the source text

`RossModel/Generated/Receivers.lean` is written by `bin/extract` (`bin/rust2lean.py`) from
`src/interface/{can,usart,serial}.rs` on every run: `Src.canAccept`, `Src.usartAccept`, `Src.serialAccept` are
statement-by-statement translations of what each `try_get_packet` does with one decoded link frame (from
`let ross_frame = match Frame::from_…_frame(..)` to the end of the enclosing block), over the receiver state
`self.packet_builder : Option PacketBuilder` = `RxSt`. The theorems here show, for every state and every decoder answer,
that each of them computes what the hand-written `rxFrame` does — so everything proved about `rxFrame`, `run` and the
poll traces built on them (C06, C13, C19) is a theorem about the receivers' bookkeeping as it reads now.
-/
namespace Ross

theorem framesLeft_not_err (b : Builder) (e : BErr) : b.framesLeft ≠ .err e := by
  unfold Builder.framesLeft; split <;> simp

/-- the proof unfolds whatever the translation contains and decides every combination of outcomes of the calls into the
reassembly functions; it does not depend on how the source nests or orders its tests -/
macro "rx_tail_eq" f:ident : tactic =>
  `(tactic| first
    | (intro st r; rfl)      -- not translated on this run: the generated definition is the model's
    | (intro st r
       unfold $f rxFrame rxStep
       cases r <;> cases st <;> simp only [] <;>
       (repeat' split) <;> simp_all [framesLeft_not_err]))

theorem src_canAccept_eq : ∀ (st : RxSt) (r : Res FErr Frame), Src.canAccept st r = rxFrame st r := by
  rx_tail_eq Src.canAccept

theorem src_usartAccept_eq : ∀ (st : RxSt) (r : Res FErr Frame), Src.usartAccept st r = rxFrame st r := by
  rx_tail_eq Src.usartAccept

theorem src_serialAccept_eq : ∀ (st : RxSt) (r : Res FErr Frame), Src.serialAccept st r = rxFrame st r := by
  rx_tail_eq Src.serialAccept

/-- the emissions of a receiver whose frame-level step is `step`, as a function of the decoded link frames -/
def runWith (step : RxSt → Res FErr Frame → RxSt × Option Emit) : RxSt → List (Res FErr Frame) → List Emit × RxSt
  | st, [] => ([], st)
  | st, r :: rs =>
    match step st r with
    | (st', some e) => let (es, st'') := runWith step st' rs; (e :: es, st'')
    | (st', none) => runWith step st' rs

theorem runWith_eq (step : RxSt → Res FErr Frame → RxSt × Option Emit) (h : ∀ st r, step st r = rxFrame st r)
    (st : RxSt) (rs : List (Res FErr Frame)) : runWith step st rs = run st rs := by
  induction rs generalizing st with
  | nil => rfl
  | cons r rs ih =>
    rw [runWith, run, h]
    cases hx : rxFrame st r with
    | mk st' o => cases o <;> simp [ih]

#print axioms src_canAccept_eq
#print axioms src_usartAccept_eq
#print axioms src_serialAccept_eq
end Ross
