import RossModel.Lemmas.EndToEnd
import RossModel.Lemmas.Resync
/-!
# The serial-port receiver at the end of a script

`serialPolls = serialEnd ∘ serialPollsRaw`: the only difference to the raw item-level trace is what an exhausted
script *inside* a link frame means (a `read_exact` time-out instead of a spin). Scripts made of whole segments
(gaps, noise, whole link frames) never end inside a frame, so every statement proved of the raw trace holds of
`serialPolls` itself.
-/
namespace Ross

theorem serialEnd_eq (l : List Out) (h : Out.blocked ∉ l) : serialEnd l = l := by
  induction l with
  | nil => rfl
  | cons o t ih =>
    have ht : Out.blocked ∉ t := fun hc => h (by simp [hc])
    have ho : o ≠ .blocked := fun hc => h (by simp [hc])
    cases t with
    | nil => cases o <;> simp_all [serialEnd]
    | cons o' t' => cases o <;> simp_all [serialEnd]

/-- a trace whose non-"nothing" results are all emissions contains no spin -/
theorem no_blocked_of_emitsOf (l : List Out) (es : List Emit) (h : emitsOf l = es.map .emit) : Out.blocked ∉ l := by
  intro hc
  have : Out.blocked ∈ emitsOf l := by simp [emitsOf, hc]
  rw [h] at this
  simp at this

/-- C13 (serial port) -/
theorem serial_transparent (ps : List Packet) (hn : ∀ p ∈ ps, p.data.length ≤ 28672) (segs : List Seg)
    (hnoise : ∀ sg ∈ segs, ∀ bs, sg = .noise bs → ∀ b ∈ bs, b ≠ 0)
    (hs : Seg.bodies segs = ps.flatMap usartBodies) :
    emitsOf (serialPolls LinkSt.init (segs.flatMap Seg.items)) = ps.map fun p => .emit (.packet p) := by
  have h := serial_transparent_raw ps hn segs hnoise hs
  have hnb := no_blocked_of_emitsOf _ (ps.map .packet) (by rw [h]; simp)
  rw [serialPolls, serialEnd_eq _ hnb]; exact h

/-- C06 (serial port) -/
theorem serial_resync (segs : List Seg) (hok : ∀ sg ∈ segs, sg.Ok) (junk : List (List UInt8)) (a b : Packet)
    (ha : a.data.length ≤ 28672) (hb : b.data.length ≤ 28672)
    (hs : Seg.bodies segs = junk ++ usartBodies a ++ usartBodies b) :
    ∃ outsJ outs, emitsOf (serialPolls LinkSt.init (segs.flatMap Seg.items)) = (outsJ ++ outs).map .emit ∧
      Emit.panic ∉ outsJ ∧ ProbeOutcome a b outs := by
  obtain ⟨outsJ, outs, h, h2, h3⟩ := serial_resync_raw segs hok junk a b ha hb hs
  have hnb := no_blocked_of_emitsOf _ _ h
  exact ⟨outsJ, outs, by rw [serialPolls, serialEnd_eq _ hnb]; exact h, h2, h3⟩

/-- C01 (serial port) -/
theorem end_to_end_serial (pad : Pad) (es : List Event) (hwf : ∀ e ∈ es, e.WF ∧ (encode pad e).data.length ≤ 28672)
    (a b : UInt16) (handlers : List (Nat × Handler)) (segs : List Seg)
    (hnoise : ∀ sg ∈ segs, ∀ bs, sg = .noise bs → ∀ b ∈ bs, b ≠ 0)
    (hs : Seg.bodies segs = ((es.filter (routed a)).map (encode pad)).flatMap usartBodies) :
    let rx : Proto := ⟨b, handlers, (serialPolls LinkSt.init (segs.flatMap Seg.items)).map toRx, [], []⟩
    callsOf rx.tickAll.log =
      (es.filter (routed a)).flatMap (fun e =>
        (recipients handlers (e.receiver == b || e.receiver == BROADCAST)).map fun h => (h.token, encode pad e)) ∧
    ∀ e ∈ es, decode e.kind (encode pad e) = .ok e := by
  have hn : ∀ p ∈ (es.filter (routed a)).map (encode pad), p.data.length ≤ 28672 := by
    intro p hp
    simp only [List.mem_map, List.mem_filter] at hp
    obtain ⟨e, ⟨he, _⟩, rfl⟩ := hp
    exact (hwf e he).2
  have h := serial_transparent_raw _ hn segs hnoise hs
  have hnb := no_blocked_of_emitsOf _ (((es.filter (routed a)).map (encode pad)).map .packet) (by rw [h]; simp)
  have := end_to_end_serial_raw pad es hwf a b handlers segs hnoise hs
  simpa only [serialPolls, serialEnd_eq _ hnb] using this

end Ross
