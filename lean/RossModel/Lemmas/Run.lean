import RossModel.Lemmas.Link
/-!
# Frame-level delivery: a packet's frames deliver exactly that packet (C02/C13), sequences of packets,
and resynchronisation after any pending state (C06)
-/
namespace Ross

/-- feeding the continuation frames `j..k-1` into a builder that holds frames `0..j-1` delivers exactly
one packet, at the last frame, and leaves no builder -/
theorem run_framesFrom (p : Packet) (k : Nat) (cs : List (List UInt8)) (j : Nat) (b : Builder) (d : List UInt8)
    (hne : cs ≠ []) (hj : 1 ≤ j) (hlen : b.frames.length = j) (hk : j + cs.length = k) (hk' : k ≤ 65535)
    (hexp : b.expected = k) (herr : b.isError = p.isError) (haddr : b.addr = p.addr)
    (hcs : ∀ c ∈ cs, c.length ≤ 7) (hpay : payloads b.frames = some d) :
    run (some b) ((framesFrom p k j cs).map .ok) =
      ([.packet { isError := p.isError, addr := p.addr, data := d ++ cs.flatten }], none) := by
  induction cs generalizing j b d with
  | nil => exact absurd rfl hne
  | cons c cs ih =>
    simp only [List.length_cons] at hk
    have hj0 : j ≠ 0 := by omega
    have hstep : b.addFrame (mkMulti p k j c) = .ok { b with frames := b.frames ++ [mkMulti p k j c] } := by
      subst hlen hexp
      have h1 : b.frames.length = b.frames.length % 65536 := by omega
      have h2 : ¬ b.expected ≤ b.frames.length := by omega
      simp [Builder.addFrame, mkMulti, herr, haddr, hj0, ← h1, h2]
    have hpay' : payloads (b.frames ++ [mkMulti p k j c]) = some (d ++ c) := by
      have hc := payload_mkMulti p k j c (hcs c (by simp))
      clear hstep ih
      revert d
      induction b.frames with
      | nil => intro d hd; simp [payloads] at hd; subst hd; simp [payloads, hc]
      | cons f fs ihf =>
        intro d hd
        simp only [payloads, List.cons_append] at hd ⊢
        cases hf : f.payload with
        | none => simp [hf] at hd
        | some a =>
          cases hfs : payloads fs with
          | none => simp [hf, hfs] at hd
          | some r =>
            simp [hf, hfs] at hd
            subst hd
            simp [ihf r hfs]
    simp only [framesFrom, List.map_cons, run, rxFrame, rxStep, hstep]
    have hm : (j + 1) % 65536 = j + 1 := by omega
    by_cases hlast : cs = []
    · subst hlast
      simp only [List.length_nil, Nat.add_zero] at hk
      have hfl : ({ b with frames := b.frames ++ [mkMulti p k j c] } : Builder).framesLeft = .ok 0 := by
        simp only [Builder.framesLeft, Builder.frameCount, List.length_append, List.length_cons, List.length_nil,
          hlen, hexp, hm]
        rw [if_neg (by omega)]; congr 1; omega
      have hb : ({ b with frames := b.frames ++ [mkMulti p k j c] } : Builder).build =
          .ok { isError := p.isError, addr := p.addr, data := d ++ c } := by
        simp [Builder.build, hlen, hexp, hk, hpay', herr, haddr]
      simp [hfl, hb, framesFrom, run]
    · have hpos : 0 < cs.length := List.length_pos_iff.mpr hlast
      have hfl : ∃ m, ({ b with frames := b.frames ++ [mkMulti p k j c] } : Builder).framesLeft = .ok (m + 1) := by
        refine ⟨k - (j + 1) - 1, ?_⟩
        simp only [Builder.framesLeft, Builder.frameCount, List.length_append, List.length_cons, List.length_nil,
          hlen, hexp, hm]
        rw [if_neg (by omega)]; congr 1; omega
      obtain ⟨m, hm'⟩ := hfl
      simp only [hm']
      have := ih (j + 1) { b with frames := b.frames ++ [mkMulti p k j c] } (d ++ c) hlast (by omega) (by simp [hlen])
        (by omega) hexp herr haddr (fun c' h => hcs c' (by simp [h])) hpay'
      rw [this]
      simp

/-- C02/C13 at frame level: from a clean receiver, the frames of one packet (at most 4096 frames)
deliver exactly that packet, once, with the last frame, and leave a clean receiver -/
theorem run_packet (p : Packet) (hn : p.data.length ≤ 28672) :
    run none ((specFrames p).map .ok) = ([.packet p], none) := by
  by_cases h8 : p.data.length ≤ 8
  · -- single frame
    have hp : (pad8 p.data).take p.data.length = p.data := by simp [pad8]
    simp [specFrames, h8, run, rxFrame, rxStep, Builder.new, Builder.framesLeft, Builder.frameCount,
      Builder.build, payloads, Frame.payload, pad8_length p.data h8, hp]
  · have h8' : 8 < p.data.length := by omega
    have hcs : chunks7 p.data ≠ [] := by
      intro h; have := chunks7_length p.data; rw [h] at this; simp at this; omega
    obtain ⟨c0, cs, hcc⟩ := List.exists_cons_of_ne_nil hcs
    have hklen := chunks7_length p.data
    have hlen2 : (chunks7 p.data).length = cs.length + 1 := by rw [hcc]; simp
    have hk : cs.length + 1 ≤ 4096 := by omega
    have hcs1 : cs ≠ [] := by
      intro h; subst h; simp at hlen2; omega
    have hfr : specFrames p = framesFrom p (chunks7 p.data).length 0 (chunks7 p.data) := by
      unfold specFrames
      simp only [show ¬ p.data.length ≤ 8 by omega, if_false]
      rw [← mapIdx_eq_framesFrom]; rfl
    rw [hfr, hcc]
    simp only [framesFrom, Nat.zero_add, List.length_cons, List.map_cons, run, rxFrame, rxStep]
    have hnew : Builder.new (mkMulti p (cs.length + 1) 0 c0) =
        .ok ⟨p.isError, cs.length + 1, p.addr, [mkMulti p (cs.length + 1) 0 c0]⟩ := by
      simp [Builder.new, mkMulti]; omega
    have hfl : ∃ m, (⟨p.isError, cs.length + 1, p.addr, [mkMulti p (cs.length + 1) 0 c0]⟩ : Builder).framesLeft
        = .ok (m + 1) := by
      refine ⟨cs.length - 1, ?_⟩
      have := List.length_pos_iff.mpr hcs1
      have h1 : ¬ (cs.length + 1 < 1) := by omega
      have h2 : cs.length + 1 - 1 = cs.length - 1 + 1 := by omega
      simp [Builder.framesLeft, Builder.frameCount, h1, h2]
    obtain ⟨m, hm⟩ := hfl
    simp only [hnew, hm]
    have hpay0 : payloads [mkMulti p (cs.length + 1) 0 c0] = some c0 := by
      have := payload_mkMulti p (cs.length + 1) 0 c0 (chunks7_len_le p.data c0 (by rw [hcc]; simp))
      simp [payloads, this]
    have := run_framesFrom p (cs.length + 1) cs 1 ⟨p.isError, cs.length + 1, p.addr, [mkMulti p (cs.length + 1) 0 c0]⟩ c0
      hcs1 (by omega) (by simp) (by omega) (by omega) rfl rfl rfl
      (fun c hc => chunks7_len_le p.data c (by rw [hcc]; simp [hc])) hpay0
    rw [this]
    have hd : c0 ++ cs.flatten = p.data := by
      have := flatten_chunks7 p.data; rw [hcc] at this; simpa using this
    rw [hd]

/-- C13 at frame level: the frames of a sequence of packets deliver exactly that sequence -/
theorem run_packets (ps : List Packet) (hn : ∀ p ∈ ps, p.data.length ≤ 28672) :
    run none ((ps.flatMap specFrames).map .ok) = (ps.map .packet, none) := by
  induction ps with
  | nil => simp [run]
  | cons p ps ih =>
    simp only [List.flatMap_cons, List.map_append]
    rw [run_append, run_packet p (hn p (by simp))]
    simp only []
    rw [ih (fun q hq => hn q (by simp [hq]))]
    simp


theorem framesFrom_nonstart (p : Packet) (k j : Nat) (cs : List (List UInt8)) (hj : 1 ≤ j) :
    ∀ f ∈ framesFrom p k j cs, f.start = false := by
  induction cs generalizing j with
  | nil => simp [framesFrom]
  | cons c cs ih =>
    intro f hf
    simp only [framesFrom, List.mem_cons] at hf
    rcases hf with h | h
    · subst h; simp [mkMulti]; omega
    · exact ih (j + 1) (by omega) f h

/-- the first frame of a fragmentation is a start frame, the others are not -/
theorem specFrames_shape (p : Packet) :
    ∃ f0 rest, specFrames p = f0 :: rest ∧ f0.start = true ∧ ∀ f ∈ rest, f.start = false := by
  unfold specFrames
  split
  · exact ⟨_, [], rfl, rfl, by simp⟩
  · rename_i h8
    have hcs : chunks7 p.data ≠ [] := by
      intro h; have := chunks7_length p.data; rw [h] at this; simp at this; omega
    obtain ⟨c0, cs, hcc⟩ := List.exists_cons_of_ne_nil hcs
    have : (chunks7 p.data).mapIdx (fun i c => mkMulti p (chunks7 p.data).length i c)
        = framesFrom p (chunks7 p.data).length 0 (chunks7 p.data) := by
      rw [← mapIdx_eq_framesFrom]; rfl
    refine ⟨mkMulti p (chunks7 p.data).length 0 c0, framesFrom p (chunks7 p.data).length 1 cs, ?_, ?_, ?_⟩
    · show (chunks7 p.data).mapIdx (fun i c => mkMulti p (chunks7 p.data).length i c) = _
      rw [this]
      conv => lhs; arg 4; rw [hcc]
      simp [framesFrom]
    · simp [mkMulti]
    · exact framesFrom_nonstart p _ 1 cs (by omega)

/-- C06 at frame level: whatever the receiver was in the middle of, two complete packets arriving
back to back end with the second delivered intact and a clean receiver; the first is delivered intact
or dropped with errors; nothing else is ever delivered -/
theorem run_resync (st : RxSt) (a b : Packet) (ha : a.data.length ≤ 28672) (hb : b.data.length ≤ 28672) :
    ∃ outs, run st ((specFrames a ++ specFrames b).map .ok) = (outs, none) ∧
      (outs = [.packet a, .packet b] ∨
       ∃ errs : List BErr, errs ≠ [] ∧ outs = errs.map .builderErr ++ [.packet b]) := by
  cases st with
  | none =>
    refine ⟨[.packet a, .packet b], ?_, Or.inl rfl⟩
    have := run_packets [a, b] (by intro p hp; simp at hp; rcases hp with h | h <;> subst h <;> assumption)
    simpa using this
  | some bl =>
    obtain ⟨f0, rest, hfr, hs, hrest⟩ := specFrames_shape a
    obtain ⟨e, he⟩ := rxStep_start_some bl f0 hs
    refine ⟨(e :: rest.map fun _ => BErr.outOfOrder).map .builderErr ++ [.packet b], ?_, Or.inr ⟨_, by simp, rfl⟩⟩
    rw [hfr]
    simp only [List.cons_append, List.map_cons, List.map_append, run, rxFrame, he]
    rw [run_append, run_nonstart_none rest hrest]
    simp only []
    rw [run_packet b hb]
    simp [Function.comp_def]

#print axioms run_packet
#print axioms run_packets
#print axioms run_resync
end Ross
