import RossModel.Lemmas.Builder
import RossModel.Lemmas.FrameWF
import RossModel.Link
/-!
# C19 (bookkeeping part): what a receiver holds between polls is bounded by the packet in flight, and
is released at every delivery and every reassembly error
-/
namespace Ross

/-- invariant of a pending builder inside a receiver -/
def RxInv : RxSt → Prop
  | none => True
  | some b => b.Inv ∧ ∀ f ∈ b.frames, f.dataLen ≤ f.data.length

/-- frames held by the receiver -/
def held : RxSt → Nat
  | none => 0
  | some b => b.frames.length

/-- frames announced by the packet in flight -/
def announced : RxSt → Nat
  | none => 0
  | some b => b.expected

theorem held_le (st : RxSt) (h : RxInv st) : held st ≤ announced st ∧ announced st ≤ 4096 := by
  cases st with
  | none => simp [held, announced]
  | some b => exact ⟨h.1.2.1, h.1.2.2⟩

/-- one well-formed frame: the invariant is kept; a delivery or a reassembly error leaves no builder;
nothing panics -/
theorem rxStep_inv (st : RxSt) (f : Frame) (hf : f.WF) (h : RxInv st) :
    RxInv (rxStep st f).1 ∧
    (∀ p, (rxStep st f).2 = some (.packet p) → (rxStep st f).1 = none) ∧
    (∀ e, (rxStep st f).2 = some (.builderErr e) → (rxStep st f).1 = none) ∧
    (rxStep st f).2 ≠ some .panic := by
  obtain ⟨h8, hl, hid, _⟩ := hf
  have hfd : f.dataLen ≤ f.data.length := by omega
  -- the builder after accepting `f`
  have key : ∀ b' : Builder, b'.Inv → (∀ g ∈ b'.frames, g.dataLen ≤ g.data.length) →
      let r : RxSt × Option Emit :=
        match b'.framesLeft with
        | .panic => (some b', some .panic)
        | .err e => (some b', some (.builderErr e))
        | .ok 0 =>
          (match b'.build with
            | .ok p => (none, some (.packet p))
            | .err e => (some b', some (.builderErr e))
            | .panic => (some b', some .panic))
        | .ok (_ + 1) => (some b', none)
      RxInv r.1 ∧ (∀ p, r.2 = some (.packet p) → r.1 = none) ∧
      (∀ e, r.2 = some (.builderErr e) → r.1 = none) ∧ r.2 ≠ some .panic := by
    intro b' hb hw
    obtain ⟨hfl, _, _⟩ := framesLeft_spec b' hb
    simp only [hfl]
    cases hn : b'.expected - b'.frames.length with
    | zero =>
      have heq : b'.frames.length = b'.expected := by have := hb.2.1; omega
      obtain ⟨d, _, hbuild⟩ := (build_spec b' hw).2 heq
      simp [hbuild, RxInv]
    | succ m => simp [RxInv, hb]; exact hw
  cases st with
  | none =>
    simp only [rxStep]
    by_cases hc : f.start = true ∧ f.idLast = true
    · rw [(new_spec f hid).1 hc]
      exact key _ ⟨by simp, by simp, by simp; omega⟩ (by simpa using hfd)
    · rw [(new_spec f hid).2 hc]; simp [RxInv]
  | some b =>
    obtain ⟨hb, hw⟩ := h
    simp only [rxStep]
    cases ha : b.addFrame f with
    | err e => simp [RxInv]
    | panic => exact absurd ha (addFrame_no_panic b f)
    | ok b' =>
      have hb' := addFrame_inv b b' f hb ha
      obtain ⟨_, rfl⟩ := (addFrame_ok_iff b f b').mp ha
      exact key _ hb' (by
        intro g hg
        simp only [List.mem_append, List.mem_singleton] at hg
        rcases hg with hg | rfl
        · exact hw g hg
        · exact hfd)

/-- C19: over any sequence of decoded link frames (valid, corrupted, foreign …) the receiver never
holds more frames than the packet in flight announced (at most 4096), holds nothing after a delivery or
a reassembly error, and never panics -/
theorem rxFrame_inv (st : RxSt) (r : Res FErr Frame) (hr : ∀ f, r = .ok f → f.WF) (hrp : r ≠ .panic) (h : RxInv st) :
    RxInv (rxFrame st r).1 ∧
    (∀ p, (rxFrame st r).2 = some (.packet p) → (rxFrame st r).1 = none) ∧
    (∀ e, (rxFrame st r).2 = some (.builderErr e) → (rxFrame st r).1 = none) ∧
    (rxFrame st r).2 ≠ some .panic := by
  cases r with
  | ok f => exact rxStep_inv st f (hr f rfl) h
  | err e => simp [rxFrame, h]
  | panic => exact absurd rfl hrp

theorem run_inv (st : RxSt) (rs : List (Res FErr Frame)) (hr : ∀ r ∈ rs, (∀ f, r = .ok f → f.WF) ∧ r ≠ .panic)
    (h : RxInv st) : RxInv (run st rs).2 ∧ Emit.panic ∉ (run st rs).1 := by
  induction rs generalizing st with
  | nil => simp [run, h]
  | cons r rs ih =>
    obtain ⟨h1, _, _, h4⟩ := rxFrame_inv st r (hr r (by simp)).1 (hr r (by simp)).2 h
    simp only [run]
    cases hrx : rxFrame st r with
    | mk st' oe =>
      rw [hrx] at h1 h4
      obtain ⟨i1, i2⟩ := ih st' (fun q hq => hr q (by simp [hq])) h1
      cases oe with
      | none => exact ⟨i1, i2⟩
      | some e =>
        refine ⟨i1, ?_⟩
        simp only [List.mem_cons, not_or]
        exact ⟨fun hc => h4 (by rw [← hc]), i2⟩

/-- the body buffer of the byte-level receivers never exceeds what the length byte announced -/
def PhaseInv : Phase → Prop
  | .body len acc => acc.length < len ∧ len ≤ 255
  | _ => True

theorem usartStep_phase (st : LinkSt) (it : ByteItem) (h : PhaseInv st.ph) : PhaseInv (usartStep st it).1.ph := by
  rcases st with ⟨ph, rx⟩
  have hfin : ∀ rx bs, PhaseInv (finishFrame rx bs).1.ph := by
    intro rx bs; unfold finishFrame; cases rxFrame rx (fromUsart bs) with
    | mk a b => cases b <;> simp [PhaseInv]
  cases ph with
  | idle => cases it <;> simp only [usartStep] <;> (try split) <;> simp [PhaseInv]
  | gotDelim =>
    cases it <;> simp only [usartStep] <;> try (simp [PhaseInv]; done)
    rename_i l
    unfold startBody; split
    · exact hfin _ _
    · rename_i hl
      have : l.toNat ≠ 0 := fun hc => hl (UInt8.toNat_inj.mp (by simpa using hc))
      have := l.toNat_lt
      simp [PhaseInv]; omega
  | body len acc =>
    obtain ⟨h1, h2⟩ := h
    cases it <;> simp only [usartStep] <;> try (simp [PhaseInv, h1, h2]; done)
    rename_i b
    unfold pushBody; split
    · exact hfin _ _
    · rename_i hne
      simp only [List.length_append, List.length_cons, List.length_nil] at hne
      simp [PhaseInv]; omega

#print axioms rxStep_inv
#print axioms run_inv
#print axioms usartStep_phase
end Ross
