import RossModel.Lemmas.Packet
import RossModel.Lemmas.Builder
import RossModel.Lemmas.Transparent
/-!
# C02: fragmentation followed by in-order reassembly returns the packet, exactly at the last frame
-/
namespace Ross

/-- the builder after `new` on the first frame and `add_frame` on the next `k-1` frames -/
def feedPrefix (fs : List Frame) (k : Nat) : Res BErr Builder :=
  match fs.take k with
  | [] => .err .missingFrames
  | f :: rest =>
    match Builder.new f with
    | .ok b0 => b0.addAll rest
    | .err e => .err e
    | .panic => .panic

/-- the one frame of a packet of at most 8 bytes -/
def singleFrame (p : Packet) : Frame :=
  { notError := !p.isError
    start := true
    multi := false
    idLast := true
    fid := 0
    addr := p.addr
    dataLen := p.data.length
    data := pad8 p.data }

theorem specFrames_single (p : Packet) (h8 : p.data.length ≤ 8) : specFrames p = [singleFrame p] := by
  simp [specFrames, h8, singleFrame]

theorem framesFrom_take (p : Packet) (k j : Nat) (cs : List (List UInt8)) (m : Nat) :
    (framesFrom p k j cs).take m = framesFrom p k j (cs.take m) := by
  induction cs generalizing j m with
  | nil => simp [framesFrom]
  | cons c cs ih =>
    cases m with
    | zero => simp [framesFrom]
    | succ m => simp [framesFrom, ih]

/-- C02: after any `k ≥ 1` frames of the fragmentation (in order) the builder holds exactly those frames
and announces the total -/
theorem feedPrefix_spec (p : Packet) (hn : p.data.length ≤ 28672) (k : Nat) (hk1 : 1 ≤ k)
    (hk2 : k ≤ (specFrames p).length) :
    ∃ b, feedPrefix (specFrames p) k = .ok b ∧ b.frames = (specFrames p).take k ∧
      b.expected = (specFrames p).length ∧ b.isError = p.isError ∧ b.addr = p.addr := by
  by_cases h8 : p.data.length ≤ 8
  · have hs := specFrames_single p h8
    rw [hs] at hk2 ⊢
    simp only [List.length_singleton] at hk2
    have : k = 1 := by omega
    subst this
    refine ⟨⟨p.isError, 1, p.addr, [singleFrame p]⟩, ?_, by simp, by simp, rfl, rfl⟩
    simp [feedPrefix, Builder.new, Builder.addAll, singleFrame]
  · have hcs : chunks7 p.data ≠ [] := by
      intro h; have := chunks7_length p.data; rw [h] at this; simp at this; omega
    obtain ⟨c0, cs, hcc⟩ := List.exists_cons_of_ne_nil hcs
    have hklen := chunks7_length p.data
    have hlen2 : (chunks7 p.data).length = cs.length + 1 := by rw [hcc]; simp
    have hfr : specFrames p = mkMulti p (cs.length + 1) 0 c0 :: framesFrom p (cs.length + 1) 1 cs := by
      unfold specFrames
      simp only [h8, if_false]
      have : (chunks7 p.data).mapIdx (fun i c => mkMulti p (chunks7 p.data).length i c)
          = framesFrom p (chunks7 p.data).length 0 (chunks7 p.data) := by
        rw [← mapIdx_eq_framesFrom]; rfl
      show (chunks7 p.data).mapIdx (fun i c => mkMulti p (chunks7 p.data).length i c) = _
      rw [this, hlen2, hcc]; simp [framesFrom]
    rw [hfr] at hk2 ⊢
    simp only [List.length_cons, framesFrom_length] at hk2 ⊢
    obtain ⟨m, rfl⟩ : ∃ m, k = m + 1 := ⟨k - 1, by omega⟩
    have hnew : Builder.new (mkMulti p (cs.length + 1) 0 c0) =
        .ok ⟨p.isError, cs.length + 1, p.addr, [mkMulti p (cs.length + 1) 0 c0]⟩ := by
      simp [Builder.new, mkMulti]; omega
    simp only [feedPrefix, List.take_succ_cons, hnew, framesFrom_take]
    have := addAll_framesFrom p (cs.length + 1) (cs.take m) 1
      ⟨p.isError, cs.length + 1, p.addr, [mkMulti p (cs.length + 1) 0 c0]⟩ (by omega) (by simp)
      (by simp; omega) (by omega) rfl rfl rfl
    exact ⟨_, this, by simp, by simp, by simp, by simp⟩

theorem specFrames_length_pos (p : Packet) : 1 ≤ (specFrames p).length := by
  obtain ⟨f0, rest, h, _, _⟩ := specFrames_shape p
  rw [h]; simp

theorem specFrames_length_le (p : Packet) (hn : p.data.length ≤ 28672) : (specFrames p).length ≤ 4096 := by
  unfold specFrames; split
  · simp
  · simp only [List.length_mapIdx, chunks7_length]; omega

/-- C02: frames are left after every proper prefix, none after the last frame; the packet can be built
exactly then, and it is the original -/
theorem reassembly_exact (p : Packet) (hn : p.data.length ≤ 28672) (k : Nat) (hk1 : 1 ≤ k)
    (hk2 : k ≤ (specFrames p).length) :
    ∃ b, feedPrefix (specFrames p) k = .ok b ∧
      b.framesLeft = .ok ((specFrames p).length - k) ∧
      (k < (specFrames p).length → b.build = .err .missingFrames) ∧
      (k = (specFrames p).length → b.build = .ok p) := by
  obtain ⟨b, hb, hfr, hexp, herr, haddr⟩ := feedPrefix_spec p hn k hk1 hk2
  have hl : b.frames.length = k := by rw [hfr]; simp; omega
  have hinv : b.Inv := ⟨by omega, by omega, by rw [hexp]; exact specFrames_length_le p hn⟩
  have hw : ∀ f ∈ b.frames, f.dataLen ≤ f.data.length := by
    intro f hf
    rw [hfr] at hf
    have := (specFrames_wf p hn f (List.mem_of_mem_take hf)).1
    have h1 := this.1; have h2 := this.2.1; omega
  refine ⟨b, hb, ?_, ?_, ?_⟩
  · rw [(framesLeft_spec b hinv).1, hexp, hl]
  · intro hlt; exact (build_spec b hw).1 (by omega)
  · intro heq
    obtain ⟨d, hd, hbuild⟩ := (build_spec b hw).2 (by omega)
    rw [hbuild, herr, haddr]
    -- the payload is the packet's: compare with `run_packet`
    have hfull : b.frames = specFrames p := by rw [hfr, heq, List.take_length]
    have hrun := run_packet p hn
    -- `reassemble` agrees
    have : payloads (specFrames p) = some p.data := by
      by_cases h8 : p.data.length ≤ 8
      · have hp : (pad8 p.data).take p.data.length = p.data := by simp [pad8]
        simp [specFrames, h8, payloads, Frame.payload, pad8_length p.data h8, hp]
      · have hcs : chunks7 p.data ≠ [] := by
          intro h; have := chunks7_length p.data; rw [h] at this; simp at this; omega
        have hfr2 : specFrames p = framesFrom p (chunks7 p.data).length 0 (chunks7 p.data) := by
          unfold specFrames
          simp only [h8, if_false]
          rw [← mapIdx_eq_framesFrom]; rfl
        rw [hfr2, payloads_framesFrom p _ 0 _ (chunks7_len_le p.data), flatten_chunks7]
    rw [hfull, this] at hd
    cases hd
    rfl

#print axioms reassembly_exact
end Ross
