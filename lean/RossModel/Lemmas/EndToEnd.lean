import RossModel.Spec.Node
import RossModel.Lemmas.Transparent
import RossModel.Lemmas.Send
import RossModel.Lemmas.Protocol
import RossModel.Lemmas.Event
/-!
# C01: end to end — events sent by one node reach the peer's handlers intact, once, in order
-/
namespace Ross









/-- ticking through a queue without link errors: every queued packet is dispatched, in order -/
theorem tick_fold (n : Nat) (s : Proto) (hn : n = s.rxQueue.length)
    (hq : ∀ x ∈ s.rxQueue, ∀ t, x ≠ .error (.other t)) :
    let r := (List.range n).foldl (fun st _ => st.tick.1) s
    r.handlers = s.handlers ∧ r.addr = s.addr ∧
    callsOf r.log = callsOf s.log ++
      (packetsOf s.rxQueue).flatMap fun p => (recipients s.handlers (ownedBy s.addr p)).map fun h => (h.token, p) := by
  induction n generalizing s with
  | zero =>
    have : s.rxQueue = [] := List.length_eq_zero_iff.mp hn.symm
    simp [this, packetsOf]
  | succ n ih =>
    rw [List.range_succ_eq_map, List.foldl_cons, List.foldl_map]
    have hts := tick_spec s
    rcases hq0 : s.rxQueue with _ | ⟨x, q⟩
    · rw [hq0] at hn; simp at hn
    · rw [hq0] at hts hn hq
      simp only [List.length_cons, Nat.add_right_cancel_iff] at hn
      rcases x with e | p
      · cases e with
        | other t => exact absurd rfl (hq _ (by simp) t)
        | noPacket =>
          simp only at hts
          have hs' : (s.tick).1 = { s with rxQueue := q } := by rw [hts]
          have := ih (s.tick).1 (by rw [hs']; exact hn) (by rw [hs']; intro x hx; exact hq x (by simp [hx]))
          simp only [hs'] at this ⊢
          simpa [packetsOf] using this
      · simp only at hts
        obtain ⟨_, hrq, hh, hc⟩ := hts
        have hcfg : (s.tick).1.addr = s.addr := by
          simp only [Proto.tick, hq0]
          exact (dispatch_spec { s with rxQueue := q } p _).1.addr
        have := ih (s.tick).1 (by rw [hrq]; exact hn) (by rw [hrq]; intro x hx; exact hq x (by simp [hx]))
        simp only [hrq, hh, hcfg] at this
        obtain ⟨i1, i2, i3⟩ := this
        refine ⟨i1, i2, ?_⟩
        rw [i3, hc]
        simp [packetsOf, ownedBy, List.append_assoc]

theorem packetsOf_toRx (outs : List Out) (ps : List Packet)
    (h : outs.filter (· ≠ .nothing) = ps.map fun p => .emit (.packet p)) :
    packetsOf (outs.map toRx) = ps ∧ ∀ x ∈ outs.map toRx, ∀ t, x ≠ .error (.other t) := by
  induction outs generalizing ps with
  | nil => cases ps <;> simp_all [packetsOf]
  | cons o outs ih =>
    by_cases ho : o = .nothing
    · subst ho
      simp only [List.filter_cons, ne_eq, not_true_eq_false, decide_false] at h
      obtain ⟨i1, i2⟩ := ih ps (by simpa using h)
      exact ⟨by simp [toRx, packetsOf, i1], by
        intro x hx t
        simp only [List.map_cons, List.mem_cons] at hx
        rcases hx with rfl | hx
        · simp [toRx]
        · exact i2 x hx t⟩
    · have hf : decide (o ≠ Out.nothing) = true := by simp [ho]
      simp only [List.filter_cons, hf, if_true] at h
      cases ps with
      | nil => simp at h
      | cons p ps =>
        simp only [List.map_cons, List.cons.injEq] at h
        obtain ⟨rfl, h⟩ := h
        obtain ⟨i1, i2⟩ := ih ps h
        exact ⟨by simp [toRx, packetsOf, i1], by
          intro x hx t
          simp only [List.map_cons, List.mem_cons] at hx
          rcases hx with rfl | hx
          · simp [toRx]
          · exact i2 x hx t⟩



/-- C01 (USART link): for every event sequence, every pair of addresses, every handler table and every
placement of would-blocks between any two bytes: the peer's handlers are called, in order, exactly with
the packets of the routed events — all handlers when the event is for the peer or for everybody,
otherwise the capture-all handlers — and each such packet decodes to the event that was sent -/
theorem end_to_end_usart (pad : Pad) (es : List Event) (hwf : ∀ e ∈ es, e.WF ∧ (encode pad e).data.length ≤ 28672)
    (a b : UInt16) (handlers : List (Nat × Handler)) (s : List ByteItem)
    (hs : s.filter notWouldBlock =
      (wireOf (((es.filter (routed a)).map (encode pad)).flatMap usartBodies)).map .byte) :
    let rx : Proto := ⟨b, handlers, (usartPolls LinkSt.init s).map toRx, [], []⟩
    callsOf rx.tickAll.log =
      (es.filter (routed a)).flatMap (fun e =>
        (recipients handlers (e.receiver == b || e.receiver == BROADCAST)).map fun h => (h.token, encode pad e)) ∧
    ∀ e ∈ es, decode e.kind (encode pad e) = .ok e := by
  have hps : ∀ p ∈ (es.filter (routed a)).map (encode pad), p.data.length ≤ 28672 := by
    intro p hp
    obtain ⟨e, he, rfl⟩ := List.mem_map.mp hp
    exact (hwf e (List.mem_filter.mp he).1).2
  have htr := usart_transparent _ hps s hs
  obtain ⟨hp1, hp2⟩ := packetsOf_toRx (usartPolls LinkSt.init s) _ htr
  refine ⟨?_, fun e he => decode_encode pad e (hwf e he).1⟩
  have := tick_fold _ ⟨b, handlers, (usartPolls LinkSt.init s).map toRx, [], []⟩ rfl hp2
  simp only [Proto.tickAll]
  obtain ⟨_, _, hc⟩ := this
  rw [hc, hp1]
  simp only [callsOf, List.filterMap_nil, List.nil_append, List.flatMap_map, ownedBy]
  congr 1
  funext e
  cases e <;> simp [encode, Event.receiver]


/-- the common tail of the three end-to-end theorems: once the link is transparent, ticking delivers -/
theorem end_to_end_core (pad : Pad) (es : List Event) (hwf : ∀ e ∈ es, e.WF ∧ (encode pad e).data.length ≤ 28672)
    (a b : UInt16) (handlers : List (Nat × Handler)) (outs : List Out)
    (htr : emitsOf outs = ((es.filter (routed a)).map (encode pad)).map fun p => .emit (.packet p)) :
    let rx : Proto := ⟨b, handlers, outs.map toRx, [], []⟩
    callsOf rx.tickAll.log =
      (es.filter (routed a)).flatMap (fun e =>
        (recipients handlers (e.receiver == b || e.receiver == BROADCAST)).map fun h => (h.token, encode pad e)) ∧
    ∀ e ∈ es, decode e.kind (encode pad e) = .ok e := by
  obtain ⟨hp1, hp2⟩ := packetsOf_toRx outs _ htr
  refine ⟨?_, fun e he => decode_encode pad e (hwf e he).1⟩
  have := tick_fold _ ⟨b, handlers, outs.map toRx, [], []⟩ rfl hp2
  simp only [Proto.tickAll]
  obtain ⟨_, _, hc⟩ := this
  rw [hc, hp1]
  simp only [callsOf, List.filterMap_nil, List.nil_append, List.flatMap_map, ownedBy]
  congr 1
  funext e
  cases e <;> simp [encode, Event.receiver]

/-- C01 (CAN link) -/
theorem end_to_end_can (pad : Pad) (es : List Event) (hwf : ∀ e ∈ es, e.WF ∧ (encode pad e).data.length ≤ 28672)
    (a b : UInt16) (handlers : List (Nat × Handler)) (s : List CanItem)
    (hs : s.filter isCanFrame = (((es.filter (routed a)).map (encode pad)).flatMap canWire).map .frame) :
    let rx : Proto := ⟨b, handlers, (canPolls none s).map toRx, [], []⟩
    callsOf rx.tickAll.log =
      (es.filter (routed a)).flatMap (fun e =>
        (recipients handlers (e.receiver == b || e.receiver == BROADCAST)).map fun h => (h.token, encode pad e)) ∧
    ∀ e ∈ es, decode e.kind (encode pad e) = .ok e := by
  have hps : ∀ p ∈ (es.filter (routed a)).map (encode pad), p.data.length ≤ 28672 := by
    intro p hp
    obtain ⟨e, he, rfl⟩ := List.mem_map.mp hp
    exact (hwf e (List.mem_filter.mp he).1).2
  exact end_to_end_core pad es hwf a b handlers _ (can_transparent _ hps s hs)

/-- C01 (serial-port link): time-outs anywhere between link frames -/
theorem end_to_end_serial_raw (pad : Pad) (es : List Event) (hwf : ∀ e ∈ es, e.WF ∧ (encode pad e).data.length ≤ 28672)
    (a b : UInt16) (handlers : List (Nat × Handler)) (segs : List Seg)
    (hnoise : ∀ sg ∈ segs, ∀ bs, sg = .noise bs → ∀ b ∈ bs, b ≠ 0)
    (hs : Seg.bodies segs = ((es.filter (routed a)).map (encode pad)).flatMap usartBodies) :
    let rx : Proto := ⟨b, handlers, (serialPollsRaw LinkSt.init (segs.flatMap Seg.items)).map toRx, [], []⟩
    callsOf rx.tickAll.log =
      (es.filter (routed a)).flatMap (fun e =>
        (recipients handlers (e.receiver == b || e.receiver == BROADCAST)).map fun h => (h.token, encode pad e)) ∧
    ∀ e ∈ es, decode e.kind (encode pad e) = .ok e := by
  have hps : ∀ p ∈ (es.filter (routed a)).map (encode pad), p.data.length ≤ 28672 := by
    intro p hp
    obtain ⟨e, he, rfl⟩ := List.mem_map.mp hp
    exact (hwf e (List.mem_filter.mp he).1).2
  exact end_to_end_core pad es hwf a b handlers _ (serial_transparent_raw _ hps segs hnoise hs)

#print axioms end_to_end_can
#print axioms end_to_end_serial_raw
#print axioms end_to_end_usart
end Ross
