import RossModel.Lemmas.Run
import RossModel.Lemmas.Cobs
/-!
# USART receiver at byte level: would-block erasure, whole link frames, never blocked (C13/C06/C19)
-/
namespace Ross

def notWouldBlock : ByteItem → Bool
  | .wouldBlock => false
  | _ => true

theorem finishFrame_ne_nothing (rx : RxSt) (bs : List UInt8) (st' : LinkSt) :
    finishFrame rx bs ≠ (st', some .nothing) := by
  unfold finishFrame
  cases h : rxFrame rx (fromUsart bs) with
  | mk rx' oe => cases oe <;> simp

/-- a call returns "nothing" only from the idle phase, and stays there -/
theorem startBody_ne_nothing (rx : RxSt) (l : UInt8) (st' : LinkSt) : startBody rx l ≠ (st', some .nothing) := by
  unfold startBody; split
  · exact finishFrame_ne_nothing _ _ _
  · simp

theorem pushBody_ne_nothing (rx : RxSt) (len : Nat) (acc : List UInt8) (b : UInt8) (st' : LinkSt) :
    pushBody rx len acc b ≠ (st', some .nothing) := by
  unfold pushBody; split
  · exact finishFrame_ne_nothing _ _ _
  · simp

theorem usartStep_nothing (st st' : LinkSt) (it : ByteItem) (h : usartStep st it = (st', some .nothing)) :
    st'.ph = .idle := by
  rcases st with ⟨ph, rx⟩
  cases ph with
  | idle =>
    cases it with
    | byte b => simp only [usartStep] at h; split at h <;> simp at h
    | wouldBlock => simp only [usartStep] at h; simp at h; rw [← h]
    | error => simp only [usartStep] at h; simp at h; rw [← h]
    | interrupted => simp only [usartStep] at h; simp at h; rw [← h]
    | eof => simp only [usartStep] at h; simp at h; rw [← h]
  | gotDelim =>
    cases it with
    | byte l => simp only [usartStep] at h; exact absurd h (startBody_ne_nothing _ _ _)
    | wouldBlock => simp [usartStep] at h
    | error => simp [usartStep] at h
    | interrupted => simp [usartStep] at h
    | eof => simp [usartStep] at h
  | body len acc =>
    cases it with
    | byte b => simp only [usartStep] at h; exact absurd h (pushBody_ne_nothing _ _ _ _ _)
    | wouldBlock => simp [usartStep] at h
    | error => simp [usartStep] at h
    | interrupted => simp [usartStep] at h
    | eof => simp [usartStep] at h

/-- USART: deleting the "no data yet" answers from the device script does not change what is delivered -/
theorem usartPolls_erase (st : LinkSt) (s : List ByteItem) :
    emitsOf (usartPolls st s) = emitsOf (usartPolls st (s.filter notWouldBlock)) := by
  unfold usartPolls
  induction s generalizing st with
  | nil => simp
  | cons it s ih =>
    by_cases hw : it = .wouldBlock
    · subst hw
      simp only [List.filter, notWouldBlock]
      rcases st with ⟨ph, rx⟩
      cases ph with
      | idle =>
        simp only [bytePolls, usartStep]
        by_cases hs : s = []
        · subst hs; simp [bytePolls]
        · simp only [hs, and_false, if_false, emitsOf_cons_nothing]; exact ih _
      | gotDelim => simp only [bytePolls, usartStep]; exact ih _
      | body len acc => simp only [bytePolls, usartStep]; exact ih _
    · have hf : notWouldBlock it = true := by cases it <;> simp_all [notWouldBlock]
      simp only [List.filter, hf, bytePolls]
      cases h : usartStep st it with
      | mk st' oo =>
        cases oo with
        | none => exact ih st'
        | some o =>
          simp only []
          by_cases ho : o = .nothing
          · subst ho
            by_cases hs : s = []
            · subst hs; simp
            · have hs' : ¬ (Out.nothing = Out.nothing ∧ s = []) := by simp [hs]
              by_cases hs2 : List.filter notWouldBlock s = []
              · rw [if_neg hs', if_pos ⟨rfl, hs2⟩]
                have := ih st'
                rw [hs2] at this
                simp only [emitsOf_cons_nothing, this]
                -- polls over an empty script end with `nothing` or `blocked`
                have hph := usartStep_nothing st st' it h
                simp [bytePolls, hph]
              · have hs3 : ¬ (Out.nothing = Out.nothing ∧ List.filter notWouldBlock s = []) := by simp [hs2]
                rw [if_neg hs', if_neg hs3]
                exact emitsOf_cons_congr _ _ _ (ih st')
          · have h1 : ¬ (o = Out.nothing ∧ s = []) := by simp [ho]
            have h2 : ¬ (o = Out.nothing ∧ List.filter notWouldBlock s = []) := by simp [ho]
            rw [if_neg h1, if_neg h2]
            exact emitsOf_cons_congr _ _ _ (ih st')


/-- effect of a completed body on the rest of the polling -/
def afterFrame (step : LinkSt → ByteItem → LinkSt × Option Out) (rx : RxSt) (body : List UInt8)
    (tail : List ByteItem) : List Out :=
  match rxFrame rx (fromUsart body) with
  | (rx', some e) => .emit e :: bytePolls step ⟨.idle, rx'⟩ tail
  | (rx', none) => bytePolls step ⟨.idle, rx'⟩ tail

theorem bytePolls_finish (step : LinkSt → ByteItem → LinkSt × Option Out) (st : LinkSt) (it : ByteItem)
    (s : List ByteItem) (rx : RxSt) (body : List UInt8) (h : step st it = finishFrame rx body) :
    bytePolls step st (it :: s) = afterFrame step rx body s := by
  simp only [bytePolls, h, finishFrame, afterFrame]
  cases hr : rxFrame rx (fromUsart body) with
  | mk rx' oe => cases oe <;> simp

/-- reading the body of a link frame byte by byte -/
theorem bytePolls_body (step : LinkSt → ByteItem → LinkSt × Option Out)
    (hstep : ∀ st b, step st (.byte b) = usartStep st (.byte b))
    (rx : RxSt) (len : Nat) (acc rest : List UInt8) (tail : List ByteItem)
    (h : acc.length + rest.length = len) (hr : rest ≠ []) :
    bytePolls step ⟨.body len acc, rx⟩ (rest.map .byte ++ tail) = afterFrame step rx (acc ++ rest) tail := by
  induction rest generalizing acc with
  | nil => exact absurd rfl hr
  | cons b bs ih =>
    simp only [List.map_cons, List.cons_append]
    by_cases hb : bs = []
    · subst hb
      have : (acc ++ [b]).length = len := by simp at h ⊢; omega
      simp only [List.map_nil, List.nil_append]
      exact bytePolls_finish step _ _ _ rx (acc ++ [b]) (by simp [hstep, usartStep, pushBody, this])
    · have : (acc ++ [b]).length ≠ len := by
        have := List.length_pos_iff.mpr hb
        simp at h ⊢; omega
      simp only [bytePolls, hstep, usartStep, pushBody, this, if_false]
      have := ih (acc ++ [b]) (by simp at h ⊢; omega) hb
      simpa using this

theorem bytePolls_none (step : LinkSt → ByteItem → LinkSt × Option Out) (st st' : LinkSt) (it : ByteItem)
    (s : List ByteItem) (h : step st it = (st', none)) : bytePolls step st (it :: s) = bytePolls step st' s := by
  simp only [bytePolls, h]

/-- a whole link frame behaves as one frame-level step on its decoded body -/
theorem bytePolls_linkFrame (step : LinkSt → ByteItem → LinkSt × Option Out)
    (hstep : ∀ st b, step st (.byte b) = usartStep st (.byte b))
    (rx : RxSt) (body : List UInt8) (hb : body.length ≤ 255) (tail : List ByteItem) :
    bytePolls step ⟨.idle, rx⟩ ((linkFrame body).map .byte ++ tail) = afterFrame step rx body tail := by
  simp only [linkFrame, List.map_cons, List.cons_append]
  rw [bytePolls_none step ⟨.idle, rx⟩ ⟨.gotDelim, rx⟩ _ _ (by simp [hstep, usartStep])]
  by_cases h0 : body = []
  · subst h0
    simp only [List.length_nil, List.map_nil, List.nil_append]
    exact bytePolls_finish step _ _ _ rx [] (by simp [hstep, usartStep, startBody])
  · have hpos := List.length_pos_iff.mpr h0
    have hne : UInt8.ofNat body.length ≠ 0 := Cobs.ofNat_ne_zero hpos (by omega)
    have hto : (UInt8.ofNat body.length).toNat = body.length := by simp; omega
    rw [bytePolls_none step ⟨.gotDelim, rx⟩ ⟨.body body.length [], rx⟩ _ _
      (by simp [hstep, usartStep, startBody, hne, hto])]
    have := bytePolls_body step hstep rx body.length [] body tail (by simp) h0
    simpa using this

/-- C06/C13 (USART): over whole link frames the receiver is exactly the frame-level transducer on the
decoded bodies; in particular it never blocks and never reads past the supplied frames -/
theorem usartPolls_wire (rx : RxSt) (bodies : List (List UInt8)) (hb : ∀ b ∈ bodies, b.length ≤ 255) :
    usartPolls ⟨.idle, rx⟩ ((wireOf bodies).map .byte) =
      (run rx (bodies.map fromUsart)).1.map .emit ++ [.nothing] := by
  unfold usartPolls
  induction bodies generalizing rx with
  | nil => simp [wireOf, bytePolls, run]
  | cons b bs ih =>
    have hb0 := hb b (by simp)
    have hbs : ∀ c ∈ bs, c.length ≤ 255 := fun c hc => hb c (by simp [hc])
    simp only [wireOf, List.flatMap_cons, List.map_append, List.map_cons, run]
    rw [bytePolls_linkFrame usartStep (fun _ _ => rfl) rx b hb0]
    simp only [afterFrame]
    cases hr : rxFrame rx (fromUsart b) with
    | mk rx' oe =>
      cases oe with
      | none => simp only []; exact ih rx' hbs
      | some e =>
        simp only []
        have := ih rx' hbs
        simp only [wireOf] at this
        rw [this]
        simp


/-! ## serial port -/

theorem serialStep_byte (st : LinkSt) (b : UInt8) : serialStep st (.byte b) = usartStep st (.byte b) := by
  rcases st with ⟨ph, rx⟩
  cases ph <;> rfl

/-- what arrives at a byte link: whole link frames, separated by "no data yet" answers of the device and
by non-zero line noise, anywhere between frames -/
inductive Seg where
  | gap                          -- no data yet (USART would-block / serial-port time-out)
  | noise (bs : List UInt8)      -- bytes other than the delimiter
  | frame (body : List UInt8)

def Seg.items : Seg → List ByteItem
  | .gap => [.wouldBlock]
  | .noise bs => bs.map .byte
  | .frame body => (linkFrame body).map .byte

def Seg.bodies : List Seg → List (List UInt8)
  | [] => []
  | .frame b :: t => b :: Seg.bodies t
  | _ :: t => Seg.bodies t

def Seg.Ok : Seg → Prop
  | .noise bs => ∀ b ∈ bs, b ≠ 0
  | .frame body => body.length ≤ 255
  | .gap => True

theorem bytePolls_noise (step : LinkSt → ByteItem → LinkSt × Option Out)
    (hstep : ∀ st b, step st (.byte b) = usartStep st (.byte b))
    (rx : RxSt) (bs : List UInt8) (hb : ∀ b ∈ bs, b ≠ 0) (tail : List ByteItem) :
    bytePolls step ⟨.idle, rx⟩ (bs.map .byte ++ tail) = bytePolls step ⟨.idle, rx⟩ tail := by
  induction bs with
  | nil => rfl
  | cons b bs ih =>
    simp only [List.map_cons, List.cons_append]
    rw [bytePolls_none step ⟨.idle, rx⟩ ⟨.idle, rx⟩ _ _ (by simp [hstep, usartStep, hb b (by simp)])]
    exact ih (fun c hc => hb c (by simp [hc]))

/-- C06/C13 (USART and serial port): whole link frames with arbitrary bodies, with "no data yet" and
non-zero noise anywhere between them, are received as the frame-level transducer on the decoded bodies;
never blocked, never a read error -/
theorem bytePolls_segs (step : LinkSt → ByteItem → LinkSt × Option Out)
    (hstep : ∀ st b, step st (.byte b) = usartStep st (.byte b))
    (hgap : ∀ rx, step ⟨.idle, rx⟩ .wouldBlock = (⟨.idle, rx⟩, some .nothing))
    (rx : RxSt) (segs : List Seg) (hok : ∀ sg ∈ segs, sg.Ok) :
    emitsOf (bytePolls step ⟨.idle, rx⟩ (segs.flatMap Seg.items)) =
      (run rx ((Seg.bodies segs).map fromUsart)).1.map .emit := by
  induction segs generalizing rx with
  | nil => simp [bytePolls, Seg.bodies, run]
  | cons sg t ih =>
    have hok' : ∀ x ∈ t, x.Ok := fun x hx => hok x (by simp [hx])
    cases sg with
    | gap =>
      simp only [List.flatMap_cons, Seg.items, Seg.bodies, List.cons_append, List.nil_append, bytePolls, hgap]
      by_cases ht : t.flatMap Seg.items = []
      · simp only [ht, and_self, if_true]
        have := ih rx hok'
        rw [ht] at this
        simp only [bytePolls] at this
        simpa using this
      · simp only [ht, and_false, if_false, emitsOf_cons_nothing]
        exact ih rx hok'
    | noise bs =>
      simp only [List.flatMap_cons, Seg.items, Seg.bodies]
      rw [bytePolls_noise step hstep rx bs (hok (.noise bs) (by simp))]
      exact ih rx hok'
    | frame b =>
      have hb0 : b.length ≤ 255 := hok (.frame b) (by simp)
      simp only [List.flatMap_cons, Seg.items, Seg.bodies, List.map_cons, run]
      rw [bytePolls_linkFrame step hstep rx b hb0]
      simp only [afterFrame]
      cases hr : rxFrame rx (fromUsart b) with
      | mk rx' oe =>
        cases oe with
        | none => simp only []; exact ih rx' hok'
        | some e => simp only [emitsOf_cons_emit, List.map_cons]; rw [ih rx' hok']

theorem serialPollsRaw_segs (rx : RxSt) (segs : List Seg) (hok : ∀ sg ∈ segs, sg.Ok) :
    emitsOf (serialPollsRaw ⟨.idle, rx⟩ (segs.flatMap Seg.items)) =
      (run rx ((Seg.bodies segs).map fromUsart)).1.map .emit :=
  bytePolls_segs serialStep serialStep_byte (fun _ => rfl) rx segs hok

theorem usartPolls_segs (rx : RxSt) (segs : List Seg) (hok : ∀ sg ∈ segs, sg.Ok) :
    emitsOf (usartPolls ⟨.idle, rx⟩ (segs.flatMap Seg.items)) =
      (run rx ((Seg.bodies segs).map fromUsart)).1.map .emit :=
  bytePolls_segs usartStep (fun _ _ => rfl) (fun _ => rfl) rx segs hok

#print axioms usartPolls_erase
#print axioms usartPolls_wire
#print axioms serialPollsRaw_segs
end Ross
