import RossModel.Spec.Node
import RossModel.Protocol
/-!
# Protocol layer: handler registry (C17), dispatch (C15), send routing (C16)
-/
namespace Ross

/-! ## C17: the id allocator -/

def scan (a : Nat) (ids : List Nat) : Nat :=
  ids.foldl (fun first id => if first = id then first + 1 else first) a

theorem scan_spec (ids : List Nat) (hs : ids.Pairwise (· < ·)) (a : Nat) :
    a ≤ scan a ids ∧ scan a ids ∉ ids ∧ ∀ m, a ≤ m → m < scan a ids → m ∈ ids := by
  induction ids generalizing a with
  | nil => simp [scan]
  | cons x t ih =>
    have ht : t.Pairwise (· < ·) := (List.pairwise_cons.mp hs).2
    have hx : ∀ y ∈ t, x < y := (List.pairwise_cons.mp hs).1
    simp only [scan, List.foldl_cons]
    by_cases hax : a = x
    · subst hax
      simp only [if_true]
      obtain ⟨h1, h2, h3⟩ := ih ht (a + 1)
      simp only [scan] at h1 h2 h3
      refine ⟨by omega, ?_, ?_⟩
      · simp only [List.mem_cons, not_or]; exact ⟨by omega, h2⟩
      · intro m hm1 hm2
        by_cases hma : m = a
        · simp [hma]
        · exact List.mem_cons_of_mem _ (h3 m (by omega) hm2)
    · simp only [hax, if_false]
      obtain ⟨h1, h2, h3⟩ := ih ht a
      simp only [scan] at h1 h2 h3
      refine ⟨h1, ?_, ?_⟩
      · simp only [List.mem_cons, not_or]
        refine ⟨?_, h2⟩
        intro heq
        by_cases hlt : x < a
        · omega
        · -- x > a: then a itself is not in t, so the scan did not move
          have hgt : a < x := by omega
          by_cases hr : List.foldl (fun first id => if first = id then first + 1 else first) a t = a
          · omega
          · have := h3 a (Nat.le_refl _) (by omega)
            have := hx a this
            omega
      · intro m hm1 hm2
        exact List.mem_cons_of_mem _ (h3 m hm1 hm2)

/-- C17: the id handed out is not in use, and it is the least such id -/
theorem nextId_fresh (ids : List Nat) (hs : ids.Pairwise (· < ·)) :
    nextId ids ∉ ids ∧ ∀ m < nextId ids, m ∈ ids := by
  obtain ⟨_, h2, h3⟩ := scan_spec ids hs 0
  exact ⟨h2, fun m hm => h3 m (Nat.zero_le _) hm⟩

/-- the registry invariant: ids strictly ascending (so distinct) -/
def Proto.Sorted (s : Proto) : Prop := (s.handlers.map Prod.fst).Pairwise (· < ·)

theorem insertSorted_keys (id : Nat) (h : Handler) (l : List (Nat × Handler))
    (hs : (l.map Prod.fst).Pairwise (· < ·)) (hid : id ∉ l.map Prod.fst) :
    ((insertSorted id h l).map Prod.fst).Pairwise (· < ·) ∧
    (∀ e, e ∈ insertSorted id h l ↔ e = (id, h) ∨ e ∈ l) := by
  induction l with
  | nil => simp [insertSorted]
  | cons e t ih =>
    obtain ⟨j, g⟩ := e
    simp only [List.map_cons, List.pairwise_cons, List.mem_cons, not_or] at hs hid
    obtain ⟨hj, ht⟩ := hs
    obtain ⟨hne, hnt⟩ := hid
    simp only [insertSorted]
    by_cases h1 : id < j
    · simp only [h1, if_true]
      refine ⟨?_, by intro e; simp⟩
      simp only [List.map_cons, List.pairwise_cons, List.mem_cons]
      refine ⟨?_, hj, ht⟩
      intro a ha
      rcases ha with rfl | ha
      · exact h1
      · have := hj a ha; omega
    · have h2 : ¬ id = j := hne
      simp only [h1, h2, if_false]
      obtain ⟨ih1, ih2⟩ := ih ht hnt
      refine ⟨?_, ?_⟩
      · simp only [List.map_cons, List.pairwise_cons]
        refine ⟨?_, ih1⟩
        intro a ha
        obtain ⟨e, he, rfl⟩ := List.mem_map.mp ha
        rcases (ih2 e).mp he with rfl | he'
        · simp; omega
        · exact hj _ (List.mem_map_of_mem he')
      · intro e
        simp only [List.mem_cons, ih2 e]
        constructor
        · rintro (h | h | h) <;> simp [h]
        · rintro (h | h | h) <;> simp [h]

/-- C17: registering returns an unused id, keeps the invariant, keeps every registered handler under
its id, and adds exactly the new one -/
theorem add_spec (s : Proto) (hs : s.Sorted) (h : Handler) :
    (s.add h).2 ∉ s.handlers.map Prod.fst ∧ (s.add h).1.Sorted ∧
    ∀ e, e ∈ (s.add h).1.handlers ↔ e = ((s.add h).2, h) ∨ e ∈ s.handlers := by
  have hf := (nextId_fresh _ hs).1
  obtain ⟨h1, h2⟩ := insertSorted_keys (nextId (s.handlers.map Prod.fst)) h s.handlers hs hf
  exact ⟨hf, h1, h2⟩

/-- C17: removing a registered id removes exactly that handler; removing an unknown id changes nothing -/
theorem remove_spec (s : Proto) (hs : s.Sorted) (id : Nat) :
    (id ∈ s.handlers.map Prod.fst → (s.remove id).2 = .ok () ∧ (s.remove id).1.Sorted ∧
        ∀ e, e ∈ (s.remove id).1.handlers ↔ e ∈ s.handlers ∧ e.1 ≠ id) ∧
    (id ∉ s.handlers.map Prod.fst → s.remove id = (s, .error .noSuchHandler)) := by
  constructor
  · intro hin
    have hany : s.handlers.any (·.1 == id) = true := by
      obtain ⟨e, he, rfl⟩ := List.mem_map.mp hin
      exact List.any_eq_true.mpr ⟨e, he, by simp⟩
    simp only [Proto.remove, hany, if_true]
    refine ⟨trivial, ?_, ?_⟩
    · simp only [Proto.Sorted]
      exact List.Pairwise.sublist (List.Sublist.map _ (List.filter_sublist)) hs
    · intro e; simp [List.mem_filter]
  · intro hnot
    have hany : s.handlers.any (·.1 == id) = false := by
      rw [List.any_eq_false]
      intro e he hc
      exact hnot (List.mem_map.mpr ⟨e, he, by simpa using hc⟩)
    simp [Proto.remove, hany]


/-! ## C15 / C16: dispatch and routing -/





@[simp] theorem callsOf_append (a b : List LogEntry) : callsOf (a ++ b) = callsOf a ++ callsOf b := by
  simp [callsOf]
@[simp] theorem ncallsOf_append (a b : List LogEntry) : ncallsOf (a ++ b) = ncallsOf a ++ ncallsOf b := by
  simp [ncallsOf]
@[simp] theorem txOf_append (a b : List LogEntry) : txOf (a ++ b) = txOf a ++ txOf b := by
  simp [txOf]

/-- what stays fixed while handlers run -/
structure Proto.SameCfg (s s' : Proto) : Prop where
  addr : s'.addr = s.addr
  handlers : s'.handlers = s.handlers
  rxQueue : s'.rxQueue = s.rxQueue

theorem Proto.SameCfg.trans {a b c : Proto} (h1 : Proto.SameCfg a b) (h2 : Proto.SameCfg b c) : Proto.SameCfg a c :=
  ⟨h2.addr.trans h1.addr, h2.handlers.trans h1.handlers, h2.rxQueue.trans h1.rxQueue⟩

theorem ifaceSend_spec (s : Proto) (p : Packet) :
    Proto.SameCfg s (s.ifaceSend p).1 ∧ callsOf (s.ifaceSend p).1.log = callsOf s.log ∧
    txOf (s.ifaceSend p).1.log = txOf s.log ++ [p] := by
  unfold Proto.ifaceSend
  rcases h : s.txQueue with _ | ⟨_ | t, q⟩ <;> simp [callsOf, txOf] <;> exact ⟨rfl, rfl, rfl⟩

theorem ifaceSend_ncalls (s : Proto) (p : Packet) : ncallsOf (s.ifaceSend p).1.log = ncallsOf s.log := by
  unfold Proto.ifaceSend
  rcases h : s.txQueue with _ | ⟨_ | t, q⟩ <;> simp [ncallsOf]

theorem callsOf_ncallEntries (hs : List (Nat × Handler)) (q : Packet) :
    callsOf (hs.map fun x => LogEntry.ncall x.2.token q) = [] := by
  induction hs with
  | nil => rfl
  | cons x t ih => simp [callsOf] at ih ⊢

theorem txOf_ncallEntries (hs : List (Nat × Handler)) (q : Packet) :
    txOf (hs.map fun x => LogEntry.ncall x.2.token q) = [] := by
  induction hs with
  | nil => rfl
  | cons x t ih => simp [txOf] at ih ⊢

theorem ncallsOf_ncallEntries (hs : List (Nat × Handler)) (q : Packet) :
    ncallsOf (hs.map fun x => LogEntry.ncall x.2.token q) = hs.map fun x => (x.2.token, q) := by
  induction hs with
  | nil => rfl
  | cons x t ih => simpa [ncallsOf] using ih

theorem nestedDispatch_spec (s : Proto) (q : Packet) :
    Proto.SameCfg s (s.nestedDispatch q) ∧ callsOf (s.nestedDispatch q).log = callsOf s.log ∧
    ncallsOf (s.nestedDispatch q).log = ncallsOf s.log ++ (s.handlers.map fun x => (x.2.token, q)) ∧
    txOf (s.nestedDispatch q).log = txOf s.log := by
  refine ⟨⟨rfl, rfl, rfl⟩, ?_, ?_, ?_⟩
  · simp [Proto.nestedDispatch, callsOf_ncallEntries]
  · simp [Proto.nestedDispatch, ncallsOf_ncallEntries]
  · simp [Proto.nestedDispatch, txOf_ncallEntries]

/-- C16 for a send issued from inside a callback: the same routing as a send from outside. A packet for the device
itself is delivered (re-entrantly) exactly once to every registered handler in id order and stays off the link, unless the
device's own address is the broadcast address, in which case it is also transmitted; any other packet is transmitted once,
unmodified, and no handler is invoked -/
theorem nestedSend_spec (s : Proto) (q : Packet) :
    Proto.SameCfg s (s.nestedSend q) ∧ callsOf (s.nestedSend q).log = callsOf s.log ∧
    (q.addr = s.addr → s.addr ≠ BROADCAST →
        ncallsOf (s.nestedSend q).log = ncallsOf s.log ++ (s.handlers.map fun x => (x.2.token, q)) ∧
        txOf (s.nestedSend q).log = txOf s.log) ∧
    (q.addr = s.addr → s.addr = BROADCAST →
        ncallsOf (s.nestedSend q).log = ncallsOf s.log ++ (s.handlers.map fun x => (x.2.token, q)) ∧
        txOf (s.nestedSend q).log = txOf s.log ++ [q]) ∧
    (q.addr ≠ s.addr →
        ncallsOf (s.nestedSend q).log = ncallsOf s.log ∧ txOf (s.nestedSend q).log = txOf s.log ++ [q]) := by
  obtain ⟨c1, l1, n1, t1⟩ := nestedDispatch_spec s q
  obtain ⟨c2, l2, t2⟩ := ifaceSend_spec (s.nestedDispatch q) q
  have n2 := ifaceSend_ncalls (s.nestedDispatch q) q
  obtain ⟨c3, l3, t3⟩ := ifaceSend_spec s q
  have n3 := ifaceSend_ncalls s q
  by_cases ha : q.addr = s.addr
  · by_cases hb : s.addr = BROADCAST
    · have hbb : (s.addr != BROADCAST) = false := by simp [hb]
      have e : s.nestedSend q = ((s.nestedDispatch q).ifaceSend q).1 := by
        simp [Proto.nestedSend, ha, hbb]
      rw [e]
      refine ⟨c1.trans c2, l2.trans l1, fun _ h => absurd hb h, fun _ _ => ⟨n2.trans n1, by rw [t2, t1]⟩,
        fun h => absurd ha h⟩
    · have hbb : (s.addr != BROADCAST) = true := by simp [hb]
      have e : s.nestedSend q = s.nestedDispatch q := by
        simp [Proto.nestedSend, ha, hbb]
      rw [e]
      exact ⟨c1, l1, fun _ _ => ⟨n1, t1⟩, fun _ h => absurd h hb, fun h => absurd ha h⟩
  · have hab : (q.addr == s.addr) = false := by simp [ha]
    have e : s.nestedSend q = (s.ifaceSend q).1 := by
      simp [Proto.nestedSend, hab]
    rw [e]
    exact ⟨c3, l3, fun h => absurd h ha, fun h => absurd h ha, fun _ => ⟨n3, t3⟩⟩

/-- the same, as one equation per projection of the log -/
theorem nestedSend_log (s : Proto) (q : Packet) :
    ncallsOf (s.nestedSend q).log = ncallsOf s.log ++ loopCalls s.addr s.handlers [q] ∧
    txOf (s.nestedSend q).log = txOf s.log ++ wireSends s.addr [q] := by
  obtain ⟨_, _, h1, h2, h3⟩ := nestedSend_spec s q
  by_cases ha : q.addr = s.addr
  · by_cases hb : s.addr = BROADCAST
    · obtain ⟨n, t⟩ := h2 ha hb
      exact ⟨by rw [n]; simp [loopCalls, ha], by rw [t]; simp [wireSends, hb]⟩
    · obtain ⟨n, t⟩ := h1 ha hb
      exact ⟨by rw [n]; simp [loopCalls, ha], by rw [t]; simp [wireSends, ha, hb]⟩
  · obtain ⟨n, t⟩ := h3 ha
    exact ⟨by rw [n]; simp [loopCalls, ha], by rw [t]; simp [wireSends, ha]⟩

theorem loopCalls_cons (a : UInt16) (hs : List (Nat × Handler)) (q : Packet) (qs : List Packet) :
    loopCalls a hs (q :: qs) = loopCalls a hs [q] ++ loopCalls a hs qs := by
  by_cases h : q.addr = a <;> simp [loopCalls, h]

theorem wireSends_cons (a : UInt16) (q : Packet) (qs : List Packet) :
    wireSends a (q :: qs) = wireSends a [q] ++ wireSends a qs := by
  simp only [wireSends, List.filter_cons, List.filter_nil]
  split <;> simp

theorem handlerSends_spec (s : Proto) (qs : List Packet) :
    Proto.SameCfg s (s.handlerSends qs) ∧ callsOf (s.handlerSends qs).log = callsOf s.log ∧
    ncallsOf (s.handlerSends qs).log = ncallsOf s.log ++ loopCalls s.addr s.handlers qs ∧
    txOf (s.handlerSends qs).log = txOf s.log ++ wireSends s.addr qs := by
  induction qs generalizing s with
  | nil => simp [Proto.handlerSends, loopCalls, wireSends]; exact ⟨rfl, rfl, rfl⟩
  | cons q qs ih =>
    obtain ⟨c1, l1, _⟩ := nestedSend_spec s q
    obtain ⟨n1, t1⟩ := nestedSend_log s q
    obtain ⟨c2, l2, n2, t2⟩ := ih (s.nestedSend q)
    simp only [Proto.handlerSends]
    refine ⟨c1.trans c2, l2.trans l1, ?_, ?_⟩
    · rw [n2, n1, c1.addr, c1.handlers, loopCalls_cons s.addr s.handlers q qs, List.append_assoc]
    · rw [t2, t1, c1.addr, wireSends_cons s.addr q qs, List.append_assoc]

theorem dispatch_fold (hs : List (Nat × Handler)) (st : Proto) (p : Packet) (owned : Bool) :
    let r := hs.foldl (fun st (x : Nat × Handler) =>
      if owned || x.2.captureAll then
        ({ st with log := st.log ++ [LogEntry.call x.2.token p] }).handlerSends x.2.sends
      else st) st
    Proto.SameCfg st r ∧
    callsOf r.log = callsOf st.log ++ (recipients hs owned).map (fun h => (h.token, p)) ∧
    ncallsOf r.log = ncallsOf st.log ++ (recipients hs owned).flatMap (fun h => loopCalls st.addr st.handlers h.sends) ∧
    txOf r.log = txOf st.log ++ (recipients hs owned).flatMap (fun h => wireSends st.addr h.sends) := by
  induction hs generalizing st with
  | nil => simp [recipients]; exact ⟨rfl, rfl, rfl⟩
  | cons x t ih =>
    simp only [List.foldl_cons]
    by_cases hx : (owned || x.2.captureAll) = true
    · simp only [hx, if_true]
      obtain ⟨c1, l1, n1, t1⟩ := handlerSends_spec ({ st with log := st.log ++ [LogEntry.call x.2.token p] }) x.2.sends
      obtain ⟨c2, l2, n2, t2⟩ := ih (({ st with log := st.log ++ [LogEntry.call x.2.token p] }).handlerSends x.2.sends)
      refine ⟨⟨c2.addr.trans c1.addr, c2.handlers.trans c1.handlers, c2.rxQueue.trans c1.rxQueue⟩, ?_, ?_, ?_⟩
      · rw [l2, l1]; simp [recipients, hx, callsOf]
      · rw [n2, n1, c1.addr, c1.handlers]; simp [recipients, hx, ncallsOf]
      · rw [t2, t1, c1.addr]; simp [recipients, hx, txOf]
    · simp only [Bool.not_eq_true] at hx
      simp only [hx, Bool.false_eq_true, if_false]
      obtain ⟨c2, l2, n2, t2⟩ := ih st
      refine ⟨c2, ?_, ?_, ?_⟩
      · rw [l2]; simp [recipients, hx]
      · rw [n2]; simp [recipients, hx]
      · rw [t2]; simp [recipients, hx]

/-- C15: a dispatched packet reaches exactly the recipients, in id order, each once, unmodified; the packets their
callbacks send to other devices go out in that order, and those they send to the device itself are looped back (C16);
nothing else about the node changes -/
theorem dispatch_spec (s : Proto) (p : Packet) (owned : Bool) :
    Proto.SameCfg s (s.dispatch p owned) ∧
    callsOf (s.dispatch p owned).log = callsOf s.log ++ (recipients s.handlers owned).map (fun h => (h.token, p)) ∧
    ncallsOf (s.dispatch p owned).log = ncallsOf s.log ++
      (recipients s.handlers owned).flatMap (fun h => loopCalls s.addr s.handlers h.sends) ∧
    txOf (s.dispatch p owned).log = txOf s.log ++ (recipients s.handlers owned).flatMap (fun h => wireSends s.addr h.sends) := by
  have := dispatch_fold s.handlers s p owned
  simpa [Proto.dispatch] using this

/-- C15: `tick` consumes one link result; a packet for us or for everybody goes to every handler,
any other packet to the capture-all handlers; "nothing" is a success without calls; any other link
error is returned without calls -/
theorem tick_spec (s : Proto) :
    match s.rxQueue with
    | [] => s.tick = (s, .ok ())
    | .ok p :: q =>
      (s.tick).2 = .ok () ∧ (s.tick).1.rxQueue = q ∧ (s.tick).1.handlers = s.handlers ∧
      callsOf (s.tick).1.log = callsOf s.log ++
        (recipients s.handlers (p.addr == s.addr || p.addr == BROADCAST)).map (fun h => (h.token, p))
    | .error .noPacket :: q => s.tick = ({ s with rxQueue := q }, .ok ())
    | .error (.other t) :: q => s.tick = ({ s with rxQueue := q }, .error (.interface t)) := by
  rcases h : s.rxQueue with _ | ⟨r, q⟩
  · simp [Proto.tick, h]
  · rcases r with e | p
    · cases e <;> simp [Proto.tick, h]
    · simp only [Proto.tick, h]
      obtain ⟨c, l, _, _⟩ := dispatch_spec { s with rxQueue := q } p (p.addr == s.addr || p.addr == BROADCAST)
      exact ⟨trivial, c.rxQueue, c.handlers, l⟩

/-- C16: routing of `send_packet` -/
theorem sendPacket_spec (s : Proto) (p : Packet) :
    (p.addr = s.addr → s.addr ≠ BROADCAST →
        (s.sendPacket p).2 = .ok () ∧
        callsOf (s.sendPacket p).1.log = callsOf s.log ++ (s.handlers.map fun x => (x.2.token, p)) ∧
        txOf (s.sendPacket p).1.log = txOf s.log ++ (s.handlers.map Prod.snd).flatMap (fun h => wireSends s.addr h.sends)) ∧
    (p.addr = s.addr → s.addr = BROADCAST →
        callsOf (s.sendPacket p).1.log = callsOf s.log ++ (s.handlers.map fun x => (x.2.token, p)) ∧
        txOf (s.sendPacket p).1.log = txOf s.log ++ (s.handlers.map Prod.snd).flatMap (fun h => wireSends s.addr h.sends) ++ [p]) ∧
    (p.addr ≠ s.addr →
        callsOf (s.sendPacket p).1.log = callsOf s.log ∧ txOf (s.sendPacket p).1.log = txOf s.log ++ [p]) := by
  have hrec : recipients s.handlers true = s.handlers.map Prod.snd := by simp [recipients]
  obtain ⟨c, l, _, t⟩ := dispatch_spec s p true
  rw [hrec] at l t
  refine ⟨?_, ?_, ?_⟩
  · intro h1 h2
    simp only [Proto.sendPacket, h1, beq_self_eq_true, if_true, bne_iff_ne, ne_eq, h2, not_false_eq_true]
    exact ⟨trivial, by rw [l]; simp [Function.comp_def], t⟩
  · intro h1 h2
    have hb : (s.addr != BROADCAST) = false := by simp [h2]
    simp only [Proto.sendPacket, h1, beq_self_eq_true, if_true, hb, Bool.false_eq_true, if_false]
    obtain ⟨_, l2, t2⟩ := ifaceSend_spec (s.dispatch p true) p
    exact ⟨by rw [l2, l]; simp [Function.comp_def], by rw [t2, t]⟩
  · intro h1
    have hb : (p.addr == s.addr) = false := by simp [h1]
    simp only [Proto.sendPacket, hb, Bool.false_eq_true, if_false]
    obtain ⟨_, l2, t2⟩ := ifaceSend_spec s p
    exact ⟨l2, t2⟩

/-- C16: the loop-back sends of the callbacks run by a send to the own address -/
theorem sendPacket_ncalls (s : Proto) (p : Packet) (h : p.addr = s.addr) :
    ncallsOf (s.sendPacket p).1.log = ncallsOf s.log ++
      (s.handlers.map Prod.snd).flatMap (fun h => loopCalls s.addr s.handlers h.sends) := by
  have hrec : recipients s.handlers true = s.handlers.map Prod.snd := by simp [recipients]
  obtain ⟨_, _, n, _⟩ := dispatch_spec s p true
  rw [hrec] at n
  simp only [Proto.sendPacket, h, beq_self_eq_true, if_true]
  split
  · exact n
  · exact (ifaceSend_ncalls _ p).trans n

#print axioms nextId_fresh
#print axioms nestedSend_spec
#print axioms sendPacket_ncalls
#print axioms add_spec
#print axioms remove_spec
#print axioms dispatch_spec
#print axioms tick_spec
#print axioms sendPacket_spec
end Ross

namespace Ross

/-- what the link answers to the next `try_send_packet` -/
def nextTxAnswer (q : List (Option Nat)) : Except PErr Unit :=
  match q with
  | some t :: _ => .error (.interface t)
  | _ => .ok ()

theorem ifaceSend_result (s : Proto) (p : Packet) : (s.ifaceSend p).2 = nextTxAnswer s.txQueue := by
  unfold Proto.ifaceSend nextTxAnswer
  cases s.txQueue with
  | nil => rfl
  | cons a q => cases a <;> rfl

/-- C16: link send errors are returned to the caller — a packet for another device returns exactly what the link
answered to its transmission -/
theorem sendPacket_result (s : Proto) (p : Packet) (h : (p.addr == s.addr) = false) :
    (s.sendPacket p).2 = nextTxAnswer s.txQueue := by
  unfold Proto.sendPacket
  rw [h]
  exact ifaceSend_result s p

end Ross
