import RossModel.Spec.Frames
import RossModel.Frame
import RossModel.Lemmas.Bits
/-!
# CAN codec: layout, round trip, totality
-/
namespace Ross



theorem bit_lt (b : Bool) : bit b < 2 := by cases b <;> simp [bit]

theorem or5 (a b c d e : Nat) (ha : a < 2) (hb : b < 2) (hc : c < 2) (hd : d < 16) (he : e < 65536) :
    (a * 2^28 ||| b * 2^27 ||| c * 2^26 ||| d * 2^16 ||| e) = a * 2^28 + b * 2^27 + c * 2^26 + d * 2^16 + e := by
  have s1 : (a * 2^28 ||| b * 2^27) = a * 2^28 + b * 2^27 := or_eq_add_of_dvd (k := 28) (by omega) (by omega)
  have s2 : (a * 2^28 + b * 2^27 ||| c * 2^26) = a * 2^28 + b * 2^27 + c * 2^26 :=
    or_eq_add_of_dvd (k := 27) (by omega) (by omega)
  have s3 : (a * 2^28 + b * 2^27 + c * 2^26 ||| d * 2^16) = a * 2^28 + b * 2^27 + c * 2^26 + d * 2^16 :=
    or_eq_add_of_dvd (k := 26) (by omega) (by omega)
  rw [s1, s2, s3, or_eq_add_of_dvd (k := 16) (by omega) (by omega)]

theorem idExpr_eq (f : Frame) :
    ((bit f.notError <<< 28) ||| (bit f.start <<< 27) ||| (bit f.multi <<< 26)
      ||| (((f.fid &&& 0x0f00) >>> 8) <<< 16) ||| (f.addr.toNat &&& 0xffff)) = layoutId f := by
  have h1 := bit_lt f.notError; have h2 := bit_lt f.start; have h3 := bit_lt f.multi
  have ha := f.addr.toNat_lt
  simp only [and_f00, and_ffff, Nat.shiftLeft_eq, Nat.shiftRight_eq_div_pow, layoutId]
  have hd : f.fid / 256 % 16 * 256 / 2 ^ 8 = f.fid / 256 % 16 := by omega
  have he : f.addr.toNat % 65536 = f.addr.toNat := by omega
  rw [hd, he]
  exact or5 _ _ _ _ _ h1 h2 h3 (by omega) (by omega)

theorem layoutId_lt (f : Frame) : layoutId f < 2^29 := by
  have h1 := bit_lt f.notError; have h2 := bit_lt f.start; have h3 := bit_lt f.multi
  have ha := f.addr.toNat_lt
  unfold layoutId; omega

/-- C08 encode side: the identifier and payload are exactly the published layout -/
theorem toCan_layout (f : Frame) (h : f.WF) :
    toCan f = .ok { ext := true, id := layoutId f, rtr := false, dlc := f.dataLen, data := f.data.take f.dataLen } := by
  obtain ⟨h8, hl, _, _⟩ := h
  have := layoutId_lt f
  unfold toCan
  simp only [idExpr_eq]
  rw [if_neg (by omega), if_neg (by omega), if_neg (by omega)]

/-- field extraction stated arithmetically, for every identifier -/
theorem id_fields (id : Nat) :
    (((id >>> 28) &&& 1) != 0) = decide (id / 2^28 % 2 = 1) ∧
    (((id >>> 27) &&& 1) != 0) = decide (id / 2^27 % 2 = 1) ∧
    (((id >>> 26) &&& 1) != 0) = decide (id / 2^26 % 2 = 1) ∧
    ((id >>> 16) &&& 0xf) = id / 2^16 % 16 ∧
    ((id >>> 0) &&& 0xffff) = id % 65536 := by
  simp only [and_1, and_f, and_ffff, Nat.shiftRight_eq_div_pow]
  and_intros
  all_goals first
    | rfl
    | (simp; done)
    | (rw [Bool.eq_iff_iff]; simp)

theorem layout_fields (f : Frame) :
    decide (layoutId f / 2^28 % 2 = 1) = f.notError ∧ decide (layoutId f / 2^27 % 2 = 1) = f.start ∧
    decide (layoutId f / 2^26 % 2 = 1) = f.multi ∧ layoutId f / 2^16 % 16 = f.fid / 256 % 16 ∧
    layoutId f % 65536 = f.addr.toNat := by
  have ha := f.addr.toNat_lt
  unfold layoutId
  cases f.notError <;> cases f.start <;> cases f.multi <;> simp [bit] <;> omega



theorem fromCan_layoutId (f : Frame) (h : f.CanCanonical) :
    fromCan { ext := true, id := layoutId f, rtr := false, dlc := f.dataLen, data := f.data.take f.dataLen } = .ok f := by
  obtain ⟨⟨h8, hl, hid, hpad⟩, hc⟩ := h
  obtain ⟨i1, i2, i3, i4, i5⟩ := id_fields (layoutId f)
  obtain ⟨l1, l2, l3, l4, l5⟩ := layout_fields f
  unfold fromCan
  simp only [i1, i2, i3, i4, i5, l1, l2, l3, l4, l5, Bool.not_true, Bool.false_eq_true, if_false]
  have hlen : (f.data.take f.dataLen).length = f.dataLen := by simp; omega
  rw [if_neg (by simp; omega)]
  have htake : List.take f.dataLen (List.take f.dataLen f.data) = List.take f.dataLen f.data := by
    rw [List.take_take]; simp
  rw [htake, ← hpad]
  have haddr : UInt16.ofNat f.addr.toNat = f.addr := UInt16.ofNat_toNat
  rcases f with ⟨ne, st, mf, il, fid, addr, dl, data⟩
  simp only at *
  cases mf with
  | true =>
    simp only [if_true] at hc ⊢
    obtain ⟨hd1, hil, hhd⟩ := hc
    rw [if_neg (by omega), shl8_or _ _ (by have := (data.headD 0).toNat_lt; omega), hhd, haddr, hil]
    have : fid / 256 % 16 * 256 + fid % 256 = fid := by omega
    rw [this]
  | false =>
    simp only [Bool.false_eq_true, if_false] at hc ⊢
    obtain ⟨hs, hil, hf⟩ := hc
    subst hs hil hf
    rw [haddr]

theorem fromCan_toCan (f : Frame) (h : f.CanCanonical) :
    (match toCan f with | .ok c => fromCan c | .err e => .err e | .panic => .panic) = .ok f := by
  rw [toCan_layout f h.1]; exact fromCan_layoutId f h

theorem fromCan_no_panic (c : CanFrame) (h : c.Constructible) : fromCan c ≠ .panic := by
  obtain ⟨_, h8, hd⟩ := h
  unfold fromCan
  split; · simp
  split; · simp
  rename_i hr
  simp only [Bool.not_eq_true] at hr
  simp only [hr] at hd
  rw [if_neg (by simp at hd; omega)]
  repeat' split
  all_goals simp

#print axioms fromCan_toCan
#print axioms fromCan_no_panic

end Ross
