import RossModel.Link
import RossModel.Protocol
/-!
# Vocabulary for the protocol-level and end-to-end statements
-/
namespace Ross

def callsOf (l : List LogEntry) : List (Nat × Packet) :=
  l.filterMap fun | .call t p => some (t, p) | _ => none

/-- re-entrant handler invocations (from inside another callback's `send_packet`) -/
def ncallsOf (l : List LogEntry) : List (Nat × Packet) :=
  l.filterMap fun | .ncall t p => some (t, p) | _ => none

def txOf (l : List LogEntry) : List Packet :=
  l.filterMap fun | .tx p _ => some p | _ => none

/-- the handlers a packet is delivered to -/
def recipients (hs : List (Nat × Handler)) (owned : Bool) : List Handler :=
  (hs.map Prod.snd).filter fun h => owned || h.captureAll

/-- of the packets a callback sends, those C16 routes to the link: everything not addressed to the
device itself, and everything when the device's own address is the broadcast address -/
def wireSends (addr : UInt16) (qs : List Packet) : List Packet :=
  qs.filter fun q => !(q.addr == addr) || addr == BROADCAST

/-- of the packets a callback sends, those C16 loops back, each to every registered handler in id order -/
def loopCalls (addr : UInt16) (hs : List (Nat × Handler)) (qs : List Packet) : List (Nat × Packet) :=
  (qs.filter fun q => q.addr == addr).flatMap fun q => hs.map fun x => (x.2.token, q)

/-- what `Interface::try_get_packet` returns for one poll of a link receiver -/
def toRx : Out → Except IfErr Packet
  | .nothing => .error .noPacket
  | .emit (.packet p) => .ok p
  | .emit _ => .error (.other 1)
  | .blocked => .error (.other 2)

/-- tick once per queued link result -/
def Proto.tickAll (s : Proto) : Proto :=
  (List.range s.rxQueue.length).foldl (fun st _ => st.tick.1) s

def packetsOf : List (Except IfErr Packet) → List Packet
  | [] => []
  | .ok p :: q => p :: packetsOf q
  | _ :: q => packetsOf q

def ownedBy (addr : UInt16) (p : Packet) : Bool := p.addr == addr || p.addr == BROADCAST

/-- the events C16 routes to the link (everything not addressed to the sender itself, and everything
when the sender's own address is the broadcast address) -/
def routed (a : UInt16) (e : Event) : Bool := e.receiver != a || a == BROADCAST

end Ross
