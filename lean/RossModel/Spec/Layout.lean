import RossModel.Event
/-!
# The published event layouts, stated a second time and independently of `Event.lean`

* `specEncode`: a field table per kind (16-bit big-endian event code from the literal table
  `0x0000 … 0x000f`, then the fields in their documented order and widths);
* `refDecode`: a reference decoder written by pattern matching on the exact byte shape of each layout
  (strict: canonical booleans only), with literal event codes.
-/
namespace Ross.Spec

inductive Field where
  | u8 (v : UInt8)
  | u16 (v : UInt16)     -- big-endian
  | u32 (v : UInt32)     -- big-endian
  | raw (bs : List UInt8)

def Field.bytes : Field → List UInt8
  | .u8 v => [v]
  | .u16 v => [hi8 v, lo8 v]
  | .u32 v => [b3 v, b2 v, b1 v, b0 v]
  | .raw bs => bs

/-- the published event code table -/
def publishedCode : Kind → UInt16
  | .bootloaderHello => 0 | .programmerHello => 1 | .startFirmwareUpgrade => 2 | .ack => 3 | .data => 4
  | .configuratorHello => 5 | .bcmChange => 6 | .buttonPressed => 7 | .buttonReleased => 8 | .systemTick => 9
  | .startConfigUpgrade => 10 | .setDeviceAddress => 11 | .message => 12 | .bcmAnimate => 13 | .relaySet => 14
  | .gatewayDiscover => 15

def flag (b : Bool) : UInt8 := if b then 1 else 0

/-- brightness value: tag byte, then the components -/
def bcmFields : BcmValue → List Field
  | .binary v => [.u8 0, .u8 (flag v)]
  | .single v => [.u8 1, .u8 v]
  | .rgb r g b => [.u8 2, .u8 r, .u8 g, .u8 b]
  | .rgbB r g b br => [.u8 3, .u8 r, .u8 g, .u8 b, .u8 br]
  | .rgbw r g b w => [.u8 4, .u8 r, .u8 g, .u8 b, .u8 w]
  | .rgbwB r g b w br => [.u8 5, .u8 r, .u8 g, .u8 b, .u8 w, .u8 br]

/-- relay value: one byte; "on" is 0x00 -/
def relayFields : RelayValue → List Field
  | .single true => [.u8 0]
  | .single false => [.u8 1]
  | .firstChannelOn => [.u8 2]
  | .secondChannelOn => [.u8 3]
  | .noChannelOn => [.u8 4]

/-- message value: 4-byte little-endian tag, payload at offset 4 (little-endian), padding unspecified -/
def msgFields (pad : Pad) : MessageValue → List Field
  | .u8 v => [.raw [0, 0, 0, 0], .u8 v, .raw [pad.p1, pad.p2, pad.p3]]
  | .u16 v => [.raw [1, 0, 0, 0], .u8 (lo8 v), .u8 (hi8 v), .raw [pad.p1, pad.p2]]
  | .u32 v => [.raw [2, 0, 0, 0], .u8 (b0 v), .u8 (b1 v), .u8 (b2 v), .u8 (b3 v)]
  | .bool v => [.raw [3, 0, 0, 0], .u8 (flag v), .raw [pad.p1, pad.p2, pad.p3]]

/-- the fields that follow the event code -/
def fields (pad : Pad) : Event → List Field
  | .bootloaderHello _ b => [.u16 b]
  | .programmerHello p => [.u16 p]
  | .startFirmwareUpgrade _ p s => [.u16 p, .u32 s]
  | .ack _ t => [.u16 t]
  | .data _ t n d => [.u16 t, .u16 n, .raw d]
  | .configuratorHello => []
  | .bcmChange _ t i v => [.u16 t, .u8 i] ++ bcmFields v
  | .buttonPressed _ b i => [.u16 b, .u8 i]
  | .buttonReleased _ b i => [.u16 b, .u8 i]
  | .systemTick _ => []
  | .startConfigUpgrade _ p s => [.u16 p, .u32 s]
  | .setDeviceAddress _ p n => [.u16 p, .u16 n]
  | .message _ t c v => [.u16 t, .u16 c] ++ msgFields pad v
  | .bcmAnimate _ t i d v => [.u16 t, .u8 i, .u32 d] ++ bcmFields v
  | .relaySet _ t i v => [.u16 t, .u8 i] ++ relayFields v
  | .gatewayDiscover _ g => [.u16 g]

/-- the published encoding of an event -/
def specEncode (pad : Pad) (e : Event) : Packet :=
  { isError := false, addr := e.receiver,
    data := ((Field.u16 (publishedCode e.kind)) :: fields pad e).flatMap Field.bytes }

/-! ## reference decoder -/

def refBool (b : UInt8) : Option Bool := if b = 0 then some false else if b = 1 then some true else none

def refBcm : List UInt8 → Option BcmValue
  | [0, v] => (refBool v).map .binary
  | [1, v] => some (.single v)
  | [2, r, g, b] => some (.rgb r g b)
  | [3, r, g, b, br] => some (.rgbB r g b br)
  | [4, r, g, b, w] => some (.rgbw r g b w)
  | [5, r, g, b, w, br] => some (.rgbwB r g b w br)
  | _ => none

def refRelay : List UInt8 → Option RelayValue
  | [0] => some (.single true)
  | [1] => some (.single false)
  | [2] => some .firstChannelOn
  | [3] => some .secondChannelOn
  | [4] => some .noChannelOn
  | _ => none

def refMsg : List UInt8 → Option MessageValue
  | [0, 0, 0, 0, v, _, _, _] => some (.u8 v)
  | [1, 0, 0, 0, l, h, _, _] => some (.u16 (be16 h l))
  | [2, 0, 0, 0, a, b, c, d] => some (.u32 (be32 d c b a))
  | [3, 0, 0, 0, v, _, _, _] => (refBool v).map .bool
  | _ => none

def refDecode (k : Kind) (p : Packet) : Option Event :=
  if p.isError then none else
  match k, p.data with
  | .bootloaderHello, [0, 0, a, b] => some (.bootloaderHello p.addr (be16 a b))
  | .programmerHello, [0, 1, a, b] => some (.programmerHello (be16 a b))
  | .startFirmwareUpgrade, [0, 2, a, b, s3, s2, s1, s0] =>
      some (.startFirmwareUpgrade p.addr (be16 a b) (be32 s3 s2 s1 s0))
  | .ack, [0, 3, a, b] => some (.ack p.addr (be16 a b))
  | .data, 0 :: 4 :: a :: b :: n1 :: n0 :: d =>
      if (be16 n1 n0).toNat = d.length then some (.data p.addr (be16 a b) (be16 n1 n0) d) else none
  | .configuratorHello, [0, 5] => some .configuratorHello
  | .bcmChange, 0 :: 6 :: a :: b :: i :: v => (refBcm v).map (.bcmChange p.addr (be16 a b) i)
  | .buttonPressed, [0, 7, a, b, i] => some (.buttonPressed p.addr (be16 a b) i)
  | .buttonReleased, [0, 8, a, b, i] => some (.buttonReleased p.addr (be16 a b) i)
  | .systemTick, [0, 9] => some (.systemTick p.addr)
  | .startConfigUpgrade, [0, 10, a, b, s3, s2, s1, s0] =>
      some (.startConfigUpgrade p.addr (be16 a b) (be32 s3 s2 s1 s0))
  | .setDeviceAddress, [0, 11, a, b, c, d] => some (.setDeviceAddress p.addr (be16 a b) (be16 c d))
  | .message, 0 :: 12 :: a :: b :: c :: d :: v => (refMsg v).map (.message p.addr (be16 a b) (be16 c d))
  | .bcmAnimate, 0 :: 13 :: a :: b :: i :: d3 :: d2 :: d1 :: d0 :: v =>
      (refBcm v).map (.bcmAnimate p.addr (be16 a b) i (be32 d3 d2 d1 d0))
  | .relaySet, 0 :: 14 :: a :: b :: i :: v => (refRelay v).map (.relaySet p.addr (be16 a b) i)
  | .gatewayDiscover, [0, 15, a, b] => some (.gatewayDiscover p.addr (be16 a b))
  | _, _ => none

end Ross.Spec
