import RossModel.Packet
/-!
# Independent specifications of fragmentation and of the two wire images

Written from the documented formats, not from the code: the chunk-based fragmenter (`specFrames`), the
arithmetic CAN identifier layout (`layoutId`), the five USART header bytes (`header`) and, from those, what
a packet puts on a USART / serial-port link (`usartBodies`) and on the CAN bus (`canWire`).
`toFrames_eq_spec`, `toCan_layout`, `toUsart_layout`, `usartFrames_eq` and `canFramesOf_eq` prove that the
model of the code (`Packet.toFrames`, `toCan`, `toUsart`, …) computes exactly these.
-/
namespace Ross

/-- independent fragmenter: chunk the payload. -/
def chunks7 (l : List UInt8) : List (List UInt8) :=
  if h : l = [] then [] else l.take 7 :: chunks7 (l.drop 7)
termination_by l.length
decreasing_by
  cases l with
  | nil => exact absurd rfl h
  | cons a t => simp; omega

def specFrames (p : Packet) : List Frame :=
  if p.data.length ≤ 8 then
    [{ notError := !p.isError, start := true, multi := false, idLast := true, fid := 0,
       addr := p.addr, dataLen := p.data.length, data := pad8 p.data }]
  else
    let cs := chunks7 p.data
    cs.mapIdx fun i c =>
      let id := if i = 0 then cs.length - 1 else i
      { notError := !p.isError, start := i == 0, multi := true, idLast := i == 0, fid := id,
        addr := p.addr, dataLen := c.length + 1, data := pad8 (UInt8.ofNat id :: c) }

/-- the identifier layout stated arithmetically -/
def layoutId (f : Frame) : Nat :=
  bit f.notError * 2^28 + bit f.start * 2^27 + bit f.multi * 2^26 + (f.fid / 256 % 16) * 2^16 + f.addr.toNat

/-- frames the CAN link carries faithfully (everything `to_frames` produces) -/
def Frame.CanCanonical (f : Frame) : Prop :=
  f.WF ∧ (if f.multi then 1 ≤ f.dataLen ∧ f.idLast = f.start ∧ (f.data.headD 0).toNat = f.fid % 256
          else f.start = true ∧ f.idLast = true ∧ f.fid = 0)

/-- byte 0 of the header, stated arithmetically -/
def hdr0 (f : Frame) : Nat := bit f.notError * 128 + bit f.start * 64 + bit f.multi * 32 + f.fid / 256 % 16

/-- the five header bytes, stated arithmetically (C09 layout) -/
def header (f : Frame) : List UInt8 :=
  [UInt8.ofNat (hdr0 f), UInt8.ofNat (f.fid % 256), UInt8.ofNat (f.addr.toNat / 256),
   UInt8.ofNat (f.addr.toNat % 256), UInt8.ofNat f.dataLen]

/-- the id kind is not on the wire: the decoder derives it from the start flag -/
def normKind (f : Frame) : Frame := { f with idLast := f.start }

/-- the USART bodies a packet puts on the wire -/
def usartBodies (p : Packet) : List (List UInt8) := (specFrames p).map fun f => Cobs.encode (usartBody f)

/-- the CAN frames a packet puts on the bus -/
def canWire (p : Packet) : List CanFrame :=
  (specFrames p).map fun f => { ext := true, id := layoutId f, rtr := false, dlc := f.dataLen, data := f.data.take f.dataLen }

end Ross
