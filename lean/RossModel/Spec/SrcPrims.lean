import RossModel.Event
/-!
# Reading of the Rust slice operations the event decoders use (for the translated decoders)

`packet.data[a..=b]` panics when `a > b + 1` or `b` is not an index; `.try_into().unwrap()` to `[u8; N]` panics when
the slice does not have `N` bytes; `packet.data[i]` panics when `i` is not an index; `&packet.data[n..]` panics when
`n` exceeds the length. The translator (`bin/rust2lean.py`, `DecTranslator`) emits these primitives; they are
hand-written and trusted as the meaning of those Rust expressions.
-/
namespace Ross.Prim

/-- `u16::from_be_bytes(d[a..=b].try_into().unwrap())` -/
def be16At (d : List UInt8) (a b : Nat) : Res CErr UInt16 :=
  if a ≤ b + 1 ∧ b < d.length ∧ b + 1 - a = 2 then
    (rd d a).bind fun h => (rd d (a + 1)).bind fun l => .ok (be16 h l)
  else .panic

/-- `u32::from_be_bytes(d[a..=b].try_into().unwrap())` -/
def be32At (d : List UInt8) (a b : Nat) : Res CErr UInt32 :=
  if a ≤ b + 1 ∧ b < d.length ∧ b + 1 - a = 4 then
    (rd d a).bind fun x => (rd d (a + 1)).bind fun y => (rd d (a + 2)).bind fun z => (rd d (a + 3)).bind fun w =>
      .ok (be32 x y z w)
  else .panic

/-- `d[i]` -/
def idx (d : List UInt8) (i : Nat) : Res CErr UInt8 := rd d i

/-- `&d[n..]` -/
def tailFrom (d : List UInt8) (n : Nat) : Res CErr (List UInt8) :=
  if n ≤ d.length then .ok (d.drop n) else .panic

/-- `let mut v = vec![0; n]; for i in 0..n { v[i] = d[i + k]; }` — panics when some `i + k` is not an index of `d` -/
def copyFrom (d : List UInt8) (k n : Nat) : Res CErr (List UInt8) :=
  if k + n ≤ d.length ∨ n = 0 then .ok ((d.drop k).take n) else .panic

end Ross.Prim
