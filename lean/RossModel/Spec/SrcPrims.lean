import RossModel.Event
/-!
# Reading of the Rust slice operations the event decoders use (for the translated decoders)

`packet.data[a..=b]` panics when `a > b + 1` or `b` is not an index; `.try_into().unwrap()` to `[u8; N]` panics when
the slice does not have `N` bytes; `packet.data[i]` panics when `i` is not an index; `&packet.data[n..]` panics when
`n` exceeds the length. The translator (`bin/rust2lean.py`, `DecTranslator`) emits these primitives; they are
hand-written and trusted as the meaning of those Rust expressions.
-/
namespace Ross.Prim

/-- `u16::from_be_bytes(d[a..=b].try_into().unwrap())` -/
def be16At (d : List UInt8) (a b : Nat) : Res CErr UInt16 :=
  if a ≤ b + 1 ∧ b < d.length ∧ b + 1 - a = 2 then
    (rd d a).bind fun h => (rd d (a + 1)).bind fun l => .ok (be16 h l)
  else .panic

/-- `u32::from_be_bytes(d[a..=b].try_into().unwrap())` -/
def be32At (d : List UInt8) (a b : Nat) : Res CErr UInt32 :=
  if a ≤ b + 1 ∧ b < d.length ∧ b + 1 - a = 4 then
    (rd d a).bind fun x => (rd d (a + 1)).bind fun y => (rd d (a + 2)).bind fun z => (rd d (a + 3)).bind fun w =>
      .ok (be32 x y z w)
  else .panic

/-- `d[i]` -/
def idx (d : List UInt8) (i : Nat) : Res CErr UInt8 := rd d i

/-- `&d[n..]` -/
def tailFrom (d : List UInt8) (n : Nat) : Res CErr (List UInt8) :=
  if n ≤ d.length then .ok (d.drop n) else .panic

/-- `let mut v = vec![0; n]; for i in 0..n { v[i] = d[i + k]; }` — panics when some `i + k` is not an index of `d` -/
def copyFrom (d : List UInt8) (k n : Nat) : Res CErr (List UInt8) :=
  if k + n ≤ d.length ∨ n = 0 then .ok ((d.drop k).take n) else .panic

/-- `for i in a..b { data.push(arr[i as usize]); }` — panics when some `i` of the range is not an index of `arr` -/
def pushRange (data arr : List UInt8) (a b : Nat) : Res BErr (List UInt8) :=
  if a < b ∧ arr.length < b then .panic else .ok (data ++ (arr.take b).drop a)

/-- `for x in xs.iter() { body }` with an accumulator, stopping at the first failure -/
def forEach {α β : Type} : List α → β → (β → α → Res BErr β) → Res BErr β
  | [], acc, _ => .ok acc
  | x :: xs, acc, body =>
    match body acc x with
    | .ok d => forEach xs d body
    | .err e => .err e
    | .panic => .panic

/-- `frame[i]` in `src/frame.rs` (errors of type `FrameError`) -/
def idxF (d : List UInt8) (i : Nat) : Res FErr UInt8 := rd d i

/-- `let mut data = [0u8; 8]; for i in 0..n { data[i] = fr[i + k]; }` — panics when some `i` is not an index of the array or
some `i + k` not an index of `fr` -/
def fill8 (fr : List UInt8) (k n : Nat) : Res FErr (List UInt8) :=
  if n = 0 ∨ (n ≤ 8 ∧ k + n ≤ fr.length) then .ok (pad8 ((fr.drop k).take n)) else .panic

/-- `BxFrame::new_data(ExtendedId::new(id).unwrap(), Data::new(&f.data[0..f.data_len as usize]).unwrap())`: `ExtendedId::new`
answers `None` for an identifier of more than 29 bits, the slice panics when `data_len` exceeds the array, `Data::new` answers
`None` for more than 8 bytes (arguments are evaluated left to right) -/
def canFrame (id : Nat) (f : Frame) : Res FErr CanFrame :=
  if 2^29 ≤ id then .panic
  else if f.data.length < f.dataLen then .panic
  else if 8 < f.dataLen then .panic
  else .ok { ext := true, id := id, rtr := false, dlc := f.dataLen, data := f.data.take f.dataLen }

end Ross.Prim

namespace Ross
/-- the hand-written model's reading of what `from_usart_frame` does after the COBS decoding (the second half of
`fromUsart`; `fromUsart_eq_body` in `Lemmas/SourceFrame.lean`) — the fallback of the translated function -/
def fromUsartModelBody (fr : List UInt8) : Res FErr Frame :=
  if fr.length < 5 then .err .wrongSize else do
  let b4 ← rd fr 4
  if fr.length ≠ b4.toNat + 5 ∨ 8 < b4.toNat then .err .wrongSize else do
  let b0 ← rd fr 0
  let b1 ← rd fr 1
  let b2 ← rd fr 2
  let b3 ← rd fr 3
  let ne := ((b0.toNat >>> 7) &&& 0x01) != 0
  let st := ((b0.toNat >>> 6) &&& 0x01) != 0
  let mf := ((b0.toNat >>> 5) &&& 0x01) != 0
  let fid := ((b0.toNat &&& 0x0f) <<< 8) ||| b1.toNat
  let addr := UInt16.ofNat ((b2.toNat <<< 8) ||| b3.toNat)
  let n := b4.toNat
  if fr.length < n + 5 then .panic else
  pure { notError := ne, start := st, multi := mf, idLast := st, fid := fid, addr := addr,
         dataLen := n, data := pad8 ((fr.drop 5).take n) }
end Ross
