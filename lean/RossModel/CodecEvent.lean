import RossModel.Codec
import RossModel.Event
/-!
# Text forms of events (line protocol)

`k<idx>:<field>:<field>…` with the fields in the order of the Rust struct; values:
`bin:<0|1>`, `single:<hh>`, `rgb:<hhhhhh>`, `rgbB:<8h>`, `rgbw:<8h>`, `rgbwB:<10h>`; relay `on|off|first|second|none`;
message `u8:<hh>`, `u16:<hhhh>`, `u32:<8h>`, `bool:<0|1>`.
-/
namespace Ross.Codec

def kindIdx : Kind → Nat
  | .bootloaderHello => 0 | .programmerHello => 1 | .startFirmwareUpgrade => 2 | .ack => 3 | .data => 4
  | .configuratorHello => 5 | .bcmChange => 6 | .buttonPressed => 7 | .buttonReleased => 8 | .systemTick => 9
  | .startConfigUpgrade => 10 | .setDeviceAddress => 11 | .message => 12 | .bcmAnimate => 13 | .relaySet => 14
  | .gatewayDiscover => 15

def kindOfIdx (n : Nat) : Option Kind := Kind.all[n]?

def h16 (x : UInt16) : String := hexNat 4 x.toNat
def h8 (x : UInt8) : String := hexNat 2 x.toNat
def h32 (x : UInt32) : String := hexNat 8 x.toNat

def showBcm : BcmValue → String
  | .binary v => "bin:" ++ (if v then "1" else "0")
  | .single v => "single:" ++ h8 v
  | .rgb r g b => "rgb:" ++ h8 r ++ h8 g ++ h8 b
  | .rgbB r g b br => "rgbB:" ++ h8 r ++ h8 g ++ h8 b ++ h8 br
  | .rgbw r g b w => "rgbw:" ++ h8 r ++ h8 g ++ h8 b ++ h8 w
  | .rgbwB r g b w br => "rgbwB:" ++ h8 r ++ h8 g ++ h8 b ++ h8 w ++ h8 br

def showRelay : RelayValue → String
  | .single true => "on" | .single false => "off" | .firstChannelOn => "first"
  | .secondChannelOn => "second" | .noChannelOn => "none"

def showMsg : MessageValue → String
  | .u8 v => "u8:" ++ h8 v | .u16 v => "u16:" ++ h16 v | .u32 v => "u32:" ++ h32 v
  | .bool v => "bool:" ++ (if v then "1" else "0")

def showEvent (e : Event) : String :=
  "k" ++ toString (kindIdx e.kind) ++
  (match e with
  | .bootloaderHello p b => ":" ++ h16 p ++ ":" ++ h16 b
  | .programmerHello p => ":" ++ h16 p
  | .startFirmwareUpgrade r p s => ":" ++ h16 r ++ ":" ++ h16 p ++ ":" ++ h32 s
  | .ack r t => ":" ++ h16 r ++ ":" ++ h16 t
  | .data r t n d => ":" ++ h16 r ++ ":" ++ h16 t ++ ":" ++ h16 n ++ ":" ++ hexBytes d
  | .configuratorHello => ""
  | .bcmChange a t i v => ":" ++ h16 a ++ ":" ++ h16 t ++ ":" ++ h8 i ++ ":" ++ showBcm v
  | .buttonPressed r b i => ":" ++ h16 r ++ ":" ++ h16 b ++ ":" ++ h8 i
  | .buttonReleased r b i => ":" ++ h16 r ++ ":" ++ h16 b ++ ":" ++ h8 i
  | .systemTick r => ":" ++ h16 r
  | .startConfigUpgrade r p s => ":" ++ h16 r ++ ":" ++ h16 p ++ ":" ++ h32 s
  | .setDeviceAddress r p n => ":" ++ h16 r ++ ":" ++ h16 p ++ ":" ++ h16 n
  | .message r t c v => ":" ++ h16 r ++ ":" ++ h16 t ++ ":" ++ h16 c ++ ":" ++ showMsg v
  | .bcmAnimate a t i d v => ":" ++ h16 a ++ ":" ++ h16 t ++ ":" ++ h8 i ++ ":" ++ h32 d ++ ":" ++ showBcm v
  | .relaySet a t i v => ":" ++ h16 a ++ ":" ++ h16 t ++ ":" ++ h8 i ++ ":" ++ showRelay v
  | .gatewayDiscover d g => ":" ++ h16 d ++ ":" ++ h16 g)

def p16 (s : String) : Option UInt16 := (parseHexNat s).map UInt16.ofNat
def p8 (s : String) : Option UInt8 := (parseHexNat s).map UInt8.ofNat
def p32 (s : String) : Option UInt32 := (parseHexNat s).map UInt32.ofNat

def parseBcm (tag val : String) : Option BcmValue := do
  let bs ← parseBytes val
  match tag, bs with
  | "single", [v] => some (.single v)
  | "rgb", [r, g, b] => some (.rgb r g b)
  | "rgbB", [r, g, b, br] => some (.rgbB r g b br)
  | "rgbw", [r, g, b, w] => some (.rgbw r g b w)
  | "rgbwB", [r, g, b, w, br] => some (.rgbwB r g b w br)
  | _, _ => none

def parseBcm' (tag val : String) : Option BcmValue :=
  if tag = "bin" then (if val = "1" then some (.binary true) else if val = "0" then some (.binary false) else none)
  else parseBcm tag val

def parseRelay : String → Option RelayValue
  | "on" => some (.single true) | "off" => some (.single false) | "first" => some .firstChannelOn
  | "second" => some .secondChannelOn | "none" => some .noChannelOn | _ => none

def parseMsg (tag val : String) : Option MessageValue :=
  match tag with
  | "u8" => (p8 val).map .u8
  | "u16" => (p16 val).map .u16
  | "u32" => (p32 val).map .u32
  | "bool" => if val = "1" then some (.bool true) else if val = "0" then some (.bool false) else none
  | _ => none

def parseEvent (s : String) : Option Event :=
  match s.splitOn ":" with
  | ["k0", p, b] => do pure (.bootloaderHello (← p16 p) (← p16 b))
  | ["k1", p] => do pure (.programmerHello (← p16 p))
  | ["k2", r, p, sz] => do pure (.startFirmwareUpgrade (← p16 r) (← p16 p) (← p32 sz))
  | ["k3", r, t] => do pure (.ack (← p16 r) (← p16 t))
  | ["k4", r, t, n, d] => do pure (.data (← p16 r) (← p16 t) (← p16 n) (← parsePayload d))
  | ["k5"] => some .configuratorHello
  | ["k6", a, t, i, vt, vv] => do pure (.bcmChange (← p16 a) (← p16 t) (← p8 i) (← parseBcm' vt vv))
  | ["k7", r, b, i] => do pure (.buttonPressed (← p16 r) (← p16 b) (← p8 i))
  | ["k8", r, b, i] => do pure (.buttonReleased (← p16 r) (← p16 b) (← p8 i))
  | ["k9", r] => do pure (.systemTick (← p16 r))
  | ["k10", r, p, sz] => do pure (.startConfigUpgrade (← p16 r) (← p16 p) (← p32 sz))
  | ["k11", r, p, n] => do pure (.setDeviceAddress (← p16 r) (← p16 p) (← p16 n))
  | ["k12", r, t, c, vt, vv] => do pure (.message (← p16 r) (← p16 t) (← p16 c) (← parseMsg vt vv))
  | ["k13", a, t, i, d, vt, vv] => do pure (.bcmAnimate (← p16 a) (← p16 t) (← p8 i) (← p32 d) (← parseBcm' vt vv))
  | ["k14", a, t, i, v] => do pure (.relaySet (← p16 a) (← p16 t) (← p8 i) (← parseRelay v))
  | ["k15", d, g] => do pure (.gatewayDiscover (← p16 d) (← p16 g))
  | _ => none

/-- positions of the unspecified padding bytes in an encoded message event (payload offsets) -/
def msgPadMask (v : MessageValue) : List Nat :=
  match v with
  | .u8 _ => [11, 12, 13] | .u16 _ => [12, 13] | .u32 _ => [] | .bool _ => [11, 12, 13]

/-- encoded packet with padding positions printed as `xx` -/
def showEncoded (e : Event) : String :=
  let p := encode ⟨0, 0, 0⟩ e
  let mask := match e with | .message _ _ _ v => msgPadMask v | _ => []
  let body := if p.data.isEmpty then "-" else
    String.join (p.data.mapIdx fun i b => if mask.contains i then "xx" else hexByte b)
  (if p.isError then "E:" else "D:") ++ hexNat 4 p.addr.toNat ++ ":" ++ body

def showCErr : CErr → String
  | .wrongSize => "WrongSize" | .unknownEnumVariant => "UnknownEnumVariant" | .wrongType => "WrongType"
  | .wrongEventType => "WrongEventType"

def parseCErr : String → Option CErr
  | "WrongSize" => some .wrongSize | "UnknownEnumVariant" => some .unknownEnumVariant
  | "WrongType" => some .wrongType | "WrongEventType" => some .wrongEventType | _ => none

end Ross.Codec
