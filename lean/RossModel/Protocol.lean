import RossModel.Event
/-!
# Model of `src/protocol.rs`

The interface is abstract here (the `Interface` trait): a queue of `try_get_packet` results and a
queue of `try_send_packet` results; what the protocol does to the outside world goes to one ordered log.
A handler closure is its identity (`token`), its capture flag, and the packets it sends through
the `&mut Protocol` it is handed: to other devices (C15), or to the device's own address, which loops
the packet back to every handler re-entrantly (C16). A handler invoked re-entrantly records the packet
and sends nothing, so the nesting is one level deep.
-/
namespace Ross

inductive IfErr where
  | noPacket                 -- `InterfaceError::NoPacketReceived`
  | other (tag : Nat)        -- any other `InterfaceError`
  deriving Repr, DecidableEq

inductive PErr where
  | interface (tag : Nat)    -- `ProtocolError::InterfaceError(e)`
  | noSuchHandler
  | packetTimeout
  deriving Repr, DecidableEq

structure Handler where
  token : Nat
  captureAll : Bool
  sends : List Packet
  deriving Repr, DecidableEq

inductive LogEntry where
  | call (token : Nat) (p : Packet)     -- a handler closure was invoked with `p`
  | ncall (token : Nat) (p : Packet)    -- … re-entrantly, from inside another callback's `send_packet`
  | tx (p : Packet) (ok : Bool)         -- `interface.try_send_packet(p)` was called and returned ok/err
  | wait                                -- the wait closure of an exchange ran
  deriving Repr, DecidableEq

structure Proto where
  addr : UInt16
  handlers : List (Nat × Handler)       -- ascending ids: `BTreeMap<u32, _>` iteration order
  rxQueue : List (Except IfErr Packet)  -- answers of `try_get_packet` (exhausted = `NoPacketReceived`)
  txQueue : List (Option Nat)           -- answers of `try_send_packet`: `none` = Ok, `some tag` = Err (exhausted = Ok)
  log : List LogEntry
  deriving Repr

def Proto.init (addr : UInt16) (rx : List (Except IfErr Packet)) (tx : List (Option Nat)) : Proto :=
  ⟨addr, [], rx, tx, []⟩

/-- `get_next_handler_id`: the scan over the ordered keys -/
def nextId (ids : List Nat) : Nat :=
  ids.foldl (fun first id => if first = id then first + 1 else first) 0

def insertSorted (id : Nat) (h : Handler) : List (Nat × Handler) → List (Nat × Handler)
  | [] => [(id, h)]
  | (j, g) :: t =>
    if id < j then (id, h) :: (j, g) :: t
    else if id = j then (id, h) :: t              -- `BTreeMap::insert` replaces
    else (j, g) :: insertSorted id h t

/-- `add_packet_handler` -/
def Proto.add (s : Proto) (h : Handler) : Proto × Nat :=
  let id := nextId (s.handlers.map Prod.fst)
  ({ s with handlers := insertSorted id h s.handlers }, id)

/-- registration under a given id (used by the driver to follow the ids an implementation hands out under another
allocation policy: C17 requires a fresh id, not a particular one); `none` when the id is in use -/
def Proto.addAt (s : Proto) (h : Handler) (id : Nat) : Option Proto :=
  if s.handlers.any (·.1 == id) then none else some { s with handlers := insertSorted id h s.handlers }

/-- `remove_packet_handler` -/
def Proto.remove (s : Proto) (id : Nat) : Proto × Except PErr Unit :=
  if s.handlers.any (·.1 == id) then
    ({ s with handlers := s.handlers.filter (·.1 != id) }, .ok ())
  else (s, .error .noSuchHandler)

/-- `interface.try_send_packet` on the scripted interface -/
def Proto.ifaceSend (s : Proto) (p : Packet) : Proto × Except PErr Unit :=
  match s.txQueue with
  | [] => ({ s with log := s.log ++ [LogEntry.tx p true] }, .ok ())
  | none :: q => ({ s with txQueue := q, log := s.log ++ [LogEntry.tx p true] }, .ok ())
  | some t :: q => ({ s with txQueue := q, log := s.log ++ [LogEntry.tx p false] }, .error (.interface t))

/-- `interface.try_get_packet` on the scripted interface (an exhausted script answers `NoPacketReceived`) -/
def Proto.ifaceGet (s : Proto) : Proto × Except IfErr Packet :=
  match s.rxQueue with
  | [] => (s, .error .noPacket)
  | r :: q => ({ s with rxQueue := q }, r)

/-- `self.handlers.remove(&id)`: the table without that key, and whether the key was there -/
def Proto.removeKey (s : Proto) (id : Nat) : Proto × Bool :=
  ({ s with handlers := s.handlers.filter (·.1 != id) }, s.handlers.any (·.1 == id))

/-- `handle_packet(q, true)` entered from inside a callback: every handler, in id order, is invoked
re-entrantly (and, invoked that way, only records the packet) -/
def Proto.nestedDispatch (s : Proto) (q : Packet) : Proto :=
  { s with log := s.log ++ s.handlers.map fun x => LogEntry.ncall x.2.token q }

/-- `send_packet` called by a handler from inside its callback (the callback ignores the result):
the same routing as `Proto.sendPacket` below -/
def Proto.nestedSend (s : Proto) (q : Packet) : Proto :=
  if q.addr == s.addr then
    let s' := s.nestedDispatch q
    if s.addr != BROADCAST then s' else (s'.ifaceSend q).1
  else (s.ifaceSend q).1

/-- the packets a handler sends from inside its callback, in order -/
def Proto.handlerSends (s : Proto) : List Packet → Proto
  | [] => s
  | q :: qs => (s.nestedSend q).handlerSends qs

/-- one handler closure is invoked with `p`: the call is logged, then the sends its callback makes are carried out -/
def Proto.invoke (st : Proto) (h : Handler) (p : Packet) : Proto :=
  ({ st with log := st.log ++ [LogEntry.call h.token p] }).handlerSends h.sends

/-- `self.handlers.insert(id, (handler, capture_all))` -/
def Proto.insertKey (s : Proto) (id : Nat) (h : Handler) : Proto :=
  { s with handlers := insertSorted id h s.handlers }

/-- the wait closure of an exchange runs -/
def Proto.waitMark (s : Proto) : Proto :=
  { s with log := s.log ++ [LogEntry.wait] }

/-- `handle_packet`: every handler in id order if `owned`, else the capture-all ones -/
def Proto.dispatch (s : Proto) (p : Packet) (owned : Bool) : Proto :=
  s.handlers.foldl (fun st (_, h) =>
    if owned || h.captureAll then
      ({ st with log := st.log ++ [LogEntry.call h.token p] }).handlerSends h.sends
    else st) s

/-- `tick` -/
def Proto.tick (s : Proto) : Proto × Except PErr Unit :=
  match s.rxQueue with
  | [] => (s, .ok ())
  | .ok p :: q =>
    let s' := { s with rxQueue := q }
    (s'.dispatch p (p.addr == s.addr || p.addr == BROADCAST), .ok ())
  | .error .noPacket :: q => ({ s with rxQueue := q }, .ok ())
  | .error (.other t) :: q => ({ s with rxQueue := q }, .error (.interface t))

/-- `send_packet` -/
def Proto.sendPacket (s : Proto) (p : Packet) : Proto × Except PErr Unit :=
  if p.addr == s.addr then
    let s' := s.dispatch p true
    if s.addr != BROADCAST then (s', .ok ())
    else s'.ifaceSend p
  else s.ifaceSend p

/-- the receive loop of `exchange_packet` -/
def Proto.exchangeLoop (s : Proto) (k : Kind) (capture : Bool) :
    List (Except IfErr Packet) → Proto × Except PErr Event
  | [] => ({ s with rxQueue := [] }, .error .packetTimeout)
  | .error .noPacket :: q => ({ s with rxQueue := q }, .error .packetTimeout)
  | .error (.other t) :: q => ({ s with rxQueue := q }, .error (.interface t))
  | .ok r :: q =>
    if capture || r.addr == s.addr || r.addr == BROADCAST then
      match decode k r with
      | .ok e => ({ s with rxQueue := q }, .ok e)
      | _ => s.exchangeLoop k capture q
    else s.exchangeLoop k capture q

/-- `exchange_packet::<_, R>` with `R` the event type of kind `k` -/
def Proto.exchange (s : Proto) (p : Packet) (k : Kind) (capture : Bool) : Proto × Except PErr Event :=
  match s.sendPacket p with
  | (s', .error e) => (s', .error e)
  | (s', .ok ()) =>
    let s'' := { s' with log := s'.log ++ [LogEntry.wait] }
    s''.exchangeLoop k capture s''.rxQueue

/-- the receive loop of `exchange_packets` -/
def Proto.exchangeAllLoop (s : Proto) (k : Kind) (capture : Bool) (acc : List Event) :
    List (Except IfErr Packet) → Proto × Except PErr (List Event)
  | [] => ({ s with rxQueue := [] }, .ok acc)
  | .error .noPacket :: q => ({ s with rxQueue := q }, .ok acc)
  | .error (.other t) :: q => ({ s with rxQueue := q }, .error (.interface t))
  | .ok r :: q =>
    if capture || r.addr == s.addr || r.addr == BROADCAST then
      match decode k r with
      | .ok e => s.exchangeAllLoop k capture (acc ++ [e]) q
      | _ => s.exchangeAllLoop k capture acc q
    else s.exchangeAllLoop k capture acc q

/-- `exchange_packets::<_, R>` -/
def Proto.exchangeAll (s : Proto) (p : Packet) (k : Kind) (capture : Bool) :
    Proto × Except PErr (List Event) :=
  match s.sendPacket p with
  | (s', .error e) => (s', .error e)
  | (s', .ok ()) =>
    let s'' := { s' with log := s'.log ++ [LogEntry.wait] }
    s''.exchangeAllLoop k capture [] s''.rxQueue

end Ross
