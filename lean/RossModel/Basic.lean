/-!
# Basic definitions shared by the whole model

`Res` is the outcome of a piece of Rust code: a value, an error *value*, or a panic
(index out of bounds, `unwrap` on `None`/`Err`, arithmetic overflow with overflow checks on).
Nothing in the model hides a panic behind Lean's totality: wherever the Rust code indexes,
unwraps or does checked arithmetic, the model has an explicit guard that yields `.panic`.
-/
namespace Ross

inductive Res (ε α : Type) where
  | ok (a : α)
  | err (e : ε)
  | panic
  deriving Repr, DecidableEq

namespace Res
@[inline] def bind {ε α β} (x : Res ε α) (f : α → Res ε β) : Res ε β :=
  match x with
  | .ok a => f a
  | .err e => .err e
  | .panic => .panic

instance {ε} : Monad (Res ε) where
  pure := .ok
  bind := Res.bind

@[simp] theorem ok_bind {ε α β} (a : α) (f : α → Res ε β) : (Res.ok a >>= f) = f a := rfl
@[simp] theorem err_bind {ε α β} (e : ε) (f : α → Res ε β) : ((Res.err e : Res ε α) >>= f) = .err e := rfl
@[simp] theorem panic_bind {ε α β} (f : α → Res ε β) : ((Res.panic : Res ε α) >>= f) = .panic := rfl
@[simp] theorem pure_eq {ε α} (a : α) : (pure a : Res ε α) = .ok a := rfl

def isOk {ε α} : Res ε α → Bool
  | .ok _ => true
  | _ => false

def isErr {ε α} : Res ε α → Bool
  | .err _ => true
  | _ => false
end Res

/-- zero-extend a byte list to the fixed `[u8; 8]` of a frame -/
def pad8 (l : List UInt8) : List UInt8 := l ++ List.replicate (8 - l.length) 0

@[simp] theorem pad8_length (l : List UInt8) (h : l.length ≤ 8) : (pad8 l).length = 8 := by
  simp [pad8] <;> omega

/-- checked index: Rust `data[i]` -/
def rd {ε} (d : List UInt8) (i : Nat) : Res ε UInt8 :=
  match d[i]? with
  | some b => .ok b
  | none => .panic

theorem rd_eq {ε} {d : List UInt8} {i : Nat} (h : i < d.length) : (rd d i : Res ε UInt8) = .ok d[i] := by
  simp [rd, h]
@[simp] theorem rd_cons_zero {ε} (b : UInt8) (d : List UInt8) : (rd (b :: d) 0 : Res ε UInt8) = .ok b := rfl
@[simp] theorem rd_cons_succ {ε} (b : UInt8) (d : List UInt8) (i : Nat) :
    (rd (b :: d) (i + 1) : Res ε UInt8) = rd d i := by simp [rd]

/-! `u16::from_be_bytes`, `u16::to_be_bytes`, and the `u32` pair: standard-library functions, stated arithmetically -/
def be16 (hi lo : UInt8) : UInt16 := UInt16.ofNat (hi.toNat * 256 + lo.toNat)
def hi8 (x : UInt16) : UInt8 := UInt8.ofNat (x.toNat / 256)
def lo8 (x : UInt16) : UInt8 := UInt8.ofNat (x.toNat % 256)
def be32 (a b c d : UInt8) : UInt32 :=
  UInt32.ofNat (((a.toNat * 256 + b.toNat) * 256 + c.toNat) * 256 + d.toNat)
def b3 (x : UInt32) : UInt8 := UInt8.ofNat (x.toNat / 16777216)
def b2 (x : UInt32) : UInt8 := UInt8.ofNat (x.toNat / 65536 % 256)
def b1 (x : UInt32) : UInt8 := UInt8.ofNat (x.toNat / 256 % 256)
def b0 (x : UInt32) : UInt8 := UInt8.ofNat (x.toNat % 256)
/-- little-endian `u32::from_ne_bytes` on the (little-endian) hosts we model -/
def le32 (a b c d : UInt8) : UInt32 := be32 d c b a

def u16b (x : UInt16) : List UInt8 := [hi8 x, lo8 x]
def u32b (x : UInt32) : List UInt8 := [b3 x, b2 x, b1 x, b0 x]

@[simp] theorem be16_hi_lo (x : UInt16) : be16 (hi8 x) (lo8 x) = x := by
  apply UInt16.toNat_inj.mp
  have := x.toNat_lt
  simp [be16, hi8, lo8] <;> omega
@[simp] theorem hi8_be16 (h l : UInt8) : hi8 (be16 h l) = h := by
  apply UInt8.toNat_inj.mp
  have := h.toNat_lt; have := l.toNat_lt
  simp [be16, hi8] <;> omega
@[simp] theorem lo8_be16 (h l : UInt8) : lo8 (be16 h l) = l := by
  apply UInt8.toNat_inj.mp
  have := h.toNat_lt; have := l.toNat_lt
  simp [be16, lo8] <;> omega
@[simp] theorem be32_bytes (x : UInt32) : be32 (b3 x) (b2 x) (b1 x) (b0 x) = x := by
  apply UInt32.toNat_inj.mp
  have := x.toNat_lt
  simp [be32, b3, b2, b1, b0] <;> omega
theorem be32_toNat (a b c d : UInt8) :
    (be32 a b c d).toNat = ((a.toNat * 256 + b.toNat) * 256 + c.toNat) * 256 + d.toNat := by
  have := a.toNat_lt; have := b.toNat_lt; have := c.toNat_lt; have := d.toNat_lt
  simp [be32] <;> omega
@[simp] theorem b3_be32 (a b c d : UInt8) : b3 (be32 a b c d) = a := by
  apply UInt8.toNat_inj.mp
  have := a.toNat_lt; have := b.toNat_lt; have := c.toNat_lt; have := d.toNat_lt
  simp [b3, be32_toNat] <;> omega
@[simp] theorem b2_be32 (a b c d : UInt8) : b2 (be32 a b c d) = b := by
  apply UInt8.toNat_inj.mp
  have := a.toNat_lt; have := b.toNat_lt; have := c.toNat_lt; have := d.toNat_lt
  simp [b2, be32_toNat] <;> omega
@[simp] theorem b1_be32 (a b c d : UInt8) : b1 (be32 a b c d) = c := by
  apply UInt8.toNat_inj.mp
  have := a.toNat_lt; have := b.toNat_lt; have := c.toNat_lt; have := d.toNat_lt
  simp [b1, be32_toNat] <;> omega
@[simp] theorem b0_be32 (a b c d : UInt8) : b0 (be32 a b c d) = d := by
  apply UInt8.toNat_inj.mp
  have := a.toNat_lt; have := b.toNat_lt; have := c.toNat_lt; have := d.toNat_lt
  simp [b0, be32_toNat] <;> omega

end Ross
