import RossModel.Codec
import RossModel.Trace
/-!
# Text forms and helpers for the link scenarios (`rx`, `rxh`, `tx`, `loop`, `e2e`)
-/
namespace Ross.Codec

def showLogBytes (bs : List UInt8) : String :=
  if bs.length ≤ 64 then hexBytes bs else "#" ++ hexNat 16 (fnv (hexBytes bs)).toNat ++ "/" ++ toString bs.length

/-- packets with long payloads are shown by digest -/
def showPacketShort (p : Packet) : String :=
  if p.data.length ≤ 64 then showPacket p
  else (if p.isError then "E:" else "D:") ++ hexNat 4 p.addr.toNat ++ ":" ++ showLogBytes p.data

def showOutShort : Out → String
  | .nothing => "nothing"
  | .blocked => "blocked"
  | .emit (.packet p) => "ok(" ++ showPacketShort p ++ ")"
  | .emit .panic => "panic"
  | .emit _ => "err"

def showByteItem : ByteItem → String
  | .byte b => hexByte b | .wouldBlock => "." | .error => "!" | .interrupted => "~" | .eof => "$"

def showByteItems (l : List ByteItem) : String := if l.isEmpty then "-" else String.join (l.map showByteItem)

def showCanItem : CanItem → String
  | .frame c => showCan c | .wouldBlock => "." | .overrun => "!"

def parseCanItems (s : String) : Option (List CanItem) :=
  (if s = "-" then [] else s.splitOn ",").mapM fun t =>
    if t = "." then some .wouldBlock else if t = "!" then some .overrun else (parseCan t).map .frame

/-- at most 8 consecutive "no data yet" items, each with probability 1/every (the harness draws the same stream) -/
def wbBurst (every : Nat) : Nat → UInt64 → Nat × UInt64
  | 0, s => (0, s)
  | fuel + 1, s =>
    let (s', z) := splitmix s
    if z.toNat % every == 0 then let (k, s'') := wbBurst every fuel s'; (k + 1, s'') else (0, s')

/-- insert "no data yet" items in front of the items marked as allowed, then possibly one at the end; `long = some (j, l)`:
a long idle gap of `l` such items goes in front of the first allowed item at or after position `j` (`i` counts items) -/
def scheduleFrom {α : Type} (wb : α) (every : Nat) : Option (Nat × Nat) → Nat → UInt64 → List (α × Bool) → List α
  | _, _, s, [] => let (_, z) := splitmix s; if z.toNat % 2 == 0 then [wb] else []
  | long, i, s, (it, allowed) :: t =>
    if allowed then
      let (gap, long') := match long with
        | some (j, l) => if i ≥ j then (l, none) else (0, long)
        | none => (0, none)
      let (k, s') := wbBurst every 8 s
      List.replicate gap wb ++ List.replicate k wb ++ it :: scheduleFrom wb every long' (i + 1) s' t
    else it :: scheduleFrom wb every long (i + 1) s t

/-- the harness's `schedule`: one seed in five carries a long idle gap (24..1000 items) at a seed-derived position -/
def schedule {α : Type} (wb : α) (every : Nat) (seed : UInt64) (items : List (α × Bool)) : List α :=
  let sd := seed.toNat
  let long := if sd % 5 == 0 && !items.isEmpty then some ((sd / 40) % items.length, [24, 25, 32, 64, 100, 256, 300, 1000].getD ((sd / 5) % 8) 24) else none
  scheduleFrom wb every long 0 seed items

/-- which bytes of a wire made of whole link frames are delimiters (`none`: a delimiter is expected,
`some none`: the length byte, `some (some k)`: `k` body bytes to go) -/
def startMask : Option (Option Nat) → List UInt8 → List Bool
  | _, [] => []
  | none, _ :: t => true :: startMask (some none) t
  | some none, l :: t => false :: startMask (if l.toNat = 0 then none else some (some l.toNat)) t
  | some (some k), _ :: t => false :: startMask (if k ≤ 1 then none else some (some (k - 1))) t

def scheduledBytes (link : String) (wire : List UInt8) (seed : Nat) : List ByteItem :=
  if link = "usart" then schedule .wouldBlock 6 (UInt64.ofNat seed) (wire.map fun b => (.byte b, true))
  else schedule .wouldBlock 3 (UInt64.ofNat seed) ((wire.zip (startMask none wire)).map fun (b, m) => (.byte b, m))

def scheduledCan (wire : List CanFrame) (seed : Nat) : List CanItem :=
  schedule .wouldBlock 4 (UInt64.ofNat seed) (wire.map fun c => (.frame c, true))

def showTrace {σ : Type} (l : List (Out × Nat × σ)) : String :=
  String.intercalate "," (l.map fun (o, n, _) => showOutShort o ++ "@" ++ toString n)

/-- the poll trace of a byte link -/
def byteTrace (link : String) (items : List ByteItem) : List (Out × Nat × LinkSt) :=
  if link = "usart" then bytePollsSt usartStep LinkSt.init items else serialPollsSt LinkSt.init items

end Ross.Codec
