import RossModel.Basic
/-!
# Model of the `cobs` crate, version 0.1.4 (dependency, modelled — not verified)

* `encode`: block form of `cobs::encode` into a buffer of `max_encoding_length` bytes.
  Valid for inputs shorter than 254 bytes — `to_usart_frame` never encodes more than 13.
* decoder: the crate's `CobsDecoder::feed` state machine, state by state, including the
  destination capacity (`add` fails when the buffer is full).
-/
namespace Ross.Cobs

/-- `run` = bytes of the current zero-free run already seen (they follow the code byte) -/
def encAux : List UInt8 → List UInt8 → List UInt8
  | run, [] => UInt8.ofNat (run.length + 1) :: run
  | run, x :: xs =>
    if x = 0 then UInt8.ofNat (run.length + 1) :: run ++ encAux [] xs
    else encAux (run ++ [x]) xs

/-- `cobs::encode` followed by `truncate(encoded_len)` (empty input encodes to nothing: `finalize` returns 0) -/
def encode (xs : List UInt8) : List UInt8 :=
  if xs = [] then [] else encAux [] xs

/-- `DecoderState` (`ErrOrComplete` is represented by the `Fed.done`/`Fed.err` results) -/
inductive St where
  | idle
  | grab (n : UInt8)
  | chain (n : UInt8)
  deriving Repr, DecidableEq

inductive Fed where
  | more (st : St) (out : List UInt8)   -- `Ok(None)`
  | done (out : List UInt8)             -- `Ok(Some(n))`
  | err                                 -- `Err(_)`
  deriving Repr, DecidableEq

/-- `add(dest, idx, byte)`: fails when the destination (capacity `cap`) is full -/
def add (cap : Nat) (out : List UInt8) (b : UInt8) (k : List UInt8 → Fed) : Fed :=
  if out.length < cap then k (out ++ [b]) else .err

/-- one `CobsDecoder::feed` -/
def feed (cap : Nat) (st : St) (out : List UInt8) (d : UInt8) : Fed :=
  match st with
  | .idle =>
    if d = 0 then .more .idle out
    else if d = 0xFF then .more (.chain 0xFE) out
    else .more (.grab (d - 1)) out
  | .grab n =>
    if n = 0 then
      if d = 0 then .done out
      else if d = 0xFF then add cap out 0 fun o => .more (.chain 0xFE) o
      else add cap out 0 fun o => .more (.grab (d - 1)) o
    else
      if d = 0 then .err
      else add cap out d fun o => .more (.grab (n - 1)) o
  | .chain n =>
    if n = 0 then
      if d = 0 then .done out
      else if d = 0xFF then .more (.chain 0xFE) out
      else .more (.grab (d - 1)) out
    else
      if d = 0 then .err
      else add cap out d fun o => .more (.chain (n - 1)) o

/-- `CobsDecoder::push`: feed a slice, stop at the first completion or error -/
def push (cap : Nat) : St → List UInt8 → List UInt8 → Fed
  | st, out, [] => .more st out
  | st, out, d :: ds =>
    match feed cap st out d with
    | .more st' out' => push cap st' out' ds
    | r => r

/-- What `Frame::from_usart_frame` does with the decoder after the repair of D1:
`push(body)` must ask for more, `push([0])` must complete; anything else is `CobsError`.
(On the pinned tree `cobs::decode` turned the other outcomes into panics.) -/
def decodeBody (src : List UInt8) : Option (List UInt8) :=
  match push src.length .idle [] src with
  | .more st out =>
    match feed src.length st out 0 with
    | .done out' => some out'
    | _ => none
  | _ => none

end Ross.Cobs
