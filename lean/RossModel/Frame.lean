import RossModel.Cobs
/-!
# Model of `src/frame.rs`
-/
namespace Ross

/-- `Frame`. `idLast = true` is `FrameId::LastFrameId`, `false` is `FrameId::CurrentFrameId`.
`fid` (a `u16`) and `dataLen` (a `u8`) are `Nat`s; their ranges are part of `WF`/`InRange`. -/
structure Frame where
  notError : Bool
  start : Bool
  multi : Bool
  idLast : Bool
  fid : Nat
  addr : UInt16
  dataLen : Nat
  data : List UInt8
  deriving Repr, DecidableEq

/-- what the Rust type itself guarantees -/
def Frame.InRange (f : Frame) : Prop := f.fid < 65536 ∧ f.dataLen < 256 ∧ f.data.length = 8

/-- "well-formed": at most 8 data bytes, 12-bit id, unused data bytes zero -/
def Frame.WF (f : Frame) : Prop :=
  f.dataLen ≤ 8 ∧ f.data.length = 8 ∧ f.fid < 4096 ∧ f.data = pad8 (f.data.take f.dataLen)

instance (f : Frame) : Decidable f.WF := by unfold Frame.WF; infer_instance

inductive FErr where
  | frameIsStandard | frameIsRemote | frameIdMissing | wrongSize | cobsError
  deriving Repr, DecidableEq

/-- a `bxcan::Frame` as far as its public API shows it -/
structure CanFrame where
  ext : Bool
  id : Nat
  rtr : Bool
  dlc : Nat
  data : List UInt8
  deriving Repr, DecidableEq

/-- frames that `bxcan`'s public constructors can build -/
def CanFrame.Constructible (c : CanFrame) : Prop :=
  (if c.ext then c.id < 2^29 else c.id < 2^11) ∧ c.dlc ≤ 8 ∧
  (if c.rtr then c.data = [] else c.data.length = c.dlc)

def bit (b : Bool) : Nat := if b then 1 else 0

/-- `Frame::to_bxcan_frame` -/
def toCan (f : Frame) : Res FErr CanFrame :=
  let id := (bit f.notError <<< 28) ||| (bit f.start <<< 27) ||| (bit f.multi <<< 26)
            ||| (((f.fid &&& 0x0f00) >>> 8) <<< 16) ||| (f.addr.toNat &&& 0xffff)
  if 2^29 ≤ id then .panic                         -- `ExtendedId::new(id).unwrap()`
  else if f.data.length < f.dataLen then .panic    -- `&self.data[0..self.data_len as usize]`
  else if 8 < f.dataLen then .panic                -- `Data::new(..).unwrap()`
  else .ok { ext := true, id := id, rtr := false, dlc := f.dataLen, data := f.data.take f.dataLen }

/-- `Frame::from_bxcan_frame` -/
def fromCan (c : CanFrame) : Res FErr Frame :=
  if !c.ext then .err .frameIsStandard else
  let id := c.id
  let ne := ((id >>> 28) &&& 0x0001) != 0
  let st := ((id >>> 27) &&& 0x0001) != 0
  let mf := ((id >>> 26) &&& 0x0001) != 0
  let nib := (id >>> 16) &&& 0x000f
  let addr := UInt16.ofNat ((id >>> 0) &&& 0xffff)
  if c.rtr then .err .frameIsRemote else
  if 8 < c.dlc ∨ c.data.length < c.dlc then .panic else   -- `data[i] = frame_data[i]` for `i < dlc`
  let data := pad8 (c.data.take c.dlc)
  if mf then
    if c.dlc = 0 then .err .frameIdMissing else
    let fid := (nib <<< 8) ||| (data.headD 0).toNat
    .ok { notError := ne, start := st, multi := mf, idLast := st, fid := fid, addr := addr,
          dataLen := c.dlc, data := data }
  else
    .ok { notError := ne, start := true, multi := mf, idLast := true, fid := 0, addr := addr,
          dataLen := c.dlc, data := data }

/-- the 5 header bytes and the data bytes of the USART body, before COBS -/
def usartBody (f : Frame) : List UInt8 :=
  let b0 := (bit f.notError <<< 7) ||| (bit f.start <<< 6) ||| (bit f.multi <<< 5)
            ||| ((f.fid &&& 0x0f00) >>> 8)
  [UInt8.ofNat b0, UInt8.ofNat (f.fid &&& 0x00ff),
   UInt8.ofNat ((f.addr.toNat &&& 0xff00) >>> 8), UInt8.ofNat (f.addr.toNat &&& 0x00ff),
   UInt8.ofNat f.dataLen] ++ f.data.take f.dataLen

/-- `Frame::to_usart_frame` -/
def toUsart (f : Frame) : Res FErr (List UInt8) :=
  if f.data.length < f.dataLen then .panic          -- `self.data[i]` for `i < data_len`
  else .ok (Cobs.encode (usartBody f))

/-- `Frame::from_usart_frame` (with the repairs D1 and D2) -/
def fromUsart (enc : List UInt8) : Res FErr Frame :=
  match Cobs.decodeBody enc with
  | none => .err .cobsError
  | some fr =>
    if fr.length < 5 then .err .wrongSize else do
    let b4 ← rd fr 4
    if fr.length ≠ b4.toNat + 5 ∨ 8 < b4.toNat then .err .wrongSize else do
    let b0 ← rd fr 0
    let b1 ← rd fr 1
    let b2 ← rd fr 2
    let b3 ← rd fr 3
    let ne := ((b0.toNat >>> 7) &&& 0x01) != 0
    let st := ((b0.toNat >>> 6) &&& 0x01) != 0
    let mf := ((b0.toNat >>> 5) &&& 0x01) != 0
    let fid := ((b0.toNat &&& 0x0f) <<< 8) ||| b1.toNat
    let addr := UInt16.ofNat ((b2.toNat <<< 8) ||| b3.toNat)
    let n := b4.toNat
    if fr.length < n + 5 then .panic else              -- `frame[i + 5]` for `i < data_len`
    pure { notError := ne, start := st, multi := mf, idLast := st, fid := fid, addr := addr,
           dataLen := n, data := pad8 ((fr.drop 5).take n) }

end Ross
