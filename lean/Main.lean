import RossModel.Codec
import RossModel.CodecEvent
import RossModel.CodecProto
import RossModel.Accept
import RossModel.Spec.Layout
open Ross Ross.Codec

/-- verdict for one line -/
inductive Verdict where
  | ok
  | okReason (note : String)          -- differs only in a rejection reason that truly applies
  | corr (model : String)             -- correspondence broken
  | prop (id : String) (clause : String) (model : String)   -- property predicate fails on the implementation's answer
  | bad (why : String)

def sepList (s : String) (sep : String) : List String := if s = "-" then [] else s.splitOn sep

/-! ## builder scenario -/

def showBuild : Res BErr Packet → String
  | .ok p => "ok(" ++ showPacket p ++ ")"
  | .err e => "err(" ++ showBErr e ++ ")"
  | .panic => "panic"

def showLeft : Res BErr Nat → String
  | .ok n => toString n
  | _ => "panic"

def builderState (b : Builder) : String :=
  toString b.expected ++ "/" ++ toString b.frameCount ++ "/" ++ showLeft b.framesLeft ++ "/" ++ showBuild b.build ++ "/" ++
    showBuild b.build

/-- run the model over the frames; for every step return (text with reason, text without reason, reason check) -/
def builderRun (f0 : Frame) (fs : List Frame) (implReasons : List (Option BErr)) : List String × List String × Bool :=
  match Builder.new f0 with
  | .err e =>
    let okR := match implReasons.head? with | some (some r) => newAppliesB r f0 | _ => false
    (["err(" ++ showBErr e ++ ")"], ["err"], okR)
  | .panic => (["panic"], ["panic"], true)
  | .ok b0 =>
    let rec go (b : Builder) (fs : List Frame) (rs : List (Option BErr)) (acc1 acc2 : List String) (okR : Bool) :
        List String × List String × Bool :=
      match fs with
      | [] => (acc1.reverse, acc2.reverse, okR)
      | f :: t =>
        let r := rs.head?.join
        match b.addFrame f with
        | .ok b' => go b' t rs.tail ((("ok/" ++ builderState b') :: acc1)) ((("ok/" ++ builderState b') :: acc2)) okR
        | .err e =>
          let ok1 := match r with | some ir => appliesB ir b f | none => false
          go b t rs.tail ((("err(" ++ showBErr e ++ ")/" ++ builderState b) :: acc1)) ((("err/" ++ builderState b) :: acc2))
            (okR && ok1)
        | .panic => go b t rs.tail ("panic" :: acc1) ("panic" :: acc2) okR
    go b0 fs implReasons.tail ["ok/" ++ builderState b0] ["ok/" ++ builderState b0] true

/-- strip the reason of `err(Name)` at the head of a step -/
def stripReason (step : String) : String × Option BErr :=
  if step.startsWith "err(" then
    let inner := ((step.drop 4).toString.splitOn ")").headD ""
    let rest := (step.drop (4 + inner.length + 1)).toString
    ("err" ++ rest, parseBErr inner)
  else (step, none)

def scenBuilder (f0s fss obs : String) : Verdict :=
  match parseFrame f0s, (sepList fss ",").mapM parseFrame with
  | some f0, some fs =>
    let implSteps := obs.splitOn ";"
    let stripped := implSteps.map stripReason
    let (full, noReason, reasonsOk) := builderRun f0 fs (stripped.map (·.2))
    if String.intercalate ";" full == obs then .ok
    else if String.intercalate ";" noReason == String.intercalate ";" (stripped.map (·.1)) then
      if reasonsOk then .okReason "builder reason differs but applies"
      else .prop "C07" "rejection reason does not apply" (String.intercalate ";" full)
    else .corr (String.intercalate ";" full)
  | _, _ => .bad "parse"

/-! ## events -/

def scenEvDec (ks ps obs : String) : Verdict :=
  match (ks.drop 1).toString.toNat?.bind kindOfIdx, parsePacket ps with
  | some k, some p =>
    let m := decode k p
    let full := showRes showCErr showEvent m
    if full == obs then .ok
    else
      -- same class?
      let mClass := match m with | .ok _ => "ok" | .err _ => "err" | .panic => "panic"
      let iClass := if obs.startsWith "ok(" then "ok" else if obs.startsWith "err(" then "err" else obs
      if mClass == "err" && iClass == "err" then
        let inner := ((obs.drop 4).toString.splitOn ")").headD ""
        match parseCErr inner with
        | some r => if cappliesB r k p then .okReason "decoder reason differs but applies"
                    else .prop "C05" "rejection reason does not apply" full
        | none => .bad "reason"
      else if iClass == "panic" then .prop "C05" "decoder panicked" full
      else if mClass == "ok" && iClass == "ok" then
        -- value differs: only a violation (of C11) if the reference decoder accepts the packet
        match Spec.refDecode k p with
        | some _ => .prop "C11" "decoded value differs from the reference on a canonical packet" full
        | none => .okReason "value differs on a non-canonical packet"
      else .corr full
  | _, _ => .bad "parse"

def scenEvCross (ps obs : String) : Verdict :=
  match parsePacket ps with
  | some p =>
    let mask := Kind.all.foldl (fun acc k => if (decode k p).isOk then acc + 2 ^ kindIdx k else acc) 0
    let s := hexNat 4 mask
    if s == obs then .ok
    else
      -- C12 on the implementation's own answer: at most one bit set
      match parseHexNat obs with
      | some im =>
        let bits := (List.range 16).filter fun i => im / 2 ^ i % 2 == 1
        if bits.length > 1 then .prop "C12" "more than one kind accepts the packet" s else .corr s
      | none => .bad "mask"
  | none => .bad "parse"

/-! ## links -/

def parseCanItems (s : String) : Option (List CanItem) :=
  (sepList s ",").mapM fun t =>
    if t = "." then some .wouldBlock else if t = "!" then some .overrun else (parseCan t).map .frame

def showPolls (l : List Out) : String := String.intercalate "," (l.map showOut)

def parseWResps (s : String) : Option (List WResp) :=
  if s = "-" then some [] else s.toList.mapM fun c =>
    if c = 'a' then some WResp.accept else if c = '.' then some .wouldBlock else if c = '!' then some .error else none

def parseTxResps (s : String) : Option (List TxResp) :=
  if s = "-" then some [] else s.toList.mapM fun c =>
    if c = 's' then some TxResp.sent else if c = '.' then some .wouldBlock else if c = 'd' then some .displaced else none

def parseIoResps (s : String) : Option (List IoResp) :=
  (sepList s ",").mapM fun t =>
    if t = "~" then some .interrupted else if t = "!" then some .ioError
    else if t.startsWith "w" then (t.drop 1).toString.toNat?.map .wrote else none

def showLog (bs : List UInt8) : String :=
  if bs.length ≤ 64 then hexBytes bs else "#" ++ hexNat 16 (fnv (hexBytes bs)).toNat ++ "/" ++ toString bs.length

def showSendRes {α} : Res SendErr α → String
  | .ok _ => "ok" | .err _ => "err" | .panic => "panic"

/-- model answer for the scenarios whose observation is compared verbatim -/
def answer (toks : List String) : Option String :=
  match toks with
  | ["usart_dec", hex] => do pure (showResClass showFrame (fromUsart (← parseBytes hex)))
  | ["usart_enc", f] => do pure (showResClass hexBytes (toUsart (← parseFrame f)))
  | ["can_dec", c] => do pure (showResClass showFrame (fromCan (← parseCan c)))
  | ["can_enc", f] => do pure (showResClass showCan (toCan (← parseFrame f)))
  | ["to_frames", p] => do
    match (← parsePacket p).toFrames with
    | .ok fs => pure ("ok(" ++ (if fs.length ≤ 4 then String.intercalate "," (fs.map showFrame) else digest (fs.map showFrame)) ++ ")")
    | _ => pure "panic"
  | ["ev_enc", e] => do pure (showEncoded (← parseEvent e))
  | ["rx", "usart", items] => do pure (showPolls (usartPolls LinkSt.init (← parseByteItems items)))
  | ["rx", "serial", items] => do pure (showPolls (serialPolls LinkSt.init (← parseByteItems items)))
  | ["rx", "can", items] => do pure (showPolls (canPolls none (← parseCanItems items)))
  | ["tx", "usart", p, rs] => do
    match usartSend (← parsePacket p) (← parseWResps rs) with
    | .ok w => pure (showLog w ++ " ok")
    | _ => pure "panic"
  | ["tx", "can", p, rs] => do
    let (log, r) := canSend (← parsePacket p) (← parseTxResps rs)
    pure ((if log.length ≤ 4 then (if log.isEmpty then "-" else String.intercalate "," (log.map showCan)) else digest (log.map showCan)) ++ " " ++ showSendRes r)
  | ["tx", "serial", p, rs, fl] => do
    let (log, r) := serialSend (← parsePacket p) (← parseIoResps rs) (if fl = "o" then .ok else .ioError)
    pure (showLog log ++ " " ++ showSendRes r)
  | ["proto", addr, rxq, txq, ops] => runProto addr rxq txq ops
  | _ => none

def judge (inp obs : String) : Verdict :=
  let toks := inp.splitOn " "
  match toks with
  | ["builder", f0, fs] => scenBuilder f0 fs obs
  | ["ev_dec", k, p] => scenEvDec k p obs
  | ["ev_cross", p] => scenEvCross p obs
  | _ =>
    match answer toks with
    | some a =>
      if a == obs then .ok
      else
        -- scenario specific property reading of a disagreement
        match toks with
        | "usart_dec" :: _ => if obs == "panic" then .prop "C04" "decoder panicked" a else .corr a
        | "can_dec" :: _ => if obs == "panic" then .prop "C04" "decoder panicked" a else .corr a
        | "to_frames" :: _ => .prop "C10" "fragmentation differs from the documented sequence" a
        | "usart_enc" :: _ => .prop "C09" "encoding differs from the published layout" a
        | "can_enc" :: _ => .prop "C08" "encoding differs from the published layout" a
        | "ev_enc" :: _ => .prop "C11" "encoding differs from the published layout" a
        | "tx" :: _ => .prop "C14" "device log or result differs from the wire image" a
        | "proto" :: _ => .prop "C15-C18" "results or log differ from the specified dispatch/routing/registry/exchange" a
        | _ => .corr a
    | none => .bad "unknown scenario or unparsable input"

partial def loop (h : IO.FS.Stream) (n ok okr bad : Nat) : IO (Nat × Nat × Nat × Nat) := do
  let line ← h.getLine
  if line.isEmpty then return (n, ok, okr, bad)
  let l := line.trimAscii.toString
  match l.splitOn " => " with
  | [inp, obs] =>
    match judge inp obs with
    | .ok => loop h (n + 1) (ok + 1) okr bad
    | .okReason _ => loop h (n + 1) ok (okr + 1) bad
    | .corr m => do IO.println s!"CORR {inp} impl={obs} model={m}"; loop h (n + 1) ok okr (bad + 1)
    | .prop id c m => do IO.println s!"PROP {id} [{c}] {inp} impl={obs} model={m}"; loop h (n + 1) ok okr (bad + 1)
    | .bad w => do IO.println s!"BADLINE ({w}) {l}"; loop h (n + 1) ok okr (bad + 1)
  | _ => do IO.println s!"BADLINE (format) {l}"; loop h (n + 1) ok okr (bad + 1)

def main : IO UInt32 := do
  let (n, ok, okr, bad) ← loop (← IO.getStdin) 0 0 0 0
  IO.println s!"DONE lines={n} ok={ok} ok_reason_differs={okr} bad={bad}"
  return (if bad == 0 then 0 else 1)
