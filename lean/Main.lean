import RossModel.Codec
import RossModel.CodecEvent
import RossModel.CodecProto
import RossModel.CodecLink
import RossModel.LinkMany
import RossModel.Accept
import RossModel.Spec.Layout
import RossModel.Spec.Frames
import RossModel.Spec.Node
/-!
# Line-protocol driver (DESIGN.md §4.2, appendix A)

Reads `<scenario> <inputs> => <observation>` lines produced by the Rust harness from the real code,
recomputes every observation with the model (the very definitions the theorems in `RossModel/Props` are
about) and judges the line:

* `ok`                      the implementation did what the model does;
* `NOTE <why>`              they differ only in something no property constrains (a rejection reason that still
                            applies, an input outside every property's quantifier);
* `PROP <ids> [clause]`     the implementation's own answer violates the named properties on this input
                            (the acceptance predicate of the property fails on it): a concrete failing input;
* `CORR`                    model and implementation differ and no property predicate fails on this line: the
                            correspondence (and with it the transfer of the theorems) is broken;
* `BADLINE`                 the line cannot be parsed / the harness itself failed.
-/
open Ross Ross.Codec

inductive Verdict where
  | ok
  | note (why : String)
  | corr (model : String)
  | prop (ids : String) (clause : String) (model : String)
  | bad (why : String)

def sepList (s : String) (sep : String) : List String := if s = "-" then [] else s.splitOn sep

def joinOr (l : List String) (sep : String) : String := if l.isEmpty then "-" else String.intercalate sep l

/-! ## frame codecs -/

/-- `ok(<frame>) r111` | `err` | `panic` -/
def showDec (r : Res FErr Frame) : String :=
  match r with
  | .ok f => "ok(" ++ showFrame f ++ ") r111"
  | .err _ => "err"
  | .panic => "panic"

/-- the frame inside `ok(<frame>) rXYZ`, and the usability flags -/
def parseDecObs (obs : String) : Option (Frame × String) :=
  if obs.startsWith "ok(" then
    match (obs.drop 3).toString.splitOn ") " with
    | [f, r] => (parseFrame f).map (·, r)
    | _ => none
  else none

/-- C04 evaluated on the implementation's own answer -/
def decOracle (obs : String) : Option String :=
  if obs == "panic" then some "decoder panicked"
  else if obs == "err" then none
  else match parseDecObs obs with
    | some (f, r) =>
      if !decide f.WF then some "accepted frame is not well-formed"
      else if r != "r111" then some "accepted frame cannot be re-encoded for both links and fed to reassembly"
      else none
    | none => some "unreadable decoder result"

def scenUsartDec (hex obs : String) : Verdict :=
  match parseBytes hex with
  | none => .bad "parse"
  | some bs =>
    let m := fromUsart bs
    let a := showDec m
    if a == obs then .ok
    else match decOracle obs with
      | some clause => .prop "C04" clause a
      | none =>
        -- C09 decode side: valid COBS encodings of 5..=13 byte bodies decode to the layout's fields, and a
        -- body whose size disagrees with its declared length is rejected
        match m with
        | .ok _ =>
          -- C09's decode side quantifies over the valid COBS encodings: no zero byte, and the encoding of the body it
          -- decodes to. The pinned streaming decoder also accepts such an encoding behind idle 0x00 bytes; rejecting
          -- those inputs (or decoding them likewise) is not constrained
          let valid := bs.all (· != 0) && (match Cobs.decodeBody bs with | some body => Cobs.encode body == bs | none => false)
          if valid || obs.startsWith "ok(" then .prop "C09" "a valid encoding is not decoded to the fields the layout defines" a
          else .note "an input that is not a valid COBS encoding (idle zero bytes in front of one) is rejected; the pinned decoder skips them"
        | _ =>
          match Cobs.decodeBody bs with
          | some body =>
            if obs.startsWith "ok(" && (body.length < 5 || body.length != (body.getD 4 0).toNat + 5) then
              .prop "C09" "a body whose size disagrees with its declared data length is accepted" a
            else .corr a
          | none => .corr a

def scenCanDec (cs obs : String) : Verdict :=
  match parseCan cs with
  | none => .bad "parse"
  | some c =>
    let a := showDec (fromCan c)
    if a == obs then .ok
    else match decOracle obs with
      | some clause => .prop "C04,C08" clause a
      | none => .prop "C08" "decoding differs from the identifier layout" a

def scenEnc (which : String) (fs obs : String) : Verdict :=
  match parseFrame fs with
  | none => .bad "parse"
  | some f =>
    let a := if which == "usart" then showResClass hexBytes (toUsart f) else showResClass showCan (toCan f)
    if a == obs then .ok
    else if decide f.WF then
      .prop (if which == "usart" then "C09" else "C08") "encoding of a well-formed frame differs from the published layout" a
    else .note "encoder differs on an ill-formed frame (outside every property)"

def scenRt (which : String) (fs obs : String) : Verdict :=
  match parseFrame fs with
  | none => .bad "parse"
  | some f =>
    let a := if which == "usart" then
        (match toUsart f with | .ok u => showResClass showFrame (fromUsart u) | _ => "panic")
      else (match toCan f with | .ok c => showResClass showFrame (fromCan c) | _ => "panic")
    if a == obs then .ok
    else if decide f.WF then
      .prop (if which == "usart" then "C09" else "C08") "decode(encode(f)) differs from what the layout defines" a
    else .note "round trip differs on an ill-formed frame (outside every property)"

/-! ## fragmentation and reassembly -/

def showFrames (fs : List Frame) : String :=
  if fs.length ≤ 4 then joinOr (fs.map showFrame) "," else digest (fs.map showFrame)

/-- `Packet.toFrames` is the mirror of the source (quadratic in the payload); `specFrames` is proved equal to it
for payloads up to 28672 bytes (`toFrames_eq_spec`) and is what the driver evaluates on that domain -/
def framesOf (p : Packet) : Res Unit (List Frame) :=
  if p.data.length ≤ 28672 then .ok (specFrames p) else p.toFrames

def scenToFrames (ps obs : String) : Verdict :=
  match parsePacket ps with
  | none => .bad "parse"
  | some p =>
    let a := match framesOf p with
      | .ok fs => "ok(" ++ showFrames fs ++ ")"
      | _ => "panic"
    -- self-check of the fast form on small packets
    if p.data.length ≤ 64 && (match p.toFrames with | .ok fs => "ok(" ++ showFrames fs ++ ")" | _ => "panic") != a then
      .bad "MODEL: toFrames differs from specFrames"
    else if a == obs then .ok
    else if p.data.length ≤ 28672 then .prop "C10" "fragmentation differs from the documented frame sequence" a
    else .note "fragmentation differs beyond the 4096-frame limit (outside every property)"

def buildTag : Res BErr Packet → String
  | .ok _ => "ok" | .err e => "err(" ++ showBErr e ++ ")" | .panic => "panic"

def leftTag : Res BErr Nat → String
  | .ok n => toString n | _ => "panic"

/-- feed the frames to a fresh model builder, observing `frames_left`/`build` after each -/
def fragSteps (fs : List Frame) : List String × String :=
  let rec go (b : Option Builder) (fs : List Frame) (acc : List String) (last : String) : List String × String :=
    match fs with
    | [] => (acc.reverse, last)
    | f :: t =>
      let r := match b with | none => Builder.new f | some bb => bb.addFrame f
      match r with
      | .ok b' => go (some b') t ((leftTag b'.framesLeft ++ "/" ++ buildTag b'.build) :: acc)
          (match b'.build with | .ok q => "ok:" ++ showPacket q | .err e => "err(" ++ showBErr e ++ ")" | .panic => "panic")
      | _ => (acc.reverse, "reject")
  go none fs [] "none"

def scenFragRt (path ps obs : String) : Verdict :=
  match parsePacket ps with
  | none => .bad "parse"
  | some p =>
    if p.data.length > 28672 then .note "beyond the 4096-frame limit" else
    -- closed form given by `reassembly_exact`: after k of n frames, n - k are left and build reports missing
    -- frames, after the last the packet is complete and equal to the input
    let n := (specFrames p).length
    let steps := (List.range n).map fun i =>
      toString (n - 1 - i) ++ "/" ++ (if i + 1 == n then "ok" else "err(MissingFrames)")
    let a := digest steps ++ " same"
    -- self-check on small packets: run the model builder over the model codecs
    let selfOk :=
      if p.data.length ≤ 64 then
        let fs := specFrames p
        let fs' : Option (List Frame) :=
          if path == "can" then fs.mapM fun f => match toCan f with
            | .ok c => (match fromCan c with | .ok g => some g | _ => none) | _ => none
          else if path == "usart" then fs.mapM fun f => match toUsart f with
            | .ok u => (match fromUsart u with | .ok g => some g | _ => none) | _ => none
          else some fs
        match fs' with
        | some l => let (st, last) := fragSteps l; st == steps && last == "ok:" ++ showPacket p
        | none => false
      else true
    if !selfOk then .bad "MODEL: builder run differs from reassembly_exact"
    else if a == obs then .ok
    else .prop "C02" ("fragmentation + in-order reassembly through the " ++ path ++ " path is not the identity") a

/-- `frt <can|usart> <packet>`: every frame of the fragmentation survives the codec round trip unchanged
(`C08_specFrames_canCanonical` + `C08_fromCan_toCan`; `C10_frames_wf` + `C09_fromUsart_toUsart`) -/
def scenFrt (path ps obs : String) : Verdict :=
  match parsePacket ps with
  | none => .bad "parse"
  | some p =>
    if p.data.length > 28672 then .note "beyond the 4096-frame limit" else
    let fs := specFrames p
    -- self-check of the closed form on small packets: run the model codecs
    let selfOk := p.data.length > 64 || fs.all fun f =>
      if path == "can" then (match toCan f with | .ok c => fromCan c == .ok f | _ => false)
      else (match toUsart f with | .ok u => fromUsart u == .ok f | _ => false)
    let a := "ok " ++ toString fs.length
    if !selfOk then .bad "MODEL: a frame of specFrames does not round-trip"
    else if a == obs then .ok
    else .prop (if path == "can" then "C08" else "C09")
      "a frame produced by fragmentation does not survive the codec round trip unchanged" a

def showBuild : Res BErr Packet → String
  | .ok p => "ok(" ++ showPacketShort p ++ ")"
  | .err e => "err(" ++ showBErr e ++ ")"
  | .panic => "panic"

def builderState (b : Builder) : String :=
  toString b.expected ++ "/" ++ toString b.frameCount ++ "/" ++ leftTag b.framesLeft ++ "/" ++ showBuild b.build ++ "/" ++
    showBuild b.build

/-- run the model over the frames; for every step (text with reason, text without reason, reason check) -/
def builderRun (f0 : Frame) (fs : List Frame) (implReasons : List (Option BErr)) : List String × List String × Bool :=
  match Builder.new f0 with
  | .err e =>
    let okR := match implReasons.head? with | some (some r) => newAppliesB r f0 | _ => false
    (["err(" ++ showBErr e ++ ")"], ["err"], okR)
  | .panic => (["panic"], ["panic"], true)
  | .ok b0 =>
    let rec go (b : Builder) (fs : List Frame) (rs : List (Option BErr)) (acc1 acc2 : List String) (okR : Bool) :
        List String × List String × Bool :=
      match fs with
      | [] => (acc1.reverse, acc2.reverse, okR)
      | f :: t =>
        let r := rs.head?.join
        match b.addFrame f with
        | .ok b' => go b' t rs.tail ((("ok/" ++ builderState b') :: acc1)) ((("ok/" ++ builderState b') :: acc2)) okR
        | .err e =>
          let ok1 := match r with | some ir => appliesB ir b f | none => false
          go b t rs.tail ((("err(" ++ showBErr e ++ ")/" ++ builderState b) :: acc1)) ((("err/" ++ builderState b) :: acc2))
            (okR && ok1)
        | .panic => go b t rs.tail ("panic" :: acc1) ("panic" :: acc2) okR
    go b0 fs implReasons.tail ["ok/" ++ builderState b0] ["ok/" ++ builderState b0] true

/-- strip the reason of `err(Name)` at the head of a step -/
def stripReason (step : String) : String × Option BErr :=
  if step.startsWith "err(" then
    let inner := ((step.drop 4).toString.splitOn ")").headD ""
    let rest := (step.drop (4 + inner.length + 1)).toString
    ("err" ++ rest, parseBErr inner)
  else (step, none)

def scenBuilder (f0s fss obs : String) : Verdict :=
  match parseFrame f0s, (sepList fss ",").mapM parseFrame with
  | some f0, some fs =>
    let implSteps := obs.splitOn ";"
    let stripped := implSteps.map stripReason
    let (full, noReason, reasonsOk) := builderRun f0 fs (stripped.map (·.2))
    let a := String.intercalate ";" full
    if a == obs then .ok
    else if String.intercalate ";" noReason == String.intercalate ";" (stripped.map (·.1)) then
      if reasonsOk then .note "builder rejection reason differs but applies"
      else .prop "C07" "rejection reason does not apply" a
    else if !(f0.start && f0.idLast) then
      -- C07 quantifies over packets opened by a start frame (start flag, announcing its frame count); what `new` answers to
      -- another first frame is not constrained (what a *receiver* may deliver from such frames is C06's matter)
      .note "the first frame is not a start frame announcing a frame count (outside C07's quantifier)"
    else if decide f0.WF && fs.all (fun f => decide f.WF) then
      .prop "C07" "accept/reject, state, frames_left or build differ from the exact-next-frame rule" a
    else .note "builder differs on ill-formed frames (outside every property)"
  | _, _ => .bad "parse"

/-! ## events -/

def showEventShort (e : Event) : String :=
  match e with
  | .data r t n d => if d.length > 64 then "k4:" ++ h16 r ++ ":" ++ h16 t ++ ":" ++ h16 n ++ ":" ++ showLogBytes d else showEvent e
  | _ => showEvent e

def showEncodedShort (e : Event) : String :=
  let p := encode ⟨0, 0, 0⟩ e
  if p.data.length > 80 then (if p.isError then "E:" else "D:") ++ hexNat 4 p.addr.toNat ++ ":" ++ showLogBytes p.data
  else showEncoded e

def scenEvEnc (es obs : String) : Verdict :=
  match parseEvent es with
  | none => .bad "parse"
  | some e =>
    let a := showEncodedShort e
    if a == obs then .ok else .prop "C11" "encoding differs from the published layout" a

/-- `ev_ref <event>`: the harness' own reference encoding against the published layout (a generator self-check) -/
def scenEvRef (es obs : String) : Verdict :=
  match parseEvent es with
  | none => .bad "parse"
  | some e => if showEncodedShort e == obs then .ok else .bad "GENERATOR: the harness' reference encoder differs from the published layout"

def scenEvRt (es obs : String) : Verdict :=
  match parseEvent es with
  | none => .bad "parse"
  | some e =>
    let p := encode ⟨0, 0, 0⟩ e
    let a := showRes showCErr showEventShort (decode e.kind p) ++ " " ++ (if p.isError then "E:" else "D:") ++ hexNat 4 p.addr.toNat
    if a == obs then .ok
    else if decide e.WF then
      -- C03 on the implementation's own answer
      let want := "ok(" ++ showEventShort e ++ ") D:" ++ hexNat 4 e.receiver.toNat
      if obs == want then .bad "MODEL: round trip differs from decode_encode" else
      .prop "C03" "decode(encode(e)) is not e, or the packet is not a data packet addressed to the receiver" a
    else .note "round trip differs on a data event whose declared length is not its payload length"

def scenEvDec (ks ps obs : String) : Verdict :=
  match (ks.drop 1).toString.toNat?.bind kindOfIdx, parsePacket ps with
  | some k, some p =>
    let m := decode k p
    let full := showRes showCErr showEventShort m ++ (match m with | .ok _ => " re1" | _ => "")
    if full == obs then .ok
    else
      let mClass := match m with | .ok _ => "ok" | .err _ => "err" | .panic => "panic"
      let iClass := if obs.startsWith "ok(" then "ok" else if obs.startsWith "err(" then "err" else obs
      if iClass == "panic" then .prop "C05" "decoder panicked" full
      else if obs.startsWith "ok(INVALID)" then .prop "C05" "decoder materialised a value outside the kind's domain" full
      else if obs.startsWith "err(INVALID)" then
        .prop "C05" "decoder returned a result that is neither a value nor an error of the error type (invalid enum materialised)" full
      else if iClass == "ok" && obs.endsWith " re0" then .prop "C05" "accepted value does not re-encode to a packet that decodes to it" full
      else if mClass == "err" && iClass == "err" then
        let inner := ((obs.drop 4).toString.splitOn ")").headD ""
        match parseCErr inner with
        | some r => if cappliesB r k p then .note "decoder rejection reason differs but applies"
                    else .prop "C05" "rejection reason does not apply" full
        | none => .bad "reason"
      else if mClass == "ok" && iClass == "ok" then
        -- value differs: a violation of C11 if the reference decoder accepts the packet
        match Spec.refDecode k p with
        | some _ => .prop "C11" "decoded value differs from the reference decoder on a canonical packet" full
        | none => .note "decoded value differs on a packet the reference decoder does not accept"
      else if iClass == "ok" then
        -- accepted although the model rejects: only exact encodings may be accepted
        if (match m with | .err .unknownEnumVariant => true | _ => false) then
          .prop "C05" "accepted a packet whose variant tag or flag byte is outside the kind's table" full
        else if p.isError || codeOf p.data != some k.code || !sizeOk k p.data.length then
          .prop "C05" "accepted a packet that is an error packet, carries another event code or has the wrong length" full
        else
          -- the value the implementation says it decoded: its encoding must have exactly the packet's length
          let shown := (((obs.drop 3).toString.splitOn ") re").headD "")
          match parseEvent shown with
          | some e =>
            if (encode ⟨0, 0, 0⟩ e).data.length != p.data.length then
              .prop "C05" "accepted a packet whose length is not the length of the accepted value's encoding (only exact encodings may be accepted)" full
            else .corr full
          | none => .corr full
      else
        -- rejected although the model accepts
        match Spec.refDecode k p with
        | some _ => .prop "C11" "a packet the reference decoder accepts is rejected" full
        | none =>
          -- a non-canonical packet (e.g. a flag byte other than 0/1) that the code under verification materialises:
          -- rejecting it instead violates no property
          if iClass == "err" then .note "a non-canonical packet the model accepts is rejected" else .corr full
  | _, _ => .bad "parse"

def scenEvCross (ps obs : String) : Verdict :=
  match parsePacket ps with
  | some p =>
    let mask := Kind.all.foldl (fun acc k => if (decode k p).isOk then acc + 2 ^ kindIdx k else acc) 0
    let s := hexNat 4 mask
    if s == obs then .ok
    else
      match parseHexNat obs with
      | some im =>
        let bits := (List.range 16).filter fun i => im / 2 ^ i % 2 == 1
        if bits.length > 1 then .prop "C12" "more than one kind accepts the packet" s
        else
          -- kinds on which they differ: harmless when the model accepts a non-canonical packet that is rejected
          let harmless := Kind.all.all fun k =>
            let mb := mask / 2 ^ kindIdx k % 2 == 1
            let ib := im / 2 ^ kindIdx k % 2 == 1
            mb == ib || (mb && !ib && (Spec.refDecode k p).isNone)
          if harmless then .note "a non-canonical packet the model accepts is rejected" else .corr s
      | none => .bad "mask"
  | none => .bad "parse"

/-- `ev_xenc <event>`: which of the sixteen decoders accept the encoding of the event -/
def scenEvXenc (es obs : String) : Verdict :=
  match parseEvent es with
  | none => .bad "parse"
  | some e =>
    let p := encode ⟨0, 0, 0⟩ e
    let mask := Kind.all.foldl (fun acc k => if (decode k p).isOk then acc + 2 ^ kindIdx k else acc) 0
    let s := hexNat 4 mask
    if s == obs then .ok
    else match parseHexNat obs with
      | some im =>
        let others := (List.range 16).filter fun i => i != kindIdx e.kind && im / 2 ^ i % 2 == 1
        if !others.isEmpty then .prop "C12" "the encoding of an event of one kind is accepted by another kind's decoder" s
        else if decide e.WF then .prop "C03" "the encoding of an event is not accepted by its own decoder" s
        else .corr s
      | none => if obs == "panic" then .prop "C03" "encoder panicked" s else .bad "mask"

/-! ## receivers -/

/-- results of the calls without the "nothing"s and without the `@remaining` suffix -/
def emissionsOf (obs : String) : List String :=
  (obs.splitOn ",").filterMap fun t =>
    let r := (t.splitOn "@").headD ""
    if r == "nothing" then none else some r

/-- the link frames of a byte script, decoded: delimiter, length byte, that many body bytes (non-byte items and line noise
between frames skipped), as the receivers split the stream -/
def framesOfBytes (items : List ByteItem) : List (Res FErr Frame) :=
  let bytes := items.filterMap fun | .byte b => some b | _ => none
  let rec go (l : List UInt8) (fuel : Nat) (acc : List (Res FErr Frame)) : List (Res FErr Frame) :=
    match fuel with
    | 0 => acc.reverse
    | fuel + 1 =>
      match l with
      | [] => acc.reverse
      | 0 :: len :: t =>
        if t.length < len.toNat then acc.reverse
        else go (t.drop len.toNat) fuel (fromUsart (t.take len.toNat) :: acc)
      | _ :: t => go t fuel acc
  go bytes (bytes.length + 1) []

/-- the packets a receiver may deliver *intact* out of a frame sequence, whatever its policy towards damaged frames and
pending packets: for every position, what a fresh receiver that starts there delivers first (undecodable frames in
between skipped), if it delivers before it reports a reassembly error -/
def intactCandidatesAt (frames : List (Res FErr Frame)) : List (Nat × Nat × String) :=
  -- (start index, number of frames consumed up to the delivery, packet)
  let rec first (st : RxSt) (l : List (Res FErr Frame)) (n : Nat) : Option (Packet × Nat) :=
    match l with
    | [] => none
    | .ok f :: t =>
      match rxStep st f with
      | (_, some (.packet p)) => some (p, n + 1)
      | (_, some _) => none
      | (st', none) => first st' t (n + 1)
    | _ :: t => first st t (n + 1)
  let rec all (l : List (Res FErr Frame)) (i : Nat) (acc : List (Nat × Nat × String)) : List (Nat × Nat × String) :=
    match l with
    | [] => acc
    | x :: t =>
      match first none (x :: t) 0 with
      | some (p, n) => all t (i + 1) ((i, n, showOutShort (.emit (.packet p))) :: acc)
      | none => all t (i + 1) acc
  all frames 0 []

def intactCandidates (frames : List (Res FErr Frame)) : List String := (intactCandidatesAt frames).map (·.2.2)

/-- the two probe packets of a hostile history: the packet whose frames end the frame sequence, and the one whose frames
end where that one starts -/
def probesOf (frames : List (Res FErr Frame)) : Option (String × String) :=
  let cs := intactCandidatesAt frames
  match cs.find? (fun (i, n, _) => i + n == frames.length) with
  | none => none
  | some (ib, _, pb) =>
    match cs.find? (fun (i, n, _) => i + n == ib) with
    | none => none
    | some (_, _, pa) => some (pa, pb)

/-- C06 on the implementation's own answer: never a panic or a spin, the second probe is delivered last, and nothing is
delivered altered or merged: every delivered packet is one the (provably merge-free) model delivers, or one a fresh
receiver would deliver from some position of the frame sequence -/
def rxOracle (link items : String) (implObs modelObs : String) : Option String :=
  let ie := emissionsOf implObs
  let me := emissionsOf modelObs
  if ie.contains "panic" then some "a poll panicked"
  else if ie.contains "blocked" then some "a poll blocks forever / reads beyond the supplied frames"
  else
    let iok := ie.filter (·.startsWith "ok(")
    let mok := me.filter (·.startsWith "ok(")
    if iok.getLast? != mok.getLast? then some "the second probe packet is not the last packet delivered intact"
    else
      let extra := iok.filter fun p => !mok.contains p
      let frames : List (Res FErr Frame) :=
        if link == "can" then ((parseCanItems items).getD []).filterMap fun | .frame c => some (fromCan c) | _ => none
        else framesOfBytes ((parseByteItems items).getD [])
      if !extra.isEmpty && extra.any (fun p => !(intactCandidates frames).contains p) then
        some "a packet was delivered that is not an intact packet of the traffic (altered or merged)"
      else
        -- the first probe: delivered intact, or dropped with an error (an error reported after the last delivery that
        -- precedes the second probe)
        match probesOf frames with
        | none => none
        | some (pa, _) =>
          let beforeB := ie.reverse.drop 1      -- emissions before the last one (the second probe), latest first
          let window := beforeB.takeWhile (fun x => !x.startsWith "ok(")
          if iok.contains pa || window.contains "err" then none
          else some "the first probe packet is neither delivered nor dropped with an error"

def rxModel (link items : String) : Option String :=
  if link == "can" then (parseCanItems items).map fun s => showTrace (canPollsSt none s)
  else (parseByteItems items).map fun s => showTrace (byteTrace link s)

/-- a CAN controller's overrun report is not a frame and not a "no data yet" answer: no property quantifies over it. The
pinned receiver ends the poll with "nothing received"; a receiver that reports an error instead (and is otherwise in the
same state) is read as the model's answer. `res` extracts the `<result>@<left>` part of an entry -/
def tolerateOverrun (items : String) (modelEntries implEntries : List String) (res : String → String) (put : String → String → String) :
    List String :=
  match parseCanItems items with
  | none => implEntries
  | some its =>
    if !its.contains .overrun then implEntries else
    let n := its.length
    let leftOf (e : String) : Nat := (((res e).splitOn "@").getD 1 "0").toNat?.getD 0
    let rec go (ms is : List String) (prevLeft : Nat) (conv : Bool) (acc : List String) : List String :=
      match ms, is with
      | m :: mt, i :: it =>
        let lastConsumed := its.getD (n - leftOf m - 1) .wouldBlock
        let c := res m != res i && (res m).startsWith "nothing@" && res i == "err@" ++ toString (leftOf m)
                     && leftOf m < prevLeft && lastConsumed == .overrun
        go mt it (leftOf m) c ((if c then put i (res m) else i) :: acc)
      | [], [x] => if conv && res x == "nothing@0" then acc.reverse else acc.reverse ++ [x]
      | _, rest => acc.reverse ++ rest
    go modelEntries implEntries n false []

/-- the same for a hard read error of the USART device while the receiver waits for a frame delimiter (`nb::Error::Other`;
no property quantifies over device read errors on the USART): the pinned receiver answers "nothing received" -/
def tolerateReadError (items : String) (modelEntries implEntries : List String) : List String :=
  match parseByteItems items with
  | none => implEntries
  | some its =>
    if !its.contains .error then implEntries else
    let n := its.length
    let leftOf (e : String) : Nat := ((e.splitOn "@").getD 1 "0").toNat?.getD 0
    let rec go (ms is : List String) (prevLeft : Nat) (conv : Bool) (acc : List String) : List String :=
      match ms, is with
      | m :: mt, i :: it =>
        let lastConsumed := its.getD (n - leftOf m - 1) .wouldBlock
        let c := m != i && m.startsWith "nothing@" && i == "err@" ++ toString (leftOf m)
                     && leftOf m < prevLeft && lastConsumed == .error
        go mt it (leftOf m) c ((if c then m else i) :: acc)
      -- the harness polls until a poll finds nothing: an error answer to the last item is followed by one more poll
      | [], [x] => if conv && x == "nothing@0" then acc.reverse else acc.reverse ++ [x]
      | _, rest => acc.reverse ++ rest
    go modelEntries implEntries n false []

def scenRx (link items obs : String) : Verdict :=
  match rxModel link items with
  | none => .bad "parse"
  | some a =>
    if a == obs then .ok
    else
      let obs' := if link == "can" then
          String.intercalate "," (tolerateOverrun items (a.splitOn ",") (obs.splitOn ",") id (fun _ r => r))
        else if link == "usart" then String.intercalate "," (tolerateReadError items (a.splitOn ",") (obs.splitOn ","))
        else obs
      if a == obs' then .note "a device fault outside every property's quantifier (CAN overrun report, USART read error while idle) is answered with an error instead of 'nothing received'"
      else match rxOracle link items obs' a with
      | some clause => .prop "C06" clause a
      | none => .corr a

/-- bytes a receiver may hold between polls for a packet in flight that announced `n` frames -/
def heapBound (n : Nat) : Nat := 1024 + 64 * n

def announcedOf : RxSt → Nat
  | none => 0
  | some b => b.expected

/-- `rxh`: every entry is `<result>@<left>/<live>/<peak>/<plen>`, then ` base<live of a fresh receiver>` -/
def scenRxh (link items obs : String) : Verdict :=
  let states : Option (List (String × Nat)) :=
    -- a reported reassembly error is told apart from the other errors (`errB`)
    let showH : Out → String := fun o => match o with | .emit (.builderErr _) => "errB" | _ => showOutShort o
    if link == "can" then (parseCanItems items).map fun s =>
      (canPollsSt none s).map fun (o, n, st) => (showH o ++ "@" ++ toString n, announcedOf st)
    else (parseByteItems items).map fun s =>
      (byteTrace link s).map fun (o, n, st) => (showH o ++ "@" ++ toString n, announcedOf st.rx)
  match states, obs.splitOn " base" with
  | some sts, [polls, bs] =>
    match bs.toNat? with
    | none => .bad "base"
    | some base =>
      let entries := polls.splitOn ","
      let parsed := entries.map fun e =>
        -- the result itself may contain `/` (payload digests): the last three fields are the numbers
        let parts := e.splitOn "/"
        match parts.reverse with
        | plen :: peak :: live :: rrev =>
          (String.intercalate "/" rrev.reverse, live.toNat?.getD 0, peak.toNat?.getD 0, plen.toNat?.getD 0)
        | _ => (e, 0, 0, 0)
      let a := String.intercalate "," (sts.map (·.1))
      -- an overrun report answered with an error instead of "nothing received" is read as the model's answer (see `tolerateOverrun`)
      let parsed := if link == "can" || link == "usart" then
          let fixed := if link == "can" then tolerateOverrun items (sts.map (·.1)) (parsed.map (·.1)) id (fun _ r => r)
            else tolerateReadError items (sts.map (·.1)) (parsed.map (·.1))
          (parsed.zip fixed).map fun ((_, l, pk, pl), r) => (r, l, pk, pl)
        else parsed
      if String.intercalate "," (parsed.map (·.1)) != a then
        -- the results differ from the model's: the part of C19 that needs no model state is still evaluated on the
        -- implementation's own numbers — right after a delivered packet a receiver holds what a fresh one holds
        match parsed.find? (fun (r, live, _, _) => r.startsWith "ok(" && live > base) with
        | some (r, live, _, _) =>
          .prop "C19,C06" s!"receiver holds {live - base} bytes more than a fresh one right after delivering a packet ({r})" a
        | none =>
          match parsed.find? (fun (r, live, _, _) => r.startsWith "errB@" && live > base) with
          | some (r, live, _, _) =>
            .prop "C19" s!"receiver holds {live - base} bytes more than a fresh one right after reporting a reassembly error ({r})" a
          | none =>
          let plain := fun (x : String) => x.replace "errB@" "err@"
          match rxOracle link items (plain (String.intercalate "," (parsed.map (·.1)))) (plain a) with
          | some clause => .prop "C06" clause a
          | none => .corr a
      else
        -- memory oracle, per poll, against the model's bookkeeping
        let rec check (ps : List (String × Nat × Nat × Nat)) (ss : List (String × Nat)) (_prevAnn : Nat) : Option String :=
          match ps, ss with
          | (r, live, peak, plen) :: pt, (_, ann) :: st =>
            -- a call that never returned (the script ended inside a frame and the mock unwound the spin) is not measured
            if r.startsWith "blocked" then check pt st ann
            else if live > base + heapBound ann then
              some s!"after a poll the receiver holds {live - base} bytes with {ann} frames announced"
            else if ann == 0 && live > base then
              some s!"receiver holds {live - base} bytes more than a fresh one at a packet boundary ({r})"
            -- inside a call only the absolute ceiling is checked (a builder may be created and dropped within one call,
            -- and the property constrains what is held *between* calls): largest packet in flight + delivered payload
            else if peak > base + heapBound 4096 + 4 * plen + 2048 then
              some s!"peak of {peak - base} bytes inside a poll ({r})"
            else check pt st ann
          | _, _ => none
        match check parsed sts 0 with
        | some clause => .prop "C19" clause a
        | none => .ok
  | _, _ => .bad "parse"

/-! ## senders -/

def parseWResps (s : String) : Option (List WResp) :=
  if s = "-" then some [] else s.toList.mapM fun c =>
    if c = 'a' then some WResp.accept else if c = '.' then some .wouldBlock else if c = '!' then some .error else none

def parseTxResps (s : String) : Option (List TxResp) :=
  if s = "-" then some [] else s.toList.mapM fun c =>
    if c = 's' then some TxResp.sent else if c = '.' then some .wouldBlock else if c = 'd' then some .displaced else none

def parseIoResps (s : String) : Option (List IoResp) :=
  (sepList s ",").mapM fun t =>
    if t = "~" then some .interrupted else if t = "!" then some .ioError
    else if t.startsWith "w" then (t.drop 1).toString.toNat?.map .wrote else none

def showSendRes {α} : Res SendErr α → String
  | .ok _ => "ok" | .err _ => "err" | .panic => "panic"

/-- fast forms of the per-packet wire images, proved equal to the mirrors on payloads up to 28672 bytes
(`usartFrames_eq`, `canFramesOf_eq`) -/
def bodiesOf (p : Packet) : Option (List (List UInt8)) :=
  if p.data.length ≤ 28672 then some (usartBodies p) else usartFrames p

def canOf (p : Packet) : Option (List CanFrame) :=
  if p.data.length ≤ 28672 then some (canWire p) else canFramesOf p

def showCanLog (log : List CanFrame) : String :=
  if log.length ≤ 4 then joinOr (log.map showCan) "," else digest (log.map showCan)

/-- serial device logs are printed in full up to 8 KiB -/
def showSerialLog (bs : List UInt8) : String := if bs.length ≤ 8192 then hexBytes bs else showLogBytes bs

def showSendResults (rs : List (Res SendErr Unit)) : String := String.intercalate "," (rs.map showSendRes)

def parseFlushes (s : String) : List FlushResp := s.toList.map fun c => if c = 'o' then .ok else .ioError

/-- C14 evaluated on a serial sender's own answer (`SendPieces` of `C14_serialSendMany_spec`, one flush per successful
send, failures only where the device script has faults); `none` = satisfied -/
def serialC14 (wires : List (List UInt8)) (r : List IoResp) (fl : String) (log : List UInt8) (nfl : Nat)
    (res : List String) : Option String :=
  -- `res`: per send `<result>[@<cumulative log length>]`; the piece a send put on the device is the log between the
  -- previous boundary and its own
  let parsed : List (String × Option Nat) := res.map fun x =>
    match x.splitOn "@" with
    | [a, n] => (a, n.toNat?)
    | _ => (x, none)
  let results := parsed.map (·.1)
  let rec pieces (log : List UInt8) (at_ : Nat) (ws : List (List UInt8)) (rs : List (String × Option Nat)) : Bool :=
    match ws, rs with
    | [], [] => log.isEmpty
    | w :: wt, (r, bound) :: rt =>
      let k := match bound with | some b => b - at_ | none => (if r == "ok" then w.length else log.length)
      let piece := log.take k
      piece.isPrefixOf w && (r != "ok" || piece.length == w.length) && pieces (log.drop k) (at_ + k) wt rt
    | _, _ => false
  let oks := (results.filter (· == "ok")).length
  let faultFree := r.all (fun x => match x with | .ioError => false | .wrote n => n != 0 | .interrupted => true) && fl.all (· == 'o')
  if results.contains "panic" then some "a send panicked"
  else if !pieces log 0 wires parsed then
    some "the bytes on the device are not, per send, a prefix of its wire image (the whole image when it returned Ok)"
  else if nfl < oks then some "a send returned Ok without flushing"
  else if faultFree && results.any (· != "ok") then some "a send failed although the device never failed"
  else none

/-- `tx <link> <packet[+packet…]> <responses> [flush answers]`: sends made one after the other on one instance -/
def scenTx (toks : List String) (obs : String) : Verdict :=
  let ans : Option String :=
    match toks with
    | ["usart", ps, rs] => do
      let pks ← (ps.splitOn "+").mapM parsePacket
      let r ← parseWResps rs
      let uss ← pks.mapM bodiesOf
      pure (showLogBytes (usartSendMany uss r) ++ " " ++ String.intercalate "," (pks.map fun _ => "ok"))
    | ["can", ps, rs] => do
      let pks ← (ps.splitOn "+").mapM parsePacket
      let r ← parseTxResps rs
      let css ← pks.mapM canOf
      let (log, res) := canSendMany css r
      pure (showCanLog log ++ " " ++ showSendResults res)
    | ["serial", ps, rs, fl] => do
      let pks ← (ps.splitOn "+").mapM parsePacket
      let r ← parseIoResps rs
      let uss ← pks.mapM bodiesOf
      let (w, n, res) := serialSendMany uss r (parseFlushes fl)
      -- per send: result and the cumulative length of the device log when it returned
      let rec cum (uss : List (List (List UInt8))) (rs : List IoResp) (acc : Nat) : List Nat :=
        match uss with
        | [] => []
        | us :: t => let (w1, _, rs') := serialSendFrames us rs; (acc + w1.length) :: cum t rs' (acc + w1.length)
      let lens := cum uss r 0
      pure (showSerialLog w ++ "/f" ++ toString n ++ " " ++
        String.intercalate "," ((res.zip lens).map fun (x, l) => showSendRes x ++ "@" ++ toString l))
    | _ => none
  match ans with
  | none => .bad "parse"
  | some a =>
    if a == obs then .ok
    else
      -- serial port: which write call meets which device answer depends on how the sender groups its writes, which no
      -- property fixes; when the log is short enough to be printed in full, C14 itself is evaluated on the
      -- implementation's answer (`SendPieces` of `C14_serialSendMany_spec`, one flush per successful send, faults only
      -- where the script has faults)
      match toks with
      | ["serial", ps, rs, fl] =>
        match (ps.splitOn "+").mapM parsePacket, parseIoResps rs, obs.splitOn " " with
        | some pks, some r, [logf, results] =>
          match logf.splitOn "/f", pks.mapM bodiesOf with
          | [logHex, nfl], some uss =>
            if logHex.startsWith "#" then .prop "C14" "bytes on the device or the results differ from the byte-exact wire image" a else
            match parseBytes logHex with
            | none => .bad "log"
            | some log =>
              match serialC14 (uss.map wireOf) r fl log (nfl.toNat?.getD 0) (results.splitOn ",") with
              | some clause => .prop "C14" clause a
              | none => .note "serial sender meets the device's answers at other write calls (log and results still satisfy C14)"
          | _, _ => .prop "C14" "bytes on the device or the results differ from the byte-exact wire image" a
        | _, _, _ => .prop "C14" "bytes on the device or the results differ from the byte-exact wire image" a
      | _ => .prop "C14" "bytes/frames on the device or the results differ from the byte-exact wire image" a

/-- `psend <link> <own> <p1+p2+…> <responses> [flush answers]`: `send_packet` for each packet in turn over a real link
sender (C16 composed with C14): own-address packets go to the local handler once and not to the link (unless the own
address is broadcast); everything else goes to the link byte-exact under back-pressure and to no local handler -/
def scenPsend (toks : List String) (obs : String) : Verdict :=
  match toks with
  | link :: owns :: ps :: rs :: rest =>
    match parseHexNat owns, (ps.splitOn "+").mapM parsePacket with
    | some own, some pkts =>
      let own := UInt16.ofNat own
      let isLocal (p : Packet) : Bool := p.addr == own
      let toLink (p : Packet) : Bool := !isLocal p || own == BROADCAST
      let routed := pkts.filter toLink
      let h := " h" ++ toString (pkts.filter isLocal).length
      -- per packet: the link's result for the routed ones (in order), `ok` for the ones that stay local
      let weave (linkRes : List String) : List String :=
        (pkts.foldl (fun (acc : List String × List String) p =>
          if toLink p then (acc.1 ++ [acc.2.headD "?"], acc.2.tail) else (acc.1 ++ ["ok"], acc.2)) ([], linkRes)).1
      let ans : Option String :=
        if link == "usart" then do
          let r ← parseWResps rs
          let uss ← routed.mapM bodiesOf
          pure ((if routed.isEmpty then "-" else showLogBytes (usartSendMany uss r)) ++ " " ++
            String.intercalate "," (weave (routed.map fun _ => "ok")) ++ h)
        else if link == "can" then do
          let r ← parseTxResps rs
          let css ← routed.mapM canOf
          let (log, res) := canSendMany css r
          pure (showCanLog log ++ " " ++ String.intercalate "," (weave (res.map showSendRes)) ++ h)
        else do
          let r ← parseIoResps rs
          let uss ← routed.mapM bodiesOf
          let (w, n, res) := serialSendMany uss r (parseFlushes (rest.headD "o"))
          let rec cum (uss : List (List (List UInt8))) (rs : List IoResp) (acc : Nat) : List Nat :=
            match uss with
            | [] => []
            | us :: t => let (w1, _, rs') := serialSendFrames us rs; (acc + w1.length) :: cum t rs' (acc + w1.length)
          let lens := cum uss r 0
          -- local-only packets report the log length unchanged
          let linkRes := (res.zip lens).map fun (x, l) => showSendRes x ++ "@" ++ toString l
          let woven := (pkts.foldl (fun (acc : List String × List String × Nat) p =>
            if toLink p then
              let x := acc.2.1.headD "?"
              let l := (((x.splitOn "@").getD 1 "0").toNat?).getD acc.2.2
              (acc.1 ++ [x], acc.2.1.tail, l)
            else (acc.1 ++ ["ok@" ++ toString acc.2.2], acc.2.1, acc.2.2)) ([], linkRes, 0)).1
          pure (showSerialLog w ++ "/f" ++ toString n ++ " " ++ String.intercalate "," woven ++ h)
      match ans with
      | none => .bad "parse"
      | some a =>
        if a == obs then .ok
        else
          -- routing (local handler calls; nothing on the link when nothing is routed) is C16 alone
          let hOf (o : String) : String := ((o.splitOn " ").getLast?).getD ""
          let emptyLog (o : String) : Bool := o.startsWith "-/f0 " || o.startsWith "- "
          if hOf a != hOf obs || (routed.isEmpty && !emptyLog obs) then
            .prop "C16" "a sent packet is not routed to local handlers / the link as addressed" a
          else
            -- serial port: evaluate the predicate on the implementation's own answer (see `scenTx`)
            let viaPredicate : Option Verdict :=
              if link != "serial" then none else
              match obs.splitOn " ", parseIoResps rs, routed.mapM bodiesOf with
              | [logf, results, _], some r, some uss =>
                (match logf.splitOn "/f" with
                  | [logHex, nfl] =>
                    if logHex.startsWith "#" then none else
                    (parseBytes logHex).map fun log =>
                      -- the results of the routed packets only
                      let resAll := results.splitOn ","
                      let routedRes := ((pkts.zip resAll).filter fun (p, _) => toLink p).map (·.2)
                      let localOk := ((pkts.zip resAll).filter fun (p, _) => !toLink p).all fun (_, x) => x.startsWith "ok"
                      if !localOk then .prop "C16" "a looped-back send did not return Ok" a else
                      match serialC14 (uss.map wireOf) r (rest.headD "o") log (nfl.toNat?.getD 0) routedRes with
                      | some clause => .prop "C16,C14" clause a
                      | none => .note "serial sender meets the device's answers at other write calls (log and results still satisfy C14)"
                  | _ => none)
              | _, _, _ => none
            match viaPredicate with
            | some v => v
            | none => .prop "C16,C14" "a packet sent through the protocol does not reach the link unmodified, exactly once" a
    | _, _ => .bad "parse"
  | _ => .bad "parse"

/-! ## loop-back and end to end -/

def scenLoop (toks : List String) (obs : String) : Verdict :=
  match toks with
  | link :: ps :: seed :: _ =>
    match (ps.splitOn "+").mapM parsePacket, seed.toNat? with
    | some pkts, some sd =>
      let want := pkts.map fun p => "ok(" ++ showPacketShort p ++ ")"
      let a : Option String :=
        if link == "can" then do
          let wire ← pkts.mapM canOf
          let script := scheduledCan wire.flatten sd
          pure (digest (script.map showCanItem) ++ " " ++ showTrace (canPollsSt none script))
        else do
          let bodies ← pkts.mapM bodiesOf
          let script := scheduledBytes link (wireOf bodies.flatten) sd
          pure ("#" ++ hexNat 16 (fnv (showByteItems script)).toNat ++ "/" ++ toString script.length ++ " " ++
            showTrace (byteTrace link script))
      match a with
      | none => .bad "model wire"
      | some a =>
        if a == obs then .ok
        else
          -- C13 on the implementation's own answer: exactly the packets sent, in order, nothing else
          let polls := (obs.splitOn " ").getD 1 ""
          if emissionsOf polls == want then .corr a
          else .prop "C13" "the receiver does not return exactly the packets written by the sender, in order" a
    | _, _ => .bad "parse"
  | _ => .bad "parse"

/-- `sched <link> <packets> <script> [chunk]`: an enumerated placement of "no data yet" answers in the wire of the packets -/
def scenSched (toks : List String) (obs : String) : Verdict :=
  match toks with
  | link :: ps :: script :: _ =>
    match (ps.splitOn "+").mapM parsePacket with
    | none => .bad "parse"
    | some pkts =>
      let want := pkts.map fun p => "ok(" ++ showPacketShort p ++ ")"
      -- the script's data must be the model's wire image of the packets (checks the generator's reference encoder too)
      let modelAns : Option (String × Bool) :=
        if link == "can" then do
          let items ← parseCanItems script
          let wire ← pkts.mapM canOf
          let data := items.filterMap fun | .frame c => some c | _ => none
          pure (showTrace (canPollsSt none items), data == wire.flatten)
        else do
          let items ← parseByteItems script
          let bodies ← pkts.mapM bodiesOf
          let data := items.filterMap fun | .byte b => some b | _ => none
          pure (showTrace (byteTrace link items), data == wireOf bodies.flatten)
      match modelAns with
      | none => .bad "parse"
      | some (a, wireOk) =>
        if !wireOk then .bad "MODEL: the enumerated script does not carry the model's wire image of the packets"
        else if a == obs then .ok
        else if emissionsOf obs == want then .corr a
        else .prop "C13" "the receiver does not return exactly the packets on the wire, in order, under this schedule" a
  | _ => .bad "parse"

/-- classify a delivered packet the way a receiving application does: by the unique decoder that accepts it -/
def classify (p : Packet) : String :=
  match Kind.all.filterMap fun k => match decode k p with | .ok e => some e | _ => none with
  | [e] => showEventShort e
  | [] => "undecodable[" ++ showPacketShort p ++ "]"
  | _ => "ambiguous[" ++ showPacketShort p ++ "]"

def scenE2e (toks : List String) (obs : String) : Verdict :=
  match toks with
  | link :: as :: bs :: hs :: evs :: seed :: _ =>
    match parseHexNat as, parseHexNat bs, (sepList evs "+").mapM parseEvent, seed.toNat? with
    | some an, some bn, some es, some sd =>
      let a := UInt16.ofNat an
      let b := UInt16.ofNat bn
      -- the handler table is built by the history `hs`: `c` / `o` register a handler (token = order of registration),
      -- a digit k removes the k-th registration, with the id it was given, if it exists and is still registered
      let table : Proto := (if hs = "-" then [] else hs.toList).foldl (fun (acc : Proto × Nat × List (Option Nat)) ch =>
          let (st, tok, ids) := acc
          if ch.isDigit then
            let k := ch.toNat - 48
            match ids.getD k none with
            | some id => ((st.remove id).1, tok, ids.set k none)
            | none => acc
          else
            let (st', id) := st.add ⟨tok, ch == 'c', []⟩
            (st', tok + 1, ids ++ [some id])) (Proto.init b [] [], 0, []) |>.1
      let handlers : List (Nat × Handler) := table.handlers
      -- what node A puts on the link (C16): everything not addressed to itself, and everything if it is the broadcast node
      let sent := (es.map (encode ⟨0, 0, 0⟩)).filter fun p => p.addr != a || a == BROADCAST
      let polls : Option (List Out) :=
        if link == "can" then do
          let wire ← sent.mapM canOf
          pure (canPolls none (scheduledCan wire.flatten sd))
        else do
          let bodies ← sent.mapM bodiesOf
          let script := scheduledBytes link (wireOf bodies.flatten) sd
          pure (if link == "usart" then usartPolls LinkSt.init script else serialPolls LinkSt.init script)
      match polls with
      | none => .bad "model wire"
      | some outs =>
        let rx : Proto := ⟨b, handlers, outs.map toRx, [], []⟩
        let log := rx.tickAll.log.filterMap fun
          | .call t p => some ("h" ++ toString t ++ "/" ++ classify p)
          | _ => none
        let ans := "ok " ++ joinOr log ","
        -- no property fixes the order among the handlers of one packet: sort runs of calls with the same event
        let canonRuns (l : List String) : List String :=
          let ev (x : String) : String := String.intercalate "/" ((x.splitOn "/").drop 1)
          let rec go (l : List String) (run : List String) (acc : List String) : List String :=
            match l with
            | [] => acc ++ (run.toArray.qsort (· < ·)).toList
            | x :: t =>
              match run with
              | [] => go t [x] acc
              | y :: _ => if ev x == ev y then go t (x :: run) acc else go t [x] (acc ++ (run.toArray.qsort (· < ·)).toList)
          go l [] []
        let implLog := sepList ((obs.splitOn " ").getD 1 "-") ","
        if ans == obs then .ok
        else if obs.startsWith "ok " && canonRuns implLog == canonRuns log then .note "handlers of one packet invoked in another order"
        else .prop "C01" "the peer's handlers do not observe exactly the events sent to them, once, in order, intact" ans
    | _, _, _, _ => .bad "parse"
  | _ => .bad "parse"

/-! ## protocol histories -/

/-- which property an op belongs to -/
def opProp (op : String) : String :=
  if op.startsWith "add" || op.startsWith "rm" then "C17"
  else if op.startsWith "tick" then "C15"
  else if op.startsWith "send" then "C16"
  else "C18"

/-- the log segment of one operation with the handler blocks in a canonical order: no property fixes the order in which
the handlers of one packet are invoked. A block is a `c<token>/…` entry and the `blockLen token` entries its callback
causes: one transmission per packet it sends to another device, and per packet it sends to the device itself one
re-entrant `n<token>/…` entry per registered handler (plus the transmission when the own address is the broadcast
address) -/
def canonSeg (blockLen : Nat → Nat) (seg : List String) (exchange : Bool := false) : List String :=
  -- C18 is silent about the packets an exchange reads and does not return: an implementation may hand them to the
  -- handlers as a tick would. In an exchange the log after the wait mark is therefore not compared
  -- (the wait marks themselves are all kept: the callback must run exactly once)
  let seg := if exchange then (seg.takeWhile (· != "w")) ++ seg.filter (· == "w") else seg
  -- which transmission met which link answer depends on the invocation order: compare the transmissions without
  -- their answers, and the sequence of answers separately. No property orders the handlers of one packet among each
  -- other, the sends of one callback among each other, or a local delivery against a transmission that must both
  -- happen (C16 on a device whose own address is the broadcast address): between two wait marks `w` the canonical form is
  -- the sorted list of blocks (each: the call, then its entries sorted) followed by the top-level transmissions in order
  let strip (x : String) : String := if x.startsWith "tok/" || x.startsWith "ter/" then "t/" ++ (x.drop 4).toString else x
  let sorted (l : List String) : List String := (l.toArray.qsort (· < ·)).toList
  -- the link's answers, per transmitted packet, as a multiset (the model run follows the implementation in which
  -- transmission of an operation meets which answer: `followAnswers`)
  let answers := sorted (seg.filter fun x => x.startsWith "tok/" || x.startsWith "ter/")
  let tokenOf (x : String) : Nat := (((x.drop 1).toString.splitOn "/").headD "").toNat?.getD 0
  let rec go (l : List String) (fuel : Nat) (blocks tops : List String) (acc : List String) : List String :=
    match fuel with
    | 0 => acc ++ sorted blocks ++ tops.reverse ++ l
    | fuel + 1 =>
      match l with
      | [] => acc ++ sorted blocks ++ tops.reverse
      | x :: t =>
        if x.startsWith "c" then
          let k := blockLen (tokenOf x)
          go (t.drop k) fuel ((String.intercalate "," (x :: sorted ((t.take k).map strip))) :: blocks) tops acc
        else if x == "w" then go t fuel [] [] (acc ++ sorted blocks ++ tops.reverse ++ ["w"])
        else go t fuel blocks (strip x :: tops) acc
  go seg (seg.length + 1) [] [] [] ++ ["answers:" ++ String.intercalate "," answers]

/-- compare an implementation's observation with a model run (results per operation, log, handler counts): attribute the
first operation whose result, queue position or canonical log segment differs; no difference in canonical form = a note -/
def judgeProto (addr ops obs : String) (results log : List String) (counts : List Nat) (note : String) : Verdict :=
  let a := joinOr results ";" ++ " " ++ joinOr log ","
  -- attribute to the first operation whose result, queue position or log segment differs
  let opl := sepList ops ";"
  match obs.splitOn " " with
  | [ir, il] =>
    let ires := sepList ir ";"
    let ilog := sepList il ","
    let seg (lg : List String) (rs : List String) (i : Nat) : List String :=
      let endOf (j : Nat) : Nat := (((rs.getD j "").splitOn "#").getD 1 "0").toNat?.getD 0
      let lo := if i = 0 then 0 else endOf (i - 1)
      (lg.drop lo).take (endOf i - lo)
    -- what each handler's callback sends, by token (from the `add` operations): packets to the device itself, others
    let own := (parseHexNat addr).getD 0
    let sendsTab : List (Nat × Nat × Nat) := opl.filterMap fun o =>
      match o.splitOn "/" with
      | ["add", _, tok, sd] =>
        let ps := if sd == "-" then [] else (sd.splitOn "+").filterMap parsePacket
        let loops := (ps.filter fun q => q.addr.toNat == own).length
        some (tok.toNat?.getD 0, loops, ps.length - loops)
      | _ => none
    let blockLen (i : Nat) (t : Nat) : Nat :=
      match sendsTab.find? (·.1 == t) with
      | some (_, loops, others) => loops * (counts.getD i 0 + (if own == 0xffff then 1 else 0)) + others
      | none => 0
    -- `<result>@<rx items left>` without the `#<log length>` (which only delimits the segments)
    let resOf (x : String) : String := (x.splitOn "#").headD ""
    let isX (i : Nat) : Bool := (opl.getD i "").startsWith "x"
    let firstBad := (List.range opl.length).find? fun i =>
      resOf (ires.getD i "?") != resOf (results.getD i "?") ||
        canonSeg (blockLen i) (seg ilog ires i) (isX i) != canonSeg (blockLen i) (seg log results i) (isX i)
    match firstBad with
    | some i =>
      let pid := opProp (opl.getD i "")
      -- a difference in what the callbacks' own sends cause is a routing matter whatever operation ran the callbacks
      let nested := (seg ilog ires i).filter (·.startsWith "n") != (seg log results i).filter (·.startsWith "n")
      let pid := if nested && pid != "C16" then pid ++ ",C16" else pid
      let extra := if !(pid.startsWith "C17") && (opl.take i).any (fun o => o.startsWith "add" || o.startsWith "rm") then ",~C17" else ""
      .prop (pid ++ extra) ("operation " ++ toString i ++ " (" ++ ((opl.getD i "").splitOn "/").headD "" ++
        ") differs from the specified dispatch/routing/registry/exchange behaviour") a
    | none =>
      if ires.length == results.length then .note note else
      .prop "C15,C16,C17,C18" "log differs" a
  | _ => .bad "observation"

def scenProto (addr rxq txq ops obs : String) : Verdict :=
  match runProtoStepsN addr rxq txq ops with
  | none => .bad "parse"
  | some (results, log, counts) =>
    let a := joinOr results ";" ++ " " ++ joinOr log ","
    if a == obs then .ok
    else
      -- C17 requires a registration to return an id that is not in use, not a particular one: when the implementation
      -- hands out other ids than the model's allocator, the model is run again with the registrations placed under the
      -- implementation's ids (so that later `rm/<id>` operations mean the same handler on both sides)
      let opl := sepList ops ";"
      let ires := sepList ((obs.splitOn " ").headD "") ";"
      let otherIds := (List.range opl.length).any fun i =>
        (opl.getD i "").startsWith "add" &&
          (match implIdOf (ires.getD i ""), implIdOf (results.getD i "") with
           | some x, some y => x != y
           | _, _ => false)
      let ilog := sepList ((obs.splitOn " ").getD 1 "-") ","
      let note := if otherIds then "handler ids handed out by another allocation policy (each one not in use when handed out, as C17 requires); everything else as specified"
        else "handlers of one packet invoked, or the transmissions of one operation handed to the link, in another order"
      let attempt (lastMatch : Bool) : Verdict :=
        match runProtoStepsIds lastMatch addr rxq txq ops ires ilog with
        | none => .bad "parse"
        | some (.error i) =>
          .prop "C17" ("operation " ++ toString i ++ " (add) returned the id of a handler that is registered") a
        | some (.ok (results2, log2, counts2)) => judgeProto addr ops obs results2 log2 counts2 note
      match attempt false with
      | .prop ids clause ans =>
        (match attempt true with
         | .note n => .note n
         | _ => .prop ids clause ans)
      | v => v

/-! ## dispatch -/

def judge (inp obs : String) : Verdict :=
  if obs.startsWith "HARNESS-" then .bad obs else
  match inp.splitOn " " with
  | ["usart_dec", hex] => scenUsartDec hex obs
  | ["can_dec", c] => scenCanDec c obs
  | ["usart_enc", f] => scenEnc "usart" f obs
  | ["can_enc", f] => scenEnc "can" f obs
  | ["usart_rt", f] => scenRt "usart" f obs
  | ["can_rt", f] => scenRt "can" f obs
  | ["to_frames", p] => scenToFrames p obs
  | ["frag_rt", path, p] => scenFragRt path p obs
  | ["frt", path, p] => scenFrt path p obs
  | ["builder", f0, fs] => scenBuilder f0 fs obs
  | ["ev_enc", e] => scenEvEnc e obs
  | ["ev_ref", e] => scenEvRef e obs
  | ["ev_rt", e] => scenEvRt e obs
  | ["ev_dec", k, p] => scenEvDec k p obs
  | ["ev_cross", p] => scenEvCross p obs
  | ["ev_xenc", e] => scenEvXenc e obs
  | "rx" :: link :: items :: _ => scenRx link items obs
  | "rxh" :: link :: items :: _ => scenRxh link items obs
  | "tx" :: rest => scenTx rest obs
  | "loop" :: rest => scenLoop rest obs
  | "sched" :: rest => scenSched rest obs
  | "psend" :: rest => scenPsend rest obs
  | "e2e" :: rest => scenE2e rest obs
  | ["proto", addr, rxq, txq, ops] => scenProto addr rxq txq ops obs
  | _ => .bad "unknown scenario"

/-- which branch of the model a case takes (measured input distribution for the evidence; only the cheap scenarios) -/
def branchOf (inp : String) : Option String :=
  match inp.splitOn " " with
  | ["usart_dec", hex] => (parseBytes hex).map fun bs => "usart_dec:" ++
      (match fromUsart bs with | .ok f => "ok/dataLen" ++ toString f.dataLen | .err e => "err/" ++ showFErr e | .panic => "panic")
  | ["can_dec", c] => (parseCan c).map fun cf => "can_dec:" ++
      (match fromCan cf with | .ok f => (if f.multi then "ok/multi" else "ok/single") | .err e => "err/" ++ showFErr e | .panic => "panic")
  | ["ev_dec", k, p] =>
    match (k.drop 1).toString.toNat?.bind kindOfIdx, parsePacket p with
    | some kd, some pk => some ("ev_dec:k" ++ toString (kindIdx kd) ++ "/" ++
        (match decode kd pk with | .ok _ => "ok" | .err e => showCErr e | .panic => "panic"))
    | _, _ => none
  | ["builder", f0, fs] =>
    match parseFrame f0, (sepList fs ",").mapM parseFrame with
    | some a, some l =>
      (match Builder.new a with
        | .ok b0 =>
          let (_, tags) := l.foldl (fun (acc : Builder × List String) f =>
            match acc.1.addFrame f with
            | .ok b' => (b', acc.2)
            | .err e => (acc.1, if acc.2.contains (showBErr e) then acc.2 else acc.2 ++ [showBErr e])
            | .panic => acc) (b0, [])
          some ("builder:" ++ (if tags.isEmpty then "all-accepted" else String.intercalate "+" tags))
        | .err e => some ("builder:new/" ++ showBErr e)
        | .panic => some "builder:panic")
    | _, _ => none
  | _ => none

def bump (l : List (String × Nat)) (k : String) : List (String × Nat) :=
  if l.any (·.1 == k) then l.map (fun (a, v) => if a == k then (a, v + 1) else (a, v)) else l ++ [(k, 1)]

structure Counts where
  n : Nat := 0
  ok : Nat := 0
  notes : Nat := 0
  bad : Nat := 0
  announced : Option Nat := none
  branches : List (String × Nat) := []

partial def loop (h : IO.FS.Stream) (c : Counts) (notes : List (String × Nat)) : IO (Counts × List (String × Nat)) := do
  let line ← h.getLine
  if line.isEmpty then return (c, notes)
  let l := line.trimAscii.toString
  if l.startsWith "END lines=" then
    let k := ((l.drop 10).toString.toNat?).getD 0
    loop h { c with announced := some (c.announced.getD 0 + k) } notes
  else
  match l.splitOn " => " with
  | [inp, obs] =>
    let c := match branchOf inp with | some b => { c with branches := bump c.branches b } | none => c
    match judge inp obs with
    | .ok => loop h { c with n := c.n + 1, ok := c.ok + 1 } notes
    | .note w =>
      let notes' := if notes.any (·.1 == w) then notes.map (fun (k, v) => if k == w then (k, v + 1) else (k, v)) else notes ++ [(w, 1)]
      loop h { c with n := c.n + 1, notes := c.notes + 1 } notes'
    | .corr m => do IO.println s!"CORR {inp} impl={obs} model={m}"; loop h { c with n := c.n + 1, bad := c.bad + 1 } notes
    | .prop id cl m => do
      IO.println s!"PROP {id} [{cl}] {inp} impl={obs} model={m}"; loop h { c with n := c.n + 1, bad := c.bad + 1 } notes
    | .bad w => do IO.println s!"BADLINE ({w}) {l}"; loop h { c with n := c.n + 1, bad := c.bad + 1 } notes
  | _ => do IO.println s!"BADLINE (format) {l}"; loop h { c with n := c.n + 1, bad := c.bad + 1 } notes

def main : IO UInt32 := do
  let (c, notes) ← loop (← IO.getStdin) {} []
  for (w, k) in notes do IO.println s!"NOTE {k} {w}"
  for (b, k) in c.branches do IO.println s!"STAT {k} {b}"
  let ann := match c.announced with | some k => toString k | none => "none"
  IO.println s!"DONE lines={c.n} ok={c.ok} notes={c.notes} bad={c.bad} announced={ann}"
  return (if c.bad == 0 && c.announced == some c.n then 0 else 1)
