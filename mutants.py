import subprocess, re, sys, os
RP='/tmp/scratch/rp'
def sh(cmd, **kw): return subprocess.run(cmd, shell=True, capture_output=True, text=True, **kw)
def sub(path, old, new, count=1):
    p=os.path.join(RP,path); s=open(p).read()
    assert old in s, (path, old)
    s=s.replace(old,new,count); open(p,'w').write(s)
M=[
 ("m01 to_bxcan id mask 0f00->0700", lambda: sub('src/frame.rs',"FrameId::LastFrameId(frame_id) => id |= ((frame_id & 0x0f00) as u32 >> 8) << 16","FrameId::LastFrameId(frame_id) => id |= ((frame_id & 0x0700) as u32 >> 8) << 16"), True),
 ("m02 from_bxcan swap start/multi bits", lambda: (sub('src/frame.rs',"let start_frame_flag = ((id >> 27) & 0x0001) != 0;","let start_frame_flag = ((id >> 26) & 0x0001) != 0;"), sub('src/frame.rs',"let multi_frame_flag = ((id >> 26) & 0x0001) != 0;","let multi_frame_flag = ((id >> 27) & 0x0001) != 0;")), True),
 ("m03 to_frames <=8 -> <8", lambda: sub('src/packet.rs',"if self.data.len() <= 8 {","if self.data.len() < 8 {"), True),
 ("m04 add_frame drop WrongFrameType guard", lambda: sub('src/packet.rs',"""        if !frame.not_error_flag != self.is_error {
            return Err(PacketBuilderError::WrongFrameType);
        }
""",""), True),
 ("m05 TooManyFrames >= -> >", lambda: sub('src/packet.rs',"if frame_id >= self.expected_frame_count {","if frame_id > self.expected_frame_count {"), True),
 ("m06 can.rs no builder reset on error", lambda: sub('src/interface/can.rs',"""                        if let Err(err) = packet_builder.add_frame(ross_frame) {
                            self.packet_builder = None;
""","""                        if let Err(err) = packet_builder.add_frame(ross_frame) {
"""), True),
 ("m07 swap ACK/DATA codes", lambda: (sub('src/event/event_code.rs',"ACK_EVENT_CODE: u16 = 0x0003","ACK_EVENT_CODE: u16 = 0x0004"), sub('src/event/event_code.rs',"DATA_EVENT_CODE: u16 = 0x0004","DATA_EVENT_CODE: u16 = 0x0003")), True),
 ("m08 bcm Rgbw tag 04->06 both sides", lambda: (sub('src/event/bcm.rs',"vec![0x04, red, green, blue, white]","vec![0x06, red, green, blue, white]"), sub('src/event/bcm.rs',"            0x04 => {","            0x06 => {")), True),
 ("m09 usart send: length before delimiter", lambda: (sub('src/interface/usart.rs',"            let _ = block!(self.serial.write(0x00));\n\n            let usart_frame = frame.to_usart_frame();\n\n            let _ = block!(self.serial.write(usart_frame.len() as u8));","            let usart_frame = frame.to_usart_frame();\n\n            let _ = block!(self.serial.write(usart_frame.len() as u8));\n\n            let _ = block!(self.serial.write(0x00));")), True),
 ("m10 serial write_all->write (frame)", lambda: sub('src/interface/serial.rs',"self.port.write_all(&frame_buf)","self.port.write(&frame_buf)"), True),
 ("m11 to_usart low byte mask ff->7f", lambda: sub('src/frame.rs',"FrameId::LastFrameId(frame_id) => frame[1] |= (frame_id & 0x00ff) as u8","FrameId::LastFrameId(frame_id) => frame[1] |= (frame_id & 0x007f) as u8"), True),
 ("m12 relay single swapped both sides", lambda: (sub('src/event/relay.rs',"vec![if value { 0x00 } else { 0x01 }]","vec![if value { 0x01 } else { 0x00 }]"), sub('src/event/relay.rs',"0x00 => Ok(Self::Single(true)),\n            0x01 => Ok(Self::Single(false)),","0x00 => Ok(Self::Single(false)),\n            0x01 => Ok(Self::Single(true)),")), True),
 ("m13 from_usart nibble mask 0f->07", lambda: sub('src/frame.rs',"FrameId::LastFrameId((((frame[0] & 0x0f) as u16) << 8) | frame[1] as u16)","FrameId::LastFrameId((((frame[0] & 0x07) as u16) << 8) | frame[1] as u16)"), True),
 ("m14 message tag check >3 -> >4", lambda: sub('src/event/message.rs',"if tag > 3 ||","if tag > 4 ||"), True),
 ("m15 usart rx: <= instead of < (reads one byte too many)", lambda: sub('src/interface/usart.rs',"while frame.len() < expected_length as usize {","while frame.len() <= expected_length as usize {"), True),
 ("m16 to_frames 7->6 payload bytes... last-frame len off", lambda: sub('src/packet.rs',"self.data.len() % 7 + 1","self.data.len() % 7 + 2"), True),
 ("m17 usart rx no builder reset", lambda: sub('src/interface/usart.rs',"""                            if let Err(err) = packet_builder.add_frame(ross_frame) {
                                self.packet_builder = None;
""","""                            if let Err(err) = packet_builder.add_frame(ross_frame) {
"""), True),
 ("m18 DeviceAddressMismatch guard dropped", lambda: sub('src/packet.rs',"""        if frame.device_address != self.device_address {
            return Err(PacketBuilderError::DeviceAddressMismatch);
        }
""",""), True),
 ("m19 button index byte moved before address (both sides consistent? encoder only)", lambda: sub('src/event/button.rs',"""        for byte in u16::to_be_bytes(self.button_address).iter() {
            data.push(*byte);
        }

        data.push(self.index);

        Packet {
            is_error: false,
            device_address: self.receiver_address,
            data,
        }
    }
}

#[derive(Debug, Eq, PartialEq, Ord, PartialOrd)]
pub struct ButtonReleasedEvent""","""        data.push(self.index);

        for byte in u16::to_be_bytes(self.button_address).iter() {
            data.push(*byte);
        }

        Packet {
            is_error: false,
            device_address: self.receiver_address,
            data,
        }
    }
}

#[derive(Debug, Eq, PartialEq, Ord, PartialOrd)]
pub struct ButtonReleasedEvent"""), True),
 ("m20 can send ignores displaced", lambda: sub('src/interface/can.rs',"return Err(InterfaceError::CanError(CanError::MailboxFull));","continue;"), True),
 ("h01 harmless: copy_from_slice in to_frames", lambda: sub('src/packet.rs',"""            for i in 0..self.data.len() {
                data[i] = self.data[i];
            }
""","""            data[..self.data.len()].copy_from_slice(&self.data);
"""), False),
 ("h02 harmless: swap order of type/address guards", lambda: sub('src/packet.rs',"""        if !frame.not_error_flag != self.is_error {
            return Err(PacketBuilderError::WrongFrameType);
        }

        if frame.device_address != self.device_address {
            return Err(PacketBuilderError::DeviceAddressMismatch);
        }
""","""        if frame.device_address != self.device_address {
            return Err(PacketBuilderError::DeviceAddressMismatch);
        }

        if !frame.not_error_flag != self.is_error {
            return Err(PacketBuilderError::WrongFrameType);
        }
"""), False),
 ("h03 harmless: remote frames reported as FrameIsStandard", lambda: sub('src/frame.rs',"Err(FrameError::FrameIsRemote)","Err(FrameError::FrameIsStandard)"), False),
 ("h04 harmless: ack decoder checks error flag before size", lambda: sub('src/event/general.rs',"""        if packet.data.len() != 4 {
            return Err(ConvertPacketError::WrongSize);
        }

        if packet.is_error {
            return Err(ConvertPacketError::WrongType);
        }

        if u16::from_be_bytes(packet.data[0..=1].try_into().unwrap()) != ACK_EVENT_CODE""","""        if packet.is_error {
            return Err(ConvertPacketError::WrongType);
        }

        if packet.data.len() != 4 {
            return Err(ConvertPacketError::WrongSize);
        }

        if u16::from_be_bytes(packet.data[0..=1].try_into().unwrap()) != ACK_EVENT_CODE"""), False),
]
res=[]
for name, f, breaking in M:
    sh(f"cd {RP} && git checkout -q -- .")
    try: f()
    except AssertionError as e:
        res.append((name,'PATCH-FAILED',str(e)[:60])); continue
    t=sh(f"cd {RP} && CARGO_NET_OFFLINE=true cargo test --offline 2>&1 | grep 'test result' | head -1")
    tests=t.stdout.strip()
    b=sh("cd /tmp/scratch/h2 && CARGO_NET_OFFLINE=true cargo build --offline --release 2>&1 | grep -E '^error' | head -1")
    if b.stdout.strip():
        res.append((name,'HARNESS-BUILD-FAILED',tests)); continue
    r=sh("cd /tmp/scratch/h2 && timeout 120 ./target/release/ross-harness all 3000 | /tmp/scratch/model/RossModel/.lake/build/bin/driver | tail -400")
    lines=r.stdout.strip().split('\n')
    done=lines[-1] if lines else ''
    kinds={}
    for l in lines[:-1]:
        k=' '.join(l.split()[:3]) if l.startswith('CORR') else ' '.join(l.split()[:2])
        kinds[k]=kinds.get(k,0)+1
    res.append((name, done, tests, sorted(kinds.items(), key=lambda x:-x[1])[:3], breaking))
sh(f"cd {RP} && git checkout -q -- .")
sh("cd /tmp/scratch/h2 && CARGO_NET_OFFLINE=true cargo build --offline --release")
for r in res: print(r)
