//! One SplitMix64 stream per case for every random choice; boundary-biased scalars.
//! The stream of a case is a pure function of (seed, group, index), so any case can be regenerated alone
//! and index ranges can be sharded over processes.
pub struct Rng(pub u64);

impl Rng {
    pub fn next(&mut self) -> u64 {
        self.0 = self.0.wrapping_add(0x9E3779B97F4A7C15);
        let mut z = self.0;
        z = (z ^ (z >> 30)).wrapping_mul(0xBF58476D1CE4E5B9);
        z = (z ^ (z >> 27)).wrapping_mul(0x94D049BB133111EB);
        z ^ (z >> 31)
    }
    pub fn below(&mut self, n: u64) -> u64 {
        if n == 0 {
            0
        } else {
            self.next() % n
        }
    }
    pub fn flip(&mut self) -> bool {
        self.next() & 1 == 1
    }
    pub fn byte(&mut self) -> u8 {
        match self.below(10) {
            0 => 0,
            1 => 1,
            2 => 0xff,
            3 => 0x80,
            4 => 0x7f,
            5 => 0xfe,
            _ => self.next() as u8,
        }
    }
    pub fn u16(&mut self) -> u16 {
        const B: [u16; 12] = [0, 1, 0xff, 0x100, 0x555, 0xfff, 0x1000, 0x7fff, 0x8000, 0xfffe, 0xffff, 0x0800];
        match self.below(7) {
            0 | 1 => B[self.below(12) as usize],
            2 | 3 => 1 << self.below(16),
            4 => self.below(16) as u16, // the values of the sixteen event codes: a field that looks like another kind's code
            _ => self.next() as u16,
        }
    }
    pub fn u32(&mut self) -> u32 {
        match self.below(5) {
            0 => 0,
            1 => u32::MAX,
            2 => 1 << self.below(32),
            3 => (self.below(16) as u32) << (16 * self.below(2)), // an event code in the low or in the high half
            _ => self.next() as u32,
        }
    }
    pub fn bytes(&mut self, n: usize) -> Vec<u8> {
        (0..n).map(|_| self.byte()).collect()
    }
    pub fn pick<'a, T>(&mut self, xs: &'a [T]) -> &'a T {
        &xs[self.below(xs.len() as u64) as usize]
    }
}

/// payload `g<seed>x<len>`: the same stream the Lean driver regenerates
pub fn gen_bytes(seed: u64, len: usize) -> Vec<u8> {
    let mut r = Rng(seed);
    (0..len).map(|_| (r.next() % 256) as u8).collect()
}

pub fn fnv(s: &str) -> u64 {
    let mut h = 0xcbf29ce484222325u64;
    for b in s.bytes() {
        h = (h ^ b as u64).wrapping_mul(0x100000001b3);
    }
    h
}

/// generator state of case `idx` of `group` under `seed`
pub fn case_rng(seed: u64, group: &str, idx: u64) -> Rng {
    let mut r = Rng(seed ^ fnv(group).rotate_left(17) ^ idx.wrapping_mul(0xD6E8FEB86659FD93));
    r.next();
    r.next();
    Rng(r.next())
}
