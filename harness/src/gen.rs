//! One SplitMix64 stream for every random choice; boundary-biased scalars.
pub struct Rng(pub u64);
impl Rng {
    pub fn next(&mut self) -> u64 {
        self.0 = self.0.wrapping_add(0x9E3779B97F4A7C15);
        let mut z = self.0;
        z = (z ^ (z >> 30)).wrapping_mul(0xBF58476D1CE4E5B9);
        z = (z ^ (z >> 27)).wrapping_mul(0x94D049BB133111EB);
        z ^ (z >> 31)
    }
    pub fn below(&mut self, n: u64) -> u64 { if n == 0 { 0 } else { self.next() % n } }
    pub fn flip(&mut self) -> bool { self.next() & 1 == 1 }
    pub fn byte(&mut self) -> u8 {
        match self.below(10) { 0 => 0, 1 => 1, 2 => 0xff, 3 => 0x80, 4 => 0x7f, 5 => 0xfe, _ => self.next() as u8 }
    }
    pub fn u16(&mut self) -> u16 {
        const B: [u16; 12] = [0, 1, 0xff, 0x100, 0x555, 0xfff, 0x1000, 0x7fff, 0x8000, 0xfffe, 0xffff, 0x0800];
        match self.below(3) { 0 => B[self.below(12) as usize], 1 => 1 << self.below(16), _ => self.next() as u16 }
    }
    pub fn u32(&mut self) -> u32 {
        match self.below(4) { 0 => 0, 1 => u32::MAX, 2 => 1 << self.below(32), _ => self.next() as u32 }
    }
    pub fn bytes(&mut self, n: usize) -> Vec<u8> { (0..n).map(|_| self.byte()).collect() }
}
/// payload `g<seed>x<len>`: the same stream the Lean driver regenerates
pub fn gen_bytes(seed: u64, len: usize) -> Vec<u8> { let mut r = Rng(seed); (0..len).map(|_| (r.next() % 256) as u8).collect() }
