//! Protocol-layer histories over a scripted `Interface` (C15–C18)
use crate::ev::Ev;
use crate::gen::Rng;
use crate::text::{self as show, list, split_list};
use ross_protocol::convert_packet::ConvertPacket;
use ross_protocol::event::{bcm::*, bootloader::*, button::*, configurator::*, gateway::*, general::*, internal::*, message::*, programmer::*, relay::*};
use ross_protocol::frame::FrameError;
use ross_protocol::interface::{can::CanError, serial::SerialError, usart::UsartError, Interface, InterfaceError};
use ross_protocol::packet::PacketBuilderError;
use ross_protocol::packet::Packet;
use ross_protocol::protocol::{Protocol, ProtocolError};
use std::cell::{Cell, RefCell};
use std::collections::VecDeque;
use std::panic::{catch_unwind, AssertUnwindSafe};
use std::rc::Rc;

type Log = Rc<RefCell<Vec<String>>>;
pub enum RxItem { Nothing, Fault(u8), Pkt(Packet) }
/// the link error a scripted `Interface` answers with for tag `t` (rx item `e` = tag 0, `e1`…`e7`): one of every kind
fn iface_err(t: u8) -> InterfaceError {
    match t {
        0 => InterfaceError::UsartError(UsartError::ReadError),
        1 => InterfaceError::CanError(CanError::BufferOverrun),
        2 => InterfaceError::CanError(CanError::MailboxFull),
        3 => InterfaceError::FrameError(FrameError::WrongSize),
        4 => InterfaceError::FrameError(FrameError::FrameIsStandard),
        5 => InterfaceError::BuilderError(PacketBuilderError::OutOfOrder),
        6 => InterfaceError::BuilderError(PacketBuilderError::MissingFrames),
        _ => InterfaceError::SerialError(SerialError::ReadError(std::io::Error::new(std::io::ErrorKind::TimedOut, "scripted"))),
    }
}
/// the tag of a link error as it comes back out of the protocol layer (it must be the one that went in)
fn iface_tag(e: &InterfaceError) -> &'static str {
    match e {
        InterfaceError::UsartError(UsartError::ReadError) => "",
        InterfaceError::CanError(CanError::BufferOverrun) => "1",
        InterfaceError::CanError(CanError::MailboxFull) => "2",
        InterfaceError::FrameError(FrameError::WrongSize) => "3",
        InterfaceError::FrameError(FrameError::FrameIsStandard) => "4",
        InterfaceError::BuilderError(PacketBuilderError::OutOfOrder) => "5",
        InterfaceError::BuilderError(PacketBuilderError::MissingFrames) => "6",
        InterfaceError::SerialError(SerialError::ReadError(_)) => "7",
        InterfaceError::NoPacketReceived => "N",
        _ => "?",
    }
}
pub struct ScriptIface { rx: VecDeque<RxItem>, tx: VecDeque<bool>, log: Log, left: Rc<RefCell<usize>> }
impl Interface for ScriptIface {
    fn try_get_packet(&mut self) -> Result<Packet, InterfaceError> {
        let r = self.rx.pop_front(); *self.left.borrow_mut() = self.rx.len();
        match r { None | Some(RxItem::Nothing) => Err(InterfaceError::NoPacketReceived), Some(RxItem::Fault(t)) => Err(iface_err(t)), Some(RxItem::Pkt(p)) => Ok(p) }
    }
    fn try_send_packet(&mut self, p: &Packet) -> Result<(), InterfaceError> {
        let ok = self.tx.pop_front().unwrap_or(true);
        self.log.borrow_mut().push(format!("t{}/{}", if ok { "ok" } else { "er" }, show::packet(p)));
        if ok { Ok(()) } else { Err(InterfaceError::UsartError(UsartError::ReadError)) }
    }
}
fn perr(e: &ProtocolError) -> String { match e { ProtocolError::InterfaceError(ie) => format!("ifErr{}", iface_tag(ie)), ProtocolError::NoSuchHandler => "NoSuchHandler".into(), ProtocolError::PacketTimeout => "timeout".into() } }

fn xchg_one(pr: &mut Protocol<ScriptIface>, kind: usize, p: Packet, cap: bool, log: &Log) -> Result<Ev, ProtocolError> {
    let l = log.clone(); let w = move || l.borrow_mut().push("w".into());
    Ok(match kind {
        0 => Ev::BootloaderHello(pr.exchange_packet::<_, BootloaderHelloEvent>(p, cap, w)?), 1 => Ev::ProgrammerHello(pr.exchange_packet::<_, ProgrammerHelloEvent>(p, cap, w)?),
        2 => Ev::StartFirmware(pr.exchange_packet::<_, ProgrammerStartFirmwareUpgradeEvent>(p, cap, w)?), 3 => Ev::Ack(pr.exchange_packet::<_, AckEvent>(p, cap, w)?),
        4 => Ev::Data(pr.exchange_packet::<_, DataEvent>(p, cap, w)?), 5 => Ev::ConfiguratorHello(pr.exchange_packet::<_, ConfiguratorHelloEvent>(p, cap, w)?),
        6 => Ev::BcmChange(pr.exchange_packet::<_, BcmChangeBrightnessEvent>(p, cap, w)?), 7 => Ev::Pressed(pr.exchange_packet::<_, ButtonPressedEvent>(p, cap, w)?),
        8 => Ev::Released(pr.exchange_packet::<_, ButtonReleasedEvent>(p, cap, w)?), 9 => Ev::Tick(pr.exchange_packet::<_, SystemTickEvent>(p, cap, w)?),
        10 => Ev::StartConfig(pr.exchange_packet::<_, ProgrammerStartConfigUpgradeEvent>(p, cap, w)?), 11 => Ev::SetAddress(pr.exchange_packet::<_, ProgrammerSetDeviceAddressEvent>(p, cap, w)?),
        12 => Ev::Message(pr.exchange_packet::<_, MessageEvent>(p, cap, w)?), 13 => Ev::BcmAnimate(pr.exchange_packet::<_, BcmAnimateBrightnessEvent>(p, cap, w)?),
        14 => Ev::RelaySet(pr.exchange_packet::<_, RelaySetValueEvent>(p, cap, w)?), _ => Ev::GatewayDiscover(pr.exchange_packet::<_, GatewayDiscoverEvent>(p, cap, w)?),
    })
}
fn xchg_all(pr: &mut Protocol<ScriptIface>, kind: usize, p: Packet, cap: bool, log: &Log) -> Result<Vec<Ev>, ProtocolError> {
    let l = log.clone(); let w = move || l.borrow_mut().push("w".into());
    macro_rules! go { ($t:ty, $v:path) => { pr.exchange_packets::<_, $t>(p, cap, w)?.into_iter().map($v).collect() } }
    Ok(match kind {
        0 => go!(BootloaderHelloEvent, Ev::BootloaderHello), 1 => go!(ProgrammerHelloEvent, Ev::ProgrammerHello), 2 => go!(ProgrammerStartFirmwareUpgradeEvent, Ev::StartFirmware), 3 => go!(AckEvent, Ev::Ack),
        4 => go!(DataEvent, Ev::Data), 5 => go!(ConfiguratorHelloEvent, Ev::ConfiguratorHello), 6 => go!(BcmChangeBrightnessEvent, Ev::BcmChange), 7 => go!(ButtonPressedEvent, Ev::Pressed),
        8 => go!(ButtonReleasedEvent, Ev::Released), 9 => go!(SystemTickEvent, Ev::Tick), 10 => go!(ProgrammerStartConfigUpgradeEvent, Ev::StartConfig), 11 => go!(ProgrammerSetDeviceAddressEvent, Ev::SetAddress),
        12 => go!(MessageEvent, Ev::Message), 13 => go!(BcmAnimateBrightnessEvent, Ev::BcmAnimate), 14 => go!(RelaySetValueEvent, Ev::RelaySet), _ => go!(GatewayDiscoverEvent, Ev::GatewayDiscover),
    })
}


fn gen_addr(r: &mut Rng, own: u16) -> u16 {
    match r.below(4) {
        0 => own,
        1 => 0xffff,
        _ => r.u16(),
    }
}

fn gen_packet(r: &mut Rng, own: u16) -> Packet {
    if r.below(3) == 0 {
        let n = r.below(6) as usize;
        Packet { is_error: r.below(5) == 0, device_address: gen_addr(r, own), data: r.bytes(n) }
    } else {
        let mut p = Ev::gen(r.below(16) as usize, r).ref_packet();
        if p.data.len() > 40 {
            p.data.truncate(40);
        }
        if r.below(3) != 0 {
            p.device_address = gen_addr(r, own);
        }
        if r.below(12) == 0 {
            p.is_error = true;
        }
        p
    }
}

/// `<own> <rx queue> <tx queue> <ops>`; handler ids for `rm` are chosen with a reference allocator (least free id)
pub fn gen(r: &mut Rng) -> String {
    let own: u16 = match r.below(4) {
        0 => 0xffff,
        1 => 0,
        _ => r.u16(),
    };
    let txs: String = (0..r.below(6)).map(|_| if r.below(4) != 0 { 'o' } else { 'e' }).collect();
    let mut wanted: Vec<usize> = vec![]; // event kinds some exchange of this history asks for
    let mut requests: Vec<Packet> = vec![]; // the requests of the exchanges
    let mut ops: Vec<String> = vec![];
    let mut next_token = 0u32;
    let mut live: Vec<u32> = vec![];
    // once in a while a large handler table: 60..90 registrations first (ids beyond 64), then the usual mix
    if r.below(150) == 0 {
        for _ in 0..60 + r.below(31) {
            let id = (0u32..).find(|i| !live.contains(i)).unwrap();
            live.push(id);
            ops.push(format!("add/{}/{}/-", if r.below(4) == 0 { 'c' } else { 'o' }, next_token));
            next_token += 1;
        }
    }
    for _ in 0..r.below(14) {
        match r.below(10) {
            0 | 1 | 2 => {
                let cap = r.flip();
                let token = next_token;
                next_token += 1;
                // packets the handler sends from inside its callback through the `&mut Protocol` it is handed: to other
                // devices (C15) and, about one in four, to the device's own address (a re-entrant loop-back, C16)
                let ss: Vec<String> = (0..r.below(3)).map(|_| show::packet(&gen_packet(r, own))).collect();
                let id = (0u32..).find(|i| !live.contains(i)).unwrap();
                live.push(id);
                ops.push(format!("add/{}/{}/{}", if cap { 'c' } else { 'o' }, token, list(&ss, "+")));
            }
            3 => {
                let id = if !live.is_empty() && r.below(3) != 0 {
                    let k = r.below(live.len() as u64) as usize;
                    live[k]
                } else if !live.is_empty() && r.below(3) == 0 {
                    // an unregistered id that agrees with a live one in its low bits
                    let k = r.below(live.len() as u64) as usize;
                    live[k] | (1u32 << (8 + r.below(24)))
                } else {
                    *r.pick(&[0u32, 1, 2, 3, 4, 5, 6, 255, 256, 65535, 65536, u32::MAX])
                };
                live.retain(|x| *x != id);
                ops.push(format!("rm/{}", id));
            }
            4 | 5 | 6 => ops.push("tick".into()),
            7 => ops.push(format!("send/{}", show::packet(&gen_packet(r, own)))),
            8 | 9 => {
                let k = r.below(16) as usize;
                wanted.push(k);
                // the request: any packet, or (one in three) an event of the very kind that is awaited, so that a peer's
                // answer can be byte-identical to the request (a discover request answered by a discover event)
                let req = if r.below(3) == 0 {
                    let mut p = Ev::gen(k, r).ref_packet();
                    if p.data.len() > 40 {
                        p = Ev::gen(3, r).ref_packet();
                    }
                    p.device_address = gen_addr(r, own);
                    p
                } else {
                    gen_packet(r, own)
                };
                requests.push(req.clone());
                ops.push(format!("{}/{}/{}/{}", if r.flip() { "xchg" } else { "xall" }, k, if r.flip() { 'c' } else { 'o' }, show::packet(&req)));
            }
            _ => unreachable!(),
        }
    }
    // the link's receive queue: half of the packets are replies of a kind one of the exchanges asks for (addressed to the
    // device, to everybody or to somebody else), so that exchanges find, skip and miss replies in every mix
    let rxs: Vec<String> = (0..r.below(9))
        .map(|_| match r.below(8) {
            0 => "n".to_string(),
            1 => ["e", "e", "e1", "e2", "e3", "e4", "e5", "e6", "e7"][r.below(9) as usize].to_string(),
            2 | 3 | 4 if !wanted.is_empty() => {
                let k = *r.pick(&wanted);
                let mut p = Ev::gen(k, r).ref_packet();
                if p.data.len() > 40 {
                    p = Ev::gen(3, r).ref_packet();
                }
                p.device_address = gen_addr(r, own);
                if r.below(10) == 0 {
                    p.is_error = true;
                }
                show::packet(&p)
            }
            5 if !requests.is_empty() => show::packet(r.pick(&requests)), // an echo of a request
            _ => show::packet(&gen_packet(r, own)),
        })
        .collect();
    format!("{:04x} {} {} {}", own, list(&rxs, ","), if txs.is_empty() { "-".into() } else { txs }, list(&ops, ";"))
}

/// the `i`-th registry history: every sequence of at most 6 operations over {register own-address, register capture-all,
/// remove id 0 / 1 / 2, tick} (length-then-lexicographic), on a device 0x0005 whose link delivers, alternately, a packet
/// for the device and a packet for another device (so that every tick reveals which handlers are live)
pub fn enum_registry(i: u64) -> String {
    const A: [&str; 6] = ["add/o", "add/c", "rm/0", "rm/1", "rm/2", "tick"];
    let mut i = i;
    let mut len = 0u32;
    loop {
        let c = 6u64.pow(len);
        if i < c || len == 6 {
            break;
        }
        i -= c;
        len += 1;
    }
    let mut token = 0;
    let ops: Vec<String> = (0..len)
        .rev()
        .map(|k| {
            let a = A[((i / 6u64.pow(k)) % 6) as usize];
            if a.starts_with("add") {
                token += 1;
                format!("{}/{}/-", a, token - 1)
            } else {
                a.to_string()
            }
        })
        .collect();
    let rxq: Vec<String> = (0..6).map(|k| if k % 2 == 0 { "D:0005:01".to_string() } else { "D:0009:02".to_string() }).collect();
    format!("0005 {} - {}", rxq.join(","), list(&ops, ";"))
}

/// the `i`-th routing history: every sequence of at most 5 operations over {register a plain handler, register a capture-all
/// handler whose callback sends a packet to the device's own address (re-entrant loop-back), register a handler whose callback
/// sends to another device, remove id 0, tick, send to the own address / to another device / to the broadcast address}, on a
/// device with address 0x0005 (even `i`) or 0xffff (odd `i`) whose link delivers packets for the device, for another device and
/// for everybody in turn and fails every second transmission
pub fn enum_routing(i: u64) -> String {
    let own = if i % 2 == 0 { "0005" } else { "ffff" };
    let mut i = i / 2;
    let mut len = 0u32;
    loop {
        let c = 8u64.pow(len);
        if i < c || len == 5 {
            break;
        }
        i -= c;
        len += 1;
    }
    let mut token = 0;
    let ops: Vec<String> = (0..len)
        .rev()
        .map(|k| match (i / 8u64.pow(k)) % 8 {
            0 => {
                token += 1;
                format!("add/o/{}/-", token - 1)
            }
            1 => {
                token += 1;
                format!("add/c/{}/D:{}:aa", token - 1, own)
            }
            2 => {
                token += 1;
                format!("add/o/{}/D:0009:bb", token - 1)
            }
            3 => "rm/0".to_string(),
            4 => "tick".to_string(),
            5 => format!("send/D:{}:01", own),
            6 => "send/D:0009:02".to_string(),
            _ => "send/D:ffff:03".to_string(),
        })
        .collect();
    format!("{} D:{}:11,D:0009:12,D:ffff:13,D:{}:14,D:0009:15 oeoeoeoeoeoeoeoe {}", own, own, own, list(&ops, ";"))
}

/// the `i`-th exchange history: every receive queue of at most 4 items over {nothing, link error, ack for the device, ack for
/// another device, ack for everybody, a button event for the device, an ack for the device with the error flag} x
/// {exchange_packet, exchange_packets} x {capture-all or not} x {request to another device, request to the device itself},
/// on devices 0x0005 and 0xffff with one registered handler; the exchange is followed by a draining capture-all
/// exchange_packets and a tick, which show what was left queued
pub fn enum_exchange(i: u64) -> String {
    let own = if i % 2 == 0 { 0x0005u16 } else { 0xffff };
    let mut i = i / 2;
    let op = i % 8;
    i /= 8;
    let mut len = 0u32;
    loop {
        let c = 7u64.pow(len);
        if i < c || len == 4 {
            break;
        }
        i -= c;
        len += 1;
    }
    let item = |k: u64, pos: u32| -> String {
        let t = 0x10 + pos as u16; // transmitter address: tells the queued replies apart
        match k {
            0 => "n".into(),
            1 => ["e", "e1", "e3", "e5"][(pos % 4) as usize].into(), // a link error of a different kind at every position
            2 => format!("D:{:04x}:0003{:04x}", own, t),
            3 => format!("D:0009:0003{:04x}", t),
            4 => format!("D:ffff:0003{:04x}", t),
            5 => format!("D:{:04x}:0007{:04x}01", own, t),
            _ => format!("E:{:04x}:0003{:04x}", own, t),
        }
    };
    let rxq: Vec<String> = (0..len).rev().map(|k| item((i / 7u64.pow(k)) % 7, k)).collect();
    let req = if op & 4 == 0 { "D:0009:0003aaaa".to_string() } else { format!("D:{:04x}:0003aaaa", own) };
    let first = format!("{}/3/{}/{}", if op & 1 == 0 { "xchg" } else { "xall" }, if op & 2 == 0 { 'o' } else { 'c' }, req);
    format!("{:04x} {} - add/o/0/-;{};xall/3/c/D:0009:0003bbbb;tick", own, list(&rxq, ","), first)
}

fn res_str(res: std::thread::Result<Result<(), ProtocolError>>) -> String {
    match res {
        Err(_) => "panic".into(),
        Ok(Ok(())) => "ok".into(),
        Ok(Err(e)) => perr(&e).to_string(),
    }
}

/// run the history against the real `Protocol`; observation: `<result;…> <log,…> <rx items left>`
pub fn exec(t: &[&str]) -> Option<String> {
    let own = u16::from_str_radix(t.first()?, 16).ok()?;
    let rxq: VecDeque<RxItem> = split_list(t.get(1)?, ',')
        .iter()
        .map(|s| match *s {
            "n" => Some(RxItem::Nothing),
            "e" => Some(RxItem::Fault(0)),
            "e1" | "e2" | "e3" | "e4" | "e5" | "e6" | "e7" => Some(RxItem::Fault(s[1..].parse().ok()?)),
            _ => show::parse_packet(s).map(RxItem::Pkt),
        })
        .collect::<Option<_>>()?;
    let txq: VecDeque<bool> = if *t.get(2)? == "-" { VecDeque::new() } else { t[2].chars().map(|c| c == 'o').collect() };
    let log: Log = Rc::new(RefCell::new(vec![]));
    let left = Rc::new(RefCell::new(rxq.len()));
    // 0 outside callbacks, 1 while some handler's callback is sending: a handler invoked re-entrantly (by a loop-back send
    // of another callback) records the packet as `n<token>/…` and sends nothing, which bounds the nesting at one level
    let depth = Rc::new(Cell::new(0u32));
    let mut pr = Protocol::new(own, ScriptIface { rx: rxq, tx: txq, log: log.clone(), left: left.clone() });
    let mut results: Vec<String> = vec![];
    for op in split_list(t.get(3)?, ';') {
        let a: Vec<&str> = op.split('/').collect();
        depth.set(0);
        match a[0] {
            "add" => {
                let cap = *a.get(1)? == "c";
                let token: u32 = a.get(2)?.parse().ok()?;
                let sends: Vec<Packet> = split_list(a.get(3)?, '+').iter().map(|s| show::parse_packet(s)).collect::<Option<_>>()?;
                let l = log.clone();
                let d = depth.clone();
                let id = pr
                    .add_packet_handler(
                        Box::new(move |p: &Packet, pr: &mut Protocol<ScriptIface>| {
                            if d.get() != 0 {
                                l.borrow_mut().push(format!("n{}/{}", token, show::packet(p)));
                                return;
                            }
                            l.borrow_mut().push(format!("c{}/{}", token, show::packet(p)));
                            d.set(1);
                            for q in sends.iter() {
                                let _ = pr.send_packet(q);
                            }
                            d.set(0);
                        }),
                        cap,
                    )
                    .ok()?;
                results.push(format!("id{}", id));
            }
            "rm" => {
                let id: u32 = a.get(1)?.parse().ok()?;
                results.push(res_str(catch_unwind(AssertUnwindSafe(|| pr.remove_packet_handler(id)))));
            }
            "tick" => results.push(res_str(catch_unwind(AssertUnwindSafe(|| pr.tick())))),
            "send" => {
                let p = show::parse_packet(a.get(1)?)?;
                results.push(res_str(catch_unwind(AssertUnwindSafe(|| pr.send_packet(&p)))));
            }
            "xchg" => {
                let (kind, cap, p) = (a.get(1)?.parse().ok()?, *a.get(2)? == "c", show::parse_packet(a.get(3)?)?);
                let res = catch_unwind(AssertUnwindSafe(|| xchg_one(&mut pr, kind, p, cap, &log)));
                results.push(match res {
                    Err(_) => "panic".into(),
                    Ok(Ok(e)) => format!("ok({})", e.show()),
                    Ok(Err(e)) => perr(&e).to_string(),
                });
            }
            "xall" => {
                let (kind, cap, p) = (a.get(1)?.parse().ok()?, *a.get(2)? == "c", show::parse_packet(a.get(3)?)?);
                let res = catch_unwind(AssertUnwindSafe(|| xchg_all(&mut pr, kind, p, cap, &log)));
                results.push(match res {
                    Err(_) => "panic".into(),
                    Ok(Ok(v)) => format!("ok({})", list(&v.iter().map(|e| e.show()).collect::<Vec<_>>(), "+")),
                    Ok(Err(e)) => perr(&e).to_string(),
                });
            }
            _ => return None,
        }
        let last = results.pop()?;
        results.push(format!("{}@{}#{}", last, *left.borrow(), log.borrow().len()));
    }
    drop(pr);
    let l = log.borrow();
    Some(format!("{} {}", list(&results, ";"), list(&l, ",")))
}
