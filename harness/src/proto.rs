//! Protocol-layer histories over a scripted `Interface` (C15–C18)
use crate::ev::Ev;
use crate::gen::Rng;
use crate::show;
use ross_protocol::convert_packet::ConvertPacket;
use ross_protocol::event::{bcm::*, bootloader::*, button::*, configurator::*, gateway::*, general::*, internal::*, message::*, programmer::*, relay::*};
use ross_protocol::interface::{usart::UsartError, Interface, InterfaceError};
use ross_protocol::packet::Packet;
use ross_protocol::protocol::{Protocol, ProtocolError};
use std::cell::RefCell;
use std::collections::VecDeque;
use std::panic::{catch_unwind, AssertUnwindSafe};
use std::rc::Rc;

type Log = Rc<RefCell<Vec<String>>>;
pub struct ScriptIface { rx: VecDeque<Option<Option<Packet>>>, tx: VecDeque<bool>, log: Log }
impl Interface for ScriptIface {
    fn try_get_packet(&mut self) -> Result<Packet, InterfaceError> {
        match self.rx.pop_front() { None | Some(None) => Err(InterfaceError::NoPacketReceived), Some(Some(None)) => Err(InterfaceError::UsartError(UsartError::ReadError)), Some(Some(Some(p))) => Ok(p) }
    }
    fn try_send_packet(&mut self, p: &Packet) -> Result<(), InterfaceError> {
        let ok = self.tx.pop_front().unwrap_or(true);
        self.log.borrow_mut().push(format!("t{}/{}", if ok { "ok" } else { "er" }, show::packet(p)));
        if ok { Ok(()) } else { Err(InterfaceError::UsartError(UsartError::ReadError)) }
    }
}
fn perr(e: &ProtocolError) -> &'static str { match e { ProtocolError::InterfaceError(_) => "ifErr", ProtocolError::NoSuchHandler => "NoSuchHandler", ProtocolError::PacketTimeout => "timeout" } }

fn xchg_one(pr: &mut Protocol<ScriptIface>, kind: usize, p: Packet, cap: bool, log: &Log) -> Result<Ev, ProtocolError> {
    let l = log.clone(); let w = move || l.borrow_mut().push("w".into());
    Ok(match kind {
        0 => Ev::BootloaderHello(pr.exchange_packet::<_, BootloaderHelloEvent>(p, cap, w)?), 1 => Ev::ProgrammerHello(pr.exchange_packet::<_, ProgrammerHelloEvent>(p, cap, w)?),
        2 => Ev::StartFirmware(pr.exchange_packet::<_, ProgrammerStartFirmwareUpgradeEvent>(p, cap, w)?), 3 => Ev::Ack(pr.exchange_packet::<_, AckEvent>(p, cap, w)?),
        4 => Ev::Data(pr.exchange_packet::<_, DataEvent>(p, cap, w)?), 5 => Ev::ConfiguratorHello(pr.exchange_packet::<_, ConfiguratorHelloEvent>(p, cap, w)?),
        6 => Ev::BcmChange(pr.exchange_packet::<_, BcmChangeBrightnessEvent>(p, cap, w)?), 7 => Ev::Pressed(pr.exchange_packet::<_, ButtonPressedEvent>(p, cap, w)?),
        8 => Ev::Released(pr.exchange_packet::<_, ButtonReleasedEvent>(p, cap, w)?), 9 => Ev::Tick(pr.exchange_packet::<_, SystemTickEvent>(p, cap, w)?),
        10 => Ev::StartConfig(pr.exchange_packet::<_, ProgrammerStartConfigUpgradeEvent>(p, cap, w)?), 11 => Ev::SetAddress(pr.exchange_packet::<_, ProgrammerSetDeviceAddressEvent>(p, cap, w)?),
        12 => Ev::Message(pr.exchange_packet::<_, MessageEvent>(p, cap, w)?), 13 => Ev::BcmAnimate(pr.exchange_packet::<_, BcmAnimateBrightnessEvent>(p, cap, w)?),
        14 => Ev::RelaySet(pr.exchange_packet::<_, RelaySetValueEvent>(p, cap, w)?), _ => Ev::GatewayDiscover(pr.exchange_packet::<_, GatewayDiscoverEvent>(p, cap, w)?),
    })
}
fn xchg_all(pr: &mut Protocol<ScriptIface>, kind: usize, p: Packet, cap: bool, log: &Log) -> Result<Vec<Ev>, ProtocolError> {
    let l = log.clone(); let w = move || l.borrow_mut().push("w".into());
    macro_rules! go { ($t:ty, $v:path) => { pr.exchange_packets::<_, $t>(p, cap, w)?.into_iter().map($v).collect() } }
    Ok(match kind {
        0 => go!(BootloaderHelloEvent, Ev::BootloaderHello), 1 => go!(ProgrammerHelloEvent, Ev::ProgrammerHello), 2 => go!(ProgrammerStartFirmwareUpgradeEvent, Ev::StartFirmware), 3 => go!(AckEvent, Ev::Ack),
        4 => go!(DataEvent, Ev::Data), 5 => go!(ConfiguratorHelloEvent, Ev::ConfiguratorHello), 6 => go!(BcmChangeBrightnessEvent, Ev::BcmChange), 7 => go!(ButtonPressedEvent, Ev::Pressed),
        8 => go!(ButtonReleasedEvent, Ev::Released), 9 => go!(SystemTickEvent, Ev::Tick), 10 => go!(ProgrammerStartConfigUpgradeEvent, Ev::StartConfig), 11 => go!(ProgrammerSetDeviceAddressEvent, Ev::SetAddress),
        12 => go!(MessageEvent, Ev::Message), 13 => go!(BcmAnimateBrightnessEvent, Ev::BcmAnimate), 14 => go!(RelaySetValueEvent, Ev::RelaySet), _ => go!(GatewayDiscoverEvent, Ev::GatewayDiscover),
    })
}

fn gen_addr(r: &mut Rng, own: u16) -> u16 { match r.below(4) { 0 => own, 1 => 0xffff, _ => { let a = r.u16(); a } } }
fn gen_packet(r: &mut Rng, own: u16) -> Packet {
    if r.below(3) == 0 { Packet { is_error: r.below(5) == 0, device_address: gen_addr(r, own), data: { let n = r.below(6) as usize; r.bytes(n) } } }
    else { let e = Ev::gen(r.below(16) as usize, r); let mut p = e.to_packet(); for &k in e.pad_mask() { p.data[k] = 0; } if r.below(3) != 0 { p.device_address = gen_addr(r, own); } p }
}

pub fn one(r: &mut Rng) -> String {
    let own: u16 = match r.below(4) { 0 => 0xffff, 1 => 0, _ => r.u16() };
    let rxq: Vec<Option<Option<Packet>>> = (0..r.below(8)).map(|_| match r.below(8) { 0 => None, 1 => Some(None), _ => Some(Some(gen_packet(r, own))) }).collect();
    let txq: Vec<bool> = (0..r.below(6)).map(|_| r.below(4) != 0).collect();
    let rxs: Vec<String> = rxq.iter().map(|x| match x { None => "n".into(), Some(None) => "e".into(), Some(Some(p)) => show::packet(p) }).collect();
    let txs: String = txq.iter().map(|b| if *b { 'o' } else { 'e' }).collect();
    let log: Log = Rc::new(RefCell::new(vec![]));
    let mut pr = Protocol::new(own, ScriptIface { rx: rxq.into_iter().collect(), tx: txq.into_iter().collect(), log: log.clone() });
    let mut ops: Vec<String> = vec![]; let mut results: Vec<String> = vec![]; let mut next_token = 0u32; let mut live: Vec<u32> = vec![];
    for _ in 0..r.below(12) {
        match r.below(10) {
            0 | 1 | 2 => { let cap = r.flip(); let token = next_token; next_token += 1;
                // packets the handler transmits from inside its callback: never to our own address (C15: "to other devices")
                let sends: Vec<Packet> = (0..r.below(3)).map(|_| { let mut p = gen_packet(r, own); if p.device_address == own { p.device_address = own.wrapping_add(1); } if own == 0xffff && p.device_address == 0xffff { p.device_address = 1; } p }).collect();
                let ss: Vec<String> = sends.iter().map(show::packet).collect();
                let l = log.clone();
                let id = pr.add_packet_handler(Box::new(move |p: &Packet, pr: &mut Protocol<ScriptIface>| { l.borrow_mut().push(format!("c{}/{}", token, show::packet(p))); for q in sends.iter() { let _ = pr.send_packet(q); } }), cap).unwrap();
                live.push(id); ops.push(format!("add/{}/{}/{}", if cap { 'c' } else { 'o' }, token, if ss.is_empty() { "-".into() } else { ss.join("+") })); results.push(format!("id{}", id)); }
            3 => { let id = if !live.is_empty() && r.below(3) != 0 { let k = r.below(live.len() as u64) as usize; live.remove(k) } else { r.below(6) as u32 };
                let res = pr.remove_packet_handler(id); live.retain(|x| *x != id); ops.push(format!("rm/{}", id)); results.push(match res { Ok(()) => "ok".into(), Err(e) => perr(&e).to_string() }); }
            4 | 5 | 6 => { let res = catch_unwind(AssertUnwindSafe(|| pr.tick())); ops.push("tick".into()); results.push(match res { Err(_) => "panic".into(), Ok(Ok(())) => "ok".into(), Ok(Err(e)) => perr(&e).to_string() }); }
            7 => { let p = gen_packet(r, own); let res = catch_unwind(AssertUnwindSafe(|| pr.send_packet(&p))); ops.push(format!("send/{}", show::packet(&p))); results.push(match res { Err(_) => "panic".into(), Ok(Ok(())) => "ok".into(), Ok(Err(e)) => perr(&e).to_string() }); }
            8 => { let (kind, cap, p) = (r.below(16) as usize, r.flip(), gen_packet(r, own)); ops.push(format!("xchg/{}/{}/{}", kind, if cap { 'c' } else { 'o' }, show::packet(&p)));
                let res = catch_unwind(AssertUnwindSafe(|| xchg_one(&mut pr, kind, p, cap, &log)));
                results.push(match res { Err(_) => "panic".into(), Ok(Ok(e)) => format!("ok({})", e.show()), Ok(Err(e)) => perr(&e).to_string() }); }
            _ => { let (kind, cap, p) = (r.below(16) as usize, r.flip(), gen_packet(r, own)); ops.push(format!("xall/{}/{}/{}", kind, if cap { 'c' } else { 'o' }, show::packet(&p)));
                let res = catch_unwind(AssertUnwindSafe(|| xchg_all(&mut pr, kind, p, cap, &log)));
                results.push(match res { Err(_) => "panic".into(), Ok(Ok(v)) => format!("ok({})", if v.is_empty() { "-".to_string() } else { v.iter().map(|e| e.show()).collect::<Vec<_>>().join("+") }), Ok(Err(e)) => perr(&e).to_string() }); }
        }
    }
    let l = log.borrow();
    format!("proto {:04x} {} {} {} => {} {}", own, if rxs.is_empty() { "-".into() } else { rxs.join(",") }, if txs.is_empty() { "-".into() } else { txs },
        if ops.is_empty() { "-".into() } else { ops.join(";") }, if results.is_empty() { "-".into() } else { results.join(";") }, if l.is_empty() { "-".into() } else { l.join(",") })
}
