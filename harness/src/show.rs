use ross_protocol::frame::*;
use ross_protocol::packet::Packet;
use std::fmt::Write;
pub fn hex(b: &[u8]) -> String { if b.is_empty() { return "-".into(); } let mut s = String::with_capacity(b.len() * 2); for x in b { write!(s, "{:02x}", x).unwrap(); } s }
pub fn frame(f: &Frame) -> String {
    let (k, id) = match f.frame_id { FrameId::LastFrameId(i) => ('L', i), FrameId::CurrentFrameId(i) => ('C', i) };
    format!("{}{}{}:{}{:04x}:{:04x}:{}:{}", f.not_error_flag as u8, f.start_frame_flag as u8, f.multi_frame_flag as u8, k, id, f.device_address, f.data_len, hex(&f.data))
}
pub fn packet(p: &Packet) -> String { format!("{}:{:04x}:{}", if p.is_error { 'E' } else { 'D' }, p.device_address, hex(&p.data)) }
pub fn packet_gen(is_error: bool, addr: u16, seed: u64, len: usize) -> String { format!("{}:{:04x}:g{}x{}", if is_error { 'E' } else { 'D' }, addr, seed, len) }
pub fn can(f: &bxcan::Frame) -> String {
    let (x, id) = match f.id() { bxcan::Id::Extended(e) => ('X', e.as_raw()), bxcan::Id::Standard(s) => ('S', s.as_raw() as u32) };
    let (r, data): (char, Vec<u8>) = match f.data() { Some(d) => ('D', d.to_vec()), None => ('R', vec![]) };
    format!("{}:{:08x}:{}:{}:{}", x, id, r, f.dlc(), hex(&data))
}
pub fn fnv(s: &str) -> u64 { let mut h = 0xcbf29ce484222325u64; for b in s.bytes() { h = (h ^ b as u64).wrapping_mul(0x100000001b3); } h }
pub fn digest(items: &[String]) -> String { format!("#{:016x}/{}", fnv(&items.join(",")), items.len()) }
pub fn log_bytes(b: &[u8]) -> String { if b.len() <= 64 { hex(b) } else { format!("#{:016x}/{}", fnv(&hex(b)), b.len()) } }
pub fn copy_frame(f: &Frame) -> Frame {
    Frame { not_error_flag: f.not_error_flag, start_frame_flag: f.start_frame_flag, multi_frame_flag: f.multi_frame_flag,
        frame_id: match f.frame_id { FrameId::LastFrameId(i) => FrameId::LastFrameId(i), FrameId::CurrentFrameId(i) => FrameId::CurrentFrameId(i) },
        device_address: f.device_address, data_len: f.data_len, data: f.data }
}
