//! Canonical text forms of the line protocol (DESIGN.md appendix A): printers and parsers.
//! Every case is executed from its *text*, so a line is a complete replay of the case.
use crate::gen::{fnv, gen_bytes};
use ross_protocol::frame::*;
use ross_protocol::packet::Packet;
use std::fmt::Write;

pub fn hex(b: &[u8]) -> String {
    if b.is_empty() {
        return "-".into();
    }
    let mut s = String::with_capacity(b.len() * 2);
    for x in b {
        write!(s, "{:02x}", x).unwrap();
    }
    s
}

pub fn unhex(s: &str) -> Option<Vec<u8>> {
    if s == "-" {
        return Some(vec![]);
    }
    if s.len() % 2 != 0 {
        return None;
    }
    (0..s.len() / 2).map(|i| u8::from_str_radix(s.get(2 * i..2 * i + 2)?, 16).ok()).collect()
}

pub fn frame(f: &Frame) -> String {
    let (k, id) = match f.frame_id {
        FrameId::LastFrameId(i) => ('L', i),
        FrameId::CurrentFrameId(i) => ('C', i),
    };
    format!(
        "{}{}{}:{}{:04x}:{:04x}:{}:{}",
        f.not_error_flag as u8,
        f.start_frame_flag as u8,
        f.multi_frame_flag as u8,
        k,
        id,
        f.device_address,
        f.data_len,
        hex(&f.data)
    )
}

pub fn parse_frame(s: &str) -> Option<Frame> {
    let t: Vec<&str> = s.split(':').collect();
    if t.len() != 5 || t[0].len() != 3 || t[1].len() != 5 {
        return None;
    }
    let fl: Vec<bool> = t[0].chars().map(|c| c == '1').collect();
    let id = u16::from_str_radix(&t[1][1..], 16).ok()?;
    let data: [u8; 8] = unhex(t[4])?.try_into().ok()?;
    Some(Frame {
        not_error_flag: fl[0],
        start_frame_flag: fl[1],
        multi_frame_flag: fl[2],
        frame_id: if t[1].starts_with('L') { FrameId::LastFrameId(id) } else { FrameId::CurrentFrameId(id) },
        device_address: u16::from_str_radix(t[2], 16).ok()?,
        data_len: t[3].parse().ok()?,
        data,
    })
}

pub fn copy_frame(f: &Frame) -> Frame {
    Frame {
        not_error_flag: f.not_error_flag,
        start_frame_flag: f.start_frame_flag,
        multi_frame_flag: f.multi_frame_flag,
        frame_id: match f.frame_id {
            FrameId::LastFrameId(i) => FrameId::LastFrameId(i),
            FrameId::CurrentFrameId(i) => FrameId::CurrentFrameId(i),
        },
        device_address: f.device_address,
        data_len: f.data_len,
        data: f.data,
    }
}

pub fn packet(p: &Packet) -> String {
    format!("{}:{:04x}:{}", if p.is_error { 'E' } else { 'D' }, p.device_address, hex(&p.data))
}

pub fn packet_gen(is_error: bool, addr: u16, seed: u64, len: usize) -> String {
    format!("{}:{:04x}:g{}x{}", if is_error { 'E' } else { 'D' }, addr, seed, len)
}

/// hex bytes, `g<seed>x<len>` (seeded PRNG stream), or several such parts joined by `+`
pub fn parse_payload(s: &str) -> Option<Vec<u8>> {
    if s.contains('+') {
        let mut v = vec![];
        for part in s.split('+') {
            v.extend(parse_payload(part)?);
        }
        return Some(v);
    }
    if let Some(rest) = s.strip_prefix('g') {
        let (a, b) = rest.split_once('x')?;
        Some(gen_bytes(a.parse().ok()?, b.parse().ok()?))
    } else {
        unhex(s)
    }
}

pub fn parse_packet(s: &str) -> Option<Packet> {
    let t: Vec<&str> = s.split(':').collect();
    if t.len() != 3 {
        return None;
    }
    Some(Packet { is_error: t[0] == "E", device_address: u16::from_str_radix(t[1], 16).ok()?, data: parse_payload(t[2])? })
}

pub fn can(f: &bxcan::Frame) -> String {
    let (x, id) = match f.id() {
        bxcan::Id::Extended(e) => ('X', e.as_raw()),
        bxcan::Id::Standard(s) => ('S', s.as_raw() as u32),
    };
    let (r, data): (char, Vec<u8>) = match f.data() {
        Some(d) => ('D', d.to_vec()),
        None => ('R', vec![]),
    };
    format!("{}:{:08x}:{}:{}:{}", x, id, r, f.dlc(), hex(&data))
}

/// only frames constructible through the driver API can be written down
pub fn parse_can(s: &str) -> Option<bxcan::Frame> {
    let t: Vec<&str> = s.split(':').collect();
    if t.len() != 5 {
        return None;
    }
    let raw = u32::from_str_radix(t[1], 16).ok()?;
    let id: bxcan::Id = if t[0] == "X" { bxcan::ExtendedId::new(raw)?.into() } else { bxcan::StandardId::new(raw as u16)?.into() };
    let dlc: u8 = t[3].parse().ok()?;
    if t[2] == "R" {
        if dlc > 8 {
            return None;
        }
        Some(bxcan::Frame::new_remote(id, dlc))
    } else {
        let d = unhex(t[4])?;
        if d.len() != dlc as usize {
            return None;
        }
        Some(bxcan::Frame::new_data(id, bxcan::Data::new(&d)?))
    }
}

pub fn digest(items: &[String]) -> String {
    format!("#{:016x}/{}", fnv(&items.join(",")), items.len())
}

pub fn log_bytes(b: &[u8]) -> String {
    if b.len() <= 64 {
        hex(b)
    } else {
        format!("#{:016x}/{}", fnv(&hex(b)), b.len())
    }
}

pub fn list(items: &[String], sep: &str) -> String {
    if items.is_empty() {
        "-".into()
    } else {
        items.join(sep)
    }
}

pub fn split_list<'a>(s: &'a str, sep: char) -> Vec<&'a str> {
    if s == "-" {
        vec![]
    } else {
        s.split(sep).collect()
    }
}
