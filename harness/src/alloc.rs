//! Counting allocator that attributes blocks to the receiver under test: blocks allocated while the
//! thread-local flag is on are remembered in a fixed, allocation-free table and subtracted when freed.
use std::alloc::{GlobalAlloc, Layout, System};
use std::cell::Cell;
use std::sync::atomic::{AtomicUsize, Ordering};
const CAP: usize = 1 << 16;
static ADDR: [AtomicUsize; CAP] = [const { AtomicUsize::new(0) }; CAP];
static SIZE: [AtomicUsize; CAP] = [const { AtomicUsize::new(0) }; CAP];
static LIVE: AtomicUsize = AtomicUsize::new(0);
static PEAK: AtomicUsize = AtomicUsize::new(0);
thread_local! { static ON: Cell<bool> = const { Cell::new(false) }; }
pub struct Counting;
fn slot(a: usize) -> usize { (a >> 4).wrapping_mul(0x9E3779B97F4A7C15usize) >> (usize::BITS as usize - 16) }
fn insert(a: usize, s: usize) { let mut i = slot(a); for _ in 0..CAP { let cur = ADDR[i].load(Ordering::Relaxed); if cur == 0 || cur == usize::MAX { ADDR[i].store(a, Ordering::Relaxed); SIZE[i].store(s, Ordering::Relaxed); let l = LIVE.fetch_add(s, Ordering::Relaxed) + s; PEAK.fetch_max(l, Ordering::Relaxed); return; } i = (i + 1) % CAP; } }
fn remove(a: usize) { let mut i = slot(a); for _ in 0..CAP { let cur = ADDR[i].load(Ordering::Relaxed); if cur == 0 { return; } if cur == a { ADDR[i].store(usize::MAX, Ordering::Relaxed); LIVE.fetch_sub(SIZE[i].load(Ordering::Relaxed), Ordering::Relaxed); return; } i = (i + 1) % CAP; } }
unsafe impl GlobalAlloc for Counting {
    unsafe fn alloc(&self, l: Layout) -> *mut u8 { let p = System.alloc(l); if !p.is_null() && ON.try_with(|o| o.get()).unwrap_or(false) { insert(p as usize, l.size()); } p }
    unsafe fn dealloc(&self, p: *mut u8, l: Layout) { remove(p as usize); System.dealloc(p, l) }
    unsafe fn realloc(&self, p: *mut u8, l: Layout, n: usize) -> *mut u8 { let tracked_before = { let before = LIVE.load(Ordering::Relaxed); remove(p as usize); LIVE.load(Ordering::Relaxed) != before };
        let q = System.realloc(p, l, n); if !q.is_null() && (tracked_before || ON.try_with(|o| o.get()).unwrap_or(false)) { insert(q as usize, n); } q }
}
pub fn track<T>(f: impl FnOnce() -> T) -> T { ON.with(|o| o.set(true)); let r = f(); ON.with(|o| o.set(false)); r }
pub fn live() -> usize { LIVE.load(Ordering::Relaxed) }
pub fn reset_peak() { PEAK.store(LIVE.load(Ordering::Relaxed), Ordering::Relaxed) }
pub fn peak() -> usize { PEAK.load(Ordering::Relaxed) }

/// forget everything tracked so far (start of a case)
pub fn clear() {
    for i in 0..CAP {
        ADDR[i].store(0, Ordering::Relaxed);
    }
    LIVE.store(0, Ordering::Relaxed);
    PEAK.store(0, Ordering::Relaxed);
}
pub fn track_if<T>(on: bool, f: impl FnOnce() -> T) -> T {
    if on {
        track(f)
    } else {
        f()
    }
}
