//! Reference encoders used **only by the generators**, so that the generated input stream does not depend
//! on the code under test (a broken `to_frames`/`to_usart_frame` must not change what the decoders and
//! receivers are shown). Written from the documented formats, not from the implementation.
use ross_protocol::frame::*;
use ross_protocol::packet::Packet;

/// documented fragmentation: <= 8 bytes one plain start frame, otherwise id byte + 7 payload bytes per frame
pub fn frames(p: &Packet) -> Vec<Frame> {
    let mk = |start: bool, multi: bool, id: FrameId, bytes: &[u8]| {
        let mut data = [0u8; 8];
        data[..bytes.len()].copy_from_slice(bytes);
        Frame {
            not_error_flag: !p.is_error,
            start_frame_flag: start,
            multi_frame_flag: multi,
            frame_id: id,
            device_address: p.device_address,
            data_len: bytes.len() as u8,
            data,
        }
    };
    if p.data.len() <= 8 {
        return vec![mk(true, false, FrameId::LastFrameId(0), &p.data)];
    }
    let chunks: Vec<&[u8]> = p.data.chunks(7).collect();
    let last = (chunks.len() - 1) as u16;
    chunks
        .iter()
        .enumerate()
        .map(|(i, c)| {
            let idv = if i == 0 { last } else { i as u16 };
            let mut b = vec![idv as u8];
            b.extend_from_slice(c);
            mk(i == 0, true, if i == 0 { FrameId::LastFrameId(idv) } else { FrameId::CurrentFrameId(idv) }, &b)
        })
        .collect()
}

/// consistent overhead byte stuffing (inputs shorter than 254 bytes), no trailing delimiter
pub fn cobs(src: &[u8]) -> Vec<u8> {
    let mut out = vec![];
    for run in src.split(|b| *b == 0) {
        out.push(run.len() as u8 + 1);
        out.extend_from_slice(run);
    }
    out
}

/// decoded USART body: header (flags | id high nibble, id low byte, address big-endian, length) and data
pub fn usart_body(f: &Frame) -> Vec<u8> {
    let id = match f.frame_id {
        FrameId::LastFrameId(i) | FrameId::CurrentFrameId(i) => i,
    };
    let mut b = vec![
        (f.not_error_flag as u8) << 7 | (f.start_frame_flag as u8) << 6 | (f.multi_frame_flag as u8) << 5 | ((id >> 8) as u8 & 0x0f),
        id as u8,
        (f.device_address >> 8) as u8,
        f.device_address as u8,
        f.data_len,
    ];
    b.extend_from_slice(&f.data[..(f.data_len as usize).min(8)]);
    b
}

pub fn usart(f: &Frame) -> Vec<u8> {
    cobs(&usart_body(f))
}

/// link frame on USART / serial port: delimiter, length, encoded frame
pub fn link_frame(f: &Frame) -> Vec<u8> {
    let u = usart(f);
    let mut w = vec![0, u.len() as u8];
    w.extend(u);
    w
}

pub fn wire(p: &Packet) -> Vec<Vec<u8>> {
    frames(p).iter().map(link_frame).collect()
}

/// extended data frame with the documented identifier layout
pub fn can(f: &Frame) -> bxcan::Frame {
    let id = match f.frame_id {
        FrameId::LastFrameId(i) | FrameId::CurrentFrameId(i) => i,
    };
    let raw = (f.not_error_flag as u32) << 28
        | (f.start_frame_flag as u32) << 27
        | (f.multi_frame_flag as u32) << 26
        | ((id as u32 >> 8) & 0xf) << 16
        | f.device_address as u32;
    bxcan::Frame::new_data(bxcan::ExtendedId::new(raw).unwrap(), bxcan::Data::new(&f.data[..(f.data_len as usize).min(8)]).unwrap())
}

pub fn can_wire(p: &Packet) -> Vec<bxcan::Frame> {
    frames(p).iter().map(can).collect()
}
