//! Scenarios: for every group a generator (`gen_*`: (rng, index) -> input text, independent of the code
//! under test) and an executor (`exec`: input text -> observation text, calling the real code in-process,
//! every call under `catch_unwind`).
use crate::alloc;
use crate::ev::{self, Ev};
use crate::gen::*;
use crate::mock::*;
use crate::refenc;
use crate::text::{self, list, split_list};
use ross_protocol::frame::*;
use ross_protocol::interface::{can::Can, serial::Serial, usart::Usart, Interface, InterfaceError};
use ross_protocol::packet::{Packet, PacketBuilder, PacketBuilderError};
use std::collections::VecDeque;
use std::panic::{catch_unwind, AssertUnwindSafe};
use std::sync::{Arc, Mutex};

pub const GROUPS: &[&str] = &[
    "usart_dec", "usart_enc", "usart_rt", "can_dec", "can_enc", "can_rt", "to_frames", "frag_rt", "builder", "ev_enc", "ev_rt", "ev_dec",
    "ev_cross", "ev_xenc", "rx_usart", "rx_serial", "rx_can", "rxh_usart", "rxh_serial", "rxh_can", "tx_usart", "tx_can", "tx_serial", "loop_usart",
    "loop_serial", "loop_can", "e2e_usart", "e2e_serial", "e2e_can", "proto", "usart_dec_enum", "can_dec_enum", "builder_enum", "psend_usart", "psend_can", "psend_serial", "frt_can", "frt_usart", "frag_rt_enum", "to_frames_enum", "ev_ref", "proto_enum", "proto_send_enum", "proto_xchg_enum", "sched_usart_enum", "sched_serial_enum", "sched_can_enum", "tx_usart_enum", "tx_can_enum", "tx_serial_enum",
];

fn guard<T>(f: impl FnOnce() -> T) -> Option<T> {
    catch_unwind(AssertUnwindSafe(f)).ok()
}

fn class<T, E>(r: Option<Result<T, E>>, show: impl Fn(&T) -> String) -> String {
    match r {
        None => "panic".into(),
        Some(Err(_)) => "err".into(),
        Some(Ok(v)) => format!("ok({})", show(&v)),
    }
}

/* ---------------------------------------------------------------- generators: frames ---- */

pub fn gen_frame(r: &mut Rng, wf: bool) -> Frame {
    let id = if wf { r.u16() & 0x0fff } else { r.u16() };
    let len = if wf { r.below(9) as u8 } else { r.byte() };
    let mut data = [0u8; 8];
    for k in 0..(len.min(8) as usize) {
        data[k] = r.byte();
    }
    if !wf && r.flip() {
        data[7] = r.byte();
    }
    Frame {
        not_error_flag: r.flip(),
        start_frame_flag: r.flip(),
        multi_frame_flag: r.flip(),
        frame_id: if r.flip() { FrameId::LastFrameId(id) } else { FrameId::CurrentFrameId(id) },
        device_address: r.u16(),
        data_len: len,
        data,
    }
}

/// a frame as fragmentation produces them (start <-> last-frame id, single-frame packets have id 0)
fn gen_canonical_frame(r: &mut Rng) -> Frame {
    let mut f = gen_frame(r, true);
    let id = match f.frame_id {
        FrameId::LastFrameId(i) | FrameId::CurrentFrameId(i) => i,
    };
    if !f.multi_frame_flag {
        f.start_frame_flag = true;
        f.frame_id = FrameId::LastFrameId(0);
    } else {
        if f.data_len == 0 {
            f.data_len = 1;
        }
        f.data[0] = id as u8;
        f.frame_id = if f.start_frame_flag { FrameId::LastFrameId(id) } else { FrameId::CurrentFrameId(id) };
    }
    f
}

pub fn gen_can(r: &mut Rng) -> bxcan::Frame {
    let dlc = r.below(9) as usize;
    let data = r.bytes(dlc);
    match r.below(10) {
        0 => bxcan::Frame::new_data(bxcan::StandardId::new(r.below(0x800) as u16).unwrap(), bxcan::Data::new(&data).unwrap()),
        1 => bxcan::Frame::new_remote(bxcan::ExtendedId::new(r.next() as u32 & 0x1fff_ffff).unwrap(), dlc as u8),
        _ => {
            let id = match r.below(3) {
                0 => r.next() as u32 & 0x1fff_ffff,
                1 => 1u32 << r.below(29),
                _ => ((r.below(8) as u32) << 26) | ((r.below(64) as u32) << 20) | ((r.below(16) as u32) << 16) | r.u16() as u32,
            };
            bxcan::Frame::new_data(bxcan::ExtendedId::new(id).unwrap(), bxcan::Data::new(&data).unwrap())
        }
    }
}

fn gen_usart_body(r: &mut Rng, i: u64) -> Vec<u8> {
    match i % 8 {
        0 => {
            let len = r.below(40) as usize;
            r.bytes(len)
        }
        1 => {
            // uniform bytes at every length 0..=255
            let len = (i / 8 % 256) as usize;
            (0..len).map(|_| r.next() as u8).collect()
        }
        2 => {
            // declared data length 9..=250 with consistent size
            let dl = 9 + r.below(242) as usize;
            let mut body = vec![r.byte() | 1, 1 + r.below(255) as u8, 1 + r.below(255) as u8, 1 + r.below(255) as u8, dl as u8];
            body.extend((0..dl).map(|_| 1 + r.below(255) as u8));
            if body.len() < 254 {
                refenc::cobs(&body)
            } else {
                body
            }
        }
        3 => {
            // COBS corner cases: 0xff chains, bodies ending inside a run, embedded zeros, leading idle zeros
            match r.below(6) {
                4 => {
                    // one to three 0x00 bytes (which a streaming decoder skips while idle) in front of the COBS encoding of a
                    // message of 0..=7 bytes: the encoded body can be long enough while the decoded frame is too short
                    let mut v = vec![0u8; 1 + r.below(3) as usize];
                    let n = r.below(8) as usize;
                    let msg: Vec<u8> = (0..n).map(|_| if r.below(4) == 0 { 0 } else { r.byte() }).collect();
                    v.extend(refenc::cobs(&msg));
                    v
                }
                5 => {
                    // the same in front of a valid frame encoding
                    let mut v = vec![0u8; 1 + r.below(3) as usize];
                    v.extend(refenc::usart(&gen_frame(r, true)));
                    v
                }
                0 => {
                    let mut v = vec![0xff];
                    v.extend((0..254).map(|_| 1 + r.below(255) as u8));
                    v.truncate(255);
                    v
                }
                1 => {
                    let n = 1 + r.below(12) as usize;
                    let mut v = vec![n as u8 + 1 + r.below(4) as u8];
                    v.extend((0..n).map(|_| 1 + r.below(255) as u8));
                    v
                }
                2 => {
                    let mut v = refenc::usart(&gen_frame(r, true));
                    let k = r.below(v.len() as u64) as usize;
                    v[k] = 0;
                    v
                }
                _ => vec![r.byte(), r.byte(), r.byte()],
            }
        }
        _ => {
            let f = gen_frame(r, true);
            let mut u = refenc::usart(&f);
            match r.below(7) {
                0 => {
                    let k = r.below(u.len() as u64) as usize;
                    u[k] = r.byte();
                }
                1 => {
                    u.pop();
                }
                2 => u.push(r.byte()),
                3 => {
                    let k = r.below(u.len() as u64) as usize;
                    u.insert(k, 0);
                }
                4 => {
                    if u.len() > 5 {
                        u[5] = r.byte();
                    }
                }
                _ => {}
            }
            u
        }
    }
}

/* ---------------------------------------------------------------- codec scenarios ---- */

/// an accepted frame must be usable: re-encodable for both links and acceptable to reassembly without failure
fn usable(f: &Frame) -> String {
    let u = guard(|| Frame::from_usart_frame(text::copy_frame(f).to_usart_frame())).map(|r| match r {
        Ok(g) => text::frame(&g) == text::frame(f),
        Err(_) => false,
    });
    let c = guard(|| text::copy_frame(f).to_bxcan_frame()).is_some();
    let b = guard(|| {
        if let Ok(mut b) = PacketBuilder::new(text::copy_frame(f)) {
            let _ = b.frames_left();
            let _ = b.build();
            let _ = b.add_frame(text::copy_frame(f));
            let _ = b.frames_left();
            let _ = b.build();
        }
    })
    .is_some();
    format!("r{}{}{}", u.unwrap_or(false) as u8, c as u8, b as u8)
}

fn dec_obs(r: Option<Result<Frame, FrameError>>) -> String {
    match r {
        Some(Ok(f)) => format!("ok({}) {}", text::frame(&f), usable(&f)),
        other => class(other, text::frame),
    }
}

fn exec_usart_dec(t: &[&str]) -> Option<String> {
    let body = text::unhex(t.first()?)?;
    Some(dec_obs(guard(move || Frame::from_usart_frame(body))))
}

fn exec_can_dec(t: &[&str]) -> Option<String> {
    let c = text::parse_can(t.first()?)?;
    Some(dec_obs(guard(move || Frame::from_bxcan_frame(c))))
}

fn exec_usart_enc(t: &[&str]) -> Option<String> {
    let f = text::parse_frame(t.first()?)?;
    Some(class(guard(move || Ok::<_, ()>(f.to_usart_frame())), |u| text::hex(u)))
}

fn exec_can_enc(t: &[&str]) -> Option<String> {
    let f = text::parse_frame(t.first()?)?;
    Some(class(guard(move || Ok::<_, ()>(f.to_bxcan_frame())), text::can))
}

fn exec_usart_rt(t: &[&str]) -> Option<String> {
    let f = text::parse_frame(t.first()?)?;
    Some(class(guard(move || Frame::from_usart_frame(f.to_usart_frame())), text::frame))
}

fn exec_can_rt(t: &[&str]) -> Option<String> {
    let f = text::parse_frame(t.first()?)?;
    Some(class(guard(move || Frame::from_bxcan_frame(f.to_bxcan_frame())), text::frame))
}

/* ---------------------------------------------------------------- fragmentation / reassembly ---- */

const EDGE_LENS: [usize; 24] =
    [1791, 1792, 1793, 1799, 28664, 28665, 28666, 28671, 28672, 1785, 14, 15, 16, 63, 64, 65, 255 * 7, 256 * 7 + 1, 4095 * 7, 4095 * 7 + 1, 256 * 7, 257 * 7, 2047 * 7 + 3, 100];

fn gen_packet_len(r: &mut Rng, i: u64) -> usize {
    match i % 4 {
        0 => (i / 4 % 71) as usize,
        1 => EDGE_LENS[(i / 4 % 24) as usize],
        2 => r.below(300) as usize,
        _ => r.below(28673) as usize,
    }
}

fn gen_packet_text(r: &mut Rng, i: u64) -> String {
    let len = gen_packet_len(r, i);
    text::packet_gen(r.flip(), r.u16(), r.below(100000), len)
}

fn frames_text(fs: &[Frame]) -> String {
    let v: Vec<String> = fs.iter().map(text::frame).collect();
    if v.len() <= 4 {
        list(&v, ",")
    } else {
        text::digest(&v)
    }
}

fn exec_to_frames(t: &[&str]) -> Option<String> {
    let p = text::parse_packet(t.first()?)?;
    Some(match guard(|| p.to_frames()) {
        None => "panic".into(),
        Some(v) => format!("ok({})", frames_text(&v)),
    })
}

fn berr(e: &PacketBuilderError) -> &'static str {
    match e {
        PacketBuilderError::OutOfOrder => "OutOfOrder",
        PacketBuilderError::SingleFramePacket => "SingleFramePacket",
        PacketBuilderError::TooManyFrames => "TooManyFrames",
        PacketBuilderError::WrongFrameType => "WrongFrameType",
        PacketBuilderError::DeviceAddressMismatch => "DeviceAddressMismatch",
        PacketBuilderError::MissingFrames => "MissingFrames",
        // a variant this harness does not know (an enum extended by the code under test): reported as such, never a build failure
        #[allow(unreachable_patterns)]
        _ => "OtherBuilderError",
    }
}

fn build_str(b: &PacketBuilder) -> String {
    match guard(|| b.build()) {
        None => "panic".into(),
        Some(Ok(p)) => format!("ok({})", packet_short(&p)),
        Some(Err(e)) => format!("err({})", berr(&e)),
    }
}

/// packets with long payloads are shown by digest
pub fn packet_short(p: &Packet) -> String {
    if p.data.len() <= 64 {
        text::packet(p)
    } else {
        format!("{}:{:04x}:{}", if p.is_error { 'E' } else { 'D' }, p.device_address, text::log_bytes(&p.data))
    }
}

fn builder_state(b: &PacketBuilder) -> String {
    let left = guard(|| b.frames_left()).map(|n| n.to_string()).unwrap_or("panic".into());
    format!("{}/{}/{}/{}/{}", b.expected_frame_count(), b.frame_count(), left, build_str(b), build_str(b))
}

/// `frag_rt <direct|can|usart> <packet>`: fragment, pass every frame through the codec path, feed a fresh builder;
/// observe frames_left and build after every frame (digest), and whether the final build equals the input
fn exec_frag_rt(t: &[&str]) -> Option<String> {
    let path = *t.first()?;
    let p = text::parse_packet(t.get(1)?)?;
    let r = guard(|| {
        let frames = p.to_frames();
        let mut steps: Vec<String> = vec![];
        let mut b: Option<PacketBuilder> = None;
        let mut last = String::from("none");
        for f in frames {
            let g = match path {
                "can" => match Frame::from_bxcan_frame(f.to_bxcan_frame()) {
                    Ok(g) => g,
                    Err(_) => return ("codec-err".to_string(), false),
                },
                "usart" => match Frame::from_usart_frame(f.to_usart_frame()) {
                    Ok(g) => g,
                    Err(_) => return ("codec-err".to_string(), false),
                },
                _ => f,
            };
            match b {
                None => match PacketBuilder::new(g) {
                    Ok(nb) => b = Some(nb),
                    Err(e) => return (format!("new-err({})", berr(&e)), false),
                },
                Some(ref mut bb) => {
                    if let Err(e) = bb.add_frame(g) {
                        return (format!("add-err({})", berr(&e)), false);
                    }
                }
            }
            let bb = b.as_ref().unwrap();
            let built = bb.build();
            last = match &built {
                Ok(q) => (if q.is_error == p.is_error && q.device_address == p.device_address && q.data == p.data { "same" } else { "different" }).to_string(),
                Err(e) => format!("err({})", berr(e)),
            };
            steps.push(format!("{}/{}", bb.frames_left(), if built.is_ok() { "ok" } else { "err(MissingFrames)" }));
        }
        (format!("{} {}", text::digest(&steps), last), true)
    });
    Some(match r {
        None => "panic".into(),
        Some((s, _)) => s,
    })
}

/// `frt <can|usart> <packet>`: every frame the real fragmentation produces must survive the real codec round trip
/// unchanged (all fields, including the unused data bytes); observation `ok <frames>` or `frame <i>: <got>` / `panic`
fn exec_frt(t: &[&str]) -> Option<String> {
    let path = *t.first()?;
    let p = text::parse_packet(t.get(1)?)?;
    let r = guard(|| {
        let frames = p.to_frames();
        for (i, f) in frames.iter().enumerate() {
            let back = if path == "can" { Frame::from_bxcan_frame(f.to_bxcan_frame()) } else { Frame::from_usart_frame(f.to_usart_frame()) };
            match back {
                Ok(g) if text::frame(&g) == text::frame(f) => {}
                Ok(g) => return format!("frame {}: {} -> {}", i, text::frame(f), text::frame(&g)),
                Err(_) => return format!("frame {}: {} -> err", i, text::frame(f)),
            }
        }
        format!("ok {}", frames.len())
    });
    Some(r.unwrap_or("panic".into()))
}

fn gen_builder(r: &mut Rng) -> String {
    // start frame, then frames generated relative to the (reference) builder state: the exact next frame and
    // single-attribute mutations of it
    let announced: u16 = 1 + match r.below(4) {
        0 => 0,
        1 => r.below(4),
        2 => r.below(300),
        _ => 4095,
    } as u16;
    let (ne, addr, multi) = (r.flip(), r.u16(), r.below(8) != 0);
    let mut f0 = gen_frame(r, true);
    f0.not_error_flag = ne;
    f0.device_address = addr;
    f0.multi_frame_flag = multi;
    if r.below(10) != 0 {
        f0.start_frame_flag = true;
        f0.frame_id = FrameId::LastFrameId(announced - 1);
    }
    let started = f0.start_frame_flag;
    let expected: u32 = match f0.frame_id {
        FrameId::LastFrameId(i) | FrameId::CurrentFrameId(i) => i as u32 + 1,
    };
    let mut next: u32 = 1; // frames accepted so far, by the documented rule
    let mut fs: Vec<String> = vec![];
    if started {
        for _ in 0..r.below(9) {
            let nx = (next & 0xfff) as u16;
            let mut f = gen_frame(r, true);
            f.not_error_flag = ne;
            f.device_address = addr;
            f.start_frame_flag = false;
            f.multi_frame_flag = true;
            f.frame_id = FrameId::CurrentFrameId(nx);
            let mutated = match r.below(17) {
                0 => {
                    f.not_error_flag = !ne;
                    true
                }
                1 => {
                    f.device_address = addr ^ (1 << r.below(16));
                    true
                }
                2 => {
                    f.start_frame_flag = true;
                    true
                }
                3 => {
                    f.multi_frame_flag = false;
                    true
                }
                4 => {
                    f.frame_id = FrameId::LastFrameId(nx);
                    false
                }
                5 => {
                    f.frame_id = FrameId::CurrentFrameId(nx.wrapping_sub(1) & 0xfff);
                    true
                }
                6 => {
                    f.frame_id = FrameId::CurrentFrameId((nx + 1) & 0xfff);
                    true
                }
                7 => {
                    f.frame_id = FrameId::CurrentFrameId(announced & 0xfff);
                    (announced & 0xfff) != nx
                }
                8 => {
                    f = gen_frame(r, true);
                    true
                }
                9 => {
                    // one bit of the 12-bit id flipped (ids that agree in the low byte or in the high nibble only)
                    f.frame_id = FrameId::CurrentFrameId(nx ^ (1 << r.below(12)));
                    true
                }
                10 => {
                    f.frame_id = FrameId::CurrentFrameId((nx + 256 * (1 + r.below(15)) as u16) & 0xfff);
                    true
                }
                _ => false,
            };
            fs.push(text::frame(&f));
            if !mutated && next < expected {
                next += 1;
            }
        }
    }
    format!("{} {}", text::frame(&f0), list(&fs, ","))
}

fn exec_builder(t: &[&str]) -> Option<String> {
    let f0 = text::parse_frame(t.first()?)?;
    let fs: Vec<Frame> = split_list(t.get(1)?, ',').iter().map(|s| text::parse_frame(s)).collect::<Option<_>>()?;
    let mut steps: Vec<String> = vec![];
    match guard(|| PacketBuilder::new(f0)) {
        None => steps.push("panic".into()),
        Some(Err(e)) => steps.push(format!("err({})", berr(&e))),
        Some(Ok(mut b)) => {
            steps.push(format!("ok/{}", builder_state(&b)));
            for f in fs {
                match guard(|| b.add_frame(f)) {
                    None => {
                        steps.push("panic".into());
                        break;
                    }
                    Some(Ok(())) => steps.push(format!("ok/{}", builder_state(&b))),
                    Some(Err(e)) => steps.push(format!("err({})/{}", berr(&e), builder_state(&b))),
                }
            }
        }
    }
    Some(steps.join(";"))
}

/* ---------------------------------------------------------------- events ---- */

fn masked_packet(e: &Ev, p: &Packet) -> String {
    let mask = e.pad_mask();
    let body: String = if p.data.is_empty() {
        "-".into()
    } else if p.data.len() > 80 {
        text::log_bytes(&p.data)
    } else {
        p.data.iter().enumerate().map(|(i, b)| if mask.contains(&i) { "xx".to_string() } else { format!("{:02x}", b) }).collect()
    };
    format!("{}:{:04x}:{}", if p.is_error { 'E' } else { 'D' }, p.device_address, body)
}

const BIG_DATA: [usize; 10] = [65535, 65534, 65530, 65529, 65531, 65000, 32768, 28666, 4096, 300];

/// an event of kind `i % 16`; every 61st case a data event with a long payload given as `g<seed>x<len>`
fn gen_event_text(r: &mut Rng, i: u64) -> String {
    if i % 61 == 4 {
        let len = BIG_DATA[(i / 61 % 10) as usize];
        return format!("k4:{:04x}:{:04x}:{:04x}:g{}x{}", r.u16(), r.u16(), len, r.below(1000), len);
    }
    Ev::gen((i % 16) as usize, r).show()
}

/// `ev_ref <event>`: the generator's own reference encoding (no code under test involved); the driver compares it with
/// the published layout of the Lean specification, so that a slip in the harness' reference encoder is noticed
fn exec_ev_ref(t: &[&str]) -> Option<String> {
    let e = Ev::parse(t.first()?)?;
    Some(masked_packet(&e, &e.ref_packet()))
}

fn exec_ev_enc(t: &[&str]) -> Option<String> {
    let e = Ev::parse(t.first()?)?;
    Some(match guard(|| e.to_packet()) {
        None => "panic".into(),
        Some(p) => masked_packet(&e, &p),
    })
}

fn dec_str(kind: usize, p: &Packet) -> String {
    // a message image outside the value's domain is judged on the raw bytes, before any safe code can look at
    // the materialised value (the pinned decoder transmutes it unchecked)
    let raw_invalid = kind == 12 && p.data.len() == 14 && !p.is_error && p.data[0] == 0 && p.data[1] == 12 && {
        let tag = u32::from_ne_bytes([p.data[6], p.data[7], p.data[8], p.data[9]]);
        tag > 3 || (tag == 3 && p.data[10] > 1)
    };
    let p2 = p.clone();
    if raw_invalid {
        // the decoder may have transmuted the bytes into an invalid enum: never look at the value, and look at an
        // error only through its raw bytes (with an unchecked transmute the `Result` itself can be garbage: an
        // invalid discriminant may alias the niche that encodes `Err`)
        return match guard(move || Ev::decode(kind, &p2)) {
            None => "panic".into(),
            Some(Ok(_)) => "ok(INVALID)".into(),
            Some(Err(e)) => match ev::cerr_raw(&e) {
                Some(name) => format!("err({})", name),
                None => "err(INVALID)".into(),
            },
        };
    }
    match guard(move || Ev::decode(kind, &p2)) {
        None => "panic".into(),
        Some(Err(e)) => format!("err({})", ev::cerr(&e)),
        Some(Ok(v)) => {
            if v.domain_ok() {
                format!("ok({})", v.show_short())
            } else {
                "ok(INVALID)".into()
            }
        }
    }
}

/// `ev_rt <event>`: encode then decode as the same kind; observe the decoded value, the packet flag and address
fn exec_ev_rt(t: &[&str]) -> Option<String> {
    let e = Ev::parse(t.first()?)?;
    Some(match guard(|| e.to_packet()) {
        None => "panic".into(),
        Some(p) => format!("{} {}:{:04x}", dec_str(e.kind(), &p), if p.is_error { 'E' } else { 'D' }, p.device_address),
    })
}

fn exec_ev_dec(t: &[&str]) -> Option<String> {
    let kind: usize = t.first()?.strip_prefix('k')?.parse().ok()?;
    let p = text::parse_packet(t.get(1)?)?;
    let first = dec_str(kind, &p);
    // accepted values must re-encode to a packet that decodes to the same value
    let re = if first.starts_with("ok(") && first != "ok(INVALID)" {
        let p2 = p.clone();
        match guard(move || Ev::decode(kind, &p2).map(|v| v.to_packet())) {
            Some(Ok(q)) => {
                if dec_str(kind, &q) == first {
                    " re1"
                } else {
                    " re0"
                }
            }
            _ => " re0",
        }
    } else {
        ""
    };
    Some(format!("{}{}", first, re))
}

/// `ev_xenc <event>`: encode with the real encoder, then show the packet to all sixteen real decoders
fn exec_ev_xenc(t: &[&str]) -> Option<String> {
    let e = Ev::parse(t.first()?)?;
    let Some(p) = guard(|| e.to_packet()) else { return Some("panic".into()) };
    let mut mask = 0u32;
    for k in 0..16 {
        if dec_str(k, &p).starts_with("ok(") {
            mask |= 1 << k;
        }
    }
    Some(format!("{:04x}", mask))
}

fn exec_ev_cross(t: &[&str]) -> Option<String> {
    let p = text::parse_packet(t.first()?)?;
    let mut mask = 0u32;
    for k in 0..16 {
        let s = dec_str(k, &p);
        if s.starts_with("ok(") {
            mask |= 1 << k;
        }
    }
    Some(format!("{:04x}", mask))
}

const TAGS: [u8; 12] = [0, 1, 2, 3, 4, 5, 6, 7, 0x7f, 0x80, 0xfe, 0xff];

/// the systematic part of the decoder stream: every variant tag byte (and flag byte class) in otherwise valid
/// packets of the kinds that have one; every length 0..=70 x both flags x near-miss codes for every decoder
fn ev_dec_sweep() -> Vec<(usize, Packet)> {
    let mut sweep: Vec<(usize, Packet)> = vec![];
    let pk = |d: Vec<u8>| Packet { is_error: false, device_address: 1, data: d };
    for tag in 0..=255u8 {
        for len in 7..=12usize {
            let mut d = vec![0, 6, 0x12, 0x34, 9, tag];
            d.extend((0..len - 6).map(|i| i as u8 + 1));
            sweep.push((6, pk(d)));
        }
        for len in 11..=16usize {
            let mut d = vec![0, 13, 0x12, 0x34, 9, 1, 2, 3, 4, tag];
            d.extend((0..len - 10).map(|i| i as u8 + 1));
            sweep.push((13, pk(d)));
        }
        sweep.push((14, pk(vec![0, 14, 0x12, 0x34, 9, tag])));
        sweep.push((6, pk(vec![0, 6, 0x12, 0x34, 9, 0, tag])));
        sweep.push((13, pk(vec![0, 13, 0x12, 0x34, 9, 1, 2, 3, 4, 0, tag])));
        for b in [0u8, 1, 2, 0xff] {
            for hi in [0u8, 1] {
                sweep.push((12, pk(vec![0, 12, 0x12, 0x34, 0, 7, tag, hi, 0, 0, b, 0, 0, 0])));
            }
        }
        sweep.push((12, pk(vec![0, 12, 0x12, 0x34, 0, 7, 2, 0, 0, tag, 5, 6, 7, 8])));
        sweep.push((12, pk(vec![0, 12, 0x12, 0x34, 0, 7, 3, 0, 0, 0, tag, 0, 0, 0])));
        sweep.push((12, pk(vec![0, 12, 0x12, 0x34, 0, 7, 3, 0, tag, 0, 1, 0, 0, 0])));
    }
    // message images with every pattern of non-zero padding bytes (the padding is unspecified and must be ignored)
    for (tag, val) in [(0u8, [0x7fu8, 0, 0, 0]), (1, [0x34, 0x12, 0, 0]), (3, [1, 0, 0, 0]), (3, [0, 0, 0, 0])] {
        for padmask in 1..8u8 {
            let mut d = vec![0, 12, 0x12, 0x34, 0, 7, tag, 0, 0, 0, val[0], val[1], val[2], val[3]];
            let first_pad = if tag == 1 { 12 } else { 11 };
            for k in 0..3usize {
                if padmask & (1 << k) != 0 && first_pad + k < 14 {
                    d[first_pad + k] = 0xa5;
                }
            }
            sweep.push((12, pk(d)));
        }
    }
    for declared in [0xffffu16, 0xfffe, 0xfffb, 0xfffa, 0xfff9, 0x8000, 0x0100] {
        for extra in [0usize, 1, 7] {
            let mut d = vec![0, 4, 0x12, 0x34, (declared >> 8) as u8, declared as u8];
            d.extend(std::iter::repeat(0x5a).take(extra));
            sweep.push((4, pk(d)));
        }
    }
    for k in 0..16usize {
        for len in 0..=70usize {
            for codes in [[0u8, k as u8], [0, (k as u8 + 1) % 16], [k as u8, 0], [1, k as u8], [0xff, k as u8], [0, k as u8 | 0x10]] {
                for is_error in [false, true] {
                    let mut d: Vec<u8> = vec![codes[0], codes[1]];
                    d.extend((2..len.max(2)).map(|i| (i * 7 % 6) as u8));
                    d.truncate(len);
                    if k == 4 && len >= 6 {
                        d[4] = 0;
                        d[5] = (len - 6) as u8;
                    }
                    sweep.push((k, Packet { is_error, device_address: 0x0101, data: d }));
                }
            }
        }
    }
    sweep
}

fn gen_ev_dec(r: &mut Rng, i: u64, sweep: &[(usize, Packet)]) -> String {
    if (i as usize) < sweep.len() {
        let (k, p) = &sweep[i as usize];
        return format!("k{} {}", k, text::packet(p));
    }
    if i % 61 == 4 {
        // long data events: exact encodings and off-by-one lengths around the 16-bit limit
        let declared = BIG_DATA[(i / 61 % 10) as usize];
        let actual = match r.below(4) {
            0 => declared - 1,
            1 => declared + 1,
            _ => declared,
        };
        return format!("k4 D:{:04x}:0004{:04x}{:04x}+g{}x{}", r.u16(), r.u16(), declared, r.below(1000), actual);
    }
    // a valid encoding of some kind, possibly mutated, shown to some decoder (mostly its own)
    let e = Ev::gen((i % 16) as usize, r);
    let mut p = e.ref_packet();
    // variant tags and flag bytes: every small value and the boundaries, at the positions where the layouts keep them
    if r.below(3) == 0 {
        let pos: &[usize] = match e.kind() {
            6 | 14 => &[5, 6],
            13 => &[9, 10],
            12 => &[6, 7, 8, 9, 10],
            _ => &[],
        };
        if !pos.is_empty() {
            let k = *r.pick(pos);
            if k < p.data.len() {
                p.data[k] = *r.pick(&TAGS);
            }
        }
    }
    match r.below(12) {
        0 => {
            if !p.data.is_empty() {
                let k = r.below(p.data.len() as u64) as usize;
                p.data[k] = r.byte();
            }
        }
        1 => {
            p.data.pop();
        }
        2 => p.data.push(r.byte()),
        3 => p.is_error = true,
        4 => {
            let l = r.below(20) as usize;
            p.data = r.bytes(l);
        }
        5 => {
            if p.data.len() > 1 {
                p.data[1] = r.below(18) as u8;
            }
        }
        6 => p.data.truncate(r.below(7) as usize),
        7 => {
            if p.data.len() > 1 {
                p.data[0] = *r.pick(&[1u8, 0x80, 0xff]);
            }
        }
        _ => {}
    }
    let kind = if r.below(4) == 0 { r.below(16) as usize } else { e.kind() };
    format!("k{} {}", kind, text::packet(&p))
}

fn gen_ev_cross(r: &mut Rng, i: u64) -> String {
    let e = Ev::gen((i % 16) as usize, r);
    let mut p = e.ref_packet();
    match r.below(8) {
        0 => {
            if !p.data.is_empty() {
                let k = r.below(p.data.len() as u64) as usize;
                p.data[k] = r.byte();
            }
        }
        1 => {
            if p.data.len() > 1 {
                p.data[1] = r.below(16) as u8;
            }
        }
        2 => {
            let l = r.below(24) as usize;
            p.data = r.bytes(l);
            if l > 1 && r.flip() {
                p.data[0] = 0;
                p.data[1] = r.below(16) as u8;
            }
        }
        3 => p.is_error = r.flip(),
        _ => {}
    }
    text::packet(&p)
}

/* ---------------------------------------------------------------- receivers ---- */

fn byte_script(items: &[ByteItem]) -> String {
    if items.is_empty() {
        return "-".into();
    }
    items
        .iter()
        .map(|x| match x {
            ByteItem::Byte(b) => format!("{:02x}", b),
            ByteItem::WouldBlock => ".".into(),
            ByteItem::Error => "!".into(),
            ByteItem::Interrupted => "~".into(),
            ByteItem::Eof => "$".into(),
        })
        .collect()
}

fn parse_byte_script(s: &str) -> Option<Vec<ByteItem>> {
    if s == "-" {
        return Some(vec![]);
    }
    let c: Vec<char> = s.chars().collect();
    let mut out = vec![];
    let mut i = 0;
    while i < c.len() {
        match c[i] {
            '.' => out.push(ByteItem::WouldBlock),
            '!' => out.push(ByteItem::Error),
            '~' => out.push(ByteItem::Interrupted),
            '$' => out.push(ByteItem::Eof),
            _ => {
                let h: String = c.get(i..i + 2)?.iter().collect();
                out.push(ByteItem::Byte(u8::from_str_radix(&h, 16).ok()?));
                i += 1;
            }
        }
        i += 1;
    }
    Some(out)
}

fn can_script(items: &[CanItem]) -> String {
    let v: Vec<String> = items
        .iter()
        .map(|x| match x {
            CanItem::Frame(f) => text::can(f),
            CanItem::WouldBlock => ".".into(),
            CanItem::Overrun => "!".into(),
        })
        .collect();
    list(&v, ",")
}

fn parse_can_script(s: &str) -> Option<Vec<CanItem>> {
    split_list(s, ',')
        .iter()
        .map(|t| match *t {
            "." => Some(CanItem::WouldBlock),
            "!" => Some(CanItem::Overrun),
            _ => text::parse_can(t).map(CanItem::Frame),
        })
        .collect()
}

fn gen_some_packet(r: &mut Rng, addr: Option<u16>, maxlen: u64) -> Packet {
    Packet { is_error: r.flip(), device_address: addr.unwrap_or_else(|| r.u16()), data: gen_bytes(r.below(99), r.below(maxlen) as usize) }
}

/// hostile byte-link history (whole link frames, noise, gaps) followed by two probe packets
fn gen_byte_history(r: &mut Rng, serial: bool, faults: bool) -> Vec<ByteItem> {
    let mut segs: Vec<Vec<u8>> = vec![]; // whole link frames or noise
    for _ in 0..r.below(7) {
        match r.below(13) {
            0 => {
                // arbitrary body of a short length
                let l = r.below(24) as u8;
                let mut v = vec![0, l];
                v.extend(r.bytes(l as usize));
                segs.push(v);
            }
            1 => {
                // packet from the probes' device interrupted after k frames
                let p = gen_some_packet(r, Some(7), 40);
                let w = refenc::wire(&p);
                let k = r.below(w.len() as u64 + 1) as usize;
                segs.extend(w.into_iter().take(k));
            }
            2 => segs.push(vec![0, 0]),
            3 => segs.push((0..r.below(4)).map(|_| 1 + r.below(255) as u8).collect()),
            4 => {
                // two frames swapped
                let mut p = gen_some_packet(r, Some(7), 30);
                p.data.extend(gen_bytes(3, 9));
                let mut w = refenc::wire(&p);
                if w.len() > 1 {
                    let i = r.below(w.len() as u64) as usize;
                    let j = r.below(w.len() as u64) as usize;
                    w.swap(i, j);
                }
                segs.extend(w);
            }
            5 => {
                // one corrupted byte (possibly the length byte)
                let mut p = gen_some_packet(r, Some(7), 30);
                p.data.extend(gen_bytes(4, 9));
                let mut w = refenc::wire(&p);
                let i = r.below(w.len() as u64) as usize;
                let k = 1 + r.below(w[i].len() as u64 - 1) as usize;
                let old = w[i][k];
                w[i][k] = r.byte();
                if k == 1 {
                    // keep the link frame whole: the body has as many bytes as the (new) length byte says
                    let n = w[i][1] as usize;
                    w[i].resize(2 + n, old | 1);
                }
                segs.extend(w);
            }
            6 => {
                // declared data length > 8 with consistent size
                let l = 5 + 9 + r.below(20) as usize;
                let mut body =
                    vec![l as u8 + 1, 0x80 | r.below(16) as u8, 1 + r.below(255) as u8, 1 + r.below(255) as u8, 1 + r.below(255) as u8, (l - 5) as u8];
                body.extend((0..l - 5).map(|_| 1 + r.below(255) as u8));
                let mut v = vec![0, body.len() as u8];
                v.extend(body);
                segs.push(v);
            }
            7 => {
                // duplicated frame
                let mut p = gen_some_packet(r, Some(7), 30);
                p.data.extend(gen_bytes(5, 9));
                let mut w = refenc::wire(&p);
                let i = r.below(w.len() as u64) as usize;
                let d = w[i].clone();
                w.insert(i, d);
                segs.extend(w);
            }
            8 => {
                // long body: length byte up to 255
                let l = 200 + r.below(56) as usize;
                let mut v = vec![0, l as u8];
                v.extend((0..l).map(|_| r.next() as u8));
                segs.push(v);
            }
            9 => {
                // same packet as a pending one but of the opposite error type / another device, cut short
                let p = gen_some_packet(r, Some(7), 40);
                let mut q = p.clone();
                if r.flip() {
                    q.is_error = !q.is_error;
                } else {
                    q.device_address = 8;
                }
                let (w1, w2) = (refenc::wire(&p), refenc::wire(&q));
                let k = r.below(w1.len() as u64 + 1) as usize;
                segs.extend(w1.into_iter().take(k));
                let k = r.below(w2.len() as u64 + 1) as usize;
                segs.extend(w2.into_iter().skip(k));
            }
            11 => {
                // a whole packet whose frames carry the reserved header bit (bit 4 of byte 0): receivers ignore it
                let addr = if r.flip() { Some(7) } else { None };
                let p = gen_some_packet(r, addr, 40);
                for f in refenc::frames(&p) {
                    let mut b = refenc::usart_body(&f);
                    b[0] |= 0x10;
                    let u = refenc::cobs(&b);
                    let mut w = vec![0, u.len() as u8];
                    w.extend(u);
                    segs.push(w);
                }
            }
            10 => {
                // arbitrary well-formed frames nobody's fragmentation would produce (any flags, ids, lengths)
                for _ in 0..1 + r.below(3) {
                    let mut f = gen_frame(r, true);
                    if r.flip() {
                        f.device_address = 7;
                    }
                    if r.below(3) == 0 {
                        f.data_len = 0;
                        f.data = [0; 8];
                    }
                    if r.below(3) == 0 {
                        f.start_frame_flag = true;
                        f.frame_id = FrameId::LastFrameId(r.below(3) as u16);
                    }
                    segs.push(refenc::link_frame(&f));
                }
            }
            _ => {
                let p = gen_some_packet(r, None, 30);
                segs.extend(refenc::wire(&p));
            }
        }
    }
    if r.below(120) == 0 {
        // endurance: hundreds of undecodable or foreign link frames in a row (no packet completes in between), optionally
        // while a multi-frame packet is pending
        if r.flip() {
            let p = Packet { is_error: false, device_address: 7, data: gen_bytes(r.below(99), 30) };
            segs.extend(refenc::wire(&p).into_iter().take(2));
        }
        for _ in 0..260 + r.below(200) {
            match r.below(4) {
                0 => segs.push(vec![0, 2, 5, 1]),                                 // truncated COBS run
                1 => segs.push(vec![0, 1, 1]),                                    // empty body
                2 => segs.push(vec![0, 6, 2, 0x80 | r.below(16) as u8, 3, 1, 1, 9]), // declared length disagrees
                _ => {
                    let l = 1 + r.below(4) as u8;
                    let mut v = vec![0, l];
                    v.extend((0..l).map(|_| 1 + r.below(255) as u8));
                    segs.push(v);
                }
            }
        }
    }
    if r.below(80) == 0 {
        // scale: a long packet (hundreds to 4096 frames), whole or cut short, sometimes followed by a wrong frame
        let frames = *r.pick(&[300usize, 300, 600, 600, 1200, 1200, 2049, 4096]);
        let p = Packet { is_error: r.flip(), device_address: 7, data: gen_bytes(r.below(99), frames * 7 - r.below(7) as usize) };
        let w = refenc::wire(&p);
        let k = if r.flip() { w.len() } else { w.len() - r.below(3) as usize };
        segs.extend(w.into_iter().take(k));
    }
    for probe in 0..2u16 {
        let p = Packet { is_error: false, device_address: 7 + probe, data: gen_bytes(r.below(99), r.below(25) as usize) };
        segs.extend(refenc::wire(&p));
    }
    let mut items = vec![];
    for s in segs {
        if r.below(4) == 0 {
            items.push(ByteItem::WouldBlock);
        }
        if serial && r.below(9) == 0 {
            items.push(ByteItem::Interrupted);
        }
        for b in s {
            if !serial && r.below(9) == 0 {
                items.push(ByteItem::WouldBlock);
            }
            if serial && r.below(30) == 0 {
                items.push(ByteItem::Interrupted);
            }
            items.push(ByteItem::Byte(b));
        }
    }
    if r.below(5) == 0 {
        items.push(ByteItem::WouldBlock);
    }
    if faults {
        // device read errors (and end of file on the serial port) at arbitrary positions, also inside a frame body
        for _ in 0..1 + r.below(3) {
            let k = r.below(items.len() as u64 + 1) as usize;
            items.insert(k, if serial && r.below(3) == 0 { ByteItem::Eof } else { ByteItem::Error });
        }
    }
    items
}

fn gen_can_history(r: &mut Rng) -> Vec<CanItem> {
    let mut items: Vec<CanItem> = vec![];
    let push_frames = |items: &mut Vec<CanItem>, r: &mut Rng, fs: Vec<bxcan::Frame>| {
        for f in fs {
            if r.below(5) == 0 {
                items.push(CanItem::WouldBlock);
            }
            items.push(CanItem::Frame(f));
        }
    };
    for _ in 0..r.below(6) {
        match r.below(8) {
            0 => items.push(CanItem::Frame(gen_can(r))),
            1 => {
                let p = gen_some_packet(r, Some(7), 40);
                let fs = refenc::can_wire(&p);
                let k = r.below(fs.len() as u64 + 1) as usize;
                push_frames(&mut items, r, fs.into_iter().take(k).collect());
            }
            2 => items.push(if r.flip() { CanItem::WouldBlock } else { CanItem::Overrun }),
            3 => {
                // duplicated or swapped frames
                let mut p = gen_some_packet(r, Some(7), 30);
                p.data.extend(gen_bytes(5, 9));
                let mut fs = refenc::can_wire(&p);
                let i = r.below(fs.len() as u64) as usize;
                if r.flip() {
                    let d = fs[i].clone();
                    fs.insert(i, d);
                } else {
                    let j = r.below(fs.len() as u64) as usize;
                    fs.swap(i, j);
                }
                push_frames(&mut items, r, fs);
            }
            4 => {
                // opposite error type / other device interleaved
                let p = gen_some_packet(r, Some(7), 40);
                let mut q = p.clone();
                if r.flip() {
                    q.is_error = !q.is_error;
                } else {
                    q.device_address = 8;
                }
                let (w1, w2) = (refenc::can_wire(&p), refenc::can_wire(&q));
                let k = r.below(w1.len() as u64 + 1) as usize;
                push_frames(&mut items, r, w1.into_iter().take(k).collect());
                let k = r.below(w2.len() as u64 + 1) as usize;
                push_frames(&mut items, r, w2.into_iter().skip(k).collect());
            }
            5 => {
                for _ in 0..1 + r.below(3) {
                    let mut f = gen_frame(r, true);
                    if r.flip() {
                        f.device_address = 7;
                    }
                    if r.below(3) == 0 {
                        f.start_frame_flag = true;
                        f.frame_id = FrameId::LastFrameId(r.below(3) as u16);
                        f.data[0] = 0;
                    }
                    items.push(CanItem::Frame(refenc::can(&f)));
                }
            }
            _ => {
                let p = gen_some_packet(r, None, 30);
                push_frames(&mut items, r, refenc::can_wire(&p));
            }
        }
    }
    if r.below(120) == 0 {
        // endurance: hundreds of foreign frames in a row
        for _ in 0..260 + r.below(200) {
            items.push(CanItem::Frame(match r.below(3) {
                0 => bxcan::Frame::new_data(bxcan::StandardId::new(r.below(0x800) as u16).unwrap(), bxcan::Data::new(&[1, 2]).unwrap()),
                1 => bxcan::Frame::new_remote(bxcan::ExtendedId::new(r.next() as u32 & 0x1fff_ffff).unwrap(), r.below(9) as u8),
                _ => bxcan::Frame::new_data(bxcan::ExtendedId::new((1 << 26) | r.u16() as u32).unwrap(), bxcan::Data::new(&[]).unwrap()),
            }));
        }
    }
    for probe in 0..2u16 {
        let p = Packet { is_error: false, device_address: 7 + probe, data: gen_bytes(r.below(99), r.below(25) as usize) };
        push_frames(&mut items, r, refenc::can_wire(&p));
    }
    items
}

/// call `try_get_packet` until a call returns "nothing" with the device script empty.
/// With `heap`, also the receiver's tracked heap after each call (returned packet dropped) and the peak inside it.
fn poll_loop(mut get: impl FnMut() -> Result<Packet, InterfaceError>, remaining: impl Fn() -> usize, reset: impl Fn(), heap: bool) -> String {
    let mut res: Vec<String> = Vec::with_capacity(64);
    loop {
        reset();
        if heap {
            alloc::reset_peak();
        }
        let r = catch_unwind(AssertUnwindSafe(|| if heap { alloc::track(|| get()) } else { get() }));
        let mut plen = 0;
        let (s, stop) = match r {
            Err(e) => {
                let msg = e.downcast_ref::<String>().cloned().or_else(|| e.downcast_ref::<&str>().map(|s| s.to_string())).unwrap_or_default();
                (if msg.contains(BLOCKED) { "blocked" } else { "panic" }.to_string(), true)
            }
            Ok(Ok(p)) => {
                plen = p.data.len();
                let s = format!("ok({})", packet_short(&p));
                if heap {
                    alloc::track(|| drop(p));
                }
                (s, false)
            }
            Ok(Err(InterfaceError::NoPacketReceived)) => ("nothing".to_string(), remaining() == 0),
            Ok(Err(e)) => {
                // in the heap scenarios a reported reassembly error is told apart (C19: right after one the receiver holds
                // what a fresh one holds)
                let builder = heap && matches!(e, InterfaceError::BuilderError(_));
                // the error value may own heap memory (an `io::Error` made by the mock device): release it before measuring
                drop(e);
                (if builder { "errB" } else { "err" }.to_string(), false)
            }
        };
        if heap {
            res.push(format!("{}@{}/{}/{}/{}", s, remaining(), alloc::live(), alloc::peak(), plen));
        } else {
            res.push(format!("{}@{}", s, remaining()));
        }
        if stop || res.len() > 20000 {
            break;
        }
    }
    res.join(",")
}

fn run_rx_bytes(link: &str, items: &[ByteItem], chunk: usize, heap: bool) -> String {
    let sh: Shared = Arc::new(Mutex::new(ByteScript { rx: items.iter().copied().collect(), chunk, ..Default::default() }));
    let (s1, s2) = (sh.clone(), sh.clone());
    let remaining = move || s1.lock().unwrap_or_else(|e| e.into_inner()).rx.len();
    let reset = move || s2.lock().unwrap_or_else(|e| e.into_inner()).dry_reads = 0;
    if heap {
        alloc::clear();
    }
    if link == "usart" {
        let mut u = alloc::track_if(heap, || Usart::new(UsartDev(sh.clone())));
        let base = alloc::live();
        let s = poll_loop(|| u.try_get_packet(), remaining, reset, heap);
        if heap {
            format!("{} base{}", s, base)
        } else {
            s
        }
    } else {
        let mut u = alloc::track_if(heap, || Serial::new(Box::new(SerialDev(sh.clone()))));
        let base = alloc::live();
        let s = poll_loop(|| u.try_get_packet(), remaining, reset, heap);
        if heap {
            format!("{} base{}", s, base)
        } else {
            s
        }
    }
}

fn run_rx_can(items: Vec<CanItem>, heap: bool) -> String {
    let sh = Arc::new(Mutex::new(CanScript { rx: items.into_iter().collect(), ..Default::default() }));
    let (s1, s2) = (sh.clone(), sh.clone());
    if heap {
        alloc::clear();
    }
    let mut c = alloc::track_if(heap, || Can::new(bxcan::Can::new(CanDev(sh.clone()))));
    let base = alloc::live();
    let s = poll_loop(|| c.try_get_packet(), move || s1.lock().unwrap_or_else(|e| e.into_inner()).rx.len(), move || s2.lock().unwrap_or_else(|e| e.into_inner()).dry_reads = 0, heap);
    if heap {
        format!("{} base{}", s, base)
    } else {
        s
    }
}

/// `rx <link> <items> [chunk]` / `rxh <link> <items> [chunk]`
fn exec_rx(t: &[&str], heap: bool) -> Option<String> {
    let link = *t.first()?;
    match link {
        "can" => Some(run_rx_can(parse_can_script(t.get(1)?)?, heap)),
        "usart" => Some(run_rx_bytes(link, &parse_byte_script(t.get(1)?)?, 1, heap)),
        "serial" => Some(run_rx_bytes(link, &parse_byte_script(t.get(1)?)?, t.get(2)?.parse().ok()?, heap)),
        _ => None,
    }
}

/* ---------------------------------------------------------------- senders ---- */

fn gen_tx_packet(r: &mut Rng) -> String {
    let len = match r.below(5) {
        0 => r.below(9) as usize,
        1 => r.below(30) as usize,
        2 => r.below(200) as usize,
        3 => r.below(2000) as usize,
        _ => *r.pick(&[0usize, 7, 8, 9, 14, 15, 16, 28672, 28666]),
    };
    text::packet_gen(r.flip(), r.u16(), r.below(1000), len)
}

fn gen_tx(r: &mut Rng, link: &str) -> String {
    // mostly one send; sometimes several sends on the same interface instance (a failed send must not leak into the next)
    let p = if r.below(3) == 0 {
        let n = 2 + r.below(2);
        (0..n).map(|_| text::packet_gen(r.flip(), r.u16(), r.below(1000), *r.pick(&[0usize, 3, 8, 9, 15, 30]))).collect::<Vec<_>>().join("+")
    } else {
        gen_tx_packet(r)
    };
    match link {
        "usart" => {
            let resp: String = (0..r.below(60)).map(|_| if r.below(3) == 0 { '.' } else { 'a' }).collect();
            format!("{} {}", p, if resp.is_empty() { "-".into() } else { resp })
        }
        "can" => {
            let resp: String = (0..r.below(40))
                .map(|_| match r.below(12) {
                    0 => 'd',
                    1 | 2 | 3 => '.',
                    _ => 's',
                })
                .collect();
            format!("{} {}", p, if resp.is_empty() { "-".into() } else { resp })
        }
        _ => {
            // packets whose log would only be digested get scripts without faults (short writes and interrupts only):
            // with faults, which write call meets the fault depends on how a sender groups its writes
            let big = p.rsplit('x').next().and_then(|n| n.parse::<usize>().ok()).map(|n| n > 3000).unwrap_or(false) && !p.contains('+');
            let style = if big { 9 } else { r.below(4) };
            let rs: Vec<String> = (0..r.below(50))
                .map(|_| match (style, r.below(14)) {
                    (0, _) => "w1".to_string(),
                    (9, 0 | 1) => "~".to_string(),
                    (9, _) => format!("w{}", 1 + r.below(6)),
                    (_, 0) => "!".into(),
                    (_, 1) => "w0".into(),
                    (_, 2 | 3) => "~".into(),
                    _ => format!("w{}", 1 + r.below(6)),
                })
                .collect();
            let fl: String = (0..1 + r.below(3)).map(|_| if r.below(8) != 0 { 'o' } else { '!' }).collect();
            format!("{} {} {}", p, list(&rs, ","), fl)
        }
    }
}

fn send_res(r: Option<Result<(), InterfaceError>>) -> &'static str {
    match r {
        None => "panic",
        Some(Ok(())) => "ok",
        Some(Err(_)) => "err",
    }
}

fn can_log(tx: &[bxcan::Frame]) -> String {
    let v: Vec<String> = tx.iter().map(text::can).collect();
    if v.len() <= 4 {
        list(&v, ",")
    } else {
        text::digest(&v)
    }
}

/// serial device logs are printed in full up to 8 KiB, so that the driver can evaluate C14 on them when a sender groups
/// its writes differently from the model
fn serial_log(b: &[u8]) -> String {
    if b.len() <= 8192 {
        text::hex(b)
    } else {
        text::log_bytes(b)
    }
}

fn parse_io_resps(s: &str) -> Option<Vec<IoResp>> {
    split_list(s, ',')
        .iter()
        .map(|t| match *t {
            "~" => Some(IoResp::Interrupted),
            "!" => Some(IoResp::Error),
            _ => t.strip_prefix('w')?.parse().ok().map(IoResp::Wrote),
        })
        .collect()
}

/// `tx <link> <packet[+packet…]> <responses> [flush answers]`: the sends are made one after the other on one instance
fn exec_tx(t: &[&str]) -> Option<String> {
    let link = *t.first()?;
    let ps: Vec<Packet> = t.get(1)?.split('+').map(text::parse_packet).collect::<Option<_>>()?;
    let resp = *t.get(2)?;
    match link {
        "usart" => {
            let sh: Shared = Arc::new(Mutex::new(ByteScript { wresp: if resp == "-" { Default::default() } else { resp.chars().collect() }, ..Default::default() }));
            let mut u = Usart::new(UsartDev(sh.clone()));
            let rs: Vec<&str> = ps.iter().map(|p| send_res(guard(|| u.try_send_packet(p)))).collect();
            let log = text::log_bytes(&sh.lock().unwrap_or_else(|e| e.into_inner()).tx);
            Some(format!("{} {}", log, rs.join(",")))
        }
        "can" => {
            let sh = Arc::new(Mutex::new(CanScript { tresp: if resp == "-" { Default::default() } else { resp.chars().collect() }, ..Default::default() }));
            let mut c = Can::new(bxcan::Can::new(CanDev(sh.clone())));
            let rs: Vec<&str> = ps.iter().map(|p| send_res(guard(|| c.try_send_packet(p)))).collect();
            let log = can_log(&sh.lock().unwrap_or_else(|e| e.into_inner()).tx);
            Some(format!("{} {}", log, rs.join(",")))
        }
        "serial" => {
            let fl: Vec<bool> = t.get(3)?.chars().map(|c| c == 'o').collect();
            let sh: Shared = Arc::new(Mutex::new(ByteScript { io_resp: parse_io_resps(resp)?.into_iter().collect(), flush_answers: fl.into_iter().collect(), ..Default::default() }));
            let mut s = Serial::new(Box::new(SerialDev(sh.clone())));
            // per send: result and the length of the device log when the send returned (so that the piece each send put
            // on the device is known)
            let rs: Vec<String> = ps
                .iter()
                .map(|p| {
                    let r = send_res(guard(|| s.try_send_packet(p)));
                    format!("{}@{}", r, sh.lock().unwrap_or_else(|e| e.into_inner()).tx.len())
                })
                .collect();
            let g = sh.lock().unwrap_or_else(|e| e.into_inner());
            Some(format!("{}/f{} {}", serial_log(&g.tx), g.flushes, rs.join(",")))
        }
        _ => None,
    }
}

/// `psend <link> <own> <p1+p2+…> <responses> [flush answers]`: `Protocol::send_packet` for each packet in turn over a
/// real link sender whose device applies back-pressure; one local handler counts its calls. Observation: device log,
/// result per send (serial port: with the cumulative log length), handler calls.
fn exec_psend(t: &[&str]) -> Option<String> {
    use ross_protocol::protocol::Protocol;
    use std::cell::Cell;
    use std::rc::Rc;
    let link = *t.first()?;
    let own = u16::from_str_radix(t.get(1)?, 16).ok()?;
    let ps: Vec<Packet> = t.get(2)?.split('+').map(text::parse_packet).collect::<Option<_>>()?;
    let resp = *t.get(3)?;
    let calls = Rc::new(Cell::new(0u32));
    macro_rules! run {
        ($iface:expr, $len:expr) => {{
            let mut pr = Protocol::new(own, $iface);
            let c = calls.clone();
            pr.add_packet_handler(Box::new(move |_p: &Packet, _pr: &mut Protocol<_>| c.set(c.get() + 1)), false).ok()?;
            let rs: Vec<String> = ps
                .iter()
                .map(|p| {
                    let r = match guard(|| pr.send_packet(p)) {
                        None => "panic",
                        Some(Ok(())) => "ok",
                        Some(Err(_)) => "err",
                    };
                    match $len() {
                        Some(n) => format!("{}@{}", r, n),
                        None => r.to_string(),
                    }
                })
                .collect();
            rs.join(",")
        }};
    }
    match link {
        "usart" => {
            let sh: Shared = Arc::new(Mutex::new(ByteScript { wresp: if resp == "-" { Default::default() } else { resp.chars().collect() }, ..Default::default() }));
            let r = run!(Usart::new(UsartDev(sh.clone())), || None::<usize>);
            let log = text::log_bytes(&sh.lock().unwrap_or_else(|e| e.into_inner()).tx);
            Some(format!("{} {} h{}", log, r, calls.get()))
        }
        "can" => {
            let sh = Arc::new(Mutex::new(CanScript { tresp: if resp == "-" { Default::default() } else { resp.chars().collect() }, ..Default::default() }));
            let r = run!(Can::new(bxcan::Can::new(CanDev(sh.clone()))), || None::<usize>);
            let log = can_log(&sh.lock().unwrap_or_else(|e| e.into_inner()).tx);
            Some(format!("{} {} h{}", log, r, calls.get()))
        }
        "serial" => {
            let fl: Vec<bool> = t.get(4)?.chars().map(|c| c == 'o').collect();
            let sh: Shared = Arc::new(Mutex::new(ByteScript { io_resp: parse_io_resps(resp)?.into_iter().collect(), flush_answers: fl.into_iter().collect(), ..Default::default() }));
            let sh2 = sh.clone();
            let r = run!(Serial::new(Box::new(SerialDev(sh.clone()))), || Some(sh2.lock().unwrap_or_else(|e| e.into_inner()).tx.len()));
            let g = sh.lock().unwrap_or_else(|e| e.into_inner());
            Some(format!("{}/f{} {} h{}", serial_log(&g.tx), g.flushes, r, calls.get()))
        }
        _ => None,
    }
}

fn gen_psend(r: &mut Rng, link: &str) -> String {
    let own: u16 = *r.pick(&[1u16, 0xffff, 0x0a0a, 0]);
    // one packet, or several sends through the same protocol instance (a failed transmission must not leak into the next)
    let n = if r.below(3) == 0 { 2 + r.below(2) } else { 1 };
    let ps: Vec<String> = (0..n)
        .map(|_| {
            let len = *r.pick(&[0usize, 3, 8, 9, 15, 30, 100]);
            let addr = match r.below(3) {
                0 => own,
                1 => 0xffff,
                _ => r.u16(),
            };
            text::packet_gen(r.flip(), addr, r.below(1000), len)
        })
        .collect();
    let rest = gen_tx(r, link);
    let rest = rest.splitn(2, ' ').nth(1).unwrap_or("-").to_string();
    format!("{:04x} {} {}", own, ps.join("+"), rest)
}

/* ---------------------------------------------------------------- loop-back and end to end ---- */

/// insert "no data yet" items in front of the items marked as allowed (at most 8 in a row, each with
/// probability 1/every), then possibly one at the end; one schedule in five (seed divisible by 5) also has one long
/// idle gap of 24..1000 such items in front of the first allowed item at or after a seed-derived position (a link
/// that stays silent for many polls in the middle of a packet); the Lean driver implements the same function
/// (`Codec.schedule`)
pub fn schedule<T: Clone>(seed: u64, items: &[T], wb: T, every: u64, allowed: Option<&[bool]>) -> Vec<T> {
    let mut r = Rng(seed);
    let mut out = Vec::with_capacity(items.len() + items.len() / 4 + 4);
    let mut long: Option<(usize, usize)> =
        if seed % 5 == 0 && !items.is_empty() { Some((((seed / 40) as usize) % items.len(), [24usize, 25, 32, 64, 100, 256, 300, 1000][((seed / 5) % 8) as usize])) } else { None };
    for (i, it) in items.iter().enumerate() {
        if allowed.map(|m| m[i]).unwrap_or(true) {
            if let Some((j, l)) = long {
                if i >= j {
                    for _ in 0..l {
                        out.push(wb.clone());
                    }
                    long = None;
                }
            }
            let mut k = 0;
            while k < 8 {
                if r.below(every) != 0 {
                    break;
                }
                out.push(wb.clone());
                k += 1;
            }
        }
        out.push(it.clone());
    }
    if r.below(2) == 0 {
        out.push(wb);
    }
    out
}

fn gen_packet_list(r: &mut Rng, i: u64) -> String {
    let n = 1 + r.below(5);
    let ps: Vec<String> = (0..n)
        .map(|j| {
            let len = match r.below(8) {
                0 => r.below(9) as usize,
                1 => 7 + r.below(3) as usize,
                2 => r.below(200) as usize,
                3 if j == 0 && i % 50 == 0 => *r.pick(&[28672usize, 28666, 14000]),
                _ => r.below(40) as usize,
            };
            text::packet_gen(r.flip(), r.u16(), r.below(1000), len)
        })
        .collect();
    ps.join("+")
}

/// send the packets through the real sender into a recording device; returns the recorded wire
fn record_bytes(link: &str, ps: &[Packet]) -> Option<Vec<u8>> {
    let sh: Shared = Arc::new(Mutex::new(ByteScript::default()));
    let ok = guard(|| {
        if link == "usart" {
            let mut u = Usart::new(UsartDev(sh.clone()));
            ps.iter().all(|p| u.try_send_packet(p).is_ok())
        } else {
            let mut s = Serial::new(Box::new(SerialDev(sh.clone())));
            ps.iter().all(|p| s.try_send_packet(p).is_ok())
        }
    })?;
    if !ok {
        return None;
    }
    let v = sh.lock().unwrap_or_else(|e| e.into_inner()).tx.clone();
    Some(v)
}

fn record_can(ps: &[Packet]) -> Option<Vec<bxcan::Frame>> {
    let sh = Arc::new(Mutex::new(CanScript::default()));
    let ok = guard(|| {
        let mut c = Can::new(bxcan::Can::new(CanDev(sh.clone())));
        ps.iter().all(|p| c.try_send_packet(p).is_ok())
    })?;
    if !ok {
        return None;
    }
    let v = sh.lock().unwrap_or_else(|e| e.into_inner()).tx.clone();
    Some(v)
}

/// which bytes of a wire made of whole link frames are delimiters (the only places where the serial port
/// may time out without losing data)
fn start_mask(wire: &[u8]) -> Vec<bool> {
    let mut v = Vec::with_capacity(wire.len());
    let mut st: Option<Option<usize>> = None; // None: delimiter expected; Some(None): length byte; Some(Some(k)): k body bytes to go
    for b in wire {
        match st {
            None => {
                v.push(true);
                st = Some(None);
            }
            Some(None) => {
                v.push(false);
                st = if *b == 0 { None } else { Some(Some(*b as usize)) };
            }
            Some(Some(k)) => {
                v.push(false);
                st = if k <= 1 { None } else { Some(Some(k - 1)) };
            }
        }
    }
    v
}

fn scheduled_bytes(link: &str, wire: &[u8], seed: u64) -> Vec<ByteItem> {
    let items: Vec<ByteItem> = wire.iter().map(|b| ByteItem::Byte(*b)).collect();
    if link == "usart" {
        schedule(seed, &items, ByteItem::WouldBlock, 6, None)
    } else {
        schedule(seed, &items, ByteItem::WouldBlock, 3, Some(&start_mask(wire)))
    }
}

/// `loop <link> <packets> <schedule seed> [chunk]` => `<wire digest> <poll results>`
fn exec_loop(t: &[&str]) -> Option<String> {
    let link = *t.first()?;
    let ps: Vec<Packet> = t.get(1)?.split('+').map(text::parse_packet).collect::<Option<_>>()?;
    let seed: u64 = t.get(2)?.parse().ok()?;
    if link == "can" {
        let Some(wire) = record_can(&ps) else { return Some("send-failed".into()) };
        let items: Vec<CanItem> = wire.into_iter().map(CanItem::Frame).collect();
        let script = schedule(seed, &items, CanItem::WouldBlock, 4, None);
        let d = text::digest(&script.iter().map(|x| can_script(std::slice::from_ref(x))).collect::<Vec<_>>());
        Some(format!("{} {}", d, run_rx_can(script, false)))
    } else {
        let Some(wire) = record_bytes(link, &ps) else { return Some("send-failed".into()) };
        let script = scheduled_bytes(link, &wire, seed);
        let chunk: usize = if link == "serial" { t.get(3)?.parse().ok()? } else { 1 };
        Some(format!("#{:016x}/{} {}", fnv(&byte_script(&script)), script.len(), run_rx_bytes(link, &script, chunk, false)))
    }
}

fn gen_e2e(r: &mut Rng) -> String {
    let a: u16 = *r.pick(&[1u16, 0xffff, 0x0a0a, 0]);
    let b: u16 = match r.below(6) {
        0 => 0xffff,
        1 => a,
        _ => *r.pick(&[2u16, 0x0b0b, 0xfffe]),
    };
    // handler table built by a history: `c` / `o` register a capture-all / own-address handler, a digit k removes the k-th registration
    let hs: String = (0..r.below(7))
        .map(|_| match r.below(5) {
            0 => char::from(b'0' + r.below(4) as u8),
            1 | 2 => 'c',
            _ => 'o',
        })
        .collect();
    let n = r.below(6);
    let evs: Vec<String> = (0..n)
        .map(|j| {
            if j == 0 && r.below(40) == 0 {
                // a data event near the 4096-frame limit (its packet is the payload plus 6 header bytes)
                let len = *r.pick(&[28666usize, 28660, 14331, 14330, 20000, 1786, 1787]);
                return format!("k4:{:04x}:{:04x}:{:04x}:g{}x{}", *r.pick(&[b, 0xffff, 0x1234]), r.u16(), len, r.below(1000), len);
            }
            let mut e = Ev::gen(r.below(16) as usize, r);
            if let Ev::Data(ref mut d) = e {
                d.data_len = d.data.len() as u16;
            }
            // steer the receiver towards interesting addresses
            match r.below(4) {
                0 => e.set_receiver(b),
                1 => e.set_receiver(0xffff),
                2 => e.set_receiver(a),
                _ => {}
            }
            e.show()
        })
        .collect();
    format!("{:04x} {:04x} {} {} {}", a, b, if hs.is_empty() { "-".into() } else { hs }, list(&evs, "+"), r.below(100000))
}

/// `e2e <link> <addrA> <addrB> <handlers> <events> <schedule seed> [chunk]` => handler log of node B
fn exec_e2e(t: &[&str]) -> Option<String> {
    use ross_protocol::protocol::Protocol;
    use std::cell::RefCell;
    use std::rc::Rc;
    let link = *t.first()?;
    let a = u16::from_str_radix(t.get(1)?, 16).ok()?;
    let b = u16::from_str_radix(t.get(2)?, 16).ok()?;
    let hs: Vec<char> = if *t.get(3)? == "-" { vec![] } else { t[3].chars().collect() };
    let evs: Vec<Ev> = split_list(t.get(4)?, '+').iter().map(|s| Ev::parse(s)).collect::<Option<_>>()?;
    let seed: u64 = t.get(5)?.parse().ok()?;
    let chunk: usize = if link == "serial" { t.get(6)?.parse().ok()? } else { 1 };
    let log: Rc<RefCell<Vec<String>>> = Rc::new(RefCell::new(vec![]));
    let record = |p: &Packet| -> String {
        // classify by trying all sixteen decoders, as a receiving application would
        let hits: Vec<String> = (0..16).map(|k| dec_str(k, p)).filter(|s| s.starts_with("ok(")).collect();
        match hits.len() {
            1 => hits[0][3..hits[0].len() - 1].to_string(),
            0 => format!("undecodable[{}]", packet_short(p)),
            _ => format!("ambiguous[{}]", packet_short(p)),
        }
    };
    macro_rules! run_node_b {
        ($iface:expr, $remaining:expr, $reset:expr) => {{
            let mut pb = Protocol::new(b, $iface);
            let mut token = 0usize;
            // a digit k removes the k-th registration (with the id the protocol returned for it) if it exists and has not been
            // removed yet: an application keeps the ids it is handed, whatever the allocation policy
            let mut ids: Vec<Option<u32>> = vec![];
            for op in hs.iter() {
                if let Some(k) = op.to_digit(10) {
                    if let Some(slot) = ids.get_mut(k as usize) {
                        if let Some(id) = slot.take() {
                            let _ = pb.remove_packet_handler(id);
                        }
                    }
                } else {
                    let l = log.clone();
                    let tk = token;
                    token += 1;
                    let id = pb.add_packet_handler(Box::new(move |p: &Packet, _pr: &mut Protocol<_>| l.borrow_mut().push(format!("h{}/{}", tk, record(p)))), *op == 'c').ok()?;
                    ids.push(Some(id));
                }
            }
            let mut ticks = 0usize;
            let mut status = "ok";
            loop {
                $reset();
                let before = $remaining();
                match catch_unwind(AssertUnwindSafe(|| pb.tick())) {
                    Err(_) => {
                        status = "panic";
                        break;
                    }
                    Ok(Err(_)) => status = "tick-err",
                    Ok(Ok(())) => {}
                }
                ticks += 1;
                if (before == 0 && $remaining() == 0) || ticks > 200000 {
                    break;
                }
            }
            status
        }};
    }
    let status;
    if link == "can" {
        // back-pressure on the sending side too, derived from the seed: every mailbox request may be answered "busy" a few
        // times first (the sender retries; what reaches the bus must be the same frames)
        let mut br = Rng(seed ^ 0x5eed_0001);
        let tresp: VecDeque<char> = (0..400).map(|_| if br.below(4) == 0 { '.' } else { 's' }).collect();
        let sh = Arc::new(Mutex::new(CanScript { tresp, ..Default::default() }));
        let sent = guard(|| {
            let mut pa = Protocol::new(a, Can::new(bxcan::Can::new(CanDev(sh.clone()))));
            evs.iter().all(|e| pa.send_packet(&e.to_packet()).is_ok())
        });
        if sent != Some(true) {
            return Some("send-failed".into());
        }
        let wire: Vec<CanItem> = sh.lock().unwrap_or_else(|e| e.into_inner()).tx.iter().cloned().map(CanItem::Frame).collect();
        let script = schedule(seed, &wire, CanItem::WouldBlock, 4, None);
        let rx = Arc::new(Mutex::new(CanScript { rx: script.into_iter().collect(), ..Default::default() }));
        let (r1, r2) = (rx.clone(), rx.clone());
        status = run_node_b!(Can::new(bxcan::Can::new(CanDev(rx.clone()))), || r1.lock().unwrap_or_else(|e| e.into_inner()).rx.len(), || r2.lock().unwrap_or_else(|e| e.into_inner()).dry_reads = 0);
    } else {
        // back-pressure on the sending side too, derived from the seed: the USART answers "would block" to some writes, the
        // serial port accepts only a few bytes per write call (short writes) or is interrupted — the wire must be the same bytes
        let mut br = Rng(seed ^ 0x5eed_0002);
        let wresp: VecDeque<char> = (0..600).map(|_| if br.below(4) == 0 { '.' } else { 'a' }).collect();
        let io_resp: VecDeque<IoResp> = match br.below(4) {
            0 => VecDeque::new(),
            k => (0..3000).map(|_| if br.below(9) == 0 { IoResp::Interrupted } else { IoResp::Wrote([1usize, 3, 64][k as usize - 1] + br.below(3) as usize) }).collect(),
        };
        let sh: Shared = Arc::new(Mutex::new(ByteScript { wresp, io_resp, ..Default::default() }));
        let sent = guard(|| {
            if link == "usart" {
                let mut pa = Protocol::new(a, Usart::new(UsartDev(sh.clone())));
                evs.iter().all(|e| pa.send_packet(&e.to_packet()).is_ok())
            } else {
                let mut pa = Protocol::new(a, Serial::new(Box::new(SerialDev(sh.clone()))));
                evs.iter().all(|e| pa.send_packet(&e.to_packet()).is_ok())
            }
        });
        if sent != Some(true) {
            return Some("send-failed".into());
        }
        let wire = sh.lock().unwrap_or_else(|e| e.into_inner()).tx.clone();
        let script = scheduled_bytes(link, &wire, seed);
        let rx: Shared = Arc::new(Mutex::new(ByteScript { rx: script.into_iter().collect(), chunk, ..Default::default() }));
        let (r1, r2) = (rx.clone(), rx.clone());
        if link == "usart" {
            status = run_node_b!(Usart::new(UsartDev(rx.clone())), || r1.lock().unwrap_or_else(|e| e.into_inner()).rx.len(), || r2.lock().unwrap_or_else(|e| e.into_inner()).dry_reads = 0);
        } else {
            status = run_node_b!(Serial::new(Box::new(SerialDev(rx.clone()))), || r1.lock().unwrap_or_else(|e| e.into_inner()).rx.len(), || r2.lock().unwrap_or_else(|e| e.into_inner()).dry_reads = 0);
        }
    }
    let l = log.borrow();
    Some(format!("{} {}", status, list(&l, ",")))
}

/* ---------------------------------------------------------------- exhaustive small scopes ---- */

/// the `i`-th byte string in length-then-lexicographic order: 1 + 256 + 65536 + 16777216 strings of length 0..=3
fn enum_bytes(i: u64) -> Vec<u8> {
    let mut i = i;
    let mut len = 0u32;
    loop {
        let n = 256u64.pow(len);
        if i < n {
            break;
        }
        i -= n;
        len += 1;
    }
    (0..len).rev().map(|k| (i >> (8 * k)) as u8).collect()
}

/// every combination of flags x reserved identifier bits x id nibble x dlc x address class (589824 CAN frames)
fn enum_can(i: u64) -> bxcan::Frame {
    const ADDR: [u32; 8] = [0, 1, 0x00ff, 0x0100, 0x5555, 0x8000, 0xfffe, 0xffff];
    let (flags, i) = (i % 8, i / 8);
    let (reserved, i) = (i % 64, i / 64);
    let (nibble, i) = (i % 16, i / 16);
    let (dlc, i) = (i % 9, i / 9);
    let addr = ADDR[(i % 8) as usize];
    let id = (flags as u32) << 26 | (reserved as u32 & 0x3f) << 20 | (nibble as u32) << 16 | addr;
    let data: Vec<u8> = (0..dlc as u8).map(|k| k.wrapping_mul(37).wrapping_add(nibble as u8)).collect();
    bxcan::Frame::new_data(bxcan::ExtendedId::new(id).unwrap(), bxcan::Data::new(&data).unwrap())
}

/// alphabet for exhaustive builder histories: frames around a packet of device 7 announcing 3 frames
fn builder_alphabet() -> Vec<Frame> {
    let base = |id: u16, len: u8| Frame {
        not_error_flag: true,
        start_frame_flag: false,
        multi_frame_flag: true,
        frame_id: FrameId::CurrentFrameId(id),
        device_address: 7,
        data_len: len,
        data: {
            let mut d = [0u8; 8];
            for k in 0..len as usize {
                d[k] = if k == 0 { id as u8 } else { (id as u8).wrapping_mul(0x10).wrapping_add(k as u8) };
            }
            d
        },
    };
    let mut v = vec![];
    for id in [0u16, 1, 2, 3, 4, 255, 256, 257, 258, 4095] {
        v.push(base(id, 8));
    }
    v.push(base(1, 1));
    v.push(base(2, 0));
    v.push(base(2, 3));
    let mut f = base(1, 8);
    f.not_error_flag = false;
    v.push(f);
    let mut f = base(2, 8);
    f.not_error_flag = false;
    v.push(f);
    let mut f = base(1, 8);
    f.device_address = 8;
    v.push(f);
    let mut f = base(2, 8);
    f.device_address = 0x0107;
    v.push(f);
    let mut f = base(1, 8);
    f.start_frame_flag = true;
    v.push(f);
    let mut f = base(1, 8);
    f.multi_frame_flag = false;
    v.push(f);
    let mut f = base(2, 8);
    f.multi_frame_flag = false;
    v.push(f);
    let mut f = base(1, 8);
    f.frame_id = FrameId::LastFrameId(1);
    v.push(f);
    let mut f = base(2, 8);
    f.frame_id = FrameId::LastFrameId(2);
    v.push(f);
    let mut f = base(2, 8);
    f.start_frame_flag = true;
    f.frame_id = FrameId::LastFrameId(2);
    v.push(f);
    let mut f = base(0, 4);
    f.start_frame_flag = true;
    f.multi_frame_flag = false;
    f.frame_id = FrameId::LastFrameId(0);
    v.push(f);
    v
}

/// the `i`-th history: start frame announcing `3` (or, in the upper half of the index space, `258`) frames, then the
/// `i`-th sequence (length-then-lexicographic) over the alphabet
fn enum_builder(i: u64) -> String {
    let alpha = builder_alphabet();
    let n = alpha.len() as u64;
    let (announce, mut i) = (if i % 2 == 0 { 3u16 } else { 258 }, i / 2);
    let mut len = 0u32;
    loop {
        let c = n.pow(len);
        if i < c {
            break;
        }
        i -= c;
        len += 1;
    }
    let seq: Vec<String> = (0..len).rev().map(|k| text::frame(&alpha[((i / n.pow(k)) % n) as usize])).collect();
    let mut f0 = alpha[0].clone_frame();
    f0.start_frame_flag = true;
    f0.frame_id = FrameId::LastFrameId(announce - 1);
    f0.data[0] = (announce - 1) as u8;
    format!("{} {}", text::frame(&f0), list(&seq, ","))
}

trait CloneFrame {
    fn clone_frame(&self) -> Frame;
}
impl CloneFrame for Frame {
    fn clone_frame(&self) -> Frame {
        text::copy_frame(self)
    }
}

/// packet sets for the exhaustive schedule / fault enumerations: (single), (two-frame), (single, three-frame, single)
fn enum_packets(k: u64) -> Vec<Packet> {
    let pk = |e: bool, a: u16, n: usize, seed: u64| Packet { is_error: e, device_address: a, data: gen_bytes(seed, n) };
    match k % 3 {
        0 => vec![pk(false, 0x0102, 3, 1)],
        1 => vec![pk(true, 0x00ff, 12, 2)],
        _ => vec![pk(false, 0x0007, 8, 3), pk(false, 0x0700, 16, 4), pk(true, 0xffff, 0, 5)],
    }
}

fn packets_text(ps: &[Packet]) -> String {
    ps.iter().map(text::packet).collect::<Vec<_>>().join("+")
}

/// `sched <link> <packets> <script>`: every placement of one or two "no data yet" answers (USART: before any byte;
/// serial port: before any link frame, plus one interrupt before any byte; CAN: before any frame) in the wire of the
/// packet set, and the placement before every position at once
fn enum_sched(link: &str, i: u64) -> Option<String> {
    let ps = enum_packets(i);
    let i = i / 3;
    if link == "can" {
        let wire: Vec<CanItem> = ps.iter().flat_map(|p| refenc::can_wire(p)).map(CanItem::Frame).collect();
        let n = wire.len() as u64 + 1;
        let (a, b) = (i % n, i / n);
        if b > n {
            return None;
        }
        let mut items = vec![];
        for (k, it) in wire.iter().enumerate() {
            if b == n || k as u64 == a || (b < n && k as u64 == b) {
                items.push(CanItem::WouldBlock);
            }
            items.push(it.clone());
        }
        if a == n - 1 {
            items.push(CanItem::WouldBlock);
        }
        return Some(format!("sched can {} {}", packets_text(&ps), can_script(&items)));
    }
    let wire: Vec<u8> = ps.iter().flat_map(|p| refenc::wire(p)).flatten().collect();
    let starts = start_mask(&wire);
    let n = wire.len() as u64 + 1;
    let (a, b) = (i % n, i / n);
    if b > n {
        return None;
    }
    let mut items = vec![];
    for (k, byte) in wire.iter().enumerate() {
        let here = b == n || k as u64 == a || k as u64 == b;
        if here {
            if link == "usart" || starts[k] {
                items.push(ByteItem::WouldBlock);
            } else {
                items.push(ByteItem::Interrupted);
            }
        }
        items.push(ByteItem::Byte(*byte));
    }
    if a == n - 1 {
        items.push(ByteItem::WouldBlock);
    }
    Some(if link == "serial" { format!("sched serial {} {} {}", packets_text(&ps), byte_script(&items), 1 + i % 4) } else { format!("sched usart {} {}", packets_text(&ps), byte_script(&items)) })
}

fn exec_sched(t: &[&str]) -> Option<String> {
    let link = *t.first()?;
    match link {
        "can" => Some(run_rx_can(parse_can_script(t.get(2)?)?, false)),
        "usart" => Some(run_rx_bytes(link, &parse_byte_script(t.get(2)?)?, 1, false)),
        "serial" => Some(run_rx_bytes(link, &parse_byte_script(t.get(2)?)?, t.get(3)?.parse().ok()?, false)),
        _ => None,
    }
}

/// `tx` cases enumerating every fault position for a small packet set: USART a burst of 1..3 would-blocks before byte k;
/// CAN a displaced report or a would-block at transmit k; serial port an I/O error, a zero write, an interrupt or a
/// short write of 1..3 bytes at write call k (the other writes accept 1, 2 or all bytes)
fn enum_tx(link: &str, i: u64) -> Option<String> {
    let ps = enum_packets(i);
    let i = i / 3;
    let pt = packets_text(&ps);
    match link {
        "usart" => {
            let n: u64 = ps.iter().flat_map(|p| refenc::wire(p)).map(|f| f.len() as u64).sum();
            let (k, burst) = (i % n, 1 + i / n);
            if burst > 3 {
                return None;
            }
            let resp: String = (0..n).flat_map(|j| if j == k { vec!['.'; burst as usize].into_iter().chain(std::iter::once('a')).collect::<Vec<_>>() } else { vec!['a'] }).collect();
            Some(format!("tx usart {} {}", pt, resp))
        }
        "can" => {
            let n: u64 = ps.iter().map(|p| refenc::can_wire(p).len() as u64).sum();
            let (k, kind) = (i % n, i / n);
            if kind > 2 {
                return None;
            }
            let resp: String = (0..n).flat_map(|j| if j == k { match kind { 0 => vec!['d'], 1 => vec!['.', 's'], _ => vec!['.', '.', 'd'] } } else { vec!['s'] }).collect();
            Some(format!("tx can {} {}", pt, resp))
        }
        _ => {
            // at most 3 write calls per frame, more with short writes: enumerate the first 40 write calls
            let (k, rest) = (i % 40, i / 40);
            let (fault, style) = (rest % 6, rest / 6);
            if style > 2 {
                return None;
            }
            let normal = ["w1", "w2", "w99"][style as usize];
            let f = ["!", "w0", "~", "w1", "w2", "w3"][fault as usize];
            let rs: Vec<&str> = (0..60).map(|j| if j == k { f } else { normal }).collect();
            Some(format!("tx serial {} {} {}", pt, rs.join(","), if i % 7 == 0 { "o!o" } else { "ooo" }))
        }
    }
}

/* ---------------------------------------------------------------- dispatch ---- */

pub struct Gen {
    sweep: Vec<(usize, Packet)>,
}

impl Gen {
    pub fn new() -> Self {
        Gen { sweep: ev_dec_sweep() }
    }

    /// the input text (scenario name first) of case `i` of `group`
    pub fn input(&self, group: &str, seed: u64, i: u64) -> Option<String> {
        let mut rng = case_rng(seed, group, i);
        let r = &mut rng;
        Some(match group {
            "usart_dec" => format!("usart_dec {}", text::hex(&gen_usart_body(r, i))),
            "usart_enc" => {
                let wf = r.below(5) != 0;
                format!("usart_enc {}", text::frame(&gen_frame(r, wf)))
            }
            "usart_rt" => format!("usart_rt {}", text::frame(&if r.below(3) == 0 { gen_canonical_frame(r) } else { gen_frame(r, true) })),
            "can_dec" => format!("can_dec {}", text::can(&if r.below(3) == 0 { refenc::can(&gen_canonical_frame(r)) } else { gen_can(r) })),
            "can_enc" => {
                let wf = r.below(5) != 0;
                format!("can_enc {}", text::frame(&gen_frame(r, wf)))
            }
            "can_rt" => format!("can_rt {}", text::frame(&if r.below(4) != 0 { gen_canonical_frame(r) } else { gen_frame(r, true) })),
            "to_frames" => format!("to_frames {}", gen_packet_text(r, i)),
            "frag_rt" => format!("frag_rt {} {}", ["direct", "can", "usart"][(i % 3) as usize], gen_packet_text(r, i / 3)),
            "builder" => format!("builder {}", gen_builder(r)),
            "frt_can" => format!("frt can {}", gen_packet_text(r, i)),
            "frt_usart" => format!("frt usart {}", gen_packet_text(r, i)),
            "ev_enc" => format!("ev_enc {}", gen_event_text(r, i)),
            "ev_ref" => format!("ev_ref {}", gen_event_text(r, i)),
            "ev_rt" => format!("ev_rt {}", gen_event_text(r, i)),
            "ev_dec" => format!("ev_dec {}", gen_ev_dec(r, i, &self.sweep)),
            "ev_cross" => format!("ev_cross {}", gen_ev_cross(r, i)),
            "ev_xenc" => {
                let mut e = Ev::gen((i % 16) as usize, r);
                if let Ev::Data(ref mut d) = e {
                    if r.below(4) != 0 {
                        d.data_len = d.data.len() as u16;
                    }
                }
                // boundary values that an encoder might special-case
                match (&mut e, r.below(4)) {
                    (Ev::BcmAnimate(a), 0) => a.duration = 0,
                    (Ev::StartFirmware(a), 0) => a.firmware_size = 0,
                    (Ev::StartConfig(a), 0) => a.config_size = 0,
                    _ => {}
                }
                format!("ev_xenc {}", e.show())
            }
            "rx_usart" => format!("rx usart {}", byte_script(&gen_byte_history(r, false, false))),
            "rx_serial" => format!("rx serial {} {}", byte_script(&gen_byte_history(r, true, false)), 1 + r.below(5)),
            "rx_can" => format!("rx can {}", can_script(&gen_can_history(r))),
            "rxh_usart" => format!("rxh usart {}", byte_script(&gen_byte_history(r, false, i % 3 == 0))),
            "rxh_serial" => format!("rxh serial {} {}", byte_script(&gen_byte_history(r, true, i % 3 == 0)), 1 + r.below(5)),
            "rxh_can" => format!("rxh can {}", can_script(&gen_can_history(r))),
            "tx_usart" => format!("tx usart {}", gen_tx(r, "usart")),
            "tx_can" => format!("tx can {}", gen_tx(r, "can")),
            "tx_serial" => format!("tx serial {}", gen_tx(r, "serial")),
            "psend_usart" => format!("psend usart {}", gen_psend(r, "usart")),
            "psend_can" => format!("psend can {}", gen_psend(r, "can")),
            "psend_serial" => format!("psend serial {}", gen_psend(r, "serial")),
            "loop_usart" => format!("loop usart {} {}", gen_packet_list(r, i), r.below(100000)),
            "loop_serial" => format!("loop serial {} {} {}", gen_packet_list(r, i), r.below(100000), 1 + r.below(5)),
            "loop_can" => format!("loop can {} {}", gen_packet_list(r, i), r.below(100000)),
            "e2e_usart" => format!("e2e usart {}", gen_e2e(r)),
            "e2e_serial" => format!("e2e serial {} {}", gen_e2e(r), 1 + r.below(5)),
            "e2e_can" => format!("e2e can {}", gen_e2e(r)),
            "proto" => format!("proto {}", crate::proto::gen(r)),
            "proto_enum" => format!("proto {}", crate::proto::enum_registry(i)),
            "proto_send_enum" => format!("proto {}", crate::proto::enum_routing(i)),
            "proto_xchg_enum" => format!("proto {}", crate::proto::enum_exchange(i)),
            "frag_rt_enum" => format!("frag_rt {} {}", ["direct", "can", "usart"][(i % 3) as usize], text::packet_gen(i % 2 == 1, 0x1234u16.wrapping_mul(i as u16 | 1), i / 3, (i / 3) as usize)),
            "to_frames_enum" => format!("to_frames {}", text::packet_gen(i % 2 == 1, 0x4321u16.wrapping_add(i as u16), i, i as usize)),
            "sched_usart_enum" => enum_sched("usart", i).or_else(|| enum_sched("usart", 0)).unwrap(),
            "sched_serial_enum" => enum_sched("serial", i).or_else(|| enum_sched("serial", 0)).unwrap(),
            "sched_can_enum" => enum_sched("can", i).or_else(|| enum_sched("can", 0)).unwrap(),
            "tx_usart_enum" => enum_tx("usart", i).unwrap_or_else(|| "tx usart D:0001:- -".into()),
            "tx_can_enum" => enum_tx("can", i).unwrap_or_else(|| "tx can D:0001:- -".into()),
            "tx_serial_enum" => enum_tx("serial", i).unwrap_or_else(|| "tx serial D:0001:- - o".into()),
            "usart_dec_enum" => format!("usart_dec {}", text::hex(&enum_bytes(i))),
            "can_dec_enum" => format!("can_dec {}", text::can(&enum_can(i))),
            "builder_enum" => format!("builder {}", enum_builder(i)),
            _ => return None,
        })
    }
}

/// execute one input line against the real code
pub fn exec(input: &str) -> Option<String> {
    let t: Vec<&str> = input.split(' ').collect();
    let (name, rest) = t.split_first()?;
    match *name {
        "usart_dec" => exec_usart_dec(rest),
        "usart_enc" => exec_usart_enc(rest),
        "usart_rt" => exec_usart_rt(rest),
        "can_dec" => exec_can_dec(rest),
        "can_enc" => exec_can_enc(rest),
        "can_rt" => exec_can_rt(rest),
        "to_frames" => exec_to_frames(rest),
        "frag_rt" => exec_frag_rt(rest),
        "frt" => exec_frt(rest),
        "builder" => exec_builder(rest),
        "ev_enc" => exec_ev_enc(rest),
        "ev_ref" => exec_ev_ref(rest),
        "ev_rt" => exec_ev_rt(rest),
        "ev_dec" => exec_ev_dec(rest),
        "ev_cross" => exec_ev_cross(rest),
        "ev_xenc" => exec_ev_xenc(rest),
        "rx" => exec_rx(rest, false),
        "rxh" => exec_rx(rest, true),
        "tx" => exec_tx(rest),
        "loop" => exec_loop(rest),
        "sched" => exec_sched(rest),
        "psend" => exec_psend(rest),
        "e2e" => exec_e2e(rest),
        "proto" => crate::proto::exec(rest),
        _ => None,
    }
}
