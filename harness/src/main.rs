mod alloc; mod ev; mod gen; mod mock; mod proto; mod show;
#[global_allocator] static GLOBAL: alloc::Counting = alloc::Counting;
use ev::Ev; use gen::*; use mock::*;
use ross_protocol::frame::*;
use ross_protocol::interface::{can::Can, serial::Serial, usart::Usart, Interface, InterfaceError};
use ross_protocol::packet::{Packet, PacketBuilder, PacketBuilderError};
use std::io::Write as _;
use std::panic::{catch_unwind, AssertUnwindSafe};
use std::sync::{Arc, Mutex};

fn class<T, E>(r: std::thread::Result<Result<T, E>>, show: impl Fn(&T) -> String) -> String {
    match r { Err(_) => "panic".into(), Ok(Err(_)) => "err".into(), Ok(Ok(v)) => format!("ok({})", show(&v)) }
}
fn gen_frame(r: &mut Rng, wf: bool) -> Frame {
    let id = if wf { r.u16() & 0x0fff } else { r.u16() };
    let len = if wf { r.below(9) as u8 } else { r.byte() };
    let mut data = [0u8; 8]; for k in 0..(len.min(8) as usize) { data[k] = r.byte(); } if !wf && r.flip() { data[7] = r.byte(); }
    Frame { not_error_flag: r.flip(), start_frame_flag: r.flip(), multi_frame_flag: r.flip(), frame_id: if r.flip() { FrameId::LastFrameId(id) } else { FrameId::CurrentFrameId(id) },
        device_address: r.u16(), data_len: len, data }
}
fn gen_can(r: &mut Rng) -> bxcan::Frame {
    let dlc = r.below(9) as usize; let data = r.bytes(dlc);
    match r.below(10) {
        0 => bxcan::Frame::new_data(bxcan::StandardId::new(r.below(0x800) as u16).unwrap(), bxcan::Data::new(&data).unwrap()),
        1 => bxcan::Frame::new_remote(bxcan::ExtendedId::new(r.next() as u32 & 0x1fff_ffff).unwrap(), dlc as u8),
        _ => { let id = match r.below(3) { 0 => r.next() as u32 & 0x1fff_ffff, 1 => 1u32 << r.below(29), _ => ((r.below(8) as u32) << 26) | ((r.below(64) as u32) << 20) | ((r.below(16) as u32) << 16) | r.u16() as u32 };
               bxcan::Frame::new_data(bxcan::ExtendedId::new(id).unwrap(), bxcan::Data::new(&data).unwrap()) }
    }
}
fn berr(e: &PacketBuilderError) -> &'static str { match e { PacketBuilderError::OutOfOrder => "OutOfOrder", PacketBuilderError::SingleFramePacket => "SingleFramePacket", PacketBuilderError::TooManyFrames => "TooManyFrames",
    PacketBuilderError::WrongFrameType => "WrongFrameType", PacketBuilderError::DeviceAddressMismatch => "DeviceAddressMismatch", PacketBuilderError::MissingFrames => "MissingFrames" } }
fn build_str(b: &PacketBuilder) -> String { match catch_unwind(AssertUnwindSafe(|| b.build())) { Err(_) => "panic".into(), Ok(Ok(p)) => format!("ok({})", show::packet(&p)), Ok(Err(e)) => format!("err({})", berr(&e)) } }
fn builder_state(b: &PacketBuilder) -> String {
    let left = match catch_unwind(AssertUnwindSafe(|| b.frames_left())) { Ok(n) => n.to_string(), Err(_) => "panic".into() };
    format!("{}/{}/{}/{}/{}", b.expected_frame_count(), b.frame_count(), left, build_str(b), build_str(b))
}
fn wire(p: &Packet) -> Vec<Vec<u8>> { catch_unwind(AssertUnwindSafe(|| p.to_frames().iter().map(|f| { let u = f.to_usart_frame(); let mut w = vec![0, u.len() as u8]; w.extend(u); w }).collect())).unwrap_or_default() }
fn poll_loop(mut get: impl FnMut() -> Result<Packet, InterfaceError>, empty: impl Fn() -> bool) -> String {
    let mut res: Vec<String> = vec![];
    loop {
        let r = catch_unwind(AssertUnwindSafe(|| get()));
        let (s, stop) = match r {
            Err(e) => { let msg = e.downcast_ref::<String>().cloned().or_else(|| e.downcast_ref::<&str>().map(|s| s.to_string())).unwrap_or_default(); (if msg.contains(BLOCKED) { "blocked" } else { "panic" }.to_string(), true) }
            Ok(Ok(p)) => (format!("ok({})", show::packet(&p)), false),
            Ok(Err(InterfaceError::NoPacketReceived)) => ("nothing".to_string(), empty()),
            Ok(Err(_)) => ("err".to_string(), false) };
        res.push(s); if stop || res.len() > 100000 { break; }
    }
    res.join(",")
}
/// like `poll_loop`, with the receiver's tracked heap after each call (returned packet already dropped) and the peak inside it
fn poll_loop_heap(mut get: impl FnMut() -> Result<Packet, InterfaceError>, empty: impl Fn() -> bool) -> String {
    let mut res: Vec<String> = Vec::with_capacity(4096);
    loop {
        alloc::reset_peak();
        let r = catch_unwind(AssertUnwindSafe(|| alloc::track(|| get())));
        let (s, stop, plen) = match r {
            Err(_) => ("blocked".to_string(), true, 0),
            Ok(Ok(p)) => { let n = p.data.len(); let s = format!("ok({})", show::packet(&p)); alloc::track(|| drop(p)); (s, false, n) }
            Ok(Err(InterfaceError::NoPacketReceived)) => ("nothing".to_string(), empty(), 0),
            Ok(Err(_)) => ("err".to_string(), false, 0) };
        res.push(format!("{}@{}/{}/{}", s, alloc::live(), alloc::peak(), plen)); if stop || res.len() > 4000 { break; }
    }
    res.join(",")
}
fn byte_script(items: &[ByteItem]) -> String { if items.is_empty() { return "-".into(); } items.iter().map(|x| match x { ByteItem::Byte(b) => format!("{:02x}", b), ByteItem::WouldBlock => ".".into(), ByteItem::Error => "!".into(), ByteItem::Interrupted => "~".into(), ByteItem::Eof => "$".into() }).collect() }

/// hostile byte-link history (whole link frames, noise, gaps) followed by two probe packets
fn gen_byte_history(r: &mut Rng, serial: bool) -> Vec<ByteItem> {
    let mut segs: Vec<Vec<u8>> = vec![]; // each seg: whole link frame or noise; gaps marked by empty vec
    for _ in 0..r.below(7) {
        match r.below(8) {
            0 => { let l = r.below(24) as u8; let mut v = vec![0, l]; v.extend(r.bytes(l as usize)); segs.push(v); }
            1 => { let p = Packet { is_error: r.flip(), device_address: 7, data: gen_bytes(r.below(99), r.below(40) as usize) }; let w = wire(&p); let k = r.below(w.len() as u64 + 1) as usize; segs.extend(w.into_iter().take(k)); }
            2 => segs.push(vec![0, 0]),
            3 => segs.push((0..r.below(4)).map(|_| 1 + r.below(255) as u8).collect()),
            4 => { let p = Packet { is_error: false, device_address: 7, data: gen_bytes(r.below(99), 9 + r.below(30) as usize) }; let mut w = wire(&p); if w.len() > 1 { let i = r.below(w.len() as u64) as usize; let j = r.below(w.len() as u64) as usize; w.swap(i, j); } segs.extend(w); }
            5 => { let p = Packet { is_error: false, device_address: 7, data: gen_bytes(r.below(99), 9 + r.below(30) as usize) }; let mut w = wire(&p); let i = r.below(w.len() as u64) as usize; let k = 2 + r.below(w[i].len() as u64 - 2) as usize; w[i][k] = r.byte(); segs.extend(w); }
            6 => { let l = 5 + 9 + r.below(20) as usize; let mut body = vec![l as u8 + 1, 0x80 | r.below(16) as u8, 1 + r.below(255) as u8, 1 + r.below(255) as u8, 1 + r.below(255) as u8, (l - 5) as u8]; body.extend((0..l - 5).map(|_| 1 + r.below(255) as u8)); let mut v = vec![0, body.len() as u8]; v.extend(body); segs.push(v); }
            _ => { let p = Packet { is_error: r.flip(), device_address: r.u16(), data: gen_bytes(r.below(99), r.below(30) as usize) }; segs.extend(wire(&p)); }
        }
    }
    for probe in 0..2u16 { let p = Packet { is_error: false, device_address: 7 + probe, data: gen_bytes(r.below(99), r.below(25) as usize) }; segs.extend(wire(&p)); }
    let mut items = vec![];
    for s in segs {
        if r.below(4) == 0 { items.push(ByteItem::WouldBlock); }
        if serial && r.below(9) == 0 { items.push(ByteItem::Interrupted); }
        for b in s { if !serial && r.below(9) == 0 { items.push(ByteItem::WouldBlock); } if serial && r.below(30) == 0 { items.push(ByteItem::Interrupted); } items.push(ByteItem::Byte(b)); }
    }
    if r.below(5) == 0 { items.push(ByteItem::WouldBlock); }
    items
}

fn main() {
    std::panic::set_hook(Box::new(|_| {}));
    let args: Vec<String> = std::env::args().collect();
    let group = args.get(1).map(|s| s.as_str()).unwrap_or("all").to_string();
    let n: usize = args.get(2).and_then(|s| s.parse().ok()).unwrap_or(1000);
    let mut rng = Rng(std::env::var("VERIF_SEED").ok().and_then(|s| s.parse().ok()).unwrap_or(1));
    let out = std::io::stdout(); let mut out = std::io::BufWriter::new(out.lock());
    let on = |g: &str| group == "all" || group == g;
    if on("usart_dec") { for i in 0..n {
        let body: Vec<u8> = match i % 4 { 0 => { let len = rng.below(40) as usize; rng.bytes(len) } 1 => { let len = rng.below(256) as usize; rng.bytes(len) }
            _ => { let f = gen_frame(&mut rng, true); let mut u = f.to_usart_frame();
                match rng.below(6) { 0 => { let k = rng.below(u.len() as u64) as usize; u[k] = rng.byte(); } 1 => { u.pop(); } 2 => { u.push(rng.byte()); } 3 => { let k = rng.below(u.len() as u64) as usize; u.insert(k, 0); } 4 => { if u.len() > 5 { u[5] = rng.byte(); } } _ => {} } u } };
        let b2 = body.clone(); let r = catch_unwind(move || Frame::from_usart_frame(b2));
        writeln!(out, "usart_dec {} => {}", show::hex(&body), class(r, show::frame)).unwrap(); } }
    if on("usart_enc") { for _ in 0..n { let wf = rng.below(5) != 0; let f = gen_frame(&mut rng, wf); let f2 = show::copy_frame(&f);
        let r = catch_unwind(move || Ok::<_, ()>(f2.to_usart_frame())); writeln!(out, "usart_enc {} => {}", show::frame(&f), class(r, |u| show::hex(u))).unwrap(); } }
    if on("can_dec") { for _ in 0..n { let c = gen_can(&mut rng); let c2 = c.clone(); let r = catch_unwind(move || Frame::from_bxcan_frame(c2));
        writeln!(out, "can_dec {} => {}", show::can(&c), class(r, show::frame)).unwrap(); } }
    if on("can_enc") { for _ in 0..n { let wf = rng.below(5) != 0; let f = gen_frame(&mut rng, wf); let f2 = show::copy_frame(&f);
        let r = catch_unwind(move || Ok::<_, ()>(f2.to_bxcan_frame())); writeln!(out, "can_enc {} => {}", show::frame(&f), class(r, show::can)).unwrap(); } }
    if on("to_frames") { for i in 0..n.min(2000) {
        let len = if i < 70 { i } else if i < 90 { [1791, 1792, 1793, 1799, 28664, 28665, 28666, 28671, 28672, 1785, 14, 15, 16, 63, 64, 65, 255 * 7, 256 * 7 + 1, 4095 * 7, 4095 * 7 + 1][i - 70] } else { rng.below(3000) as usize };
        let seed = rng.below(1000); let (e, a) = (rng.flip(), rng.u16());
        let p = Packet { is_error: e, device_address: a, data: gen_bytes(seed, len) };
        let res = match catch_unwind(AssertUnwindSafe(|| p.to_frames())) { Err(_) => "panic".to_string(), Ok(v) => { let fs: Vec<String> = v.iter().map(show::frame).collect(); format!("ok({})", if fs.len() <= 4 { fs.join(",") } else { show::digest(&fs) }) } };
        writeln!(out, "to_frames {} => {}", show::packet_gen(e, a, seed, len), res).unwrap(); } }
    if on("builder") { for _ in 0..n {
        // start frame, then frames generated relative to the builder state: the exact next frame and single-attribute mutations
        let announced = 1 + match rng.below(4) { 0 => 0, 1 => rng.below(4), 2 => rng.below(300), _ => 4095 } as u16;
        let (ne, addr, multi) = (rng.flip(), rng.u16(), rng.below(8) != 0);
        let mut f0 = gen_frame(&mut rng, true); f0.not_error_flag = ne; f0.device_address = addr; f0.multi_frame_flag = multi;
        if rng.below(10) != 0 { f0.start_frame_flag = true; f0.frame_id = FrameId::LastFrameId(announced - 1); }
        let mut steps: Vec<String> = vec![]; let mut fs: Vec<String> = vec![];
        match PacketBuilder::new(show::copy_frame(&f0)) {
            Err(e) => steps.push(format!("err({})", berr(&e))),
            Ok(mut b) => { steps.push(format!("ok/{}", builder_state(&b)));
                for _ in 0..rng.below(9) {
                    let next = b.frame_count();
                    let mut f = gen_frame(&mut rng, true); f.not_error_flag = ne; f.device_address = addr; f.start_frame_flag = false; f.multi_frame_flag = true; f.frame_id = FrameId::CurrentFrameId(next);
                    match rng.below(14) { 0 => f.not_error_flag = !ne, 1 => f.device_address = addr ^ (1 << rng.below(16)), 2 => f.start_frame_flag = true, 3 => f.multi_frame_flag = false,
                        4 => f.frame_id = FrameId::LastFrameId(next), 5 => f.frame_id = FrameId::CurrentFrameId(next.wrapping_sub(1) & 0xfff), 6 => f.frame_id = FrameId::CurrentFrameId((next + 1) & 0xfff),
                        7 => f.frame_id = FrameId::CurrentFrameId(announced & 0xfff), 8 => f = gen_frame(&mut rng, true), _ => {} }
                    fs.push(show::frame(&f));
                    match b.add_frame(f) { Ok(()) => steps.push(format!("ok/{}", builder_state(&b))), Err(e) => steps.push(format!("err({})/{}", berr(&e), builder_state(&b))) }
                } } }
        writeln!(out, "builder {} {} => {}", show::frame(&f0), if fs.is_empty() { "-".into() } else { fs.join(",") }, steps.join(";")).unwrap(); } }
    if on("ev_enc") { for i in 0..n { let e = Ev::gen(i % 16, &mut rng); let p = e.to_packet(); let mask = e.pad_mask();
        let body: String = if p.data.is_empty() { "-".into() } else { p.data.iter().enumerate().map(|(i, b)| if mask.contains(&i) { "xx".to_string() } else { format!("{:02x}", b) }).collect() };
        writeln!(out, "ev_enc {} => {}:{:04x}:{}", e.show(), if p.is_error { 'E' } else { 'D' }, p.device_address, body).unwrap(); } }
    if on("ev_dec") {
        // systematic sweep: every variant tag byte 0..=255 (and every flag byte class) in otherwise valid packets of the kinds that have one
        let mut sweep: Vec<(usize, Packet)> = vec![];
        for tag in 0..=255u8 {
            for len in 7..=12usize { let mut d = vec![0, 6, 0x12, 0x34, 9, tag]; d.extend((0..len - 6).map(|i| i as u8 + 1)); sweep.push((6, Packet { is_error: false, device_address: 1, data: d })); }
            for len in 11..=16usize { let mut d = vec![0, 13, 0x12, 0x34, 9, 1, 2, 3, 4, tag]; d.extend((0..len - 10).map(|i| i as u8 + 1)); sweep.push((13, Packet { is_error: false, device_address: 1, data: d })); }
            sweep.push((14, Packet { is_error: false, device_address: 1, data: vec![0, 14, 0x12, 0x34, 9, tag] }));
            for b in [0u8, 1, 2, 0xff] { for hi in [0u8, 1] { sweep.push((12, Packet { is_error: false, device_address: 1, data: vec![0, 12, 0x12, 0x34, 0, 7, tag, hi, 0, 0, b, 0, 0, 0] })); } }
            sweep.push((12, Packet { is_error: false, device_address: 1, data: vec![0, 12, 0x12, 0x34, 0, 7, 2, 0, 0, tag, 5, 6, 7, 8] }));
        }
        for (kind, p) in sweep { let p2 = p.clone(); let r = catch_unwind(move || Ev::decode(kind, &p2));
            let s = match r { Err(_) => "panic".to_string(), Ok(Err(e)) => format!("err({})", ev::cerr(&e)), Ok(Ok(v)) => if v.domain_ok() { format!("ok({})", v.show()) } else { "ok(INVALID)".into() } };
            writeln!(out, "ev_dec k{} {} => {}", kind, show::packet(&p), s).unwrap(); }
        for i in 0..n {
        // a valid encoding of some kind, possibly mutated, shown to some decoder (mostly its own)
        let e = Ev::gen(i % 16, &mut rng); let mut p = e.to_packet();
        for &k in e.pad_mask() { p.data[k] = 0; }
        // variant tags and flag bytes: every small value and the boundaries, at the positions where the layouts keep them
        if rng.below(3) == 0 { const T: [u8; 12] = [0, 1, 2, 3, 4, 5, 6, 7, 0x7f, 0x80, 0xfe, 0xff];
            let pos: &[usize] = match e.kind() { 6 | 14 => &[5, 6], 13 => &[9, 10], 12 => &[6, 7, 8, 9, 10], _ => &[] };
            if !pos.is_empty() { let k = pos[rng.below(pos.len() as u64) as usize]; if k < p.data.len() { p.data[k] = T[rng.below(12) as usize]; } } }
        match rng.below(10) { 0 => { if !p.data.is_empty() { let k = rng.below(p.data.len() as u64) as usize; p.data[k] = rng.byte(); } } 1 => { p.data.pop(); } 2 => { p.data.push(rng.byte()); } 3 => p.is_error = true,
            4 => { let l = rng.below(20) as usize; p.data = rng.bytes(l); } 5 => { if p.data.len() > 1 { p.data[1] = rng.below(18) as u8; } } 6 => { p.data.truncate(rng.below(7) as usize); } _ => {} }
        let kind = if rng.below(4) == 0 { rng.below(16) as usize } else { e.kind() };
        let p2 = p.clone(); let r = catch_unwind(move || Ev::decode(kind, &p2));
        let s = match r { Err(_) => "panic".to_string(), Ok(Err(e)) => format!("err({})", ev::cerr(&e)), Ok(Ok(v)) => if v.domain_ok() { format!("ok({})", v.show()) } else { "ok(INVALID)".into() } };
        writeln!(out, "ev_dec k{} {} => {}", kind, show::packet(&p), s).unwrap(); } }
    if on("ev_cross") { for i in 0..n { let e = Ev::gen(i % 16, &mut rng); let mut p = e.to_packet(); for &k in e.pad_mask() { p.data[k] = 0; }
        if rng.below(4) == 0 && !p.data.is_empty() { let k = rng.below(p.data.len() as u64) as usize; p.data[k] = rng.byte(); }
        let mut mask = 0u32; for k in 0..16 { let p2 = p.clone(); if let Ok(Ok(_)) = catch_unwind(move || Ev::decode(k, &p2)) { mask |= 1 << k; } }
        writeln!(out, "ev_cross {} => {:04x}", show::packet(&p), mask).unwrap(); } }
    if on("rx_usart") { for _ in 0..n.min(5000) { let items = gen_byte_history(&mut rng, false);
        let sh: Shared = Arc::new(Mutex::new(ByteScript { rx: items.iter().copied().collect(), ..Default::default() }));
        let mut u = Usart::new(UsartDev(sh.clone()));
        let res = poll_loop(|| u.try_get_packet(), || sh.lock().unwrap().rx.is_empty());
        writeln!(out, "rx usart {} => {}", byte_script(&items), res).unwrap(); } }
    if on("rx_serial") { for _ in 0..n.min(5000) { let items = gen_byte_history(&mut rng, true);
        let sh: Shared = Arc::new(Mutex::new(ByteScript { rx: items.iter().copied().collect(), chunk: 1 + rng.below(5) as usize, ..Default::default() }));
        let mut u = Serial::new(Box::new(SerialDev(sh.clone())));
        let res = poll_loop(|| u.try_get_packet(), || sh.lock().unwrap().rx.is_empty());
        writeln!(out, "rx serial {} => {}", byte_script(&items), res).unwrap(); } }
    if on("rx_can") { for _ in 0..n.min(5000) {
        let mut items: Vec<CanItem> = vec![];
        for _ in 0..rng.below(6) { match rng.below(4) { 0 => items.push(CanItem::Frame(gen_can(&mut rng))),
            1 => { let p = Packet { is_error: rng.flip(), device_address: 7, data: gen_bytes(rng.below(99), rng.below(40) as usize) }; let fs = p.to_frames(); let k = rng.below(fs.len() as u64 + 1) as usize; for f in fs.iter().take(k) { items.push(CanItem::Frame(f.to_bxcan_frame())); } }
            2 => items.push(if rng.flip() { CanItem::WouldBlock } else { CanItem::Overrun }),
            _ => { let p = Packet { is_error: rng.flip(), device_address: rng.u16(), data: gen_bytes(rng.below(99), rng.below(30) as usize) }; for f in p.to_frames() { if rng.below(5) == 0 { items.push(CanItem::WouldBlock); } items.push(CanItem::Frame(f.to_bxcan_frame())); } } } }
        for probe in 0..2u16 { let p = Packet { is_error: false, device_address: 7 + probe, data: gen_bytes(rng.below(99), rng.below(25) as usize) }; for f in p.to_frames() { if rng.below(5) == 0 { items.push(CanItem::WouldBlock); } items.push(CanItem::Frame(f.to_bxcan_frame())); } }
        let script: Vec<String> = items.iter().map(|x| match x { CanItem::Frame(f) => show::can(f), CanItem::WouldBlock => ".".into(), CanItem::Overrun => "!".into() }).collect();
        let sh = Arc::new(Mutex::new(CanScript { rx: items.into_iter().collect(), ..Default::default() }));
        let mut c = Can::new(bxcan::Can::new(CanDev(sh.clone())));
        let res = poll_loop(|| c.try_get_packet(), || sh.lock().unwrap().rx.is_empty());
        writeln!(out, "rx can {} => {}", if script.is_empty() { "-".into() } else { script.join(",") }, res).unwrap(); } }
    if on("tx") { for _ in 0..n.min(3000) {
        let (e, a, seed, len) = (rng.flip(), rng.u16(), rng.below(1000), match rng.below(4) { 0 => rng.below(9) as usize, 1 => rng.below(30) as usize, 2 => rng.below(200) as usize, _ => rng.below(2000) as usize });
        let p = Packet { is_error: e, device_address: a, data: gen_bytes(seed, len) }; let ps = show::packet_gen(e, a, seed, len);
        // usart: would-block bursts
        let resp: String = (0..rng.below(60)).map(|_| if rng.below(3) == 0 { '.' } else { 'a' }).collect();
        let sh: Shared = Arc::new(Mutex::new(ByteScript { wresp: resp.chars().collect(), ..Default::default() }));
        let mut u = Usart::new(UsartDev(sh.clone())); let r = catch_unwind(AssertUnwindSafe(|| u.try_send_packet(&p)));
        let res = match r { Err(_) => "panic".to_string(), Ok(Ok(())) => format!("{} ok", show::log_bytes(&sh.lock().unwrap().tx)), Ok(Err(_)) => format!("{} err", show::log_bytes(&sh.lock().unwrap().tx)) };
        writeln!(out, "tx usart {} {} => {}", ps, if resp.is_empty() { "-".into() } else { resp }, res).unwrap();
        // can: would-block and displaced
        let resp: String = (0..rng.below(40)).map(|_| match rng.below(12) { 0 => 'd', 1 | 2 | 3 => '.', _ => 's' }).collect();
        let sh = Arc::new(Mutex::new(CanScript { tresp: resp.chars().collect(), ..Default::default() }));
        let mut c = Can::new(bxcan::Can::new(CanDev(sh.clone()))); let r = catch_unwind(AssertUnwindSafe(|| c.try_send_packet(&p)));
        let log: Vec<String> = sh.lock().unwrap().tx.iter().map(show::can).collect();
        let logs = if log.len() <= 4 { if log.is_empty() { "-".to_string() } else { log.join(",") } } else { show::digest(&log) };
        let res = match r { Err(_) => "panic".to_string(), Ok(Ok(())) => format!("{} ok", logs), Ok(Err(_)) => format!("{} err", logs) };
        writeln!(out, "tx can {} {} => {}", ps, if resp.is_empty() { "-".into() } else { resp }, res).unwrap();
        // serial: short writes, interrupted, errors, flush
        let resps: Vec<IoResp> = (0..rng.below(50)).map(|_| match rng.below(14) { 0 => IoResp::Error, 1 => IoResp::Wrote(0), 2 | 3 => IoResp::Interrupted, _ => IoResp::Wrote(1 + rng.below(6) as usize) }).collect();
        let rs: Vec<String> = resps.iter().map(|x| match x { IoResp::Wrote(n) => format!("w{}", n), IoResp::Interrupted => "~".into(), IoResp::Error => "!".into() }).collect();
        let flush_ok = rng.below(8) != 0;
        let sh: Shared = Arc::new(Mutex::new(ByteScript { io_resp: resps.into_iter().collect(), flush_ok, ..Default::default() }));
        let mut s = Serial::new(Box::new(SerialDev(sh.clone()))); let r = catch_unwind(AssertUnwindSafe(|| s.try_send_packet(&p)));
        let res = match r { Err(_) => "panic".to_string(), Ok(Ok(())) => format!("{} ok", show::log_bytes(&sh.lock().unwrap().tx)), Ok(Err(_)) => format!("{} err", show::log_bytes(&sh.lock().unwrap().tx)) };
        writeln!(out, "tx serial {} {} {} => {}", ps, if rs.is_empty() { "-".into() } else { rs.join(",") }, if flush_ok { "o" } else { "!" }, res).unwrap();
    } }
    if on("rx_heap") { for _ in 0..n.min(3000) { let items = gen_byte_history(&mut rng, false);
        let sh: Shared = Arc::new(Mutex::new(ByteScript { rx: items.iter().copied().collect(), ..Default::default() }));
        let mut u = Usart::new(UsartDev(sh.clone()));
        let res = poll_loop_heap(|| u.try_get_packet(), || sh.lock().unwrap().rx.is_empty());
        writeln!(out, "rx_heap usart {} => {}", byte_script(&items), res).unwrap();
        let items = gen_byte_history(&mut rng, true);
        let sh: Shared = Arc::new(Mutex::new(ByteScript { rx: items.iter().copied().collect(), chunk: 1 + rng.below(5) as usize, ..Default::default() }));
        let mut u = Serial::new(Box::new(SerialDev(sh.clone())));
        let res = poll_loop_heap(|| u.try_get_packet(), || sh.lock().unwrap().rx.is_empty());
        writeln!(out, "rx_heap serial {} => {}", byte_script(&items), res).unwrap(); } }
    if on("proto") { for _ in 0..n { writeln!(out, "{}", proto::one(&mut rng)).unwrap(); } }
    out.flush().unwrap();
}
