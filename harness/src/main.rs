//! Correspondence harness for ross-protocol: runs the real code (path dependency on /repo) on generated or
//! literal inputs and prints one `<scenario> <inputs> => <observation>` line per case (DESIGN.md, appendix A).
//!
//!   ross-harness run <group> <from> <to>     generate cases from..to of the group and execute them
//!   ross-harness gen <group> <from> <to>     print the inputs only (no code under test is called)
//!   ross-harness exec <file|->               execute literal input lines (anything after " => " is ignored)
//!
//! `VERIF_SEED` seeds the generators. With `VERIF_INFLIGHT=1` the input of every case is written to stderr
//! before it is executed, so that a crash of the process is attributed to a case.
mod alloc;
mod ev;
mod gen;
mod mock;
mod proto;
mod refenc;
mod scen;
mod text;

#[global_allocator]
static GLOBAL: alloc::Counting = alloc::Counting;

use std::io::{BufRead, Write};
use std::panic::{catch_unwind, AssertUnwindSafe};

fn run_one(out: &mut impl Write, input: &str, inflight: bool) {
    if inflight {
        eprintln!("INFLIGHT {}", input);
    }
    // every call into the code under test is guarded inside `exec`; this outer guard catches harness bugs
    let obs = match catch_unwind(AssertUnwindSafe(|| scen::exec(input))) {
        Ok(Some(o)) => o,
        Ok(None) => "HARNESS-UNPARSABLE".into(),
        Err(_) => "HARNESS-PANIC".into(),
    };
    writeln!(out, "{} => {}", input, obs).unwrap();
}

fn main() {
    std::panic::set_hook(Box::new(|_| {}));
    let args: Vec<String> = std::env::args().collect();
    let seed: u64 = std::env::var("VERIF_SEED").ok().and_then(|s| s.parse().ok()).unwrap_or(1);
    let inflight = std::env::var("VERIF_INFLIGHT").is_ok();
    let out = std::io::stdout();
    let mut out = std::io::BufWriter::new(out.lock());
    let mode = args.get(1).map(|s| s.as_str()).unwrap_or("");
    let mut n = 0u64;
    match mode {
        "run" | "gen" => {
            let group = args.get(2).expect("group");
            let from: u64 = args.get(3).and_then(|s| s.parse().ok()).unwrap_or(0);
            let to: u64 = args.get(4).and_then(|s| s.parse().ok()).unwrap_or(1000);
            let g = scen::Gen::new();
            for i in from..to {
                let Some(input) = g.input(group, seed, i) else {
                    eprintln!("unknown group {}; known: {}", group, scen::GROUPS.join(" "));
                    std::process::exit(2);
                };
                if mode == "gen" {
                    writeln!(out, "{}", input).unwrap();
                } else {
                    run_one(&mut out, &input, inflight);
                }
                n += 1;
            }
        }
        "exec" => {
            let path = args.get(2).map(|s| s.as_str()).unwrap_or("-");
            let rd: Box<dyn BufRead> = if path == "-" { Box::new(std::io::BufReader::new(std::io::stdin())) } else { Box::new(std::io::BufReader::new(std::fs::File::open(path).expect("open"))) };
            for line in rd.lines() {
                let line = line.unwrap();
                let input = line.split(" => ").next().unwrap().trim();
                if input.is_empty() || input.starts_with('#') {
                    continue;
                }
                run_one(&mut out, input, inflight);
                n += 1;
            }
        }
        _ => {
            eprintln!("usage: ross-harness run|gen <group> <from> <to> | exec <file>");
            std::process::exit(2);
        }
    }
    writeln!(out, "END lines={}", n).unwrap();
    out.flush().unwrap();
}
