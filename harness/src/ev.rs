//! The sixteen event kinds behind one enum: generation, canonical text, encode/decode through the real code.
use crate::gen::Rng;
use crate::text::hex;
use ross_protocol::convert_packet::{ConvertPacket, ConvertPacketError};
use ross_protocol::event::{bcm::*, bootloader::*, button::*, configurator::*, gateway::*, general::*, internal::*, message::*, programmer::*, relay::*, EventError};
use ross_protocol::packet::Packet;

pub enum Ev {
    BootloaderHello(BootloaderHelloEvent), ProgrammerHello(ProgrammerHelloEvent), StartFirmware(ProgrammerStartFirmwareUpgradeEvent), Ack(AckEvent),
    Data(DataEvent), ConfiguratorHello(ConfiguratorHelloEvent), BcmChange(BcmChangeBrightnessEvent), Pressed(ButtonPressedEvent),
    Released(ButtonReleasedEvent), Tick(SystemTickEvent), StartConfig(ProgrammerStartConfigUpgradeEvent), SetAddress(ProgrammerSetDeviceAddressEvent),
    Message(MessageEvent), BcmAnimate(BcmAnimateBrightnessEvent), RelaySet(RelaySetValueEvent), GatewayDiscover(GatewayDiscoverEvent),
}
fn bcm(v: &BcmValue) -> String { match *v {
    BcmValue::Binary(b) => format!("bin:{}", b as u8), BcmValue::Single(x) => format!("single:{:02x}", x), BcmValue::Rgb(r, g, b) => format!("rgb:{:02x}{:02x}{:02x}", r, g, b),
    BcmValue::RgbB(r, g, b, br) => format!("rgbB:{:02x}{:02x}{:02x}{:02x}", r, g, b, br), BcmValue::Rgbw(r, g, b, w) => format!("rgbw:{:02x}{:02x}{:02x}{:02x}", r, g, b, w),
    BcmValue::RgbwB(r, g, b, w, br) => format!("rgbwB:{:02x}{:02x}{:02x}{:02x}{:02x}", r, g, b, w, br) } }
fn relay(v: &RelayValue) -> &'static str { match *v { RelayValue::Single(true) => "on", RelayValue::Single(false) => "off",
    RelayValue::DoubleExclusive(RelayDoubleExclusiveValue::FirstChannelOn) => "first", RelayValue::DoubleExclusive(RelayDoubleExclusiveValue::SecondChannelOn) => "second",
    RelayValue::DoubleExclusive(RelayDoubleExclusiveValue::NoChannelOn) => "none" } }
/// raw image of a MessageValue; checked before any safe code looks at the value (it may be invalid if the decoder is broken)
pub fn msg_raw(v: &MessageValue) -> [u8; 8] { unsafe { std::ptr::read(v as *const MessageValue as *const [u8; 8]) } }
pub fn msg_domain_ok(v: &MessageValue) -> bool { let r = msg_raw(v); let tag = u32::from_ne_bytes([r[0], r[1], r[2], r[3]]); tag <= 3 && (tag != 3 || r[4] <= 1) }
fn msg(v: &MessageValue) -> String { match *v { MessageValue::U8(x) => format!("u8:{:02x}", x), MessageValue::U16(x) => format!("u16:{:04x}", x), MessageValue::U32(x) => format!("u32:{:08x}", x), MessageValue::Bool(b) => format!("bool:{}", b as u8) } }
fn gen_bcm(r: &mut Rng) -> BcmValue { match r.below(6) { 0 => BcmValue::Binary(r.flip()), 1 => BcmValue::Single(r.byte()), 2 => BcmValue::Rgb(r.byte(), r.byte(), r.byte()),
    3 => BcmValue::RgbB(r.byte(), r.byte(), r.byte(), r.byte()), 4 => BcmValue::Rgbw(r.byte(), r.byte(), r.byte(), r.byte()), _ => BcmValue::RgbwB(r.byte(), r.byte(), r.byte(), r.byte(), r.byte()) } }
fn gen_relay(r: &mut Rng) -> RelayValue { match r.below(5) { 0 => RelayValue::Single(true), 1 => RelayValue::Single(false), 2 => RelayValue::DoubleExclusive(RelayDoubleExclusiveValue::FirstChannelOn),
    3 => RelayValue::DoubleExclusive(RelayDoubleExclusiveValue::SecondChannelOn), _ => RelayValue::DoubleExclusive(RelayDoubleExclusiveValue::NoChannelOn) } }
fn gen_msg(r: &mut Rng) -> MessageValue { match r.below(4) { 0 => MessageValue::U8(r.byte()), 1 => MessageValue::U16(r.u16()), 2 => MessageValue::U32(r.u32()), _ => MessageValue::Bool(r.flip()) } }

impl Ev {
    pub fn gen(kind: usize, r: &mut Rng) -> Ev { match kind {
        0 => Ev::BootloaderHello(BootloaderHelloEvent { programmer_address: r.u16(), bootloader_address: r.u16() }),
        1 => Ev::ProgrammerHello(ProgrammerHelloEvent { programmer_address: r.u16() }),
        2 => Ev::StartFirmware(ProgrammerStartFirmwareUpgradeEvent { receiver_address: r.u16(), programmer_address: r.u16(), firmware_size: r.u32() }),
        3 => Ev::Ack(AckEvent { receiver_address: r.u16(), transmitter_address: r.u16() }),
        4 => { let n = match r.below(6) { 0 => 0, 1 => 1, 2 => 2, 3 => 3, 4 => r.below(20) as usize, _ => r.below(300) as usize }; let data = r.bytes(n);
               let dl = if r.below(8) == 0 { r.u16() } else { n as u16 }; Ev::Data(DataEvent { receiver_address: r.u16(), transmitter_address: r.u16(), data_len: dl, data }) }
        5 => Ev::ConfiguratorHello(ConfiguratorHelloEvent {}),
        6 => Ev::BcmChange(BcmChangeBrightnessEvent { bcm_address: r.u16(), transmitter_address: r.u16(), index: r.byte(), value: gen_bcm(r) }),
        7 => Ev::Pressed(ButtonPressedEvent { receiver_address: r.u16(), button_address: r.u16(), index: r.byte() }),
        8 => Ev::Released(ButtonReleasedEvent { receiver_address: r.u16(), button_address: r.u16(), index: r.byte() }),
        9 => Ev::Tick(SystemTickEvent { receiver_address: r.u16() }),
        10 => Ev::StartConfig(ProgrammerStartConfigUpgradeEvent { receiver_address: r.u16(), programmer_address: r.u16(), config_size: r.u32() }),
        11 => Ev::SetAddress(ProgrammerSetDeviceAddressEvent { receiver_address: r.u16(), programmer_address: r.u16(), new_address: r.u16() }),
        12 => Ev::Message(MessageEvent { receiver_address: r.u16(), transmitter_address: r.u16(), code: r.u16(), value: gen_msg(r) }),
        13 => Ev::BcmAnimate(BcmAnimateBrightnessEvent { bcm_address: r.u16(), transmitter_address: r.u16(), index: r.byte(), duration: r.u32(), target_value: gen_bcm(r) }),
        14 => Ev::RelaySet(RelaySetValueEvent { relay_address: r.u16(), transmitter_address: r.u16(), index: r.byte(), value: gen_relay(r) }),
        _ => Ev::GatewayDiscover(GatewayDiscoverEvent { device_address: r.u16(), gateway_address: r.u16() }),
    } }
    pub fn kind(&self) -> usize { match self { Ev::BootloaderHello(_) => 0, Ev::ProgrammerHello(_) => 1, Ev::StartFirmware(_) => 2, Ev::Ack(_) => 3, Ev::Data(_) => 4, Ev::ConfiguratorHello(_) => 5,
        Ev::BcmChange(_) => 6, Ev::Pressed(_) => 7, Ev::Released(_) => 8, Ev::Tick(_) => 9, Ev::StartConfig(_) => 10, Ev::SetAddress(_) => 11, Ev::Message(_) => 12, Ev::BcmAnimate(_) => 13,
        Ev::RelaySet(_) => 14, Ev::GatewayDiscover(_) => 15 } }
    pub fn show(&self) -> String { match self {
        Ev::BootloaderHello(e) => format!("k0:{:04x}:{:04x}", e.programmer_address, e.bootloader_address),
        Ev::ProgrammerHello(e) => format!("k1:{:04x}", e.programmer_address),
        Ev::StartFirmware(e) => format!("k2:{:04x}:{:04x}:{:08x}", e.receiver_address, e.programmer_address, e.firmware_size),
        Ev::Ack(e) => format!("k3:{:04x}:{:04x}", e.receiver_address, e.transmitter_address),
        Ev::Data(e) => format!("k4:{:04x}:{:04x}:{:04x}:{}", e.receiver_address, e.transmitter_address, e.data_len, hex(&e.data)),
        Ev::ConfiguratorHello(_) => "k5".into(),
        Ev::BcmChange(e) => format!("k6:{:04x}:{:04x}:{:02x}:{}", e.bcm_address, e.transmitter_address, e.index, bcm(&e.value)),
        Ev::Pressed(e) => format!("k7:{:04x}:{:04x}:{:02x}", e.receiver_address, e.button_address, e.index),
        Ev::Released(e) => format!("k8:{:04x}:{:04x}:{:02x}", e.receiver_address, e.button_address, e.index),
        Ev::Tick(e) => format!("k9:{:04x}", e.receiver_address),
        Ev::StartConfig(e) => format!("k10:{:04x}:{:04x}:{:08x}", e.receiver_address, e.programmer_address, e.config_size),
        Ev::SetAddress(e) => format!("k11:{:04x}:{:04x}:{:04x}", e.receiver_address, e.programmer_address, e.new_address),
        Ev::Message(e) => format!("k12:{:04x}:{:04x}:{:04x}:{}", e.receiver_address, e.transmitter_address, e.code, msg(&e.value)),
        Ev::BcmAnimate(e) => format!("k13:{:04x}:{:04x}:{:02x}:{:08x}:{}", e.bcm_address, e.transmitter_address, e.index, e.duration, bcm(&e.target_value)),
        Ev::RelaySet(e) => format!("k14:{:04x}:{:04x}:{:02x}:{}", e.relay_address, e.transmitter_address, e.index, relay(&e.value)),
        Ev::GatewayDiscover(e) => format!("k15:{:04x}:{:04x}", e.device_address, e.gateway_address),
    } }
    pub fn to_packet(&self) -> Packet { match self {
        Ev::BootloaderHello(e) => e.to_packet(), Ev::ProgrammerHello(e) => e.to_packet(), Ev::StartFirmware(e) => e.to_packet(), Ev::Ack(e) => e.to_packet(), Ev::Data(e) => e.to_packet(),
        Ev::ConfiguratorHello(e) => e.to_packet(), Ev::BcmChange(e) => e.to_packet(), Ev::Pressed(e) => e.to_packet(), Ev::Released(e) => e.to_packet(), Ev::Tick(e) => e.to_packet(),
        Ev::StartConfig(e) => e.to_packet(), Ev::SetAddress(e) => e.to_packet(), Ev::Message(e) => e.to_packet(), Ev::BcmAnimate(e) => e.to_packet(), Ev::RelaySet(e) => e.to_packet(),
        Ev::GatewayDiscover(e) => e.to_packet(),
    } }
    /// positions of unspecified padding bytes in the encoded payload
    pub fn pad_mask(&self) -> &'static [usize] { match self { Ev::Message(e) => match e.value { MessageValue::U8(_) | MessageValue::Bool(_) => &[11, 12, 13], MessageValue::U16(_) => &[12, 13], MessageValue::U32(_) => &[] }, _ => &[] } }
    pub fn decode(kind: usize, p: &Packet) -> Result<Ev, ConvertPacketError> { Ok(match kind {
        0 => Ev::BootloaderHello(BootloaderHelloEvent::try_from_packet(p)?), 1 => Ev::ProgrammerHello(ProgrammerHelloEvent::try_from_packet(p)?),
        2 => Ev::StartFirmware(ProgrammerStartFirmwareUpgradeEvent::try_from_packet(p)?), 3 => Ev::Ack(AckEvent::try_from_packet(p)?), 4 => Ev::Data(DataEvent::try_from_packet(p)?),
        5 => Ev::ConfiguratorHello(ConfiguratorHelloEvent::try_from_packet(p)?), 6 => Ev::BcmChange(BcmChangeBrightnessEvent::try_from_packet(p)?),
        7 => Ev::Pressed(ButtonPressedEvent::try_from_packet(p)?), 8 => Ev::Released(ButtonReleasedEvent::try_from_packet(p)?), 9 => Ev::Tick(SystemTickEvent::try_from_packet(p)?),
        10 => Ev::StartConfig(ProgrammerStartConfigUpgradeEvent::try_from_packet(p)?), 11 => Ev::SetAddress(ProgrammerSetDeviceAddressEvent::try_from_packet(p)?),
        12 => Ev::Message(MessageEvent::try_from_packet(p)?), 13 => Ev::BcmAnimate(BcmAnimateBrightnessEvent::try_from_packet(p)?),
        14 => Ev::RelaySet(RelaySetValueEvent::try_from_packet(p)?), _ => Ev::GatewayDiscover(GatewayDiscoverEvent::try_from_packet(p)?),
    }) }
    pub fn domain_ok(&self) -> bool { match self { Ev::Message(e) => msg_domain_ok(&e.value), _ => true } }
}
pub fn cerr(e: &ConvertPacketError) -> &'static str { match e { ConvertPacketError::WrongSize => "WrongSize", ConvertPacketError::UnknownEnumVariant => "UnknownEnumVariant",
    ConvertPacketError::WrongType => "WrongType", ConvertPacketError::Event(EventError::WrongEventType) => "WrongEventType",
    #[allow(unreachable_patterns)]
    _ => "OtherConvertError" } }

fn p16(s: &str) -> Option<u16> { u16::from_str_radix(s, 16).ok() }
fn p8(s: &str) -> Option<u8> { u8::from_str_radix(s, 16).ok() }
fn p32(s: &str) -> Option<u32> { u32::from_str_radix(s, 16).ok() }
fn parse_bcm(tag: &str, v: &str) -> Option<BcmValue> {
    let b = crate::text::unhex(v).unwrap_or_default();
    Some(match (tag, b.len()) {
        ("bin", _) => BcmValue::Binary(v == "1"),
        ("single", 1) => BcmValue::Single(b[0]),
        ("rgb", 3) => BcmValue::Rgb(b[0], b[1], b[2]),
        ("rgbB", 4) => BcmValue::RgbB(b[0], b[1], b[2], b[3]),
        ("rgbw", 4) => BcmValue::Rgbw(b[0], b[1], b[2], b[3]),
        ("rgbwB", 5) => BcmValue::RgbwB(b[0], b[1], b[2], b[3], b[4]),
        _ => return None,
    })
}
fn parse_relay(s: &str) -> Option<RelayValue> {
    Some(match s {
        "on" => RelayValue::Single(true),
        "off" => RelayValue::Single(false),
        "first" => RelayValue::DoubleExclusive(RelayDoubleExclusiveValue::FirstChannelOn),
        "second" => RelayValue::DoubleExclusive(RelayDoubleExclusiveValue::SecondChannelOn),
        "none" => RelayValue::DoubleExclusive(RelayDoubleExclusiveValue::NoChannelOn),
        _ => return None,
    })
}
fn parse_msg(tag: &str, v: &str) -> Option<MessageValue> {
    Some(match tag {
        "u8" => MessageValue::U8(p8(v)?),
        "u16" => MessageValue::U16(p16(v)?),
        "u32" => MessageValue::U32(p32(v)?),
        "bool" => MessageValue::Bool(v == "1"),
        _ => return None,
    })
}
fn bcm_bytes(v: &BcmValue) -> Vec<u8> {
    match *v {
        BcmValue::Binary(b) => vec![0, b as u8],
        BcmValue::Single(x) => vec![1, x],
        BcmValue::Rgb(r, g, b) => vec![2, r, g, b],
        BcmValue::RgbB(r, g, b, br) => vec![3, r, g, b, br],
        BcmValue::Rgbw(r, g, b, w) => vec![4, r, g, b, w],
        BcmValue::RgbwB(r, g, b, w, br) => vec![5, r, g, b, w, br],
    }
}

impl Ev {
    /// like `show`, long data payloads by digest
    pub fn show_short(&self) -> String {
        match self {
            Ev::Data(e) if e.data.len() > 64 => format!("k4:{:04x}:{:04x}:{:04x}:{}", e.receiver_address, e.transmitter_address, e.data_len, crate::text::log_bytes(&e.data)),
            _ => self.show(),
        }
    }
    /// address the event to `a` (no effect on the two broadcast announcements)
    pub fn set_receiver(&mut self, a: u16) {
        match self {
            Ev::BootloaderHello(e) => e.programmer_address = a,
            Ev::ProgrammerHello(_) | Ev::ConfiguratorHello(_) => {}
            Ev::StartFirmware(e) => e.receiver_address = a,
            Ev::Ack(e) => e.receiver_address = a,
            Ev::Data(e) => e.receiver_address = a,
            Ev::BcmChange(e) => e.bcm_address = a,
            Ev::Pressed(e) => e.receiver_address = a,
            Ev::Released(e) => e.receiver_address = a,
            Ev::Tick(e) => e.receiver_address = a,
            Ev::StartConfig(e) => e.receiver_address = a,
            Ev::SetAddress(e) => e.receiver_address = a,
            Ev::Message(e) => e.receiver_address = a,
            Ev::BcmAnimate(e) => e.bcm_address = a,
            Ev::RelaySet(e) => e.relay_address = a,
            Ev::GatewayDiscover(e) => e.device_address = a,
        }
    }
    /// inverse of `show`
    pub fn parse(s: &str) -> Option<Ev> {
        let t: Vec<&str> = s.split(':').collect();
        let k: usize = t[0].strip_prefix('k')?.parse().ok()?;
        let a = |i: usize| t.get(i).copied().and_then(p16);
        Some(match k {
            0 => Ev::BootloaderHello(BootloaderHelloEvent { programmer_address: a(1)?, bootloader_address: a(2)? }),
            1 => Ev::ProgrammerHello(ProgrammerHelloEvent { programmer_address: a(1)? }),
            2 => Ev::StartFirmware(ProgrammerStartFirmwareUpgradeEvent { receiver_address: a(1)?, programmer_address: a(2)?, firmware_size: p32(t.get(3)?)? }),
            3 => Ev::Ack(AckEvent { receiver_address: a(1)?, transmitter_address: a(2)? }),
            4 => Ev::Data(DataEvent { receiver_address: a(1)?, transmitter_address: a(2)?, data_len: a(3)?, data: crate::text::parse_payload(t.get(4)?)? }),
            5 => Ev::ConfiguratorHello(ConfiguratorHelloEvent {}),
            6 => Ev::BcmChange(BcmChangeBrightnessEvent { bcm_address: a(1)?, transmitter_address: a(2)?, index: p8(t.get(3)?)?, value: parse_bcm(t.get(4)?, t.get(5)?)? }),
            7 => Ev::Pressed(ButtonPressedEvent { receiver_address: a(1)?, button_address: a(2)?, index: p8(t.get(3)?)? }),
            8 => Ev::Released(ButtonReleasedEvent { receiver_address: a(1)?, button_address: a(2)?, index: p8(t.get(3)?)? }),
            9 => Ev::Tick(SystemTickEvent { receiver_address: a(1)? }),
            10 => Ev::StartConfig(ProgrammerStartConfigUpgradeEvent { receiver_address: a(1)?, programmer_address: a(2)?, config_size: p32(t.get(3)?)? }),
            11 => Ev::SetAddress(ProgrammerSetDeviceAddressEvent { receiver_address: a(1)?, programmer_address: a(2)?, new_address: a(3)? }),
            12 => Ev::Message(MessageEvent { receiver_address: a(1)?, transmitter_address: a(2)?, code: a(3)?, value: parse_msg(t.get(4)?, t.get(5)?)? }),
            13 => Ev::BcmAnimate(BcmAnimateBrightnessEvent { bcm_address: a(1)?, transmitter_address: a(2)?, index: p8(t.get(3)?)?, duration: p32(t.get(4)?)?, target_value: parse_bcm(t.get(5)?, t.get(6)?)? }),
            14 => Ev::RelaySet(RelaySetValueEvent { relay_address: a(1)?, transmitter_address: a(2)?, index: p8(t.get(3)?)?, value: parse_relay(t.get(4)?)? }),
            15 => Ev::GatewayDiscover(GatewayDiscoverEvent { device_address: a(1)?, gateway_address: a(2)? }),
            _ => return None,
        })
    }

    /// the published encoding (padding zero), written from the documented layouts: used by generators only
    pub fn ref_packet(&self) -> Packet {
        let be = |x: u16| x.to_be_bytes().to_vec();
        let (addr, code, body): (u16, u8, Vec<u8>) = match self {
            Ev::BootloaderHello(e) => (e.programmer_address, 0, be(e.bootloader_address)),
            Ev::ProgrammerHello(e) => (0xffff, 1, be(e.programmer_address)),
            Ev::StartFirmware(e) => (e.receiver_address, 2, [be(e.programmer_address), e.firmware_size.to_be_bytes().to_vec()].concat()),
            Ev::Ack(e) => (e.receiver_address, 3, be(e.transmitter_address)),
            Ev::Data(e) => (e.receiver_address, 4, [be(e.transmitter_address), be(e.data_len), e.data.clone()].concat()),
            Ev::ConfiguratorHello(_) => (0xffff, 5, vec![]),
            Ev::BcmChange(e) => (e.bcm_address, 6, [be(e.transmitter_address), vec![e.index], bcm_bytes(&e.value)].concat()),
            Ev::Pressed(e) => (e.receiver_address, 7, [be(e.button_address), vec![e.index]].concat()),
            Ev::Released(e) => (e.receiver_address, 8, [be(e.button_address), vec![e.index]].concat()),
            Ev::Tick(e) => (e.receiver_address, 9, vec![]),
            Ev::StartConfig(e) => (e.receiver_address, 10, [be(e.programmer_address), e.config_size.to_be_bytes().to_vec()].concat()),
            Ev::SetAddress(e) => (e.receiver_address, 11, [be(e.programmer_address), be(e.new_address)].concat()),
            Ev::Message(e) => {
                let img: Vec<u8> = match e.value {
                    MessageValue::U8(x) => vec![0, 0, 0, 0, x, 0, 0, 0],
                    MessageValue::U16(x) => vec![1, 0, 0, 0, x as u8, (x >> 8) as u8, 0, 0],
                    MessageValue::U32(x) => [vec![2, 0, 0, 0], x.to_le_bytes().to_vec()].concat(),
                    MessageValue::Bool(b) => vec![3, 0, 0, 0, b as u8, 0, 0, 0],
                };
                (e.receiver_address, 12, [be(e.transmitter_address), be(e.code), img].concat())
            }
            Ev::BcmAnimate(e) => (e.bcm_address, 13, [be(e.transmitter_address), vec![e.index], e.duration.to_be_bytes().to_vec(), bcm_bytes(&e.target_value)].concat()),
            Ev::RelaySet(e) => {
                let v = match e.value {
                    RelayValue::Single(true) => 0,
                    RelayValue::Single(false) => 1,
                    RelayValue::DoubleExclusive(RelayDoubleExclusiveValue::FirstChannelOn) => 2,
                    RelayValue::DoubleExclusive(RelayDoubleExclusiveValue::SecondChannelOn) => 3,
                    RelayValue::DoubleExclusive(RelayDoubleExclusiveValue::NoChannelOn) => 4,
                };
                (e.relay_address, 14, [be(e.transmitter_address), vec![e.index, v]].concat())
            }
            Ev::GatewayDiscover(e) => (e.device_address, 15, be(e.gateway_address)),
        };
        Packet { is_error: false, device_address: addr, data: [vec![0, code], body].concat() }
    }
}

/// name of an error value judged by its raw bytes (`None`: not the image of any `ConvertPacketError`)
pub fn cerr_raw(e: &ConvertPacketError) -> Option<&'static str> {
    const N: usize = std::mem::size_of::<ConvertPacketError>();
    let raw = |x: &ConvertPacketError| -> [u8; N] { unsafe { std::ptr::read(x as *const ConvertPacketError as *const [u8; N]) } };
    let table = [
        (ConvertPacketError::WrongSize, "WrongSize"),
        (ConvertPacketError::UnknownEnumVariant, "UnknownEnumVariant"),
        (ConvertPacketError::WrongType, "WrongType"),
        (ConvertPacketError::Event(EventError::WrongEventType), "WrongEventType"),
    ];
    let r = raw(e);
    table.iter().find(|(v, _)| raw(v) == r).map(|(_, n)| *n)
}
