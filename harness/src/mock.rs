//! Scripted devices. A device that is asked again after its script ran dry *inside one call* means the
//! code under test is spinning in `block!`: the mock aborts the call with a recognisable panic.
use std::collections::VecDeque;
use std::io;
use std::sync::{Arc, Mutex};
use std::time::Duration;

pub const BLOCKED: &str = "MOCK-BLOCKED";

#[derive(Clone, Copy, Debug, PartialEq)]
pub enum ByteItem { Byte(u8), WouldBlock, Error, Interrupted, Eof }

#[derive(Default)]
pub struct ByteScript { pub rx: VecDeque<ByteItem>, pub dry_reads: usize, pub tx: Vec<u8>, pub wresp: VecDeque<char>, pub io_resp: VecDeque<IoResp>, pub flush_answers: VecDeque<bool>, pub chunk: usize, pub flushes: usize }
#[derive(Clone, Copy, Debug)]
pub enum IoResp { Wrote(usize), Interrupted, Error }
pub type Shared = Arc<Mutex<ByteScript>>;

/// embedded-hal USART
pub struct UsartDev(pub Shared);
impl embedded_hal::serial::Read<u8> for UsartDev {
    type Error = ();
    fn read(&mut self) -> nb::Result<u8, ()> {
        let mut s = self.0.lock().unwrap_or_else(|e| e.into_inner());
        match s.rx.pop_front() {
            Some(ByteItem::Byte(b)) => Ok(b),
            Some(ByteItem::WouldBlock) => Err(nb::Error::WouldBlock),
            Some(_) => Err(nb::Error::Other(())),
            None => { s.dry_reads += 1; if s.dry_reads > 1 { panic!("{}", BLOCKED); } Err(nb::Error::WouldBlock) }
        }
    }
}
impl embedded_hal::serial::Write<u8> for UsartDev {
    type Error = ();
    fn write(&mut self, b: u8) -> nb::Result<(), ()> {
        let mut s = self.0.lock().unwrap_or_else(|e| e.into_inner());
        match s.wresp.pop_front() { None | Some('a') => { s.tx.push(b); Ok(()) } Some('.') => Err(nb::Error::WouldBlock), _ => Err(nb::Error::Other(())) }
    }
    fn flush(&mut self) -> nb::Result<(), ()> { Ok(()) }
}

/// std serial port
pub struct SerialDev(pub Shared);
impl io::Read for SerialDev {
    fn read(&mut self, buf: &mut [u8]) -> io::Result<usize> {
        let mut s = self.0.lock().unwrap_or_else(|e| e.into_inner());
        if buf.is_empty() { return Ok(0); }
        match s.rx.front().copied() {
            None => { s.dry_reads += 1; if s.dry_reads > 1 { panic!("{}", BLOCKED); } Err(io::Error::new(io::ErrorKind::TimedOut, "dry")) }
            Some(ByteItem::WouldBlock) => { s.rx.pop_front(); Err(io::Error::new(io::ErrorKind::TimedOut, "timeout")) }
            Some(ByteItem::Error) => { s.rx.pop_front(); Err(io::Error::new(io::ErrorKind::Other, "io")) }
            Some(ByteItem::Interrupted) => { s.rx.pop_front(); Err(io::Error::new(io::ErrorKind::Interrupted, "intr")) }
            Some(ByteItem::Eof) => { s.rx.pop_front(); Ok(0) }
            Some(ByteItem::Byte(_)) => {
                let max = buf.len().min(s.chunk.max(1));
                let mut n = 0;
                while n < max { match s.rx.front().copied() { Some(ByteItem::Byte(b)) => { buf[n] = b; n += 1; s.rx.pop_front(); } _ => break } }
                Ok(n)
            }
        }
    }
}
impl io::Write for SerialDev {
    fn write(&mut self, buf: &[u8]) -> io::Result<usize> {
        let mut s = self.0.lock().unwrap_or_else(|e| e.into_inner());
        match s.io_resp.pop_front() {
            None => { s.tx.extend_from_slice(buf); Ok(buf.len()) }
            Some(IoResp::Wrote(n)) => { let k = n.min(buf.len()); s.tx.extend_from_slice(&buf[..k]); Ok(k) }
            Some(IoResp::Interrupted) => Err(io::Error::new(io::ErrorKind::Interrupted, "intr")),
            Some(IoResp::Error) => Err(io::Error::new(io::ErrorKind::Other, "io")),
        }
    }
    fn flush(&mut self) -> io::Result<()> { let mut s = self.0.lock().unwrap_or_else(|e| e.into_inner()); s.flushes += 1; if s.flush_answers.pop_front().unwrap_or(true) { Ok(()) } else { Err(io::Error::new(io::ErrorKind::Other, "flush")) } }
}
use serialport::*;
impl SerialPort for SerialDev {
    fn name(&self) -> Option<String> { None } fn baud_rate(&self) -> Result<u32> { Ok(0) } fn data_bits(&self) -> Result<DataBits> { Ok(DataBits::Eight) }
    fn flow_control(&self) -> Result<FlowControl> { Ok(FlowControl::None) } fn parity(&self) -> Result<Parity> { Ok(Parity::None) } fn stop_bits(&self) -> Result<StopBits> { Ok(StopBits::One) }
    fn timeout(&self) -> Duration { Duration::ZERO } fn set_baud_rate(&mut self, _: u32) -> Result<()> { Ok(()) } fn set_data_bits(&mut self, _: DataBits) -> Result<()> { Ok(()) }
    fn set_flow_control(&mut self, _: FlowControl) -> Result<()> { Ok(()) } fn set_parity(&mut self, _: Parity) -> Result<()> { Ok(()) } fn set_stop_bits(&mut self, _: StopBits) -> Result<()> { Ok(()) }
    fn set_timeout(&mut self, _: Duration) -> Result<()> { Ok(()) } fn write_request_to_send(&mut self, _: bool) -> Result<()> { Ok(()) } fn write_data_terminal_ready(&mut self, _: bool) -> Result<()> { Ok(()) }
    fn read_clear_to_send(&mut self) -> Result<bool> { Ok(true) } fn read_data_set_ready(&mut self) -> Result<bool> { Ok(true) } fn read_ring_indicator(&mut self) -> Result<bool> { Ok(true) } fn read_carrier_detect(&mut self) -> Result<bool> { Ok(true) }
    fn bytes_to_read(&self) -> Result<u32> { Ok(0) } fn bytes_to_write(&self) -> Result<u32> { Ok(0) } fn clear(&self, _: ClearBuffer) -> Result<()> { Ok(()) }
    fn try_clone(&self) -> Result<Box<dyn SerialPort>> { Ok(Box::new(SerialDev(self.0.clone()))) } fn set_break(&self) -> Result<()> { Ok(()) } fn clear_break(&self) -> Result<()> { Ok(()) }
}

/// scripted bxCAN controller
#[derive(Clone)]
pub enum CanItem { Frame(bxcan::Frame), WouldBlock, Overrun }
#[derive(Default)]
pub struct CanScript { pub rx: VecDeque<CanItem>, pub dry_reads: usize, pub tx: Vec<bxcan::Frame>, pub tresp: VecDeque<char> }
pub struct CanDev(pub Arc<Mutex<CanScript>>);
unsafe impl bxcan::Instance for CanDev {
    const REGISTERS: *mut bxcan::RegisterBlock = std::ptr::null_mut();
    fn sim_receive(&mut self) -> nb::Result<bxcan::Frame, ()> {
        let mut s = self.0.lock().unwrap_or_else(|e| e.into_inner());
        match s.rx.pop_front() {
            Some(CanItem::Frame(f)) => Ok(f), Some(CanItem::WouldBlock) => Err(nb::Error::WouldBlock), Some(CanItem::Overrun) => Err(nb::Error::Other(())),
            None => { s.dry_reads += 1; if s.dry_reads > 1 { panic!("{}", BLOCKED); } Err(nb::Error::WouldBlock) }
        }
    }
    fn sim_transmit(&mut self, f: &bxcan::Frame) -> nb::Result<Option<bxcan::Frame>, core::convert::Infallible> {
        let mut s = self.0.lock().unwrap_or_else(|e| e.into_inner());
        match s.tresp.pop_front() { None | Some('s') => { s.tx.push(f.clone()); Ok(None) } Some('.') => Err(nb::Error::WouldBlock), _ => { s.tx.push(f.clone()); Ok(Some(f.clone())) } }
    }
}
