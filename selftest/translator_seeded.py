#!/usr/bin/env python3
"""selftest/translator_seeded.py [glob]: the translator channel alone (bin/srccheck) over seeded property-breaking changes
(default seeded/*-em*): which `*_src_*` proof obligations break, which functions leave the translatable subset. Updates the
`translator` entry of selftest/results.round5.json and results.json; prints one line per change."""
import subprocess, json, sys, os, shutil, glob
from concurrent.futures import ThreadPoolExecutor
V = os.path.dirname(os.path.dirname(os.path.abspath(__file__)))
S = "/tmp/translator_seeded"
pat = sys.argv[1] if len(sys.argv) > 1 else "*-em*"
shutil.rmtree(S, ignore_errors=True)
os.makedirs(S)


def one(d):
    name = os.path.basename(d)
    w = os.path.join(S, name)
    os.makedirs(w)
    shutil.copytree("/repo/src", os.path.join(w, "src"))
    p = subprocess.run(["patch", "-p1", "-s", "-i", os.path.join(d, "patch.diff")], cwd=w, stdout=subprocess.PIPE, stderr=subprocess.STDOUT, text=True)
    if p.returncode != 0:
        return name, None
    r = subprocess.run([os.path.join(V, "bin", "srccheck"), "--repo", w, "--work", os.path.join(w, "work")], stdout=subprocess.PIPE, text=True).stdout
    shutil.rmtree(w, ignore_errors=True)
    try:
        return name, json.loads(r)
    except Exception:
        return name, None


try:
    out = {}
    with ThreadPoolExecutor(max_workers=6) as ex:
        for name, d in ex.map(one, sorted(glob.glob(os.path.join(V, "seeded", pat)))):
            out[name] = d
            print("%-10s %s" % (name, "ERROR" if d is None else "breaks %s; not translated %s" % (d["failed"] or "-", d["not_translated"] or "-")), flush=True)
    for f in ("results.round5.json", "results.json"):
        p = os.path.join(V, "selftest", f)
        r = json.load(open(p))
        for k, d in out.items():
            if k in r and d is not None:
                r[k]["translator"] = d
        json.dump(r, open(p, "w"), indent=1)
finally:
    shutil.rmtree(S, ignore_errors=True)
