#!/usr/bin/env python3
"""Generates selftest/own/<name>.diff: the framework author's own catalogue of small patches to /repo —
property-breaking ones (b*) and behaviour-preserving rewrites that must stay quiet (h*).
Works in a scratch worktree under /tmp which is removed afterwards. Usage: selftest/own_mutants.py"""
import subprocess, os, sys, json, shutil

WT = "/tmp/wt_own"
OUT = os.path.join(os.path.dirname(os.path.abspath(__file__)), "own")


def sh(*cmd, **kw):
    return subprocess.run(cmd, stdout=subprocess.PIPE, stderr=subprocess.STDOUT, text=True, **kw)


def sub(path, old, new, count=1):
    p = os.path.join(WT, path)
    s = open(p).read()
    assert old in s, (path, old)
    open(p, "w").write(s.replace(old, new, count))


GUARD_TYPE = """        if !frame.not_error_flag != self.is_error {
            return Err(PacketBuilderError::WrongFrameType);
        }
"""
GUARD_ADDR = """        if frame.device_address != self.device_address {
            return Err(PacketBuilderError::DeviceAddressMismatch);
        }
"""
RESET_CAN = """                        if let Err(err) = packet_builder.add_frame(ross_frame) {
                            self.packet_builder = None;
"""
RESET_USART = """                            if let Err(err) = packet_builder.add_frame(ross_frame) {
                                self.packet_builder = None;
"""

# (name, breaks [property ids expected to be concerned] or [] for harmless, description, edits)
M = [
    ("b01_can_id_mask", ["C08", "C02", "C13"], "to_bxcan_frame: id nibble mask 0x0f00 -> 0x0700 (LastFrameId arm): ids >= 2048 lose a bit",
     lambda: sub("src/frame.rs", "FrameId::LastFrameId(frame_id) => id |= ((frame_id & 0x0f00) as u32 >> 8) << 16", "FrameId::LastFrameId(frame_id) => id |= ((frame_id & 0x0700) as u32 >> 8) << 16")),
    ("b02_can_flag_bits_swapped_dec", ["C08"], "from_bxcan_frame: start/multi flag bits swapped",
     lambda: (sub("src/frame.rs", "let start_frame_flag = ((id >> 27) & 0x0001) != 0;", "let start_frame_flag = ((id >> 26) & 0x0001) != 0;"),
              sub("src/frame.rs", "let multi_frame_flag = ((id >> 26) & 0x0001) != 0;", "let multi_frame_flag = ((id >> 27) & 0x0001) != 0;"))),
    ("b03_single_frame_threshold", ["C10"], "to_frames: <= 8 -> < 8 (8-byte packets become two frames)",
     lambda: sub("src/packet.rs", "if self.data.len() <= 8 {", "if self.data.len() < 8 {")),
    ("b04_no_wrong_type_guard", ["C07", "C06"], "add_frame: WrongFrameType guard dropped", lambda: sub("src/packet.rs", GUARD_TYPE, "")),
    ("b05_too_many_frames_gt", ["C07"], "add_frame: >= -> > in the TooManyFrames guard",
     lambda: sub("src/packet.rs", "if frame_id >= self.expected_frame_count {", "if frame_id > self.expected_frame_count {")),
    ("b06_can_no_builder_reset", ["C06", "C19"], "can.rs: builder not reset when add_frame fails", lambda: sub("src/interface/can.rs", RESET_CAN, RESET_CAN.replace("                            self.packet_builder = None;\n", ""))),
    ("b07_ack_data_codes_swapped", ["C11"], "event codes of ack and data swapped", lambda: (sub("src/event/event_code.rs", "ACK_EVENT_CODE: u16 = 0x0003", "ACK_EVENT_CODE: u16 = 0x0004"), sub("src/event/event_code.rs", "DATA_EVENT_CODE: u16 = 0x0004", "DATA_EVENT_CODE: u16 = 0x0003"))),
    ("b08_bcm_rgbw_tag_both_sides", ["C11", "C05"], "brightness Rgbw tag 0x04 -> 0x06 in encoder and decoder (round trip intact)",
     lambda: (sub("src/event/bcm.rs", "vec![0x04, red, green, blue, white]", "vec![0x06, red, green, blue, white]"), sub("src/event/bcm.rs", "            0x04 => {", "            0x06 => {"))),
    ("b09_serial_write_frame_not_all", ["C14"], "serial.rs: write instead of write_all for the frame body", lambda: sub("src/interface/serial.rs", "self.port.write_all(&frame_buf)", "self.port.write(&frame_buf)")),
    ("b10_usart_low_byte_mask", ["C09", "C02", "C13"], "to_usart_frame: id low byte mask 0x00ff -> 0x007f (LastFrameId arm)",
     lambda: sub("src/frame.rs", "FrameId::LastFrameId(frame_id) => frame[1] |= (frame_id & 0x00ff) as u8", "FrameId::LastFrameId(frame_id) => frame[1] |= (frame_id & 0x007f) as u8")),
    ("b11_relay_single_swapped_both", ["C11"], "relay Single(true/false) bytes swapped in encoder and decoder",
     lambda: (sub("src/event/relay.rs", "vec![if value { 0x00 } else { 0x01 }]", "vec![if value { 0x01 } else { 0x00 }]"),
              sub("src/event/relay.rs", "0x00 => Ok(Self::Single(true)),\n            0x01 => Ok(Self::Single(false)),", "0x00 => Ok(Self::Single(false)),\n            0x01 => Ok(Self::Single(true)),"))),
    ("b12_usart_dec_nibble_mask", ["C09", "C02"], "from_usart_frame: id nibble mask 0x0f -> 0x07 (LastFrameId arm)",
     lambda: sub("src/frame.rs", "FrameId::LastFrameId((((frame[0] & 0x0f) as u16) << 8) | frame[1] as u16)", "FrameId::LastFrameId((((frame[0] & 0x07) as u16) << 8) | frame[1] as u16)")),
    ("b13_message_tag_gt4", ["C05"], "message decoder: discriminant check > 3 -> > 4", lambda: sub("src/event/message.rs", "if tag > 3 ||", "if tag > 4 ||")),
    ("b14_usart_rx_reads_one_more", ["C06", "C13"], "usart.rs: body loop < -> <= (reads one byte too many)", lambda: sub("src/interface/usart.rs", "while frame.len() < expected_length as usize {", "while frame.len() <= expected_length as usize {")),
    ("b15_last_frame_len", ["C10", "C02"], "to_frames: last frame length % 7 + 1 -> % 7 + 2", lambda: sub("src/packet.rs", "self.data.len() % 7 + 1", "self.data.len() % 7 + 2")),
    ("b16_usart_no_builder_reset", ["C06", "C19"], "usart.rs: builder not reset when add_frame fails", lambda: sub("src/interface/usart.rs", RESET_USART, RESET_USART.replace("                                self.packet_builder = None;\n", ""))),
    ("b17_no_address_guard", ["C07", "C06"], "add_frame: DeviceAddressMismatch guard dropped", lambda: sub("src/packet.rs", GUARD_ADDR, "")),
    ("b18_can_displaced_ignored", ["C14"], "can.rs: displaced frame report ignored (continue instead of MailboxFull)", lambda: sub("src/interface/can.rs", "return Err(InterfaceError::CanError(CanError::MailboxFull));", "continue;")),
    ("b19_tick_no_broadcast", ["C15", "C01"], "tick: broadcast packets no longer count as owned",
     lambda: sub("src/protocol.rs", "                if packet.device_address == self.device_address\n                    || packet.device_address == BROADCAST_ADDRESS\n                {", "                if packet.device_address == self.device_address {")),
    ("b20_next_id_is_len", ["C17"], "get_next_handler_id returns the number of handlers (collides after a removal)",
     lambda: sub("src/protocol.rs", "        let mut first_available_id = 0;\n\n        for id in self.handlers.keys() {\n            if first_available_id == *id {\n                first_available_id += 1;\n            }\n        }\n\n        return first_available_id;", "        return self.handlers.len() as u32;")),
    ("b21_loopback_also_transmits", ["C16"], "send_packet: loop-back no longer returns early (own packets also go to the link)",
     lambda: sub("src/protocol.rs", "            if self.device_address != BROADCAST_ADDRESS {\n                return Ok(());\n            }\n", "")),
    ("b22_exchange_stops_at_first_nonmatch", ["C18"], "exchange_packet: a packet that does not decode ends the wait with a timeout",
     lambda: sub("src/protocol.rs", "                        if let Ok(received_event) = R::try_from_packet(&received_packet) {\n                            return Ok(received_event);\n                        }\n", "                        if let Ok(received_event) = R::try_from_packet(&received_packet) {\n                            return Ok(received_event);\n                        } else {\n                            break;\n                        }\n")),
    ("b23_exchange_all_no_filter", ["C18"], "exchange_packets: address filter dropped",
     lambda: sub("src/protocol.rs", "                    if capture_all_addresses\n                        || received_packet.device_address == self.device_address\n                        || received_packet.device_address == BROADCAST_ADDRESS\n                    {\n                        if let Ok(received_event) = R::try_from_packet(&received_packet) {\n                            events.push(received_event);\n                        }\n                    }", "                    if let Ok(received_event) = R::try_from_packet(&received_packet) {\n                        events.push(received_event);\n                    }")),
    ("b24_remove_missing_ok", ["C17"], "remove_packet_handler: Ok for an id that is not registered", lambda: sub("src/protocol.rs", "            None => Err(ProtocolError::NoSuchHandler),", "            None => Ok(()),")),
    ("b25_dispatch_and", ["C15", "C01"], "handle_packet: owned || capture -> owned && capture", lambda: sub("src/protocol.rs", "if owned_address || handler.1 {", "if owned_address && handler.1 {")),
    ("b26_can_addr_mask", ["C08"], "from_bxcan_frame: address mask 0xffff -> 0x7fff", lambda: sub("src/frame.rs", "let device_address = ((id >> 0) & 0xffff) as u16;", "let device_address = ((id >> 0) & 0x7fff) as u16;")),
    ("b27_build_keeps_id_byte_of_last", ["C07", "C02"], "build: the id byte is skipped only for frames with data_len > 1",
     lambda: sub("src/packet.rs", "let start_index = if frame.multi_frame_flag { 1 } else { 0 };", "let start_index = if frame.multi_frame_flag && frame.data_len > 1 { 1 } else { 0 };")),
    ("b28_out_of_order_lt", ["C07", "C06"], "add_frame: id != frames so far -> id < frames so far (later frames accepted early)",
     lambda: sub("src/packet.rs", "if frame_id != self.frames.len() as u16 {", "if frame_id < self.frames.len() as u16 {")),
    ("b29_frame_count_multiple_of_7", ["C10", "C02"], "to_frames: frame count len / 7 + 1 (one frame too many at multiples of 7)",
     lambda: sub("src/packet.rs", "let frame_count = (self.data.len() - 1) / 7 + 1;", "let frame_count = self.data.len() / 7 + 1;")),
    ("b30_usart_no_clear_after_delivery", ["C13", "C06", "C19"], "usart.rs: builder not cleared after a delivery",
     lambda: sub("src/interface/usart.rs", "                                self.packet_builder = None;\n\n                                return Ok(packet);", "                                return Ok(packet);")),
    ("b31_frame_id_missing_dropped", ["C08", "C04"], "from_bxcan_frame: multi-frame frames without data are accepted",
     lambda: sub("src/frame.rs", "                    if data_len == 0 {\n                        return Err(FrameError::FrameIdMissing);\n                    }\n\n", "")),
    ("b32_serial_flush_ignored", ["C14"], "serial.rs: flush failure ignored",
     lambda: sub("src/interface/serial.rs", "        if let Err(err) = self.port.flush() {\n            Err(InterfaceError::SerialError(SerialError::WriteError(err)))\n        } else {\n            Ok(())\n        }", "        let _ = self.port.flush();\n        Ok(())")),
    ("b33_ack_fields_swapped_enc", ["C03", "C11"], "AckEvent::to_packet addresses the packet to the transmitter and carries the receiver",
     lambda: (sub("src/event/general.rs", "        for byte in u16::to_be_bytes(self.transmitter_address).iter() {\n            data.push(*byte);\n        }\n\n        Packet {\n            is_error: false,\n            device_address: self.receiver_address,", "        for byte in u16::to_be_bytes(self.receiver_address).iter() {\n            data.push(*byte);\n        }\n\n        Packet {\n            is_error: false,\n            device_address: self.transmitter_address,"))),
    ("b34_relay_extra_variant", ["C05"], "relay decoder accepts tag 0x05 as NoChannelOn",
     lambda: sub("src/event/relay.rs", "            _ => Err(ConvertPacketError::UnknownEnumVariant),", "            0x05 => Ok(Self::DoubleExclusive(RelayDoubleExclusiveValue::NoChannelOn)),\n            _ => Err(ConvertPacketError::UnknownEnumVariant),")),
    ("b35_usart_dlen_ge8", ["C04"], "from_usart_frame: declared length check > 8 -> > 9 (9 data bytes overflow the array)",
     lambda: sub("src/frame.rs", "|| frame[4] > 8 {", "|| frame[4] > 9 {")),
    ("b36_tick_nothing_is_error", ["C15"], "tick: NoPacketReceived is returned as an error",
     lambda: sub("src/protocol.rs", "                InterfaceError::NoPacketReceived => Ok(()),\n                _ => Err(ProtocolError::InterfaceError(err)),\n            },\n        }\n    }\n\n    pub fn send_packet", "                _ => Err(ProtocolError::InterfaceError(err)),\n            },\n        }\n    }\n\n    pub fn send_packet")),
    ("b37_new_announces_one_less", ["C07", "C02"], "PacketBuilder::new: announced count = last id (no + 1) for multi-frame packets",
     lambda: sub("src/packet.rs", "            last_frame_id + 1\n", "            if frame.multi_frame_flag { last_frame_id.max(1) } else { last_frame_id + 1 }\n")),
    # behaviour-preserving rewrites: no check may fire
    ("h01_copy_from_slice", [], "to_frames: byte loop -> copy_from_slice", lambda: sub("src/packet.rs", "            for i in 0..self.data.len() {\n                data[i] = self.data[i];\n            }\n", "            data[..self.data.len()].copy_from_slice(&self.data);\n")),
    ("h02_guards_swapped", [], "add_frame: type and address guards in the other order (a different but applicable reason)", lambda: (sub("src/packet.rs", GUARD_TYPE + "\n" + GUARD_ADDR, GUARD_ADDR + "\n" + GUARD_TYPE))),
    ("h03_remote_reported_standard", [], "from_bxcan_frame: remote frames rejected with FrameIsStandard", lambda: sub("src/frame.rs", "Err(FrameError::FrameIsRemote)", "Err(FrameError::FrameIsStandard)")),
    ("h04_ack_type_before_size", [], "ack decoder: error-flag check before the size check",
     lambda: sub("src/event/general.rs", "        if packet.data.len() != 4 {\n            return Err(ConvertPacketError::WrongSize);\n        }\n\n        if packet.is_error {\n            return Err(ConvertPacketError::WrongType);\n        }\n", "        if packet.is_error {\n            return Err(ConvertPacketError::WrongType);\n        }\n\n        if packet.data.len() != 4 {\n            return Err(ConvertPacketError::WrongSize);\n        }\n")),
    ("h05_bcm_binary_eq1", [], "brightness decoder: Binary(data[1] == 1) instead of != 0 (differs only on non-canonical flag bytes)", lambda: sub("src/event/bcm.rs", "Ok(Self::Binary(data[1] != 0x00))", "Ok(Self::Binary(data[1] == 0x01))")),
    ("h06_next_id_rewritten", [], "get_next_handler_id: same least-free-id, written as a search",
     lambda: sub("src/protocol.rs", "        let mut first_available_id = 0;\n\n        for id in self.handlers.keys() {\n            if first_available_id == *id {\n                first_available_id += 1;\n            }\n        }\n\n        return first_available_id;", "        let mut id = 0;\n        while self.handlers.contains_key(&id) {\n            id += 1;\n        }\n        id")),
    ("h07_usart_body_for_loop", [], "usart.rs: body read loop written as a counted for loop",
     lambda: sub("src/interface/usart.rs", "while frame.len() < expected_length as usize {", "for _ in 0..expected_length as usize {")),
    ("h09_handlers_reverse_order", [], "handle_packet invokes the handlers in descending id order (no property fixes the order among the handlers of one packet)",
     lambda: sub("src/protocol.rs", "for handler in transmute::<&Self, &mut Self>(self).handlers.values_mut() {", "for handler in transmute::<&Self, &mut Self>(self).handlers.values_mut().rev() {")),
    ("h10_bcm_binary_strict", [], "brightness decoder rejects Binary flag bytes other than 0/1 (stricter than the pinned code; no property requires accepting them)",
     lambda: sub("src/event/bcm.rs", "                Ok(Self::Binary(data[1] != 0x00))", "                if data[1] > 0x01 {\n                    return Err(ConvertPacketError::UnknownEnumVariant);\n                }\n\n                Ok(Self::Binary(data[1] != 0x00))")),
    ("h11_serial_one_write_per_frame", [], "serial.rs: delimiter, length and frame written with one write_all per frame (the device's answers meet other write calls; bytes, order, flush and error propagation unchanged)",
     lambda: sub("src/interface/serial.rs", """            let buf = [0x00; 1];
            if let Err(err) = self.port.write_all(&buf) {
                return Err(InterfaceError::SerialError(SerialError::WriteError(err)));
            }

            let buf = [frame_buf.len() as u8; 1];
            if let Err(err) = self.port.write_all(&buf) {
                return Err(InterfaceError::SerialError(SerialError::WriteError(err)));
            }

            if let Err(err) = self.port.write_all(&frame_buf) {
                return Err(InterfaceError::SerialError(SerialError::WriteError(err)));
            }
""", """            let mut buf = vec![0x00, frame_buf.len() as u8];
            buf.extend_from_slice(&frame_buf);
            if let Err(err) = self.port.write_all(&buf) {
                return Err(InterfaceError::SerialError(SerialError::WriteError(err)));
            }
""")),
    ("h12_usart_encode_once", [], "usart.rs: each frame encoded once instead of twice when sending",
     lambda: sub("src/interface/usart.rs", "for byte in frame.to_usart_frame().iter() {", "for byte in usart_frame.iter() {")),
    ("h13_can_while_let", [], "can.rs: receive loop written as `while let Ok(frame) = …`",
     lambda: (sub("src/interface/can.rs", "        loop {\n            match self.can.receive() {\n                Ok(frame) => {", "        while let Ok(frame) = self.can.receive() {\n            {\n                {"),
              sub("src/interface/can.rs", "                }\n                Err(_) => break,\n            }\n        }\n", "                }\n            }\n        }\n"))),
    ("h08_builder_with_capacity", [], "PacketBuilder::new preallocates room for the announced frames",
     lambda: sub("src/packet.rs", "            frames: vec![frame],\n", "            frames: {\n                let mut v = Vec::with_capacity(expected_frame_count as usize);\n                v.push(frame);\n                v\n            },\n")),
]


def main():
    shutil.rmtree(OUT, ignore_errors=True)
    os.makedirs(OUT)
    sh("git", "-C", "/repo", "worktree", "remove", "--force", WT)
    r = sh("git", "-C", "/repo", "worktree", "add", "--detach", WT, "HEAD")
    assert r.returncode == 0, r.stdout
    index = []
    try:
        for name, breaks, desc, edit in M:
            sh("git", "-C", WT, "checkout", "--", ".")
            edit()
            d = sh("git", "-C", WT, "diff", "--", "src").stdout
            assert d.strip(), name
            open(os.path.join(OUT, name + ".diff"), "w").write(d)
            index.append({"name": name, "breaks": breaks, "what": desc})
    finally:
        sh("git", "-C", "/repo", "worktree", "remove", "--force", WT)
    json.dump(index, open(os.path.join(OUT, "index.json"), "w"), indent=1)
    print(len(index), "patches written to", OUT)


if __name__ == "__main__":
    main()
