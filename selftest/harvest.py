#!/usr/bin/env python3
"""selftest/harvest.py <Cxx> [...]: confirm the seeded changes a sub-agent left in /tmp/wt/<Cxx>/seeded_out/m*/
in a scratch worktree of /repo (suite still passes with the change; the demonstration fails with it and passes
without it) and keep the confirmed ones as /verif/seeded/<Cxx>-m<k>/{patch.diff, demo.rs, meta.json}."""
import subprocess, os, sys, json, shutil, re

VERIF = os.path.dirname(os.path.dirname(os.path.abspath(__file__)))
WT = "/tmp/wt_confirm"


def sh(cmd, **kw):
    return subprocess.run(cmd, stdout=subprocess.PIPE, stderr=subprocess.STDOUT, text=True, errors="replace", env=dict(os.environ, CARGO_NET_OFFLINE="true"), **kw)


def suite(cwd):
    t = sh(["cargo", "test", "--offline", "--lib"], cwd=cwd)
    m = re.search(r"test result: (\w+)\. (\d+) passed; (\d+) failed", t.stdout)
    return bool(m and m.group(1) == "ok" and m.group(2) == "51"), (m.group(0) if m else t.stdout[-300:])


def demo(cwd, cmd):
    t = sh(["bash", "-c", cmd], cwd=cwd)
    res = re.findall(r"test result: (\w+)\. (\d+) passed; (\d+) failed", t.stdout)
    ok = t.returncode == 0 and bool(res) and all(r[0] == "ok" for r in res)
    return ok, (t.stdout[-400:] if not ok else "; ".join("%s %s passed %s failed" % r for r in res))


def main():
    ids = sys.argv[1:]
    sh(["git", "-C", "/repo", "worktree", "remove", "--force", WT])
    r = sh(["git", "-C", "/repo", "worktree", "add", "--detach", WT, "HEAD"])
    assert r.returncode == 0, r.stdout
    try:
        for wid in ids:
            pid, rnd = wid[:3], wid[3:]      # "C01b": second-round worktree of property C01
            base = "/tmp/wt/%s/seeded_out" % wid
            for m in sorted(os.listdir(base)) if os.path.isdir(base) else []:
                d = os.path.join(base, m)
                try:
                    meta = json.load(open(os.path.join(d, "meta.json")))
                except Exception as e:
                    print(pid, m, "no meta:", e)
                    continue
                cmd = meta.get("demo_cmd", "cargo test --offline --test demo")
                if "--offline" not in cmd:
                    cmd = cmd.replace("cargo test", "cargo test --offline")
                sh(["git", "-C", WT, "checkout", "--", "."])
                shutil.rmtree(os.path.join(WT, "tests"), ignore_errors=True)
                a = sh(["git", "-C", WT, "apply", os.path.join(d, "patch.diff")])
                if a.returncode != 0:
                    print(pid, m, "patch does not apply", a.stdout[-200:])
                    continue
                b1 = sh(["cargo", "build", "--offline", "--features", "std"], cwd=WT).returncode == 0
                s_ok, s_txt = suite(WT)
                os.makedirs(os.path.join(WT, "tests"), exist_ok=True)
                shutil.copy(os.path.join(d, "demo.rs"), os.path.join(WT, "tests", "demo.rs"))
                with_ok, with_txt = demo(WT, cmd)
                sh(["git", "-C", WT, "checkout", "--", "src"])
                without_ok, without_txt = demo(WT, cmd)
                confirmed = b1 and s_ok and (not with_ok) and without_ok
                print(pid, m, "CONFIRMED" if confirmed else "REJECTED", "| build std:", b1, "| suite with change:", s_txt, "| demo with:", "pass" if with_ok else "FAIL", "| demo without:", "pass" if without_ok else "FAIL")
                if not confirmed:
                    print("    with:", with_txt[-300:].replace("\n", " | "))
                    print("    without:", without_txt[-300:].replace("\n", " | "))
                    continue
                out = os.path.join(VERIF, "seeded", "%s-%s%s" % (pid, rnd, m))
                os.makedirs(out, exist_ok=True)
                shutil.copy(os.path.join(d, "patch.diff"), os.path.join(out, "patch.diff"))
                shutil.copy(os.path.join(d, "demo.rs"), os.path.join(out, "demo.rs"))
                meta_out = {
                    "property": pid, "origin": "independent sub-agent given only the property text and a scratch worktree",
                    "summary": meta.get("summary"), "needs": meta.get("needs"), "demo_cmd": cmd,
                    "confirmed_by": {"what_was_run": "scratch worktree of /repo HEAD: git apply patch.diff; cargo build --offline --features std; cargo test --offline --lib; copy demo.rs to tests/demo.rs; demo_cmd (must fail); git checkout -- src; demo_cmd (must pass)",
                                     "suite_with_change": s_txt, "demo_with_change": "fails", "demo_without_change": without_txt},
                }
                json.dump(meta_out, open(os.path.join(out, "meta.json"), "w"), indent=1)
    finally:
        sh(["git", "-C", "/repo", "worktree", "remove", "--force", WT])


if __name__ == "__main__":
    main()
