#!/usr/bin/env python3
"""selftest/run_round5_ref.py: bin/mutest for the refactorings aimed at the newly translated code (ref-H24 decoders, ref-H25 receivers,
ref-H26 protocol) with the checks of the properties the edited functions are anchors of; results into selftest/results.round5.json."""
import subprocess, os, sys, json
V = os.path.dirname(os.path.dirname(os.path.abspath(__file__)))
RES = os.path.join(V, "selftest", "results.round5.json")
CHECKS = {"H24": "C01,C03,C05,C11,C12,C18", "H25": "C01,C06,C13,C19", "H26": "C01,C15,C16,C17,C18"}
results = json.load(open(RES)) if os.path.exists(RES) else {}
for m in json.load(open(os.path.join(V, "selftest", "refactor", "index.json"))):
    h = m["name"].split("-")[0]
    label = "ref-" + m["name"]
    if h not in CHECKS or label in results:
        continue
    p = subprocess.run([os.path.join(V, "bin", "mutest"), os.path.join(V, "selftest", "refactor", m["name"] + ".diff"), "--label", label, "--checks", CHECKS[h], "--skip-tests"],
                       stdout=subprocess.PIPE, stderr=subprocess.STDOUT, text=True)
    try:
        r = json.loads(p.stdout.strip().splitlines()[-1])
    except Exception:
        r = {"error": p.stdout[-500:], "fired": {}, "tests": None}
    r["expected"], r["checks_run"], r["what"] = [], CHECKS[h], m["what"]
    results[label] = r
    json.dump(results, open(RES, "w"), indent=1)
    fired = {k: v["kind"] for k, v in r["fired"].items()}
    tr = r.get("translator") or {}
    print("%-14s %-16s fired=%s translator_failed=%s not_translated=%s" % (label, "quiet" if not fired else "FALSE-ALARM", ",".join("%s%s" % (k, "" if v == "concrete" else "*") for k, v in sorted(fired.items())), tr.get("failed"), tr.get("not_translated")), flush=True)
