#!/usr/bin/env python3
"""selftest/thorough_all.py: runs the thorough tier of all 19 checks one after the other (evidence to work/thorough, so the
committed quick evidence is untouched) and writes selftest/thorough.md with lines judged and wall time per property."""
import subprocess, os, json, time
V = os.path.dirname(os.path.dirname(os.path.abspath(__file__)))
out = os.path.join(V, "work", "thorough")
os.makedirs(out, exist_ok=True)
rows = ["| property | exit | theorems audited | leanchecker | lines judged | distinct non-trivial | exhaustive scopes | wall s |", "|---|---|---|---|---|---|---|---|"]
for i in range(1, 20):
    pid = "C%02d" % i
    t0 = time.time()
    p = subprocess.run([os.path.join(V, "bin", "check"), pid, "--tier", "thorough"], cwd=V, stdout=subprocess.PIPE, stderr=subprocess.STDOUT, text=True,
                       env=dict(os.environ, VERIF_EVIDENCE_DIR=os.path.join(out, "evidence"), VERIF_REPLAY_DIR=os.path.join(out, "replays"), VERIF_WORK_DIR=os.path.join(out, "work")))
    dt = time.time() - t0
    try:
        e = json.load(open(os.path.join(out, "evidence", pid + ".json")))["coverage"]
        lc = e.get("leanchecker") or {}
        rows.append("| %s | %d | %d/%d | rc %s (%ss) | %s | %s | %d | %.0f |" % (pid, p.returncode, e["discharged"], e["obligations"], lc.get("rc"), lc.get("wall_s"), f'{e["evaluations"]:,}', f'{e["distinct_nontrivial"]:,}', len(e.get("exhaustive_scopes", [])), dt))
    except Exception as ex:
        rows.append("| %s | %d | ? | ? | ? | ? | ? | %.0f | %s" % (pid, p.returncode, dt, str(ex)[:80]))
    print(rows[-1], flush=True)
    open(os.path.join(V, "selftest", "thorough.md"), "w").write("\n".join(rows) + "\n")
