#!/usr/bin/env python3
"""selftest/run_all.py [--only substr] [--redo] [--targeted]: run bin/mutest (all 19 quick checks) for every seeded change under
seeded/*/patch.diff and every patch of the own catalogue selftest/own/*.diff, one after the other (they all patch
/repo and restore it), collect selftest/results.json and print the table that goes into DESIGN.md."""
import subprocess, os, sys, json, glob

VERIF = os.path.dirname(os.path.dirname(os.path.abspath(__file__)))
RES = os.path.join(VERIF, "selftest", "results.json")


def main():
    only = sys.argv[sys.argv.index("--only") + 1] if "--only" in sys.argv else None
    redo = "--redo" in sys.argv
    targeted = "--targeted" in sys.argv   # property-breaking changes: run only the checks of the properties they break (fast feedback)
    results = json.load(open(RES)) if os.path.exists(RES) else {}
    items = []
    for d in sorted(glob.glob(os.path.join(VERIF, "seeded", "*"))):
        if os.path.exists(os.path.join(d, "patch.diff")):
            meta = json.load(open(os.path.join(d, "meta.json")))
            items.append((os.path.basename(d), os.path.join(d, "patch.diff"), [meta["property"]], meta.get("summary", "")))
    idx = os.path.join(VERIF, "selftest", "own", "index.json")
    if os.path.exists(idx):
        for m in json.load(open(idx)):
            items.append(("own-" + m["name"], os.path.join(VERIF, "selftest", "own", m["name"] + ".diff"), m["breaks"], m["what"]))
    # behaviour-preserving refactorings written by independent sub-agents (selftest/refactor/<name>.diff): no check may fire
    ridx = os.path.join(VERIF, "selftest", "refactor", "index.json")
    if os.path.exists(ridx):
        for m in json.load(open(ridx)):
            items.append(("ref-" + m["name"], os.path.join(VERIF, "selftest", "refactor", m["name"] + ".diff"), [], m["what"]))
    first = True
    for label, patch, breaks, what in items:
        if only and only not in label:
            continue
        if label in results and not redo and not ("--complete" in sys.argv and results[label].get("checks_run") != "all"):
            continue
        extra = (["--checks", ",".join(breaks), "--skip-tests"] if (targeted and breaks) else [])
        p = subprocess.run([os.path.join(VERIF, "bin", "mutest"), patch, "--label", label] + extra + ([] if first else ["--no-refresh"]), stdout=subprocess.PIPE, stderr=subprocess.STDOUT, text=True)
        first = False
        try:
            r = json.loads(p.stdout.strip().splitlines()[-1])
        except Exception:
            r = {"error": p.stdout[-500:], "fired": {}, "tests": None}
        r["expected"] = breaks
        r["checks_run"] = "targeted" if (targeted and breaks) else "all"
        r["what"] = what
        results[label] = r
        json.dump(results, open(RES, "w"), indent=1)
        fired = {k: v["kind"] for k, v in r["fired"].items()}
        target = [b for b in breaks if b in fired]
        status = "quiet-as-expected" if not breaks and not fired else ("FALSE-ALARM" if not breaks else ("caught" if target else ("caught-elsewhere" if fired else "MISSED")))
        print("%-28s %-18s tests=%s fired=%s" % (label, status, (r.get("tests") or {}).get("passed"), ",".join("%s%s" % (k, "" if v == "concrete" else "*") for k, v in sorted(fired.items()))), flush=True)


if __name__ == "__main__":
    main()
