#!/usr/bin/env python3
"""selftest/translator_harmless.py: the translator channel alone (bin/srccheck) over every behaviour-preserving patch of the
self-test (selftest/own/h*.diff, selftest/refactor/*.diff), applied to scratch copies of /repo/src. No proof obligation may
break on any of them (items / functions that are no longer found or translated drop out of the tie). Exit 1 otherwise."""
import subprocess, json, sys, os, shutil, glob
V = os.path.dirname(os.path.dirname(os.path.abspath(__file__)))
S = "/tmp/translator_harmless"
bad = 0
shutil.rmtree(S, ignore_errors=True)
os.makedirs(S)
try:
    for f in sorted(glob.glob(os.path.join(V, "selftest", "own", "h*.diff")) + glob.glob(os.path.join(V, "selftest", "refactor", "*.diff"))):
        shutil.rmtree(os.path.join(S, "src"), ignore_errors=True)
        shutil.copytree("/repo/src", os.path.join(S, "src"))
        p = subprocess.run(["patch", "-p1", "-s", "-i", f], cwd=S, stdout=subprocess.PIPE, stderr=subprocess.STDOUT, text=True)
        if p.returncode != 0:
            print(os.path.basename(f), "patch does not apply", p.stdout[-200:])
            bad += 1
            continue
        r = subprocess.run([os.path.join(V, "bin", "srccheck"), "--repo", S, "--work", os.path.join(S, "work")], stdout=subprocess.PIPE, text=True).stdout
        d = json.loads(r)
        ok = not d["failed"] and not d["not_evaluated"] and not d["errors"]
        bad += not ok
        print("%-34s %-12s failed=%s not_translated=%s not_extracted=%d" % (os.path.basename(f), "quiet" if ok else "FALSE ALARM", d["failed"], d["not_translated"], len(d["not_extracted"])), flush=True)
finally:
    shutil.rmtree(S, ignore_errors=True)
sys.exit(1 if bad else 0)
