#!/usr/bin/env python3
"""selftest/translator_harmless.py [-j N]: the translator channel alone (bin/srccheck) over every behaviour-preserving patch of the
self-test (selftest/own/h*.diff, selftest/refactor/*.diff), applied to scratch copies of /repo/src (N at a time, default 6).
No proof obligation may break on any of them (items / functions that are no longer found or translated drop out of the
tie). Exit 1 otherwise. The two receiver-policy edits H17-r2 and H21-r4 are expected to break `src_usartAccept_eq` /
`src_canAccept_eq` (they change the receiver's policy inside C06's domain; DESIGN 0.4) and are listed as such."""
import subprocess, json, sys, os, shutil, glob
from concurrent.futures import ThreadPoolExecutor
V = os.path.dirname(os.path.dirname(os.path.abspath(__file__)))
S = "/tmp/translator_harmless"
POLICY = {"H17-r2.diff": {"src_usartAccept_eq"}, "H21-r4.diff": {"src_canAccept_eq"}}
jobs = int(sys.argv[sys.argv.index("-j") + 1]) if "-j" in sys.argv else 6
shutil.rmtree(S, ignore_errors=True)
os.makedirs(S)


def one(f):
    d = os.path.join(S, os.path.basename(f).replace(".diff", ""))
    os.makedirs(d)
    shutil.copytree("/repo/src", os.path.join(d, "src"))
    p = subprocess.run(["patch", "-p1", "-s", "-i", f], cwd=d, stdout=subprocess.PIPE, stderr=subprocess.STDOUT, text=True)
    if p.returncode != 0:
        return os.path.basename(f), None, p.stdout[-200:]
    r = subprocess.run([os.path.join(V, "bin", "srccheck"), "--repo", d, "--work", os.path.join(d, "work")], stdout=subprocess.PIPE, text=True).stdout
    shutil.rmtree(d, ignore_errors=True)
    try:
        return os.path.basename(f), json.loads(r), ""
    except Exception:
        return os.path.basename(f), None, r[-300:]


bad = 0
try:
    files = sorted(glob.glob(os.path.join(V, "selftest", "own", "h*.diff")) + glob.glob(os.path.join(V, "selftest", "refactor", "*.diff")))
    with ThreadPoolExecutor(max_workers=jobs) as ex:
        for name, d, err in ex.map(one, files):
            if d is None:
                print(name, "ERROR", err)
                bad += 1
                continue
            expected = POLICY.get(name, set())
            ok = set(d["failed"]) <= expected and not d["not_evaluated"] and not d["errors"]
            bad += not ok
            verdict = "quiet" if ok and not d["failed"] else ("policy change (expected)" if ok else "FALSE ALARM")
            print("%-34s %-24s failed=%s not_translated=%s not_extracted=%d" % (name, verdict, d["failed"], d["not_translated"], len(d["not_extracted"])), flush=True)
finally:
    shutil.rmtree(S, ignore_errors=True)
sys.exit(1 if bad else 0)
