#!/usr/bin/env python3
"""selftest/regress.py C15 C16 …: re-run (targeted, isolated) every property-breaking change of selftest/results.json whose target is one of
the given properties, after a change of the oracles; prints the ones that are no longer caught by their target check."""
import subprocess, os, sys, json
V = os.path.dirname(os.path.dirname(os.path.abspath(__file__)))
res = json.load(open(os.path.join(V, "selftest", "results.json")))
want = set(sys.argv[1:])
bad = 0
n = 0
for label, r in sorted(res.items()):
    exp = r.get("expected") or []
    if not exp or not (set(exp) & want):
        continue
    patch = os.path.join(V, r["patch"]) if not os.path.isabs(r["patch"]) else r["patch"]
    p = subprocess.run([os.path.join(V, "bin", "mutest"), patch, "--label", "rg-" + label, "--checks", ",".join(exp), "--skip-tests"] + (["--no-refresh"] if n else []), stdout=subprocess.PIPE, stderr=subprocess.STDOUT, text=True)
    n += 1
    try:
        d = json.loads(p.stdout.strip().splitlines()[-1])
    except Exception:
        print(label, "ERROR", p.stdout[-200:], flush=True)
        bad += 1
        continue
    fired = {k: v["kind"] for k, v in d["fired"].items()}
    ok = any(e in fired for e in exp)
    bad += not ok
    print("%-28s %-8s fired=%s" % (label, "caught" if ok else "MISSED", ",".join("%s%s" % (k, "" if v == "concrete" else "*") for k, v in sorted(fired.items()))), flush=True)
print("done: %d run, %d no longer caught" % (n, bad))
