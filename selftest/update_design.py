#!/usr/bin/env python3
"""replaces the self-test table of DESIGN.md (between the SELFTEST_TABLE markers) by the current selftest/results.json"""
import subprocess, os, re
V = os.path.dirname(os.path.dirname(os.path.abspath(__file__)))
t = subprocess.check_output([os.path.join(V, "selftest", "table.py")], text=True)
p = os.path.join(V, "DESIGN.md")
s = open(p).read()
s = s.replace("@@SELFTEST_TABLE@@", "<!-- SELFTEST_TABLE_BEGIN -->\n<!-- SELFTEST_TABLE_END -->")
s = re.sub(r"<!-- SELFTEST_TABLE_BEGIN -->.*?<!-- SELFTEST_TABLE_END -->", lambda m: "<!-- SELFTEST_TABLE_BEGIN -->\n" + t + "<!-- SELFTEST_TABLE_END -->", s, flags=re.S)
open(p, "w").write(s)
