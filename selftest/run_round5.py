#!/usr/bin/env python3
"""selftest/run_round3.py: run bin/mutest for the round-3 items (seeded/*-em*, selftest/refactor/H9..H12) into selftest/results.round5.json
(kept apart from results.json while a full-matrix run_all.py is rewriting that file; merged afterwards by --merge)."""
import subprocess, os, sys, json, glob
V = os.path.dirname(os.path.dirname(os.path.abspath(__file__)))
RES = os.path.join(V, "selftest", "results.round5.json")
if "--merge" in sys.argv:
    a = json.load(open(os.path.join(V, "selftest", "results.json")))
    a.update(json.load(open(RES)))
    json.dump(a, open(os.path.join(V, "selftest", "results.json"), "w"), indent=1)
    print("merged", len(a))
    sys.exit(0)
results = json.load(open(RES)) if os.path.exists(RES) else {}
items = []
for d in sorted(glob.glob(os.path.join(V, "seeded", "*-em*"))):
    meta = json.load(open(os.path.join(d, "meta.json")))
    items.append((os.path.basename(d), os.path.join(d, "patch.diff"), [meta["property"]], meta.get("summary", "")))
for m in []:
    if m["name"].split("-")[0] in ("H9", "H10", "H11", "H12", "H13", "H14", "H15", "H16", "H17", "H18", "H19", "H20", "H21", "H22", "H23"):
        items.append(("ref-" + m["name"], os.path.join(V, "selftest", "refactor", m["name"] + ".diff"), [], m["what"]))
full = "--full" in sys.argv
for label, patch, breaks, what in items:
    if label in results and not (full and results[label].get("checks_run") != "all"):
        continue
    targeted = bool(breaks) and not full
    extra = ["--checks", ",".join(breaks), "--skip-tests"] if targeted else []
    p = subprocess.run([os.path.join(V, "bin", "mutest"), patch, "--label", label] + extra, stdout=subprocess.PIPE, stderr=subprocess.STDOUT, text=True)
    try:
        r = json.loads(p.stdout.strip().splitlines()[-1])
    except Exception:
        r = {"error": p.stdout[-500:], "fired": {}, "tests": None}
    r["expected"], r["checks_run"], r["what"] = breaks, ("targeted" if targeted else "all"), what
    results[label] = r
    json.dump(results, open(RES, "w"), indent=1)
    fired = {k: v["kind"] for k, v in r["fired"].items()}
    target = [b for b in breaks if b in fired]
    status = "quiet-as-expected" if not breaks and not fired else ("FALSE-ALARM" if not breaks else ("caught" if target else ("caught-elsewhere" if fired else "MISSED")))
    print("%-28s %-18s tests=%s fired=%s" % (label, status, (r.get("tests") or {}).get("passed"), ",".join("%s%s" % (k, "" if v == "concrete" else "*") for k, v in sorted(fired.items()))), flush=True)
