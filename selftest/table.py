#!/usr/bin/env python3
"""prints the markdown table of selftest/results.json (for DESIGN.md)"""
import json, os
R = json.load(open(os.path.join(os.path.dirname(os.path.abspath(__file__)), "results.json")))
rows = []
stats = {"caught": 0, "elsewhere": 0, "missed": 0, "quiet": 0, "false": 0}
for label in sorted(R, key=lambda k: (0 if k.startswith("C") else 1 if k.startswith("own-") else 2, k)):
    r = R[label]
    fired = {k: v["kind"] for k, v in r["fired"].items()}
    exp = r.get("expected", [])
    conc = sorted(k for k, v in fired.items() if v == "concrete")
    nofi = sorted(k for k, v in fired.items() if v != "concrete")
    if not exp:
        st = "quiet (as required)" if not fired else "**FALSE ALARM**"
        exp_txt = ("none (behaviour changed where no property constrains it)" if label[4:7] in ("H16", "H17", "H18", "H19", "H20", "H21", "H22", "H23") else "none (independent refactoring)") if label.startswith("ref-") else "none (harmless rewrite)"
        stats["quiet" if not fired else "false"] += 1
    elif any(e in fired for e in exp):
        st = "caught"
        stats["caught"] += 1
    elif fired:
        st = "caught by other checks only"
        stats["elsewhere"] += 1
    else:
        st = "**MISSED**"
        stats["missed"] += 1
    t = r.get("tests") or {}
    tr = ",".join((r.get("translator") or {}).get("failed", [])) or "-"
    rows.append("| %s | %s | %s | %s | %s | %s | %s | %s |" % (label, ",".join(exp) or exp_txt, (r.get("what") or "").replace("|", "/")[:150], "%s/51" % t.get("passed"), st, " ".join(conc) or "-", " ".join(nofi) or "-", tr))
print("| change | breaks | what | repo tests | verdict | checks with a concrete failing input | checks reporting no-failing-input-found | source-tie theorems broken (translator) |")
print("|---|---|---|---|---|---|---|---|")
print("\n".join(rows))
print()
print("Totals: %d property-breaking changes caught by the check of a property they break, %d caught only by other checks, %d missed; %d behaviour-preserving rewrites quiet, %d false alarms." % (stats["caught"], stats["elsewhere"], stats["missed"], stats["quiet"], stats["false"]))
