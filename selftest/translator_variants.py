#!/usr/bin/env python3
"""selftest/translator_variants.py [name ...]: the translator channel (bin/extract + bin/rust2lean.py + the theorems of
Lemmas/SourceReassembly.lean, Lemmas/SourceProtocol.lean, Lemmas/SourceReceivers.lean, Lemmas/SourceDecoders.lean, Lemmas/SourceEncoders.lean and Lemmas/SourceFrame.lean) tried on scratch copies of /repo/src with small edits of the
translated functions: behaviour-preserving rewrites (R*: every theorem must still check, or the function must drop out of the
translatable subset) and property-breaking edits (B*: the theorem named must break, unless the function drops out).
Nothing is written to /repo or to the Lean project (bin/srccheck compiles into a private directory). Prints one line per
variant and a summary; exit 1 if a harmless variant breaks a theorem or a breaking one is translated and breaks none."""
import subprocess, json, sys, os, shutil

V = os.path.dirname(os.path.dirname(os.path.abspath(__file__)))
SCRATCH = "/tmp/translator_variants"
PK = open("/repo/src/packet.rs").read()
PR = open("/repo/src/protocol.rs").read()
US = open("/repo/src/interface/usart.rs").read()
CA = open("/repo/src/interface/can.rs").read()
SE = open("/repo/src/interface/serial.rs").read()
BU = open("/repo/src/event/button.rs").read()
BC = open("/repo/src/event/bcm.rs").read()
RL = open("/repo/src/event/relay.rs").read()
PG = open("/repo/src/event/programmer.rs").read()
GE = open("/repo/src/event/general.rs").read()
FR = open("/repo/src/frame.rs").read()
FSIZE = "if frame.len() < 5 || frame.len() != frame[4] as usize + 5 || frame[4] > 8 {"
EV_SIZE5 = """        if packet.data.len() != 5 {
            return Err(ConvertPacketError::WrongSize);
        }

"""
EV_ISERR = """        if packet.is_error {
            return Err(ConvertPacketError::WrongType);
        }

"""


def rep(s, a, b):
    assert a in s, a
    return s.replace(a, b, 1)


G_TYPE = """        if !frame.not_error_flag != self.is_error {
            return Err(PacketBuilderError::WrongFrameType);
        }

"""
G_ADDR = """        if frame.device_address != self.device_address {
            return Err(PacketBuilderError::DeviceAddressMismatch);
        }

"""
G_START = """        if frame.start_frame_flag {
            return Err(PacketBuilderError::OutOfOrder);
        }

"""
G_MULTI = """        if !frame.multi_frame_flag {
            return Err(PacketBuilderError::SingleFramePacket);
        }

"""
ORDER = """            if frame_id != self.frames.len() as u16 {
                return Err(PacketBuilderError::OutOfOrder);
            }

"""
COUNT = """            if frame_id >= self.expected_frame_count {
                return Err(PacketBuilderError::TooManyFrames);
            }"""
NEW_START = """        if !frame.start_frame_flag {
            return Err(PacketBuilderError::OutOfOrder);
        }

"""
NEW_LET = """        let expected_frame_count = if let FrameId::LastFrameId(last_frame_id) = frame.frame_id {
            last_frame_id + 1
        } else {
            return Err(PacketBuilderError::OutOfOrder);
        };
"""
TICK_COND = """                if packet.device_address == self.device_address
                    || packet.device_address == BROADCAST_ADDRESS
                {"""
SEND_HEAD = """        if packet.device_address == self.device_address {
            self.handle_packet(&packet, true);
"""
BCAST = """            if self.device_address != BROADCAST_ADDRESS {
                return Ok(());
            }"""
XFILTER = """                    if capture_all_addresses
                        || received_packet.device_address == self.device_address
                        || received_packet.device_address == BROADCAST_ADDRESS
                    {"""
XFILTER_ALL = XFILTER
ADD_IFLET = """if let Err(err) = packet_builder.add_frame(ross_frame) {
                                self.packet_builder = None;

                                return Err(InterfaceError::BuilderError(err));
                            }"""
ADD_MATCH = """match packet_builder.add_frame(ross_frame) {
                                Ok(_) => {}
                                Err(err) => {
                                    self.packet_builder = None;
                                    return Err(InterfaceError::BuilderError(err));
                                }
                            }"""
NEW_ASSIGN = """self.packet_builder = match PacketBuilder::new(ross_frame) {
                                Ok(builder) => Some(builder),
                                Err(err) => return Err(InterfaceError::BuilderError(err)),
                            };"""
NEW_STMT = """match PacketBuilder::new(ross_frame) {
                                Ok(builder) => {
                                    self.packet_builder = Some(builder);
                                }
                                Err(err) => return Err(InterfaceError::BuilderError(err)),
                            }"""
NEW_CLEAR = """self.packet_builder = match PacketBuilder::new(ross_frame) {
                                Ok(builder) => Some(builder),
                                Err(err) => {
                                    self.packet_builder = None;
                                    return Err(InterfaceError::BuilderError(err));
                                }
                            };"""
NEW_DROP = """self.packet_builder = match PacketBuilder::new(ross_frame) {
                                Ok(builder) => None,
                                Err(err) => return Err(InterfaceError::BuilderError(err)),
                            };"""
DELIVER = """                                self.packet_builder = None;

                                return Ok(packet);"""
US_FERR = "Err(err) => return Err(InterfaceError::FrameError(err)),"
CA_ADD_CLEAR = """                            self.packet_builder = None;

                            return Err(InterfaceError::BuilderError(err));"""

# name -> (file, text, expected broken theorem or None for harmless)
VARIANTS = {
    # ---- packet.rs, harmless
    "pk-R1-addr-first": ("packet.rs", rep(PK, G_TYPE + G_ADDR, G_ADDR + G_TYPE), None),
    "pk-R2-multi-before-start": ("packet.rs", rep(PK, G_START + G_MULTI, G_MULTI + G_START), None),
    "pk-R3-count-before-order": ("packet.rs", rep(PK, ORDER + COUNT, COUNT + "\n\n" + ORDER.rstrip("\n")), None),
    "pk-R4-redundant-or": ("packet.rs", rep(PK, "        if frame.start_frame_flag {\n            return Err(PacketBuilderError::OutOfOrder);", "        if frame.start_frame_flag || false {\n            return Err(PacketBuilderError::OutOfOrder);"), None),
    "pk-R5-eq-instead-of-ne": ("packet.rs", rep(PK, "if !frame.not_error_flag != self.is_error {", "if frame.not_error_flag == self.is_error {"), None),
    "pk-R6-new-iflet-first": ("packet.rs", rep(PK, NEW_START + NEW_LET, NEW_LET + "\n" + NEW_START.rstrip("\n") + "\n"), None),
    "pk-R7-le-flipped": ("packet.rs", rep(PK, "if frame_id >= self.expected_frame_count {", "if self.expected_frame_count <= frame_id {"), None),
    "pk-R8-build-guard-flipped": ("packet.rs", rep(PK, "if self.frames.len() != self.expected_frame_count as usize {", "if self.expected_frame_count as usize != self.frames.len() {"), None),
    # ---- packet.rs, breaking
    "pk-B9-build-start-index-swapped": ("packet.rs", rep(PK, "let start_index = if frame.multi_frame_flag { 1 } else { 0 };", "let start_index = if frame.multi_frame_flag { 0 } else { 1 };"), "src_build_eq"),
    "pk-B10-build-guard-less-than": ("packet.rs", rep(PK, "if self.frames.len() != self.expected_frame_count as usize {", "if self.frames.len() < self.expected_frame_count as usize {"), "src_build_eq"),
    "pk-B11-build-skips-two": ("packet.rs", rep(PK, "let start_index = if frame.multi_frame_flag { 1 } else { 0 };", "let start_index = if frame.multi_frame_flag { 2 } else { 0 };"), "src_build_eq"),
    "pk-B1-no-start-guard": ("packet.rs", rep(PK, G_START + G_MULTI, G_MULTI), "src_addFrame_ok_iff"),
    "pk-B2-off-by-one": ("packet.rs", rep(PK, "if frame_id >= self.expected_frame_count {", "if frame_id > self.expected_frame_count {"), "src_addFrame_ok_iff"),
    "pk-B3-wrong-reason": ("packet.rs", rep(PK, "            return Err(PacketBuilderError::WrongFrameType);", "            return Err(PacketBuilderError::DeviceAddressMismatch);"), "src_addFrame_err_applies"),
    "pk-B4-new-no-plus-one": ("packet.rs", rep(PK, "            last_frame_id + 1\n", "            last_frame_id + 0\n"), "src_new_spec"),
    "pk-B5-left-swapped": ("packet.rs", rep(PK, "self.expected_frame_count() - self.frame_count()", "self.frame_count() - self.expected_frame_count()"), "src_framesLeft_spec"),
    "pk-B6-addr-guard-weakened": ("packet.rs", rep(PK, "if frame.device_address != self.device_address {", "if frame.device_address > self.device_address {"), "src_addFrame_ok_iff"),
    "pk-B7-order-guard-dropped": ("packet.rs", rep(PK, ORDER, ""), "src_addFrame_ok_iff"),
    "pk-B8-new-ignores-start": ("packet.rs", rep(PK, NEW_START + "        let expected", "        let expected"), "src_new_spec"),
    # ---- protocol.rs, harmless
    "pr-R1-or-swapped": ("protocol.rs", rep(PR, TICK_COND, """                if packet.device_address == BROADCAST_ADDRESS
                    || packet.device_address == self.device_address
                {"""), None),
    "pr-R2-eq-flipped": ("protocol.rs", rep(PR, SEND_HEAD, "        if self.device_address == packet.device_address {\n            self.handle_packet(&packet, true);\n"), None),
    "pr-R3-bcast-inverted": ("protocol.rs", rep(PR, BCAST, """            if self.device_address == BROADCAST_ADDRESS {
            } else {
                return Ok(());
            }"""), None),
    "pr-R4-send-inverted": ("protocol.rs", rep(PR, SEND_HEAD, "        if packet.device_address != self.device_address {\n        } else {\n            self.handle_packet(&packet, true);\n"), None),
    "pr-R5-rm-arms-swapped": ("protocol.rs", rep(PR, "            None => Err(ProtocolError::NoSuchHandler),\n            Some(_) => Ok(()),", "            Some(_) => Ok(()),\n            None => Err(ProtocolError::NoSuchHandler),"), None),
    "pr-R6-tick-negated": ("protocol.rs", rep(PR, TICK_COND + """
                    self.handle_packet(&packet, true);
                } else {
                    self.handle_packet(&packet, false);
                }""", """                if packet.device_address != self.device_address
                    && packet.device_address != BROADCAST_ADDRESS
                {
                    self.handle_packet(&packet, false);
                } else {
                    self.handle_packet(&packet, true);
                }"""), None),
    "pr-R7-nextid-flipped": ("protocol.rs", rep(PR, "if first_available_id == *id {", "if *id == first_available_id {"), None),
    # ---- protocol.rs, breaking
    "pr-B1-tick-and": ("protocol.rs", rep(PR, "                    || packet.device_address == BROADCAST_ADDRESS\n                {", "                    && packet.device_address == BROADCAST_ADDRESS\n                {"), "src_tick_eq"),
    "pr-B2-send-return-inverted": ("protocol.rs", rep(PR, "            if self.device_address != BROADCAST_ADDRESS {\n                return Ok(());", "            if self.device_address == BROADCAST_ADDRESS {\n                return Ok(());"), "src_sendPacket_eq"),
    "pr-B3-send-error-swallowed": ("protocol.rs", rep(PR, "            Ok(_) => Ok(()),\n            Err(err) => Err(ProtocolError::InterfaceError(err)),\n        }\n    }\n\n    pub fn add_packet_handler", "            Ok(_) => Ok(()),\n            Err(err) => Ok(()),\n        }\n    }\n\n    pub fn add_packet_handler"), "src_sendPacket_eq"),
    "pr-B4-tick-error-swallowed": ("protocol.rs", rep(PR, "                InterfaceError::NoPacketReceived => Ok(()),\n                _ => Err(ProtocolError::InterfaceError(err)),\n            },\n        }\n    }\n\n    pub fn send_packet", "                InterfaceError::NoPacketReceived => Ok(()),\n                _ => Ok(()),\n            },\n        }\n    }\n\n    pub fn send_packet"), "src_tick_eq"),
    "pr-B5-rm-always-ok": ("protocol.rs", rep(PR, "            None => Err(ProtocolError::NoSuchHandler),", "            None => Ok(()),"), "src_removeHandler_eq"),
    "pr-B6-nextid-plus2": ("protocol.rs", rep(PR, "first_available_id += 1;", "first_available_id += 2;"), "src_nextHandlerId_eq"),
    "pr-B7-tick-owned-false": ("protocol.rs", rep(PR, "                    self.handle_packet(&packet, true);\n                } else {", "                    self.handle_packet(&packet, false);\n                } else {"), "src_tick_eq"),
    "pr-B8-send-dispatch-not-owned": ("protocol.rs", rep(PR, SEND_HEAD, "        if packet.device_address == self.device_address {\n            self.handle_packet(&packet, false);\n"), "src_sendPacket_eq"),
    # ---- protocol.rs: handle_packet, add_packet_handler, exchange functions; harmless
    "px-R1-handle-or-swapped": ("protocol.rs", rep(PR, "if owned_address || handler.1 {", "if handler.1 || owned_address {"), None),
    "px-R2-filter-reordered": ("protocol.rs", rep(PR, XFILTER, """                    if received_packet.device_address == self.device_address
                        || received_packet.device_address == BROADCAST_ADDRESS
                        || capture_all_addresses
                    {"""), None),
    "px-R3-filter-nested": ("protocol.rs", rep(PR, XFILTER + """
                        if let Ok(received_event) = R::try_from_packet(&received_packet) {
                            return Ok(received_event);
                        }
                    }""", """                    if capture_all_addresses {
                        if let Ok(received_event) = R::try_from_packet(&received_packet) {
                            return Ok(received_event);
                        }
                    } else if received_packet.device_address == self.device_address
                        || received_packet.device_address == BROADCAST_ADDRESS
                    {
                        if let Ok(received_event) = R::try_from_packet(&received_packet) {
                            return Ok(received_event);
                        }
                    }"""), None),
    "px-R4-timeout-return": ("protocol.rs", rep(PR, "        Err(ProtocolError::PacketTimeout)\n", "        return Err(ProtocolError::PacketTimeout);\n"), None),
    "px-R5-untranslatable-loop": ("protocol.rs", rep(PR, "        wait_closure();\n\n        loop {\n            match self.interface.try_get_packet() {\n                Ok(received_packet) => {\n                    if capture_all_addresses\n                        || received_packet.device_address == self.device_address\n                        || received_packet.device_address == BROADCAST_ADDRESS\n                    {\n                        if let Ok(received_event) = R::try_from_packet(&received_packet) {\n                            return Ok(", "        wait_closure();\n        let _unused = 0u8;\n\n        loop {\n            match self.interface.try_get_packet() {\n                Ok(received_packet) => {\n                    if capture_all_addresses\n                        || received_packet.device_address == self.device_address\n                        || received_packet.device_address == BROADCAST_ADDRESS\n                    {\n                        if let Ok(received_event) = R::try_from_packet(&received_packet) {\n                            return Ok("), None),
    # ---- protocol.rs: breaking
    "px-B1-handle-and": ("protocol.rs", rep(PR, "if owned_address || handler.1 {", "if owned_address && handler.1 {"), "src_handlePacket_eq"),
    "px-B2-handle-capture-only": ("protocol.rs", rep(PR, "if owned_address || handler.1 {", "if handler.1 {"), "src_handlePacket_eq"),
    "px-B3-filter-and": ("protocol.rs", rep(PR, XFILTER, """                    if capture_all_addresses
                        || received_packet.device_address == self.device_address
                        && received_packet.device_address == BROADCAST_ADDRESS
                    {"""), "src_exchangeLoop_eq"),
    "px-B4-error-swallowed": ("protocol.rs", rep(PR, "                    InterfaceError::NoPacketReceived => break,\n                    _ => return Err(ProtocolError::InterfaceError(err)),\n                },\n            }\n        }\n\n        Err(ProtocolError::PacketTimeout)", "                    InterfaceError::NoPacketReceived => break,\n                    _ => break,\n                },\n            }\n        }\n\n        Err(ProtocolError::PacketTimeout)"), "src_exchangeLoop_eq"),
    "px-B5-all-stops-at-first": ("protocol.rs", rep(PR, "                            events.push(received_event);\n", "                            events.push(received_event);\n                            break;\n"), "src_exchangeAllLoop_eq"),
    "px-B6-no-filter": ("protocol.rs", rep(PR, XFILTER_ALL, "                    if true\n                    {"), "src_exchangeLoop_eq"),
    "px-B7-wait-before-send": ("protocol.rs", rep(PR, "        self.send_packet(&packet)?;\n\n        wait_closure();\n\n        loop {\n            match self.interface.try_get_packet() {\n                Ok(received_packet) => {\n                    if capture_all_addresses\n                        || received_packet.device_address == self.device_address\n                        || received_packet.device_address == BROADCAST_ADDRESS\n                    {\n                        if let Ok(received_event) = R::try_from_packet(&received_packet) {\n                            return", "        wait_closure();\n\n        self.send_packet(&packet)?;\n\n        loop {\n            match self.interface.try_get_packet() {\n                Ok(received_packet) => {\n                    if capture_all_addresses\n                        || received_packet.device_address == self.device_address\n                        || received_packet.device_address == BROADCAST_ADDRESS\n                    {\n                        if let Ok(received_event) = R::try_from_packet(&received_packet) {\n                            return"), "src_exchange_eq"),
    "px-B8-add-wrong-id": ("protocol.rs", rep(PR, "        self.handlers.insert(id, (handler, capture_all_addresses));", "        self.handlers.insert(id + 1, (handler, capture_all_addresses));"), "src_addHandler_eq"),
    # ---- event decoders, harmless
    "ev-R1-error-flag-first": ("event/button.rs", rep(BU, EV_SIZE5 + EV_ISERR, EV_ISERR + EV_SIZE5), None),
    "ev-R2-size-flipped": ("event/button.rs", rep(BU, "if packet.data.len() != 5 {", "if 5 != packet.data.len() {"), None),
    "ev-R3-lets-reordered": ("event/button.rs", rep(BU, "        let button_address = u16::from_be_bytes(packet.data[2..=3].try_into().unwrap());\n        let index = packet.data[4];\n", "        let index = packet.data[4];\n        let button_address = u16::from_be_bytes(packet.data[2..=3].try_into().unwrap());\n"), None),
    "ev-R4-bcm-le": ("event/bcm.rs", rep(BC, "if packet.data.len() < 7 {", "if packet.data.len() <= 6 {"), None),
    "ev-R5-self-struct": ("event/button.rs", rep(BU, "        Ok(ButtonPressedEvent {", "        Ok(Self {"), None),
    # ---- event decoders, breaking
    "ev-B1-size-guard-dropped": ("event/button.rs", rep(BU, EV_SIZE5 + EV_ISERR, EV_ISERR), "src_decode_buttonPressed"),
    "ev-B2-size-guard-weakened": ("event/button.rs", rep(BU, "if packet.data.len() != 5 {", "if packet.data.len() < 5 {"), "src_decode_buttonPressed"),
    "ev-B3-error-flag-ignored": ("event/button.rs", rep(BU, EV_SIZE5 + EV_ISERR, EV_SIZE5), "src_decode_buttonPressed"),
    "ev-B4-wrong-offset": ("event/button.rs", rep(BU, "let button_address = u16::from_be_bytes(packet.data[2..=3].try_into().unwrap());", "let button_address = u16::from_be_bytes(packet.data[3..=4].try_into().unwrap());"), "src_decode_buttonPressed"),
    "ev-B5-wrong-code": ("event/button.rs", rep(BU, "!= BUTTON_PRESSED_EVENT_CODE {", "!= BUTTON_RELEASED_EVENT_CODE {"), "src_decode_buttonPressed"),
    "ev-B6-slice-too-wide": ("event/programmer.rs", rep(PG, "let firmware_size = u32::from_be_bytes(packet.data[4..=7].try_into().unwrap());", "let firmware_size = u32::from_be_bytes(packet.data[4..=8].try_into().unwrap());"), "src_decode_startFirmwareUpgrade"),
    "ev-B7-bcm-min-length": ("event/bcm.rs", rep(BC, "if packet.data.len() < 7 {", "if packet.data.len() < 5 {"), "src_decode_bcmChange"),
    "ev-B8-relay-value-offset": ("event/relay.rs", rep(RL, "RelayValue::deserialize(&packet.data[5..])?", "RelayValue::deserialize(&packet.data[4..])?"), "src_decode_relaySet"),
    "ev-B9-fields-swapped": ("event/programmer.rs", rep(PG, "let new_address = u16::from_be_bytes(packet.data[4..=5].try_into().unwrap());", "let new_address = u16::from_be_bytes(packet.data[2..=3].try_into().unwrap());"), "src_decode_setDeviceAddress"),
    "ev-R6-data-le-5": ("event/general.rs", rep(GE, "if packet.data.len() < 6 {", "if packet.data.len() <= 5 {"), None),
    "ev-B10-data-no-min-length": ("event/general.rs", rep(GE, "        if packet.data.len() < 6 {\n            return Err(ConvertPacketError::WrongSize);\n        }\n\n", ""), "src_decode_data"),   # the defect D3 of the pinned tree
    "ev-B11-data-length-unchecked": ("event/general.rs", rep(GE, "        if packet.data.len() != data_len as usize + 6 {\n            return Err(ConvertPacketError::WrongSize);\n        }\n\n", ""), "src_decode_data"),
    "ev-B12-data-copy-from-5": ("event/general.rs", rep(GE, "data[i] = packet.data[i + 6];", "data[i] = packet.data[i + 5];"), "src_decode_data"),
    # ---- frame.rs: from_usart_frame after the COBS decoding
    "fr-R1-size-test-reordered": ("frame.rs", rep(FR, FSIZE, "if frame.len() < 5 || frame[4] > 8 || frame.len() != frame[4] as usize + 5 {"), None),
    "fr-R2-mask-hex": ("frame.rs", rep(FR, "let start_frame_flag = ((frame[0] >> 6) & 0x01) != 0;", "let start_frame_flag = ((frame[0] >> 6) & 1) != 0;"), None),
    "fr-R3-data-len-first": ("frame.rs", rep(FR, "        let device_address = ((frame[2] as u16) << 8) | frame[3] as u16;\n        let data_len = frame[4];", "        let data_len = frame[4];\n        let device_address = ((frame[2] as u16) << 8) | frame[3] as u16;"), None),
    "fr-B1-length-above-8-accepted": ("frame.rs", rep(FR, FSIZE, "if frame.len() < 5 || frame.len() != frame[4] as usize + 5 {"), "src_fromUsartBody_agrees"),   # the defect D2 of the pinned tree
    "fr-B2-index-before-length-test": ("frame.rs", rep(FR, FSIZE, "if frame.len() != frame[4] as usize + 5 || frame.len() < 5 || frame[4] > 8 {"), "src_fromUsartBody_agrees"),
    "fr-B3-start-bit-5": ("frame.rs", rep(FR, "let start_frame_flag = ((frame[0] >> 6) & 0x01) != 0;", "let start_frame_flag = ((frame[0] >> 5) & 0x01) != 0;"), "src_fromUsartBody_agrees"),
    "fr-B4-id-kinds-swapped": ("frame.rs", rep(FR, "        let frame_id = if start_frame_flag {\n            FrameId::LastFrameId((((frame[0] & 0x0f) as u16) << 8) | frame[1] as u16)\n        } else {\n            FrameId::CurrentFrameId(", "        let frame_id = if !start_frame_flag {\n            FrameId::LastFrameId((((frame[0] & 0x0f) as u16) << 8) | frame[1] as u16)\n        } else {\n            FrameId::CurrentFrameId("), "src_fromUsartBody_agrees"),
    "fr-B5-address-shift-in-u8": ("frame.rs", rep(FR, "let device_address = ((frame[2] as u16) << 8) | frame[3] as u16;", "let device_address = ((frame[2] << 8) as u16) | frame[3] as u16;"), "src_fromUsartBody_agrees"),
    "fr-B6-data-from-4": ("frame.rs", rep(FR, "data[i] = frame[i + 5];", "data[i] = frame[i + 4];"), "src_fromUsartBody_agrees"),
    # ---- frame.rs: from_bxcan_frame
    "cn-R1-mask-1": ("frame.rs", rep(FR, "let not_error_flag = ((id >> 28) & 0x0001) != 0;", "let not_error_flag = ((id >> 28) & 1) != 0;"), None),
    "cn-R2-lets-reordered": ("frame.rs", rep(FR, "            let frame_id_nibble = ((id >> 16) & 0x000f) as u16;\n            let device_address = ((id >> 0) & 0xffff) as u16;", "            let device_address = ((id >> 0) & 0xffff) as u16;\n            let frame_id_nibble = ((id >> 16) & 0x000f) as u16;"), None),
    "cn-R3-address-without-shift": ("frame.rs", rep(FR, "let device_address = ((id >> 0) & 0xffff) as u16;", "let device_address = (id & 0xffff) as u16;"), None),
    "cn-B1-nibble-unmasked": ("frame.rs", rep(FR, "let frame_id_nibble = ((id >> 16) & 0x000f) as u16;", "let frame_id_nibble = ((id >> 16) & 0x00ff) as u16;"), "src_fromCan_agrees"),
    "cn-B2-zero-length-check-dropped": ("frame.rs", rep(FR, "                    if data_len == 0 {\n                        return Err(FrameError::FrameIdMissing);\n                    }\n\n", ""), "src_fromCan_agrees"),
    "cn-B3-single-keeps-start-flag": ("frame.rs", rep(FR, "                    let start_frame_flag = true;\n", ""), "src_fromCan_agrees"),
    "cn-B4-multi-bit-25": ("frame.rs", rep(FR, "let multi_frame_flag = ((id >> 26) & 0x0001) != 0;", "let multi_frame_flag = ((id >> 25) & 0x0001) != 0;"), "src_fromCan_agrees"),
    "cn-B5-id-from-second-byte": ("frame.rs", rep(FR, "FrameId::LastFrameId((frame_id_nibble << 8) | data[0] as u16)", "FrameId::LastFrameId((frame_id_nibble << 8) | data[1] as u16)"), "src_fromCan_agrees"),
    "cn-R4-remote-reported-as-standard": ("frame.rs", rep(FR, "                Err(FrameError::FrameIsRemote)", "                Err(FrameError::FrameIsStandard)"), None),   # another applicable-looking reason: acceptance unchanged
    "fr-R4-size-reported-as-cobs-error": ("frame.rs", rep(FR, FSIZE + "\n            return Err(FrameError::WrongSize);", FSIZE + "\n            return Err(FrameError::CobsError);"), None),
    # ---- frame.rs: to_bxcan_frame
    "ce-R1-address-unmasked-first": ("frame.rs", rep(FR, "        id |= (self.not_error_flag as u32) << 28;\n        id |= (self.start_frame_flag as u32) << 27;", "        id |= (self.start_frame_flag as u32) << 27;\n        id |= (self.not_error_flag as u32) << 28;"), None),
    "ce-B1-start-bit-26": ("frame.rs", rep(FR, "id |= (self.start_frame_flag as u32) << 27;", "id |= (self.start_frame_flag as u32) << 26;"), "src_toCan_eq"),
    "ce-B2-nibble-shift-12": ("frame.rs", rep(FR, "FrameId::CurrentFrameId(frame_id) => id |= ((frame_id & 0x0f00) as u32 >> 8) << 16,", "FrameId::CurrentFrameId(frame_id) => id |= ((frame_id & 0x0f00) as u32 >> 8) << 12,"), "src_toCan_eq"),
    "ce-B3-address-low-byte-only": ("frame.rs", rep(FR, "id |= (self.device_address & 0xffff) as u32;", "id |= (self.device_address & 0x00ff) as u32;"), "src_toCan_eq"),
    "ce-B4-flag-dropped": ("frame.rs", rep(FR, "        id |= (self.multi_frame_flag as u32) << 26;\n", ""), "src_toCan_eq"),
    # ---- frame.rs: to_usart_frame
    "ue-R1-flag-statements-swapped": ("frame.rs", rep(FR, "        frame[0] |= (self.not_error_flag as u8) << 7;\n        frame[0] |= (self.start_frame_flag as u8) << 6;", "        frame[0] |= (self.start_frame_flag as u8) << 6;\n        frame[0] |= (self.not_error_flag as u8) << 7;"), None),
    "ue-R2-address-bytes-swapped-order": ("frame.rs", rep(FR, "        frame[2] = ((self.device_address & 0xff00) >> 8) as u8;\n        frame[3] = (self.device_address & 0x00ff) as u8;", "        frame[3] = (self.device_address & 0x00ff) as u8;\n        frame[2] = ((self.device_address & 0xff00) >> 8) as u8;"), None),
    "ue-B1-multi-bit-4": ("frame.rs", rep(FR, "frame[0] |= (self.multi_frame_flag as u8) << 5;", "frame[0] |= (self.multi_frame_flag as u8) << 4;"), "src_toUsart_eq"),
    "ue-B2-address-bytes-exchanged": ("frame.rs", rep(FR, "        frame[2] = ((self.device_address & 0xff00) >> 8) as u8;\n        frame[3] = (self.device_address & 0x00ff) as u8;", "        frame[3] = ((self.device_address & 0xff00) >> 8) as u8;\n        frame[2] = (self.device_address & 0x00ff) as u8;"), "src_toUsart_eq"),
    "ue-B3-id-byte-assigned-over-flags": ("frame.rs", rep(FR, "FrameId::CurrentFrameId(frame_id) => frame[1] |= (frame_id & 0x00ff) as u8,", "FrameId::CurrentFrameId(frame_id) => frame[1] |= (frame_id & 0x007f) as u8,"), "src_toUsart_eq"),
    "ue-B4-length-byte-plus-one": ("frame.rs", rep(FR, "frame[4] = self.data_len;", "frame[4] = self.data_len | 0x10;"), "src_toUsart_eq"),
    # ---- event encoders
    "en-R1-vec-new": ("event/button.rs", rep(BU, "        let mut data = vec![];\n\n        for byte in u16::to_be_bytes(BUTTON_PRESSED_EVENT_CODE)", "        let mut data = Vec::new();\n\n        for byte in u16::to_be_bytes(BUTTON_PRESSED_EVENT_CODE)"), None),
    "en-B1-error-flag-set": ("event/button.rs", rep(BU, "            is_error: false,\n            device_address: self.receiver_address,", "            is_error: true,\n            device_address: self.receiver_address,"), "src_encode_buttonPressed"),
    "en-B2-address-from-other-field": ("event/button.rs", rep(BU, "            device_address: self.receiver_address,", "            device_address: self.button_address,"), "src_encode_buttonPressed"),
    "en-B3-index-before-address": ("event/button.rs", rep(BU, "        for byte in u16::to_be_bytes(self.button_address).iter() {\n            data.push(*byte);\n        }\n\n        data.push(self.index);", "        data.push(self.index);\n\n        for byte in u16::to_be_bytes(self.button_address).iter() {\n            data.push(*byte);\n        }"), "src_encode_buttonPressed"),
    "en-B4-wrong-code-written": ("event/button.rs", rep(BU, "u16::to_be_bytes(BUTTON_PRESSED_EVENT_CODE)", "u16::to_be_bytes(BUTTON_RELEASED_EVENT_CODE)"), "src_encode_buttonPressed"),
    # ---- interface/*.rs (frame-level tail of try_get_packet), harmless
    "rx-R1-add-as-match": ("interface/usart.rs", rep(US, ADD_IFLET, ADD_MATCH), None),
    "rx-R2-zero-flipped": ("interface/usart.rs", rep(US, "if packet_builder.frames_left() == 0 {", "if 0 == packet_builder.frames_left() {"), None),
    "rx-R3-less-than-one": ("interface/serial.rs", rep(SE, "if packet_builder.frames_left() == 0 {", "if packet_builder.frames_left() < 1 {"), None),
    "rx-R4-new-as-statement": ("interface/usart.rs", rep(US, NEW_ASSIGN, NEW_STMT), None),
    "rx-R5-new-failure-clears": ("interface/usart.rs", rep(US, NEW_ASSIGN, NEW_CLEAR), None),
    "rx-R6-frame-error-block": ("interface/usart.rs", rep(US, US_FERR, "Err(err) => {\n                                return Err(InterfaceError::FrameError(err));\n                            }"), None),
    # ---- interface/*.rs, breaking
    "rx-B1-stale-after-add-error": ("interface/usart.rs", rep(US, "                                self.packet_builder = None;\n\n                                return Err(InterfaceError::BuilderError(err));", "                                return Err(InterfaceError::BuilderError(err));"), "src_usartAccept_eq"),
    "rx-B2-stale-after-delivery": ("interface/usart.rs", rep(US, DELIVER, "                                return Ok(packet);"), "src_usartAccept_eq"),
    "rx-B3-frame-error-clears": ("interface/usart.rs", rep(US, US_FERR, "Err(err) => {\n                                self.packet_builder = None;\n                                return Err(InterfaceError::FrameError(err));\n                            }"), "src_usartAccept_eq"),
    "rx-B4-deliver-one-early": ("interface/serial.rs", rep(SE, "if packet_builder.frames_left() == 0 {", "if packet_builder.frames_left() == 1 {"), "src_serialAccept_eq"),
    "rx-B5-new-not-stored": ("interface/usart.rs", rep(US, NEW_ASSIGN, NEW_DROP), "src_usartAccept_eq"),
    "rx-B6-can-stale-after-add-error": ("interface/can.rs", rep(CA, CA_ADD_CLEAR, "                            return Err(InterfaceError::BuilderError(err));"), "src_canAccept_eq"),
    "rx-B7-deliver-le-one": ("interface/can.rs", rep(CA, "if packet_builder.frames_left() == 0 {", "if packet_builder.frames_left() <= 1 {"), "src_canAccept_eq"),
}


def one(item):
    name, (fname, text, expect) = item
    d = os.path.join(SCRATCH, name)
    os.makedirs(d)
    shutil.copytree("/repo/src", os.path.join(d, "src"))
    open(os.path.join(d, "src", fname), "w").write(text)
    r = subprocess.run([os.path.join(V, "bin", "srccheck"), "--repo", d, "--work", os.path.join(d, "work")], stdout=subprocess.PIPE, text=True).stdout
    shutil.rmtree(d, ignore_errors=True)
    try:
        return name, expect, json.loads(r), ""
    except Exception:
        return name, expect, None, r[-300:]


def main():
    from concurrent.futures import ThreadPoolExecutor
    args = [a for a in sys.argv[1:] if not a.startswith("-j")]
    jobs = 6
    for a in sys.argv[1:]:
        if a.startswith("-j"):
            jobs = int(a[2:] or 6)
    bad = 0
    shutil.rmtree(SCRATCH, ignore_errors=True)
    os.makedirs(SCRATCH)
    try:
        items = [(n, v) for n, v in VARIANTS.items() if not args or n in args]
        with ThreadPoolExecutor(max_workers=jobs) as ex:
            for name, expect, d, err in ex.map(one, items):
                if d is None:
                    print(name, "ERROR", err)
                    bad += 1
                    continue
                failed, untr = d["failed"], d["not_translated"]
                if expect is None:
                    verdict = "ok (still proves)" if not failed else "FALSE ALARM"
                elif expect in failed:
                    verdict = "ok (breaks %s)" % expect
                elif untr:
                    verdict = "not translated (left to the correspondence check)"
                else:
                    verdict = "MISSED"
                bad += verdict in ("FALSE ALARM", "MISSED")
                print("%-32s %-55s failed=%s not_translated=%s" % (name, verdict, failed, untr), flush=True)
    finally:
        shutil.rmtree(SCRATCH, ignore_errors=True)
    sys.exit(1 if bad else 0)


if __name__ == "__main__":
    main()
