#!/usr/bin/env python3
"""selftest/harvest_refactor.py H1 H2 …: collects the behaviour-preserving refactorings sub-agents left in
/tmp/wt/<H>/refactor_out/r*/ (checks that each applies to a clean checkout, builds with std and passes the 51 tests) into
selftest/refactor/<H>-r<k>.diff and selftest/refactor/index.json."""
import subprocess, os, sys, json, shutil, re
V = os.path.dirname(os.path.dirname(os.path.abspath(__file__)))
WT = "/tmp/wt_confirm"
OUT = os.path.join(V, "selftest", "refactor")
def sh(cmd, **kw):
    return subprocess.run(cmd, stdout=subprocess.PIPE, stderr=subprocess.STDOUT, text=True, errors="replace", env=dict(os.environ, CARGO_NET_OFFLINE="true"), **kw)
os.makedirs(OUT, exist_ok=True)
idx_path = os.path.join(OUT, "index.json")
idx = json.load(open(idx_path)) if os.path.exists(idx_path) else []
sh(["git", "-C", "/repo", "worktree", "remove", "--force", WT])
assert sh(["git", "-C", "/repo", "worktree", "add", "--detach", WT, "HEAD"]).returncode == 0
try:
    for h in sys.argv[1:]:
        base = "/tmp/wt/%s/refactor_out" % h
        for r in sorted(os.listdir(base)) if os.path.isdir(base) else []:
            d = os.path.join(base, r)
            try:
                meta = json.load(open(os.path.join(d, "meta.json")))
            except Exception as e:
                print(h, r, "no meta", e); continue
            sh(["git", "-C", WT, "checkout", "--", "."])
            if sh(["git", "-C", WT, "apply", os.path.join(d, "patch.diff")]).returncode != 0:
                print(h, r, "patch does not apply"); continue
            b = sh(["cargo", "build", "--offline", "--features", "std"], cwd=WT).returncode == 0
            t = sh(["cargo", "test", "--offline", "--lib"], cwd=WT)
            m = re.search(r"test result: ok\. 51 passed", t.stdout)
            print(h, r, "build std:", b, "tests:", bool(m), "|", meta.get("summary", "")[:100])
            if not (b and m):
                continue
            name = "%s-%s" % (h, r)
            shutil.copy(os.path.join(d, "patch.diff"), os.path.join(OUT, name + ".diff"))
            idx = [x for x in idx if x["name"] != name] + [{"name": name, "what": meta.get("summary", ""), "why": meta.get("why_behaviour_preserving", ""), "allowed_differences": meta.get("allowed_differences", ""), "files": meta.get("files", [])}]
finally:
    sh(["git", "-C", "/repo", "worktree", "remove", "--force", WT])
json.dump(idx, open(idx_path, "w"), indent=1)
print(len(idx), "refactorings in", OUT)
